"""Per-property wiring of ./check: which Lean modules hold the theorems, which generated-fact
expectations they depend on, which correspondence streams tie the model to the code."""
import glob, os

VERIF = os.path.dirname(os.path.abspath(__file__))

TRUSTED_BASE = [
    "Lean 4.33.0 kernel (thorough tier: leanchecker re-check of the compiled .olean files)",
    "axioms: at most propext, Classical.choice, Quot.sound (audited by #print axioms on every run); no sorry/admit/native_decide/bv_decide/own axioms",
    "tie A: /verif/extract (go/parser + go/types) prints the facts that are in the source; Expected/*.lean states the intended facts",
    "tie B: differential execution harness (in package main via go test -overlay) vs compiled model driver sipdrv; Lean code generator/runtime trusted for the driver only, never for a theorem",
    "GoStd/*.lean re-implements strings/strconv/net.JoinHostPort as used; validated by stream std, not verified",
]

STD = {"name": "std", "gen": "std"}

SIDE_NOTE = "stateful stream: each case starts with a reset op; non-trivial = the implementation produced a non-error result; distinct by op line within its case"

PIPE_RULE = "abstract cases (service configuration, Via/Route/Record-Route stacks, dialogs, TCP connections) rendered to bytes and pushed through the real pipeline inside the real loop goroutine; predictions derived from the abstract case are checked on the implementation; non-trivial = message decoded and processed; distinct by op line"

PROPS = {
    "C05": {"lean": ["C05"], "expected": ["K05", "Globals"], "also": ["C19"], "streams": [{"name": "rr", "gen": "rr"}, {"name": "res", "gen": "res"}],
            "rule": "exhaustive add/remove/dispatch sequences (canonical address order) plus seeded random histories on the real RoundRobinBackend; " + SIDE_NOTE},
    "C18": {"lean": ["C18"], "expected": ["Routes", "K18", "Globals"], "also": ["C03"], "streams": [{"name": "route", "gen": "route"}, {"name": "pipe", "gen": "pipe", "args": {"focus": "requests"}}],
            "rule": "exhaustive route tables over the pattern universe x all hosts, each lookup repeated 50 times, plus random larger tables; " + SIDE_NOTE},
    "C19": {"lean": ["C19"], "expected": ["K19", "Globals"], "streams": [{"name": "res", "gen": "res"}, {"name": "pipe", "gen": "pipe", "args": {"focus": "dialogs"}}],
            "rule": "exhaustive and random resolution-outcome histories fed to addressResolved with real UDP/TCP backends; " + SIDE_NOTE},
    "C15": {"lean": ["C15"], "expected": ["K15", "Globals"], "also": ["C04"], "streams": [{"name": "pins", "gen": "pins"}, {"name": "pipe", "gen": "pipe", "args": {"focus": "dialogs"}}, {"name": "wire", "gen": "wire", "args": {"focus": "c15"}}, {"name": "cfg", "gen": "cfg", "args": {"focus": "timeout"}}],
            "rule": "seeded pin/lookup/terminate/wait histories on the real DialogBasedBackend under a virtual clock; " + SIDE_NOTE},
    "C20": {"lean": ["C20"], "expected": ["K20", "Globals"], "streams": [{"name": "send", "gen": "send"}],
            "rule": "exhaustive fault patterns: cached connection script x reconnectable path x listener up/down per message, sequences of 1-3 messages, for TCPClientTransport, FailOverClientTransport and TCPBackend; " + SIDE_NOTE},
    "C01": {"lean": ["C01"], "expected": ["Tables", "Globals"], "also": ["C11", "C20"],
            "streams": [{"name": "pipe", "gen": "pipe"}, {"name": "frame", "gen": "frame", "args": {"focus": "frame"}}, {"name": "send", "gen": "send"}],
            "rule": PIPE_RULE},
    "C02": {"lean": ["C02"], "expected": ["Tables", "K02", "Globals"], "streams": [{"name": "pipe", "gen": "pipe", "args": {"focus": "responses"}}, {"name": "pipe2", "gen": "pipe", "args": {"focus": "dialogs"}}, {"name": "cfg", "gen": "cfg", "args": {"focus": "hosts"}}, {"name": "wire", "gen": "wire", "args": {"focus": "c07"}}],
            "also": ["C07"], "rule": PIPE_RULE},
    "C03": {"lean": ["C03"], "expected": ["Globals"], "streams": [{"name": "pipe", "gen": "pipe", "args": {"focus": "requests"}}],
            "rule": PIPE_RULE},
    "C04": {"lean": ["C04"], "expected": ["Globals"], "also": ["C15", "C07"],
            "streams": [{"name": "pipe", "gen": "pipe", "args": {"focus": "dialogs"}}, {"name": "pins", "gen": "pins"}, {"name": "udpwire", "gen": "frame", "args": {"focus": "udpwire"}}],
            "rule": PIPE_RULE},
    "C06": {"lean": ["C06"], "expected": ["K06", "Globals"], "streams": [{"name": "pipe", "gen": "pipe", "args": {"focus": "requests"}}, {"name": "pipe2", "gen": "pipe", "args": {"focus": "dialogs"}}],
            "rule": PIPE_RULE},
    "C07": {"lean": ["C07"], "expected": ["Wiring", "Ctors", "K07", "Globals"], "streams": [{"name": "pipe", "gen": "pipe", "args": {"focus": "requests"}}, {"name": "pipe2", "gen": "pipe", "args": {"focus": "responses"}}, {"name": "wire", "gen": "wire", "args": {"focus": "c07"}}, {"name": "udpwire", "gen": "frame", "args": {"focus": "udpwire"}}], "also": ["C12", "C02"],
            "rule": PIPE_RULE},
    "C12": {"lean": ["C12"], "expected": ["K12", "Globals"], "streams": [{"name": "pipe", "gen": "pipe", "args": {"focus": "tcp"}}, {"name": "wire", "gen": "wire", "args": {"focus": "c12"}}],
            "rule": PIPE_RULE},
    "C13": {"lean": ["C13"], "expected": ["Globals"], "streams": [{"name": "pipe", "gen": "pipe", "args": {"focus": "requests"}}, {"name": "cfg", "gen": "cfg", "args": {"focus": "keep"}}, {"name": "cfg2", "gen": "cfg", "args": {"focus": "hosts"}}],
            "rule": PIPE_RULE},
    "C17": {"lean": ["C17"], "expected": ["Tables", "Wiring", "Globals"], "streams": [{"name": "pipe", "gen": "pipe", "args": {"focus": "twins"}}],
            "rule": PIPE_RULE},
    "C16": {"lean": ["C16"], "expected": ["Tables", "K16", "Globals"], "streams": [{"name": "dialog", "gen": "dialog"}],
            "rule": "exhaustive assignments of Call-ID, tags and URIs from small alphabets x both orientations x request/response x decorations, plus random long identifiers; oracle: bijection between abstract dialog keys and implementation identifiers; non-trivial = identifier produced"},
    "C11": {"lean": ["C11"], "expected": ["Reader", "Globals"], "streams": [{"name": "frame", "gen": "frame", "args": {"focus": "frame"}}],
            "rule": "generated message sequences under scripted segmentations (exhaustive single/double cuts of short streams, random multi-cuts down to 1-byte segments) through ParseMessage on one bufio.Reader, plus readLine / ParseMessage on real bufio.Readers of capacity 16..4096 against the operational reader model; non-trivial = at least one message extracted; distinct by op line"},
    "C10": {"lean": ["C10"], "expected": ["Reader", "Globals"], "streams": [{"name": "udpbuf", "gen": "frame", "args": {"focus": "udpbuf"}}, {"name": "pool", "gen": "pool"}, {"name": "udpwire", "gen": "frame", "args": {"focus": "udpwire"}}, {"name": "pipe", "gen": "pipe", "args": {"focus": "responses"}}, {"name": "wire", "gen": "wire", "args": {"focus": "c10"}}],
            "also": ["C02"],
            "rule": "every datagram parsed through the real UDP parse loop in a clean and in a dirty 64 KiB buffer (cut / over- / under-declared datagrams), plus exhaustive and random Alloc/Free histories on the real pool; non-trivial = datagram accepted; distinct by op line"},
    "C08": {"lean": ["C08"], "expected": ["Inventory", "Reader", "Globals"], "also": ["C10"], "streams": [{"name": "hostile", "gen": "hostile"}, {"name": "udpwire", "gen": "frame", "args": {"focus": "udpwire"}}, {"name": "wire", "gen": "wire", "args": {"focus": "c08"}}],
            "rule": "mutations of valid requests/responses and hostile field values (absurd Content-Length, bracket-only hosts, thousands of headers/parameters, truncations, garbage): accept/reject compared with the model, robustness oracle (no panic, bounded allocation) on parse and on the whole pipeline, liveness probes after hostile input; non-trivial = input accepted by the parser; distinct by op line"},
    "C09": {"lean": ["C09"], "expected": ["Wiring", "Locks", "Globals"], "also": ["C10", "C11"], "streams": [{"name": "race", "gen": "race", "race": True, "timeout": 900}, {"name": "udpwire", "gen": "frame", "args": {"focus": "udpwire"}}, {"name": "frame", "gen": "frame", "args": {"focus": "frame"}}],
            "rule": "stress runs of several real Proxy loops of one service fed concurrently with membership changes, pool, transport table and resolver traffic under the Go race detector, GOMAXPROCS varied; every request must reach exactly one backend; non-trivial = run under load (>= 100 requests); distinct by (listeners, seed, GOMAXPROCS)"},
    "C14": {
        "lean": ["C14"], "expected": ["Tables", "Globals"],
        "streams": [STD, {"name": "codec", "gen": "codec"}],
        "rule": "values rendered from an abstract grammar of the RFC 3261 productions in use (plus IPv6 / ';?'-in-user classes and an out-of-grammar stream); non-trivial = decoded successfully; distinct by input text",
    },
}


# stages over real sockets and real time: an oracle failure is confirmed by a second run (see ./check)
REAL_SOCKET_STREAMS = ("wire", "udpwire")


def corpus_lines(stream, pid):
    """Minimised past failures and hand-written witnesses run first."""
    out = []
    for p in sorted(glob.glob(os.path.join(VERIF, "corpus", stream, "*.ops"))):
        for l in open(p):
            l = l.rstrip("\n")
            if l.strip() and not l.startswith("//"):
                out.append(l)
    return out


def diff_relevant(pid, op_line):
    """Every disagreement between model and implementation breaks the correspondence of the
    property whose check ran the stream."""
    return True


def replay_context(f, rundir):
    """ops needed to replay a failure: stateless streams need only the failing line; stateful
    streams need everything since the last reset op (cfg / new)."""
    stream = f["stream"]
    if f["op"].startswith("race "):
        return "// race detector report\n// " + f["impl"].replace("\n", "\n// ")
    ops = os.path.join(rundir, stream + ".ops")
    lines = open(ops).read().split("\n")
    i = f["line"] - 1
    first = lines[i].split()
    if first and first[0] in ("std", "codec", "msg", "frame"):
        return lines[i]
    if first and first[0] == "udpbuf":
        # clean/dirty pairs: the op with `sameas` needs its `remember` partner
        return "\n".join(lines[max(0, i - 1):i + 1]) if " sameas " in lines[i] else lines[i]
    j = i
    while j > 0 and not (len(lines[j].split()) > 1 and lines[j].split()[1] in ("cfg", "new", "start")):
        j -= 1
    return "\n".join(lines[j:i + 1])
