#!/bin/sh
# Build the framework from files on disk only (offline): extractor, Lean model + proofs + driver, harness.
set -e
cd "$(dirname "$0")"
V="$(pwd)"
R="${VERIF_REPO:-/repo}"
export GOFLAGS=-mod=mod GOPROXY=off GOSUMDB=off GOTOOLCHAIN=local
mkdir -p build out evidence
(cd extract && go build -o "$V/build/extract" .)
(cd "$R" && "$V/build/extract" "$R" "$V/lean/Generated")
(cd lean && lake build)
python3 - "$V" <<'PY'
import sys
sys.path.insert(0, sys.argv[1])
import vlib
exe, out = vlib.build_harness()
if exe is None:
    print(out)
    sys.exit(1)
PY
echo setup-ok
