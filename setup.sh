#!/bin/sh
# Build the framework from files on disk only (offline): extractor, Lean model + proofs + driver, harness.
set -e
cd "$(dirname "$0")"
export GOFLAGS=-mod=mod GOPROXY=off GOSUMDB=off GOTOOLCHAIN=local
mkdir -p build out evidence
(cd extract && go build -o ../build/extract .)
(cd /repo && /verif/build/extract /repo /verif/lean/Generated)
(cd lean && lake build)
python3 - <<'PY'
import sys
sys.path.insert(0, "/verif")
import vlib
exe, out = vlib.build_harness()
if exe is None:
    print(out)
    sys.exit(1)
PY
echo setup-ok
