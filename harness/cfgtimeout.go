//go:build verif

package main

import (
	"os"
	"strconv"
)

// in a file of its own: a tree that renames getDefaultDialogTimeout breaks only this op
func init() {
	// cfg deftimeout <configured> <env value | ~>: the dialog timeout of a service whose configuration says <configured>
	// (0 = not given) with DEFAULT_DIALOG_TIMEOUT set to <env value> (~ = not set). The configured value is applied the
	// way startProxy applies it (a regenerated obligation, Expected.K15, pins those two lines); the default is the REAL
	// getDefaultDialogTimeout.
	vReg("cfg deftimeout", func(a []string) string {
		old, had := os.LookupEnv("DEFAULT_DIALOG_TIMEOUT")
		defer func() {
			if had {
				os.Setenv("DEFAULT_DIALOG_TIMEOUT", old)
			} else {
				os.Unsetenv("DEFAULT_DIALOG_TIMEOUT")
			}
		}()
		if a[1] == "~" {
			os.Unsetenv("DEFAULT_DIALOG_TIMEOUT")
		} else {
			os.Setenv("DEFAULT_DIALOG_TIMEOUT", unhx(a[1]))
		}
		dialogTimeout, _ := strconv.Atoi(a[0])
		if dialogTimeout <= 0 {
			dialogTimeout = getDefaultDialogTimeout()
		}
		return strconv.Itoa(dialogTimeout)
	})
}
