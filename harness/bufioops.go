//go:build verif

package main

import (
	"bufio"
	"strconv"
	"strings"
)

// The operational reader model (Reader/Bufio.lean) against the real bufio.Reader and message.go's reading layer. In a
// file of its own: a tree that renames readLine / ParseMessage breaks only these ops, `frame run` goes on searching.
func init() {
	// frame blines <N> <hex stream> <cuts>: message.go's readLine, call after call until it fails, on a real
	// bufio.Reader of capacity N over the scripted segmentation (operational model: Reader/Bufio.lean).
	vReg("frame blines", func(a []string) string {
		n, _ := strconv.Atoi(a[0])
		r := bufio.NewReaderSize(&vChunkReader{data: []byte(unhx(a[1])), cuts: vCuts(a[2])}, n)
		var out []string
		for len(out) < 100000 {
			l, err := readLine(r)
			if err != nil {
				break
			}
			out = append(out, hxb(l))
		}
		return strings.TrimSpace("n=" + strconv.Itoa(len(out)) + " " + strings.Join(out, " "))
	})
	// frame bparse <N> <hex stream> <cuts>: ParseMessage after ParseMessage on ONE real bufio.Reader of capacity N
	// (skipWhiteSpace, readLine, io.CopyN on the same reader), until it fails or stops consuming.
	vReg("frame bparse", func(a []string) string {
		n, _ := strconv.Atoi(a[0])
		cr := &vChunkReader{data: []byte(unhx(a[1])), cuts: vCuts(a[2])}
		r := bufio.NewReaderSize(cr, n)
		var out []string
		for len(out) < 100000 {
			m, err := ParseMessage(r)
			if err != nil {
				break
			}
			b, _ := m.Bytes()
			out = append(out, hxb(b))
		}
		return strings.TrimSpace("n=" + strconv.Itoa(len(out)) + " " + strings.Join(out, " "))
	})
}
