//go:build verif

package main

import (
	"fmt"
	"math/rand"
	"net"
	"strconv"
	"sync"
	"sync/atomic"
	"time"
)

// thread-safe backend double for the stress stage
type vCountBackend struct {
	addr string
	n    int64
}

func (b *vCountBackend) Send(msg *Message) error {
	if _, err := msg.Bytes(); err != nil {
		return err
	}
	atomic.AddInt64(&b.n, 1)
	return nil
}
func (b *vCountBackend) GetAddress() string { return b.addr }
func (b *vCountBackend) Close()             {}

func stressRequest(i, k int, lst *vTrans) *RawMessage {
	m, _ := NewRequest("OPTIONS", "sip:svc.test", "SIP/2.0")
	m.AddHeader("Via", fmt.Sprintf("SIP/2.0/UDP 10.%d.%d.%d:5060;branch=z9hG4bKS%dx%d;rport", k, i%250, (i/250)%250, k, i))
	m.AddHeader("From", fmt.Sprintf("<sip:u%d@ua%d.test>;tag=f%d", i, k, i))
	m.AddHeader("To", "<sip:svc.test>")
	m.AddHeader("Call-ID", fmt.Sprintf("s%d-%d", k, i))
	m.AddHeader("CSeq", "1 OPTIONS")
	if i%5 == 0 {
		// a top Route naming this listener by host name, in a spelling not seen before: the loops of all
		// listeners consult the service's shared resolver for it
		name := []byte("localhost")
		for bit := 0; bit < len(name); bit++ {
			if (i/5+k*37)>>uint(bit)&1 == 1 {
				name[bit] -= 32
			}
		}
		m.AddHeader("Route", fmt.Sprintf("<sip:%s:%d;lr>", name, lst.port))
	}
	m.AddHeader("Content-Length", "0")
	return NewRawMessage(fmt.Sprintf("127.0.%d.%d", 10+k, 1+i%200), 5060+i%100, lst, true, m)
}

// net.Pipe connections have no TCP addresses; give them some
type vPipeConn struct{ net.Conn }

func (c *vPipeConn) LocalAddr() net.Addr { return &net.TCPAddr{IP: net.IPv4(127, 0, 0, 1), Port: 5061} }
func (c *vPipeConn) RemoteAddr() net.Addr {
	return &net.TCPAddr{IP: net.IPv4(127, 0, 0, 1), Port: 40001}
}

type vNullHandler struct{}

func (vNullHandler) HandleRawMessage(msg *RawMessage) {}
func (vNullHandler) HandleMessage(msg *Message)       {}

func init() {
	// race exitflag <rounds>: a server transport built around an established connection (as for backend and
	// next-hop connections) ends its receive goroutine when the peer closes, while the owner of the
	// ProxyItem prunes finished transports (IsExit) from another goroutine, as connectionEstablished does.
	vReg("race exitflag", func(a []string) string {
		rounds, _ := strconv.Atoi(a[0])
		for i := 0; i < rounds; i++ {
			c1, c2 := net.Pipe()
			item := &ProxyItem{transports: []ServerTransport{}, msgHandler: vNullHandler{}}
			item.connectionEstablished(&vPipeConn{Conn: c1}, true, NewSelfLearnRoute())
			done := make(chan bool)
			go func() {
				for k := 0; k < 200; k++ {
					item.Lock()
					item.removeExitServerTransports()
					item.Unlock()
				}
				done <- true
			}()
			c2.Close()
			<-done
			c1.Close()
		}
		// several backend connections of one listener die (in every position of the list) before the next one is
		// established: the prune that runs on every connect must cope with any number of dead entries
		for mask := 0; mask < 32; mask++ {
			item := &ProxyItem{transports: []ServerTransport{&vTrans{proto: "UDP", addr: "127.0.0.1", port: 5060}}, msgHandler: vNullHandler{}}
			var peers []net.Conn
			for k := 0; k < 5; k++ {
				c1, c2 := net.Pipe()
				item.connectionEstablished(&vPipeConn{Conn: c1}, true, NewSelfLearnRoute())
				peers = append(peers, c2)
			}
			dead := 0
			for k := 0; k < 5; k++ {
				if mask>>uint(k)&1 == 1 {
					peers[k].Close()
					dead++
				}
			}
			// wait until the receive goroutines of the closed connections have noticed
			deadline := time.Now().Add(2 * time.Second)
			for time.Now().Before(deadline) {
				n := 0
				item.Lock()
				for _, t := range item.transports {
					if t.IsExit() {
						n++
					}
				}
				item.Unlock()
				if n == dead {
					break
				}
				time.Sleep(200 * time.Microsecond)
			}
			c1, c2 := net.Pipe()
			item.connectionEstablished(&vPipeConn{Conn: c1}, true, NewSelfLearnRoute())
			item.Lock()
			left := len(item.transports)
			item.Unlock()
			if left != 1+5-dead+1 {
				return fmt.Sprintf("prune-wrong mask=%d transports=%d expected=%d", mask, left, 1+5-dead+1)
			}
			c2.Close()
			for _, pc := range peers {
				pc.Close()
			}
		}
		return "ok"
	})
	// race inproc <listeners> <millis> <seed>: several real Proxy loops of ONE service (shared self-learned
	// route table) fed concurrently, while backends are added/removed, the buffer pool, the transport table
	// and a resolver are used from other goroutines. Built with -race; the check parses the race log.
	vReg("race inproc", func(a []string) string {
		nl, _ := strconv.Atoi(a[0])
		ms, _ := strconv.Atoi(a[1])
		seed, _ := strconv.ParseInt(a[2], 10, 64)
		learn := NewSelfLearnRoute()
		route := NewPreConfigRoute()
		resolver := NewPreConfigHostResolver()
		resolver.AddHostIP("svc.test", "127.0.0.1")
		type pw struct {
			p    *Proxy
			rr   *RoundRobinBackend
			lst  *vTrans
			back []*vCountBackend
			sent int64
		}
		var ps []*pw
		for i := 0; i < nl; i++ {
			lst := &vTrans{proto: "UDP", addr: "127.0.0.1", port: 5060 + 2*i}
			p := NewProxy("svc.test", 1200, lst.addr, false, route, resolver, learn, true, i%2 == 0)
			rr := NewRoundRobinBackend()
			item := &ProxyItem{transports: []ServerTransport{lst}, backend: rr, msgHandler: p}
			p.AddItem(item)
			w := &pw{p: p, rr: rr, lst: lst}
			for j := 0; j < 3; j++ {
				b := &vCountBackend{addr: fmt.Sprintf("127.0.1.%d:%d", j+1, 5080+i)}
				w.back = append(w.back, b)
				rr.AddBackend(b)
			}
			ps = append(ps, w)
		}
		var stop int32
		var wg sync.WaitGroup
		for k, w := range ps {
			for s := 0; s < 2; s++ {
				wg.Add(1)
				go func(k, s int, w *pw) {
					defer wg.Done()
					i := 0
					for atomic.LoadInt32(&stop) == 0 {
						raw := stressRequest(i*2+s, k, w.lst)
						if i%7 == 0 {
							// a request that arrived over TCP: registers its connection in the transport table
							raw.TcpConn = &vInConn{id: i, sink: new([]string), remote: &net.TCPAddr{IP: net.IPv4(127, 0, 0, 1), Port: 40000 + i%1000}, local: &net.TCPAddr{IP: net.IPv4(127, 0, 0, 1), Port: 5061}}
						}
						// keep the backlog moderate: a full message channel behind a busy loop is not what is studied here
						for len(w.p.msgChannel) > 500 && atomic.LoadInt32(&stop) == 0 {
							time.Sleep(100 * time.Microsecond)
						}
						w.p.HandleRawMessage(raw)
						atomic.AddInt64(&w.sent, 1)
						i++
					}
				}(k, s, w)
			}
			// membership changes: a fourth backend comes and goes (three always stay, so nothing may be dropped)
			wg.Add(1)
			go func(k int, w *pw) {
				defer wg.Done()
				r := rand.New(rand.NewSource(seed + int64(k)))
				extra := &vCountBackend{addr: fmt.Sprintf("127.0.1.9:%d", 5080+k)}
				w.back = append(w.back, extra)
				for atomic.LoadInt32(&stop) == 0 {
					// (AddBackend/RemoveBackend send to the loop's event channel, capacity 1000, while holding the
					// rotation's lock; the rate here keeps that channel far from full -- see DESIGN, C09 assumptions)
					w.rr.AddBackend(extra)
					time.Sleep(time.Duration(1000+r.Intn(4000)) * time.Microsecond)
					w.rr.RemoveBackend(extra.addr)
					time.Sleep(time.Duration(1000+r.Intn(4000)) * time.Microsecond)
				}
			}(k, w)
		}
		// buffer pool shared by several goroutines
		pool := NewByteArrayPool(8, 1024)
		var poolBad int32
		for g := 0; g < 4; g++ {
			wg.Add(1)
			go func(g int) {
				defer wg.Done()
				for atomic.LoadInt32(&stop) == 0 {
					b := pool.Alloc()
					b[0] = byte(g)
					b[1023] = byte(g)
					time.Sleep(time.Microsecond)
					if b[0] != byte(g) || b[1023] != byte(g) {
						atomic.StoreInt32(&poolBad, 1)
					}
					pool.Free(b)
				}
			}(g)
		}
		// a resolver entry fed from two goroutines, notifying a rotation
		res := &DynamicHostResolver{interval: time.Hour, stop: 1, hostIPs: make(map[string]*AddressWithCallback)}
		rrx := NewRoundRobinBackend()
		res.ResolveHost("no-such-host.invalid", func(hostname string, newIPs []string, removedIPs []string) {
			rrx.hostIPChanged("tcp", "127.0.0.1:0", hostname, newIPs, removedIPs, "5090", func(conn net.Conn) {})
		})
		for g := 0; g < 2; g++ {
			wg.Add(1)
			go func(g int) {
				defer wg.Done()
				r := rand.New(rand.NewSource(seed + 100 + int64(g)))
				for atomic.LoadInt32(&stop) == 0 {
					var addrs []string
					for x := 1; x <= 3; x++ {
						if r.Intn(2) == 0 {
							addrs = append(addrs, fmt.Sprintf("127.0.5.%d", x))
						}
					}
					if r.Intn(4) == 0 {
						res.addressResolved("no-such-host.invalid", nil, fmt.Errorf("scripted"))
					} else {
						res.addressResolved("no-such-host.invalid", addrs, nil)
					}
					if r.Intn(3) == 0 {
						res.ResolveHost("no-such-host.invalid", func(hostname string, newIPs []string, removedIPs []string) {})
					}
					if g == 0 {
						// a rotation is dispatched from one goroutine only (its proxy's message loop)
						rrx.Send(stressRequest(g, 9, ps[0].lst).Message)
					}
					time.Sleep(100 * time.Microsecond)
				}
			}(g)
		}
		time.Sleep(time.Duration(ms) * time.Millisecond)
		atomic.StoreInt32(&stop, 1)
		wg.Wait()
		var sent, recv int64
		for _, w := range ps {
			deadline := time.Now().Add(10 * time.Second)
			for len(w.p.msgChannel) > 0 && time.Now().Before(deadline) {
				time.Sleep(time.Millisecond)
			}
			b := &vInConn{id: -1, remote: vBarrierAddr{}, local: vBarrierAddr{}, sink: new([]string)}
			w.p.ConnectionAccepted(b)
			w.p.ConnectionAccepted(b)
			sent += atomic.LoadInt64(&w.sent)
			for _, bk := range w.back {
				recv += atomic.LoadInt64(&bk.n)
			}
		}
		if sent < 100 {
			return fmt.Sprintf("too-little-load sent=%d", sent)
		}
		res2 := "delivered-all"
		if sent != recv {
			res2 = fmt.Sprintf("lost-or-duplicated sent=%d received=%d", sent, recv)
		}
		if poolBad != 0 {
			res2 += " pool-buffer-shared"
		}
		return res2
	})
}
