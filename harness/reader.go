//go:build verif

package main

import (
	"fmt"
	"io"
	"net"
	"strconv"
	"strings"
	"time"
)

// io.Reader double that returns exactly the scripted segment per Read call
type vChunkReader struct {
	data []byte
	cuts []int
	pos  int
	k    int
	left int // bytes of the current segment not yet delivered
}

func (r *vChunkReader) Read(p []byte) (int, error) {
	if r.pos >= len(r.data) {
		return 0, io.EOF
	}
	if r.left == 0 {
		if r.k < len(r.cuts) {
			r.left = r.cuts[r.k]
			r.k++
		} else {
			r.left = len(r.data) - r.pos
		}
	}
	n := r.left
	if n > len(r.data)-r.pos {
		n = len(r.data) - r.pos
	}
	if n > len(p) {
		n = len(p)
	}
	copy(p, r.data[r.pos:r.pos+n])
	r.pos += n
	r.left -= n
	return n, nil
}

// net.Conn double over a chunk reader
type vChunkConn struct {
	r      *vChunkReader
	closed bool
}

func (c *vChunkConn) Read(p []byte) (int, error) {
	if c.closed {
		return 0, io.ErrClosedPipe
	}
	return c.r.Read(p)
}
func (c *vChunkConn) Write(p []byte) (int, error) { return len(p), nil }
func (c *vChunkConn) Close() error                { c.closed = true; return nil }
func (c *vChunkConn) LocalAddr() net.Addr {
	return &net.TCPAddr{IP: net.IPv4(127, 0, 0, 1), Port: 5060}
}
func (c *vChunkConn) RemoteAddr() net.Addr {
	return &net.TCPAddr{IP: net.IPv4(127, 0, 0, 1), Port: 40001}
}
func (c *vChunkConn) SetDeadline(t time.Time) error      { return nil }
func (c *vChunkConn) SetReadDeadline(t time.Time) error  { return nil }
func (c *vChunkConn) SetWriteDeadline(t time.Time) error { return nil }

// like Proxy.HandleRawMessage this handler only QUEUES what it is given (the *RawMessage); the message is looked at
// later, when the receive loop has gone on reading
type vQueueHandler struct{ raws []*RawMessage }

func (h *vQueueHandler) HandleRawMessage(msg *RawMessage) { h.raws = append(h.raws, msg) }
func (h *vQueueHandler) HandleMessage(msg *Message)       {}

var vUDPTrans *UDPServerTransport

func vCuts(f string) []int {
	var cuts []int
	if f != "-" {
		for _, c := range strings.Split(f, ",") {
			k, _ := strconv.Atoi(c)
			if k > 0 {
				cuts = append(cuts, k)
			}
		}
	}
	return cuts
}

func init() {
	// frame run <hex stream> <cuts "a,b,c" or "-">: the per-connection loop of TCPServerTransport.receiveMessage
	// (ParseMessage after ParseMessage on ONE bufio.Reader) over a scripted segmentation.
	vReg("frame run", func(a []string) string {
		data := []byte(unhx(a[0]))
		var cuts []int
		if a[1] != "-" {
			for _, c := range strings.Split(a[1], ",") {
				k, _ := strconv.Atoi(c)
				if k > 0 {
					cuts = append(cuts, k)
				}
			}
		}
		// the REAL per-connection loop (TCPServerTransport.receiveMessage) over a connection double that delivers
		// exactly the scripted segments; as in the real transport the handler only QUEUES the decoded messages
		// while the loop keeps reading from the same connection; they are serialised later
		conn := &vChunkConn{r: &vChunkReader{data: data, cuts: cuts}}
		h := &vQueueHandler{}
		t := NewTCPServerTransportWithConn(conn, true, NewSelfLearnRoute())
		t.msgHandler = h
		fin := make(chan bool, 1)
		go func() {
			defer func() { recover(); fin <- true }()
			t.receiveMessage(conn)
		}()
		select {
		case <-fin:
		case <-time.After(10 * time.Second):
			return "stalled"
		}
		var queued []*Message
		for _, r := range h.raws {
			queued = append(queued, r.Message)
		}
		var out []string
		for _, m := range queued {
			b, _ := m.Bytes()
			out = append(out, hxb(b))
		}
		closed := "0"
		if conn.closed {
			closed = "1"
		}
		// the loop ends only when the stream stops decoding (or ends): the connection must have been closed
		return strings.TrimSpace("n="+strconv.Itoa(len(out))+" "+strings.Join(out, " ")) + " closed=" + closed
	})
	// udpbuf run <n> <hex buffer contents (datagram followed by whatever the buffer held before)>:
	// the REAL parse loop of UDPServerTransport (startParseMessage) is fed one (buffer, n) pair.
	vReg("udpbuf run", func(a []string) string {
		if vUDPTrans == nil {
			vUDPTrans = &UDPServerTransport{msgParseChannel: make(chan SizedByteArray, 16), msgBufPool: NewByteArrayPool(1<<20, 64*1024)}
			go vUDPTrans.startParseMessage()
		}
		n, _ := strconv.Atoi(a[0])
		content := []byte(unhx(a[1]))
		buf := make([]byte, 64*1024)
		copy(buf, content)
		pool0 := vUDPTrans.msgBufPool.Size()
		var queued *Message
		done := make(chan bool, 1)
		// as in the real transport the handler only queues the message; it is serialised after later
		// datagrams have been received and parsed
		vUDPTrans.msgParseChannel <- SizedByteArray{b: buf, n: n, msgHandler: func(m *Message) { queued = m }}
		// sentinel through the same FIFO: when its handler runs, the case before it is finished
		// (a long sentinel: whatever the next datagram is, it must not be able to reach into this one)
		sent := []byte("OPTIONS sip:s SIP/2.0\r\nContent-Length: 20000\r\n\r\n" + strings.Repeat("S", 20000))
		sb := make([]byte, 64*1024)
		copy(sb, sent)
		vUDPTrans.msgParseChannel <- SizedByteArray{b: sb, n: len(sent), msgHandler: func(m *Message) { done <- true }}
		select {
		case <-done:
		case <-time.After(5 * time.Second):
			return "stalled"
		}
		// the loop gives every buffer back exactly once: two datagrams were handled (case + sentinel)
		pool := fmt.Sprintf(" pool+%d", vUDPTrans.msgBufPool.Size()-pool0)
		// scribble over the buffer the datagram arrived in (it is back in the pool and will be reused)
		for i := range buf {
			buf[i] = 'Z'
		}
		if queued == nil {
			return "rejected" + pool
		}
		b, _ := queued.Bytes()
		return "ok " + hxb(b) + pool
	})
}
