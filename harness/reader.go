//go:build verif

package main

import (
	"bufio"
	"io"
	"strconv"
	"strings"
	"time"
)

// io.Reader double that returns exactly the scripted segment per Read call
type vChunkReader struct {
	data []byte
	cuts []int
	pos  int
	k    int
	left int // bytes of the current segment not yet delivered
}

func (r *vChunkReader) Read(p []byte) (int, error) {
	if r.pos >= len(r.data) {
		return 0, io.EOF
	}
	if r.left == 0 {
		if r.k < len(r.cuts) {
			r.left = r.cuts[r.k]
			r.k++
		} else {
			r.left = len(r.data) - r.pos
		}
	}
	n := r.left
	if n > len(r.data)-r.pos {
		n = len(r.data) - r.pos
	}
	if n > len(p) {
		n = len(p)
	}
	copy(p, r.data[r.pos:r.pos+n])
	r.pos += n
	r.left -= n
	return n, nil
}

var vUDPTrans *UDPServerTransport

func init() {
	// frame run <hex stream> <cuts "a,b,c" or "-">: the per-connection loop of TCPServerTransport.receiveMessage
	// (ParseMessage after ParseMessage on ONE bufio.Reader) over a scripted segmentation.
	vReg("frame run", func(a []string) string {
		data := []byte(unhx(a[0]))
		var cuts []int
		if a[1] != "-" {
			for _, c := range strings.Split(a[1], ",") {
				k, _ := strconv.Atoi(c)
				if k > 0 {
					cuts = append(cuts, k)
				}
			}
		}
		rd := bufio.NewReader(&vChunkReader{data: data, cuts: cuts})
		var out []string
		for {
			m, err := ParseMessage(rd)
			if err != nil {
				break
			}
			b, _ := m.Bytes()
			out = append(out, hxb(b))
		}
		return strings.TrimSpace("n=" + strconv.Itoa(len(out)) + " " + strings.Join(out, " "))
	})
	// udpbuf run <n> <hex buffer contents (datagram followed by whatever the buffer held before)>:
	// the REAL parse loop of UDPServerTransport (startParseMessage) is fed one (buffer, n) pair.
	vReg("udpbuf run", func(a []string) string {
		if vUDPTrans == nil {
			vUDPTrans = &UDPServerTransport{msgParseChannel: make(chan SizedByteArray, 16), msgBufPool: NewByteArrayPool(4, 64*1024)}
			go vUDPTrans.startParseMessage()
		}
		n, _ := strconv.Atoi(a[0])
		content := []byte(unhx(a[1]))
		buf := make([]byte, 64*1024)
		copy(buf, content)
		res := "rejected"
		done := make(chan bool, 1)
		vUDPTrans.msgParseChannel <- SizedByteArray{b: buf, n: n, msgHandler: func(m *Message) {
			b, _ := m.Bytes()
			res = "ok " + hxb(b)
		}}
		// sentinel through the same FIFO: when its handler runs, the case before it is finished
		sent := []byte("OPTIONS sip:s SIP/2.0\r\nContent-Length: 0\r\n\r\n")
		sb := make([]byte, 64*1024)
		copy(sb, sent)
		vUDPTrans.msgParseChannel <- SizedByteArray{b: sb, n: len(sent), msgHandler: func(m *Message) { done <- true }}
		select {
		case <-done:
		case <-time.After(5 * time.Second):
			return "stalled"
		}
		return res
	})
}
