//go:build verif

package main

import (
	"bytes"
	"fmt"
	"io"
	"net"
	"strconv"
	"strings"
	"sync"
	"syscall"
	"time"
)

// Wire stage: the real startProxy (YAML -> listeners, goroutines, sockets) on loopback ports chosen
// by the generator; UAs and backends are harness sockets. There is no model side for these ops
// (the driver prints "skip"); the oracles are evaluated on what arrives at the harness sockets.

var (
	vWireUDP = map[string]*net.UDPConn{}
	vWireTCP = map[int]net.Conn{}
	vWireLn  = map[string]*vObsTCP{}
)

func wireUDP(addr string) (*net.UDPConn, error) {
	if c, ok := vWireUDP[addr]; ok {
		return c, nil
	}
	ua, err := net.ResolveUDPAddr("udp", addr)
	if err != nil {
		return nil, err
	}
	c, err := net.ListenUDP("udp", ua)
	if err != nil {
		return nil, err
	}
	vWireUDP[addr] = c
	return c, nil
}

func init() {
	vReg("wire bind", func(a []string) string {
		if _, err := wireUDP(unhx(a[0])); err != nil {
			return "bind-error " + strings.ReplaceAll(err.Error(), " ", "_")
		}
		return "ok"
	})
	vReg("wire listen", func(a []string) string {
		addr := unhx(a[0])
		ln, err := net.Listen("tcp", addr)
		if err != nil {
			return "bind-error " + strings.ReplaceAll(err.Error(), " ", "_")
		}
		t := &vObsTCP{addr: addr, ln: ln}
		vWireLn[addr] = t
		go func() {
			for {
				c, err := ln.Accept()
				if err != nil {
					return
				}
				ac := &vAccepted{c: c}
				t.Lock()
				t.conns = append(t.conns, ac)
				t.Unlock()
				go func() {
					tmp := make([]byte, 65536)
					for {
						n, err := c.Read(tmp)
						if n > 0 {
							t.Lock()
							ac.buf.Write(tmp[:n])
							t.Unlock()
						}
						if err != nil {
							return
						}
					}
				}()
			}
		}()
		return "ok"
	})
	// wire udp <src> <dst> <hex>
	vReg("wire udp", func(a []string) string {
		c, err := wireUDP(unhx(a[0]))
		if err != nil {
			return "bind-error"
		}
		dst, _ := net.ResolveUDPAddr("udp", unhx(a[1]))
		if _, err := c.WriteToUDP([]byte(unhx(a[2])), dst); err != nil {
			return "send-error"
		}
		return "ok"
	})
	// wire flood <src> <dst1> <dst2> <count> <tag>: <count> small well-formed requests, alternately to two listeners, each
	// routed (Route header) to a host name nobody has seen before: <tag>-<i>.invalid
	vReg("wire flood", func(a []string) string {
		c, err := wireUDP(unhx(a[0]))
		if err != nil {
			return "bind-error"
		}
		d1, _ := net.ResolveUDPAddr("udp", unhx(a[1]))
		d2, _ := net.ResolveUDPAddr("udp", unhx(a[2]))
		n, _ := strconv.Atoi(a[3])
		src := unhx(a[0])
		for i := 0; i < n; i++ {
			m := fmt.Sprintf("MESSAGE sip:x@far.example.org SIP/2.0\r\nVia: SIP/2.0/UDP %s;branch=z9hG4bKfl%s%d\r\nRoute: <sip:%s-%d.invalid:5070;lr>\r\nFrom: <sip:p@ua.test>;tag=1\r\nTo: <sip:x@far.example.org>\r\nCall-ID: fl-%s-%d\r\nCSeq: 1 MESSAGE\r\nContent-Length: 0\r\n\r\n", src, a[4], i, a[4], i, a[4], i)
			d := d1
			if i%2 == 1 {
				d = d2
			}
			c.WriteToUDP([]byte(m), d)
			if i%64 == 63 {
				time.Sleep(300 * time.Microsecond)
			}
		}
		return "ok"
	})
	// wire pair <src1> <src2> <dst1> <dst2> <backend> <count> <tag>: two senders, each towards its own listener entry of the
	// service, at the same time; every request names its Call-ID again in every line of its body (bodies of very
	// different lengths). What the backend receives is checked datagram by datagram: the body (and Content-Length) of a
	// relayed request are those of the request with that Call-ID - never bytes of a request relayed by the other listener.
	vReg("wire pair", func(a []string) string {
		s1, e1 := wireUDP(unhx(a[0]))
		s2, e2 := wireUDP(unhx(a[1]))
		be, e3 := wireUDP(unhx(a[4]))
		if e1 != nil || e2 != nil || e3 != nil {
			return "bind-error"
		}
		d1, _ := net.ResolveUDPAddr("udp", unhx(a[2]))
		d2, _ := net.ResolveUDPAddr("udp", unhx(a[3]))
		n, _ := strconv.Atoi(a[5])
		tag := a[6]
		bodyOf := func(cid string, k int) string { return strings.Repeat(cid+"\r\n", 1+(k*7)%40) }
		var wg sync.WaitGroup
		send := func(c *net.UDPConn, d *net.UDPAddr, side int, src string) {
			defer wg.Done()
			for k := 0; k < n; k++ {
				cid := fmt.Sprintf("pair-%s-%d-%d", tag, side, k)
				body := bodyOf(cid, k+side*3)
				m := fmt.Sprintf("MESSAGE sip:svc.test SIP/2.0\r\nVia: SIP/2.0/UDP %s;branch=z9hG4bKp%s%d%d\r\nFrom: <sip:p%d@ua.test>;tag=1\r\nTo: <sip:svc.test>\r\nCall-ID: %s\r\nCSeq: 1 MESSAGE\r\nX-Side: %d\r\nContent-Length: %d\r\n\r\n%s", src, tag, side, k, side, cid, side, len(body), body)
				c.WriteToUDP([]byte(m), d)
				if k%16 == 15 {
					time.Sleep(200 * time.Microsecond)
				}
			}
		}
		wg.Add(2)
		go send(s1, d1, 1, unhx(a[0]))
		go send(s2, d2, 2, unhx(a[1]))
		received, corrupt := 0, 0
		example := ""
		buf := make([]byte, 70000)
		idle := 0
		for idle < 2 {
			be.SetReadDeadline(time.Now().Add(300 * time.Millisecond))
			k, _, err := be.ReadFromUDP(buf)
			if err != nil {
				idle++
				continue
			}
			idle = 0
			d := string(buf[:k])
			if !strings.Contains(d, "Call-ID: pair-"+tag+"-") {
				continue
			}
			received++
			h := strings.Index(d, "\r\n\r\n")
			cid := ""
			cl := -1
			if h >= 0 {
				for _, l := range strings.Split(d[:h], "\r\n") {
					if strings.HasPrefix(l, "Call-ID: ") {
						cid = l[9:]
					}
					if strings.HasPrefix(l, "Content-Length: ") {
						cl, _ = strconv.Atoi(l[16:])
					}
				}
			}
			okd := h >= 0 && cid != ""
			if okd {
				body := d[h+4:]
				okd = cl == len(body) && len(body)%(len(cid)+2) == 0 && body == strings.Repeat(cid+"\r\n", len(body)/(len(cid)+2))
			}
			if !okd {
				corrupt++
				if example == "" {
					example = cid
				}
			}
		}
		wg.Wait()
		if corrupt > 0 {
			return fmt.Sprintf("corrupt=%d-of-%d e.g.%s", corrupt, received, example)
		}
		if received < n/4 {
			return fmt.Sprintf("too-few-relayed-%d", received)
		}
		return "ok intact"
	})
	// wire recv <addr> <timeout ms> [msg=<hex reference>]  -> n=1 U <addr> <hex>   (same shape as pipe raw)
	vReg("wire recv", func(a []string) string {
		addr := unhx(a[0])
		c, err := wireUDP(addr)
		if err != nil {
			return "bind-error"
		}
		ms, _ := strconv.Atoi(a[1])
		buf := make([]byte, 70000)
		c.SetReadDeadline(time.Now().Add(time.Duration(ms) * time.Millisecond))
		n, from, err := c.ReadFromUDP(buf)
		if err != nil {
			return "n=0 keys+=[] keys-=[]"
		}
		return "n=1 U " + hx(addr) + " " + hxb(canonBranch(buf[:n])) + " keys+=[] keys-=[] from=" + hx(from.String())
	})
	// wire probe <src> <dst> <observer> <hex request> <attempts> <ms>: a liveness probe after a flood. The request is sent
	// and the observer socket is read for <ms>; if nothing came (the listener's socket buffer may still have been full
	// when the probe arrived: UDP), it is sent again, up to <attempts> times. Answer as for `wire recv`.
	vReg("wire probe", func(a []string) string {
		src, e1 := wireUDP(unhx(a[0]))
		obs, e2 := wireUDP(unhx(a[2]))
		if e1 != nil || e2 != nil {
			return "bind-error"
		}
		dst, _ := net.ResolveUDPAddr("udp", unhx(a[1]))
		attempts, _ := strconv.Atoi(a[4])
		ms, _ := strconv.Atoi(a[5])
		buf := make([]byte, 70000)
		for k := 0; k < attempts; k++ {
			if _, err := src.WriteToUDP([]byte(unhx(a[3])), dst); err != nil {
				return "send-error"
			}
			obs.SetReadDeadline(time.Now().Add(time.Duration(ms) * time.Millisecond))
			n, from, err := obs.ReadFromUDP(buf)
			if err == nil {
				// later copies of the probe (earlier attempts that were only slow) are not part of the answer
				time.Sleep(20 * time.Millisecond)
				for {
					obs.SetReadDeadline(time.Now().Add(2 * time.Millisecond))
					if _, _, e := obs.ReadFromUDP(make([]byte, 70000)); e != nil {
						break
					}
				}
				return "n=1 U " + hx(unhx(a[2])) + " " + hxb(canonBranch(buf[:n])) + " keys+=[] keys-=[] from=" + hx(from.String())
			}
		}
		return "n=0 keys+=[] keys-=[]"
	})
	// wire drain <addr> : discard everything pending
	vReg("wire drain", func(a []string) string {
		c, err := wireUDP(unhx(a[0]))
		if err != nil {
			return "bind-error"
		}
		buf := make([]byte, 70000)
		k := 0
		for {
			c.SetReadDeadline(time.Now().Add(2 * time.Millisecond))
			if _, _, err := c.ReadFromUDP(buf); err != nil {
				break
			}
			k++
		}
		return "ok"
	})
	vReg("wire tcpconnect", func(a []string) string {
		id, _ := strconv.Atoi(a[0])
		d := net.Dialer{Timeout: 2 * time.Second, Control: func(network, address string, c syscall.RawConn) error {
			var e error
			c.Control(func(fd uintptr) { e = syscall.SetsockoptInt(int(fd), syscall.SOL_SOCKET, syscall.SO_REUSEADDR, 1) })
			return e
		}}
		if len(a) > 2 && a[2] != "-" {
			la, _ := net.ResolveTCPAddr("tcp", unhx(a[2]))
			d.LocalAddr = la
		}
		c, err := d.Dial("tcp", unhx(a[1]))
		if err != nil {
			return "connect-error " + strings.ReplaceAll(err.Error(), " ", "_")
		}
		if tc, ok := c.(*net.TCPConn); ok {
			tc.SetNoDelay(true)
		}
		vWireTCP[id] = c
		return "ok " + hx(c.LocalAddr().String())
	})
	// wire tcpsend <id> <hex> [delay ms]
	vReg("wire tcpsend", func(a []string) string {
		id, _ := strconv.Atoi(a[0])
		c, ok := vWireTCP[id]
		if !ok {
			return "no-conn"
		}
		if _, err := c.Write([]byte(unhx(a[1]))); err != nil {
			return "send-error"
		}
		if len(a) > 2 {
			ms, _ := strconv.Atoi(a[2])
			time.Sleep(time.Duration(ms) * time.Millisecond)
		}
		return "ok"
	})
	// wire tcprecv <id> <timeout ms> : one complete SIP message (by Content-Length) read from the connection
	vReg("wire tcprecv", func(a []string) string {
		id, _ := strconv.Atoi(a[0])
		c, ok := vWireTCP[id]
		if !ok {
			return "no-conn"
		}
		ms, _ := strconv.Atoi(a[1])
		c.SetReadDeadline(time.Now().Add(time.Duration(ms) * time.Millisecond))
		var acc []byte
		tmp := make([]byte, 65536)
		for {
			if i := bytes.Index(acc, []byte("\r\n\r\n")); i >= 0 {
				cl := 0
				for _, l := range strings.Split(string(acc[:i]), "\r\n") {
					if strings.HasPrefix(strings.ToLower(l), "content-length:") {
						cl, _ = strconv.Atoi(strings.TrimSpace(l[15:]))
					}
				}
				if len(acc) >= i+4+cl {
					return "n=1 C " + strconv.Itoa(id) + " " + hxb(canonBranch(acc[:i+4+cl])) + " keys+=[] keys-=[]"
				}
			}
			n, err := c.Read(tmp)
			acc = append(acc, tmp[:n]...)
			if err != nil {
				if err == io.EOF && len(acc) == 0 {
					return "n=0 keys+=[] keys-=[] closed"
				}
				return "n=0 keys+=[] keys-=[]"
			}
		}
	})
	// wire tcpclose <id>: the harness client closes its connection (FIN)
	vReg("wire tcpclose", func(a []string) string {
		id, _ := strconv.Atoi(a[0])
		c, ok := vWireTCP[id]
		if !ok {
			return "no-conn"
		}
		c.Close()
		delete(vWireTCP, id)
		return "ok"
	})
	// wire tcpclosed <id> <timeout ms>: did the proxy close the connection?
	vReg("wire tcpclosed", func(a []string) string {
		id, _ := strconv.Atoi(a[0])
		c, ok := vWireTCP[id]
		if !ok {
			return "no-conn"
		}
		ms, _ := strconv.Atoi(a[1])
		c.SetReadDeadline(time.Now().Add(time.Duration(ms) * time.Millisecond))
		tmp := make([]byte, 4096)
		for {
			_, err := c.Read(tmp)
			if err == io.EOF {
				return "closed"
			}
			if err != nil {
				if ne, ok := err.(net.Error); ok && ne.Timeout() {
					return "open"
				}
				return "closed"
			}
		}
	})
	// wire accepted <addr> <timeout ms>: bytes received so far on connections accepted at a harness listener
	vReg("wire accepted", func(a []string) string {
		t, ok := vWireLn[unhx(a[0])]
		if !ok {
			return "no-listener"
		}
		ms, _ := strconv.Atoi(a[1])
		deadline := time.Now().Add(time.Duration(ms) * time.Millisecond)
		for {
			t.Lock()
			var out []string
			for _, ac := range t.conns {
				if ac.buf.Len() > ac.off {
					out = append(out, "T "+hx(t.addr)+" "+hxb(canonBranch(ac.buf.Bytes()[ac.off:])))
					ac.off = ac.buf.Len()
				}
			}
			t.Unlock()
			if len(out) > 0 || time.Now().After(deadline) {
				return fmt.Sprintf("n=%d %s keys+=[] keys-=[]", len(out), strings.Join(out, " "))
			}
			time.Sleep(time.Millisecond)
		}
	})
	// wire accwrite <addr> <hex>: write on the connection most recently accepted at a harness TCP listener
	// (the peer of a connection the proxy dialed talks back over it)
	vReg("wire accwrite", func(a []string) string {
		t, ok := vWireLn[unhx(a[0])]
		if !ok {
			return "no-listener"
		}
		t.Lock()
		defer t.Unlock()
		if len(t.conns) == 0 {
			return "no-conn"
		}
		if _, err := t.conns[len(t.conns)-1].c.Write([]byte(unhx(a[1]))); err != nil {
			return "send-error"
		}
		return "ok"
	})
	vReg("wire sleep", func(a []string) string {
		ms, _ := strconv.Atoi(a[0])
		time.Sleep(time.Duration(ms) * time.Millisecond)
		return "ok"
	})
	vReg("wire end", func(a []string) string {
		for k, t := range vWireLn {
			t.ln.Close()
			t.Lock()
			for _, ac := range t.conns {
				ac.c.Close()
			}
			t.Unlock()
			delete(vWireLn, k)
		}
		for k, c := range vWireUDP {
			c.Close()
			delete(vWireUDP, k)
		}
		for k, c := range vWireTCP {
			c.Close()
			delete(vWireTCP, k)
		}
		return "ok"
	})
}
