//go:build verif

package main

import (
	"bytes"
	"fmt"
	"net"
	"strconv"
	"strings"
	"sync"
	"sync/atomic"
	"time"
)

func init() {
	// race service <base port> <millis>: a REAL service with two listeners, started from a YAML configuration through
	// startProxy (the wiring of main.go), each listener with its own backend; the two backends answer INVITEs (200 with
	// both tags, from their configured addresses) at full speed, so that both listeners' loops do their dialog
	// bookkeeping at the same time. Built with -race.
	vReg("race service", func(a []string) string {
		base, _ := strconv.Atoi(a[0])
		ms, _ := strconv.Atoi(a[1])
		y := "proxies:\n- name: svc.test\n  listens:\n"
		for i := 0; i < 2; i++ {
			y += fmt.Sprintf("  - address: 127.0.0.1\n    udp-port: %d\n    backends:\n    - udp://127.0.1.%d:%d\n", base+i, i+1, base+10+i)
		}
		cfg, err := loadConfigFromReader(strings.NewReader(y))
		if err != nil {
			return "config-error"
		}
		for _, proxy := range cfg.Proxies {
			if err := startProxy(proxy, createPreConfigRoute(proxy), createPreConfigHostResolver(cfg.Hosts, proxy)); err != nil {
				return "not-run"
			}
		}
		time.Sleep(30 * time.Millisecond)
		var wg sync.WaitGroup
		var stop int32
		var sent int64
		for i := 0; i < 2; i++ {
			be, err := net.ListenUDP("udp", &net.UDPAddr{IP: net.IPv4(127, 0, 1, byte(i+1)), Port: base + 10 + i})
			if err != nil {
				return "not-run"
			}
			lst := &net.UDPAddr{IP: net.IPv4(127, 0, 0, 1), Port: base + i}
			wg.Add(1)
			go func(i int, be *net.UDPConn) {
				defer wg.Done()
				defer be.Close()
				for k := 0; atomic.LoadInt32(&stop) == 0; k++ {
					r := fmt.Sprintf("SIP/2.0 200 OK\r\nVia: SIP/2.0/UDP 127.0.0.1:%d;branch=z9hG4bKown%d\r\nVia: SIP/2.0/UDP 127.0.2.9:%d;branch=z9hG4bKua%d\r\nFrom: <sip:a%d@ua.test>;tag=f%d\r\nTo: <sip:svc.test>;tag=t%d\r\nCall-ID: rs-%d-%d\r\nCSeq: 1 INVITE\r\nContent-Length: 0\r\n\r\n",
						base+i, k, base+20, k, k, k, k, i, k)
					be.WriteToUDP([]byte(r), lst)
					atomic.AddInt64(&sent, 1)
					if k%64 == 63 {
						time.Sleep(200 * time.Microsecond)
					}
				}
			}(i, be)
		}
		time.Sleep(time.Duration(ms) * time.Millisecond)
		atomic.StoreInt32(&stop, 1)
		wg.Wait()
		time.Sleep(50 * time.Millisecond)
		if atomic.LoadInt64(&sent) < 100 {
			return "too-little-load"
		}
		return "ok"
	})
	// race tcpchurn <base port> <millis>: a REAL service whose only backend entry is a host name with TCP transport; the
	// name resolves to two loopback addresses, one of which keeps vanishing from and returning to the resolution while
	// requests flow (every return is a new TCPBackend that dials on its first dispatch; every removal closes it). During
	// the churn nothing is counted. Afterwards, with both addresses back, twenty probe requests must all reach a backend:
	// the listener's loop, the rotation and the resolver's notifications are all still alive.
	vReg("race tcpchurn", func(a []string) string {
		base, _ := strconv.Atoi(a[0])
		ms, _ := strconv.Atoi(a[1])
		host := fmt.Sprintf("churn%d.test", base)
		var got int64
		for i := 0; i < 2; i++ {
			ln, err := net.Listen("tcp", fmt.Sprintf("127.0.1.%d:%d", i+1, base+10))
			if err != nil {
				return "not-run"
			}
			go func(ln net.Listener) {
				for {
					c, err := ln.Accept()
					if err != nil {
						return
					}
					go func(c net.Conn) {
						defer c.Close()
						buf := make([]byte, 65536)
						var acc []byte
						for {
							n, err := c.Read(buf)
							acc = append(acc, buf[:n]...)
							for {
								k := bytes.Index(acc, []byte("\r\n\r\n"))
								if k < 0 {
									break
								}
								atomic.AddInt64(&got, 1)
								acc = acc[k+4:]
							}
							if err != nil {
								return
							}
						}
					}(c)
				}
			}(ln)
		}
		y := fmt.Sprintf("proxies:\n- name: svc.test\n  listens:\n  - address: 127.0.0.1\n    udp-port: %d\n    backends:\n    - tcp://%s:%d\n", base+30, host, base+10)
		cfg, err := loadConfigFromReader(strings.NewReader(y))
		if err != nil {
			return "config-error"
		}
		for _, proxy := range cfg.Proxies {
			if err := startProxy(proxy, createPreConfigRoute(proxy), createPreConfigHostResolver(cfg.Hosts, proxy)); err != nil {
				return "not-run"
			}
		}
		both := []string{"127.0.1.1", "127.0.1.2"}
		dynamicHostResolver.addressResolved(host, both, nil)
		time.Sleep(60 * time.Millisecond)
		ua, err := net.ListenUDP("udp", &net.UDPAddr{IP: net.IPv4(127, 0, 2, 1), Port: base + 31})
		if err != nil {
			return "not-run"
		}
		defer ua.Close()
		lst := &net.UDPAddr{IP: net.IPv4(127, 0, 0, 1), Port: base + 30}
		req := func(k int) []byte {
			return []byte(fmt.Sprintf("OPTIONS sip:svc.test SIP/2.0\r\nVia: SIP/2.0/UDP 127.0.2.1:%d;branch=z9hG4bKtc%d\r\nFrom: <sip:a@ua.test>;tag=f%d\r\nTo: <sip:svc.test>\r\nCall-ID: tc-%d-%d\r\nCSeq: 1 OPTIONS\r\nContent-Length: 0\r\n\r\n", base+31, k, k, base, k))
		}
		var stop int32
		var wg sync.WaitGroup
		wg.Add(2)
		go func() {
			defer wg.Done()
			for k := 0; atomic.LoadInt32(&stop) == 0; k++ {
				ua.WriteToUDP(req(k), lst)
				time.Sleep(150 * time.Microsecond)
			}
		}()
		go func() {
			defer wg.Done()
			for k := 0; atomic.LoadInt32(&stop) == 0; k++ {
				dynamicHostResolver.addressResolved(host, both[:1], nil)
				time.Sleep(time.Duration(300+(k*377)%1500) * time.Microsecond)
				dynamicHostResolver.addressResolved(host, both, nil)
				time.Sleep(time.Duration(200+(k*613)%1200) * time.Microsecond)
			}
		}()
		time.Sleep(time.Duration(ms) * time.Millisecond)
		atomic.StoreInt32(&stop, 1)
		wg.Wait()
		dynamicHostResolver.addressResolved(host, both, nil)
		time.Sleep(200 * time.Millisecond)
		before := atomic.LoadInt64(&got)
		for k := 0; k < 20; k++ {
			ua.WriteToUDP(req(1000000+k), lst)
			time.Sleep(2 * time.Millisecond)
		}
		deadline := time.Now().Add(4 * time.Second)
		for atomic.LoadInt64(&got) < before+20 && time.Now().Before(deadline) {
			time.Sleep(5 * time.Millisecond)
		}
		if d := atomic.LoadInt64(&got) - before; d < 20 {
			return fmt.Sprintf("probes-not-delivered-%d-of-20", d)
		}
		return "ok"
	})
}
