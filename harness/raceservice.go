//go:build verif

package main

import (
	"fmt"
	"net"
	"strconv"
	"strings"
	"sync"
	"sync/atomic"
	"time"
)

func init() {
	// race service <base port> <millis>: a REAL service with two listeners, started from a YAML configuration through
	// startProxy (the wiring of main.go), each listener with its own backend; the two backends answer INVITEs (200 with
	// both tags, from their configured addresses) at full speed, so that both listeners' loops do their dialog
	// bookkeeping at the same time. Built with -race.
	vReg("race service", func(a []string) string {
		base, _ := strconv.Atoi(a[0])
		ms, _ := strconv.Atoi(a[1])
		y := "proxies:\n- name: svc.test\n  listens:\n"
		for i := 0; i < 2; i++ {
			y += fmt.Sprintf("  - address: 127.0.0.1\n    udp-port: %d\n    backends:\n    - udp://127.0.1.%d:%d\n", base+i, i+1, base+10+i)
		}
		cfg, err := loadConfigFromReader(strings.NewReader(y))
		if err != nil {
			return "config-error"
		}
		for _, proxy := range cfg.Proxies {
			if err := startProxy(proxy, createPreConfigRoute(proxy), createPreConfigHostResolver(cfg.Hosts, proxy)); err != nil {
				return "not-run"
			}
		}
		time.Sleep(30 * time.Millisecond)
		var wg sync.WaitGroup
		var stop int32
		var sent int64
		for i := 0; i < 2; i++ {
			be, err := net.ListenUDP("udp", &net.UDPAddr{IP: net.IPv4(127, 0, 1, byte(i+1)), Port: base + 10 + i})
			if err != nil {
				return "not-run"
			}
			lst := &net.UDPAddr{IP: net.IPv4(127, 0, 0, 1), Port: base + i}
			wg.Add(1)
			go func(i int, be *net.UDPConn) {
				defer wg.Done()
				defer be.Close()
				for k := 0; atomic.LoadInt32(&stop) == 0; k++ {
					r := fmt.Sprintf("SIP/2.0 200 OK\r\nVia: SIP/2.0/UDP 127.0.0.1:%d;branch=z9hG4bKown%d\r\nVia: SIP/2.0/UDP 127.0.2.9:%d;branch=z9hG4bKua%d\r\nFrom: <sip:a%d@ua.test>;tag=f%d\r\nTo: <sip:svc.test>;tag=t%d\r\nCall-ID: rs-%d-%d\r\nCSeq: 1 INVITE\r\nContent-Length: 0\r\n\r\n",
						base+i, k, base+20, k, k, k, k, i, k)
					be.WriteToUDP([]byte(r), lst)
					atomic.AddInt64(&sent, 1)
					if k%64 == 63 {
						time.Sleep(200 * time.Microsecond)
					}
				}
			}(i, be)
		}
		time.Sleep(time.Duration(ms) * time.Millisecond)
		atomic.StoreInt32(&stop, 1)
		wg.Wait()
		time.Sleep(50 * time.Millisecond)
		if atomic.LoadInt64(&sent) < 100 {
			return "too-little-load"
		}
		return "ok"
	})
}
