//go:build verif

package main

import (
	"os"
	"path/filepath"
	"strconv"
	"time"

	"github.com/urfave/cli/v2"
)

var vStartAllSeq int

func init() {
	// wire setenv <hex name> <hex value | ->: the environment the program reads its defaults from
	vReg("wire setenv", func(a []string) string {
		if a[1] == "-" {
			os.Unsetenv(unhx(a[0]))
		} else {
			os.Setenv(unhx(a[0]), unhx(a[1]))
		}
		return "ok"
	})
	// wire startall <hex yaml>: the whole configuration is started the way main() does it: a cli application whose action
	// is startProxies (every service of the file, in order), with the configuration in a file. startProxies never returns.
	vReg("wire startall", func(a []string) string {
		vStartAllSeq++
		dir := os.TempDir()
		if d := os.Getenv("VERIF_OUT"); d != "" {
			dir = filepath.Dir(d)
		}
		path := filepath.Join(dir, "startall-"+strconv.Itoa(os.Getpid())+"-"+strconv.Itoa(vStartAllSeq)+".yaml")
		if err := os.WriteFile(path, []byte(unhx(a[0])), 0o644); err != nil {
			return "not-run"
		}
		app := &cli.App{
			Name: "sipproxy",
			Flags: []cli.Flag{
				&cli.StringFlag{Name: "config", Required: true},
				&cli.StringFlag{Name: "log-file"},
				&cli.StringFlag{Name: "log-level"},
				&cli.IntFlag{Name: "log-size", Value: 50},
				&cli.IntFlag{Name: "log-backups", Value: 10},
				&cli.StringFlag{Name: "log-format", Value: "text"},
				&cli.IntFlag{Name: "profiling-port", Value: 0},
			},
			Action: startProxies,
		}
		go app.Run([]string{"sipproxy", "--config", path, "--log-file", os.DevNull, "--log-level", "Error"})
		time.Sleep(150 * time.Millisecond)
		os.Remove(path)
		return "ok"
	})
}
