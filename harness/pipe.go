//go:build verif

package main

import (
	"bufio"
	"bytes"
	"fmt"
	"net"
	"regexp"
	"runtime"
	"sort"
	"strconv"
	"strings"
	"sync"
	"syscall"
	"time"
)

// ---------------------------------------------------------------- doubles

type vTrans struct {
	proto string
	addr  string
	port  int
}

func (t *vTrans) Start(msgHandler MessageHandler) error              { return nil }
func (t *vTrans) Send(host string, port int, message *Message) error { return nil }
func (t *vTrans) GetProtocol() string                                { return t.proto }
func (t *vTrans) GetAddress() string                                 { return t.addr }
func (t *vTrans) GetPort() int                                       { return t.port }
func (t *vTrans) IsExit() bool                                       { return false }

type vBarrierAddr struct{}

func (vBarrierAddr) Network() string { return "barrier" }
func (vBarrierAddr) String() string  { return "barrier" }

// inbound TCP connection double: records what the proxy writes on it
type vInConn struct {
	id     int
	remote net.Addr
	local  net.Addr
	sink   *[]string
	fail   bool
}

func (c *vInConn) Write(b []byte) (int, error) {
	if c.fail {
		return 0, fmt.Errorf("scripted write failure")
	}
	*c.sink = append(*c.sink, fmt.Sprintf("C %d %s", c.id, hxb(canonBranch(b))))
	return len(b), nil
}
func (c *vInConn) Read(b []byte) (int, error)         { return 0, fmt.Errorf("not readable") }
func (c *vInConn) Close() error                       { return nil }
func (c *vInConn) LocalAddr() net.Addr                { return c.local }
func (c *vInConn) RemoteAddr() net.Addr               { return c.remote }
func (c *vInConn) SetDeadline(t time.Time) error      { return nil }
func (c *vInConn) SetReadDeadline(t time.Time) error  { return nil }
func (c *vInConn) SetWriteDeadline(t time.Time) error { return nil }

var branchRe = regexp.MustCompile(`z9hG4bK[0-9a-f]{12}`)
var vBranchSeen = map[string]int{}
var vBranchCount int

// replace proxy-generated branches (z9hG4bK + 12 hex digits, the last UUID group) in the header
// section by a fixed token; generators never use that shape.
func canonBranch(b []byte) []byte {
	end := bytes.Index(b, []byte("\r\n\r\n"))
	if end < 0 {
		end = len(b)
	}
	head := branchRe.ReplaceAllFunc(b[:end], func(m []byte) []byte {
		vBranchSeen[string(m)]++
		vBranchCount++
		return []byte("z9hG4bK<BR>")
	})
	out := append([]byte(nil), head...)
	return append(out, b[end:]...)
}

func canonStr(s string) string { return string(branchRe.ReplaceAll([]byte(s), []byte("z9hG4bK<BR>"))) }

// ---------------------------------------------------------------- world

type vObsUDP struct {
	addr string
	conn *net.UDPConn
}

type vObsTCP struct {
	sync.Mutex
	addr  string
	ln    net.Listener
	conns []*vAccepted // wire stage (goroutine based)
	fds   []int        // pipe stage: accepted sockets, read synchronously
}

type vAccepted struct {
	c   net.Conn
	buf bytes.Buffer
	off int
}

type vWorld struct {
	name     string
	keep     bool
	timeout  int64
	route    *PreConfigRoute
	resolver *PreConfigHostResolver
	learn    *SelfLearnRoute
	proxies  []*Proxy
	rrs      []*RoundRobinBackend
	sink     []string
	udp      []*vObsUDP
	tcp      []*vObsTCP
	conns    map[int]*vInConn
	dials    int
	wedged   bool
}

var vW *vWorld

func (w *vWorld) close() {
	for _, u := range w.udp {
		u.conn.Close()
	}
	for _, t := range w.tcp {
		t.ln.Close()
		for _, fd := range t.fds {
			syscall.Close(fd)
		}
		t.Lock()
		for _, a := range t.conns {
			a.c.Close()
		}
		t.Unlock()
	}
	if w.wedged {
		// a wedged loop may hold the transport table's lock for ever
		return
	}
	// outbound connections dialed by the proxies' transports
	for _, p := range w.proxies {
		p.clientTransMgr.Lock()
		for _, t := range p.clientTransMgr.transports {
			if tc, ok := t.secondary.(*TCPClientTransport); ok && tc != nil && tc.conn != nil {
				tc.conn.Close()
			}
		}
		p.clientTransMgr.Unlock()
	}
}

func uniqSorted(l []string) []string {
	var out []string
	for i, s := range l {
		if i == 0 || s != l[i-1] {
			out = append(out, s)
		}
	}
	return out
}

func kv(args []string) map[string]string {
	m := map[string]string{}
	for _, a := range args {
		if i := strings.IndexByte(a, '='); i >= 0 {
			m[a[:i]] = a[i+1:]
		}
	}
	return m
}

// "a:b,c:d" of hex items -> [][]string
func items(s string) [][]string {
	var out [][]string
	if s == "" || s == "-" {
		return out
	}
	for _, it := range strings.Split(s, ",") {
		var f []string
		for _, x := range strings.Split(it, ":") {
			f = append(f, unhx(x))
		}
		out = append(out, f)
	}
	return out
}

// barrier: wait until the proxy's loop goroutine has finished everything queued so far. If the loop
// does not come back within a few seconds it is wedged (deadlock, endless loop): the world is
// marked as wedged and every later op of the case reports it at once.
func (w *vWorld) barrier(p *Proxy) bool {
	if w.wedged {
		return false
	}
	deadline := time.Now().Add(4 * time.Second)
	for (len(p.msgChannel) > 0 || len(p.backendChangeChannel) > 0) && time.Now().Before(deadline) {
		time.Sleep(5 * time.Microsecond)
	}
	b := &vInConn{id: -1, remote: vBarrierAddr{}, local: vBarrierAddr{}, sink: &w.sink}
	for i := 0; i < 2; i++ {
		select {
		case p.connAcceptedChannel <- b:
		case <-time.After(4 * time.Second):
			w.wedged = true
			return false
		}
	}
	return true
}

func (w *vWorld) transKeys(p *Proxy) map[string]string {
	out := map[string]string{}
	p.clientTransMgr.Lock()
	for k, t := range p.clientTransMgr.transports {
		kind := "-"
		if t.primary != nil {
			switch pr := t.primary.(type) {
			case *TCPClientTransport:
				if ic, ok := pr.conn.(*vInConn); ok {
					kind = "c" + strconv.Itoa(ic.id)
				} else {
					kind = "tcp"
				}
			case *UDPClientTransport:
				kind = "udp"
			default:
				kind = "?"
			}
		}
		out[canonStr(k)] = kind
	}
	p.clientTransMgr.Unlock()
	return out
}

// drain everything that arrived at the observation sockets
func (w *vWorld) collect() []string {
	var out []string
	buf := make([]byte, 70000)
	for _, u := range w.udp {
		rc, err := u.conn.SyscallConn()
		if err != nil {
			continue
		}
		for {
			n := -1
			rc.Read(func(fd uintptr) bool {
				k, _, e := syscall.Recvfrom(int(fd), buf, syscall.MSG_DONTWAIT)
				if e == nil {
					n = k
				}
				return true
			})
			if n < 0 {
				break
			}
			out = append(out, "U "+hx(u.addr)+" "+hxb(canonBranch(buf[:n])))
		}
	}
	// TCP: on loopback a connection is in the accept queue when connect() returns and the bytes are in
	// the receive queue when write() returns, so a non-blocking accept + read after the barrier sees
	// everything the event produced (no goroutines, no waiting).
	for _, t := range w.tcp {
		tl, ok := t.ln.(*net.TCPListener)
		if !ok {
			continue
		}
		rc, err := tl.SyscallConn()
		if err != nil {
			continue
		}
		for {
			nfd := -1
			rc.Control(func(fd uintptr) {
				k, _, e := syscall.Accept4(int(fd), syscall.SOCK_NONBLOCK|syscall.SOCK_CLOEXEC)
				if e == nil {
					nfd = k
				}
			})
			if nfd < 0 {
				break
			}
			t.fds = append(t.fds, nfd)
		}
		for _, fd := range t.fds {
			var acc []byte
			for {
				k, _, e := syscall.Recvfrom(fd, buf, syscall.MSG_DONTWAIT)
				if e != nil || k <= 0 {
					break
				}
				acc = append(acc, buf[:k]...)
			}
			if len(acc) > 0 {
				out = append(out, "T "+hx(t.addr)+" "+hxb(canonBranch(acc)))
			}
		}
	}
	return out
}

func parseListener(s string) (*vTrans, bool) {
	// proto:addr:port:rcvd  (hex items)
	f := items(s)[0]
	port, _ := strconv.Atoi(f[2])
	rcvd := len(f) > 3 && f[3] == "1"
	return &vTrans{proto: f[0], addr: f[1], port: port}, rcvd
}

// is the binding still honoured? (set by pinwait.go, which knows the fields of the table's entries)
var vPinAlive = func(e *ExpireBackend) bool { return true }

func init() {
	vReg("pipe cfg", func(a []string) string {
		if vW != nil {
			vW.close()
		}
		m := kv(a)
		w := &vWorld{name: unhx(m["name"]), keep: m["keep"] == "1", conns: map[int]*vInConn{}}
		w.timeout, _ = strconv.ParseInt(m["timeout"], 10, 64)
		w.route = NewPreConfigRoute()
		for _, r := range items(m["routes"]) {
			w.route.AddRouteItem(r[0], r[1], r[2])
		}
		w.resolver = NewPreConfigHostResolver()
		for _, h := range items(m["hosts"]) {
			w.resolver.AddHostIP(h[0], h[1])
		}
		w.learn = NewSelfLearnRoute()
		for _, o := range items(m["obsudp"]) {
			ua, err := net.ResolveUDPAddr("udp", o[0])
			if err != nil {
				return "bind-error " + err.Error()
			}
			c, err := net.ListenUDP("udp", ua)
			if err != nil {
				// the address is taken (another check process on this machine, most likely): this case cannot be
				// observed; it and everything up to the next cfg is reported as not run
				w.close()
				vW = nil
				return "not-run"
			}
			w.udp = append(w.udp, &vObsUDP{addr: o[0], conn: c})
		}
		for _, o := range items(m["obstcp"]) {
			ln, err := net.Listen("tcp", o[0])
			if err != nil {
				w.close()
				vW = nil
				return "not-run"
			}
			w.tcp = append(w.tcp, &vObsTCP{addr: o[0], ln: ln})
		}
		vW = w
		return "ok"
	})
	vReg("pipe proxy", func(a []string) string {
		w := vW
		if w == nil {
			return "not-run"
		}
		m := kv(a)
		lst, rcvd := parseListener(m["lst"])
		p := NewProxy(w.name, w.timeout, lst.addr, w.keep, w.route, w.resolver, w.learn, rcvd, m["mustrr"] == "1")
		orig := p.clientTransMgr.connectionEstablished
		p.clientTransMgr.connectionEstablished = func(c net.Conn) {
			w.dials++
			orig(c)
		}
		item := &ProxyItem{transports: []ServerTransport{lst}, backend: nil, msgHandler: p}
		var rr *RoundRobinBackend
		if m["backends"] != "none" {
			rr = NewRoundRobinBackend()
			item.backend = rr
		}
		p.AddItem(item)
		if rr != nil {
			for _, b := range items(m["backends"]) {
				rr.AddBackend(&vBackend{addr: b[0], sink: &w.sink})
			}
		}
		w.proxies = append(w.proxies, p)
		w.rrs = append(w.rrs, rr)
		w.barrier(p)
		return "ok"
	})
	// pipe tick p=<i> <seconds>: that much time passes for the periodic sweep of the transport table (its "last sweep"
	// instant is moved into the past). Entries live an hour, transactions seconds: within a case nothing may expire.
	vReg("pipe tick", func(a []string) string {
		if vW == nil {
			return "not-run"
		}
		m := kv(a)
		i, _ := strconv.Atoi(m["p"])
		secs, _ := strconv.ParseInt(a[len(a)-1], 10, 64)
		mgr := vW.proxies[i].clientTransMgr
		mgr.Lock()
		mgr.lastCleanTime -= secs
		mgr.Unlock()
		return "ok"
	})
	// pipe bfail p=<i> <0|1> <addr>: the backend double at <addr> starts / stops failing its sends (a TCP backend that is
	// down, a UDP backend whose socket was closed)
	vReg("pipe bfail", func(a []string) string {
		if vW == nil {
			return "not-run"
		}
		m := kv(a)
		i, _ := strconv.Atoi(m["p"])
		addr := unhx(a[len(a)-1])
		on := a[len(a)-2] == "1"
		for _, b := range vW.rrs[i].GetAllBackend() {
			if vb, ok := b.(*vBackend); ok && vb.addr == addr {
				vb.fail = on
			}
		}
		return "ok"
	})
	vReg("pipe badd", func(a []string) string {
		if vW == nil {
			return "not-run"
		}
		m := kv(a)
		i, _ := strconv.Atoi(m["p"])
		vW.rrs[i].AddBackend(&vBackend{addr: unhx(a[len(a)-1]), sink: &vW.sink})
		vW.barrier(vW.proxies[i])
		return "ok"
	})
	vReg("pipe brem", func(a []string) string {
		if vW == nil {
			return "not-run"
		}
		m := kv(a)
		i, _ := strconv.Atoi(m["p"])
		vW.rrs[i].RemoveBackend(unhx(a[len(a)-1]))
		vW.barrier(vW.proxies[i])
		return "ok"
	})
	vReg("pipe raw", func(a []string) string {
		w := vW
		if w == nil {
			return "not-run"
		}
		m := kv(a)
		i, _ := strconv.Atoi(m["p"])
		p := w.proxies[i]
		from, rcvd := parseListener(m["from"])
		data := []byte(unhx(m["msg"]))
		msg, err := ParseMessage(bufio.NewReaderSize(bytes.NewBuffer(data), len(data)))
		if err != nil {
			return "parse-error"
		}
		port, _ := strconv.Atoi(m["port"])
		raw := NewRawMessage(unhx(m["peer"]), port, from, rcvd, msg)
		if m["tcp"] != "-" {
			id, _ := strconv.Atoi(m["tcp"])
			c, ok := w.conns[id]
			if !ok {
				c = &vInConn{id: id, sink: &w.sink,
					remote: &net.TCPAddr{IP: net.ParseIP(unhx(m["peer"])), Port: port},
					local:  &net.TCPAddr{IP: net.ParseIP(from.addr), Port: from.port}}
				w.conns[id] = c
			}
			msg.ReceivedFrom = from
			raw.TcpConn = c
		}
		if w.wedged {
			return "stalled"
		}
		before := w.transKeys(p)
		w.sink = w.sink[:0]
		p.HandleRawMessage(raw)
		if !w.barrier(p) {
			return "stalled"
		}
		var out []string
		for _, s := range w.sink {
			if strings.HasPrefix(s, "C ") {
				out = append(out, s)
			} else {
				f := strings.Fields(s)
				out = append(out, "B "+f[0]+" "+hxb(canonBranch([]byte(unhx(f[1])))))
			}
		}
		out = append(out, w.collect()...)
		sort.Strings(out)
		after := w.transKeys(p)
		var added, removed []string
		for k, v := range after {
			if bv, ok := before[k]; !ok || bv != v {
				added = append(added, hx(k)+"/"+v)
			}
		}
		for k := range before {
			if _, ok := after[k]; !ok {
				removed = append(removed, hx(k))
			}
		}
		sort.Strings(added)
		sort.Strings(removed)
		res := "n=" + strconv.Itoa(len(out))
		if len(out) > 0 {
			res += " " + strings.Join(out, " ")
		}
		return res + " keys+=[" + strings.Join(added, ",") + "] keys-=[" + strings.Join(removed, ",") + "]"
	})
	// pipe rawd: the same three calls the loop makes, made directly from the harness goroutine so that a
	// panic anywhere in the pipeline is caught and attributed to this input (hostile-input stream, C08).
	vReg("pipe rawd", func(a []string) string {
		w := vW
		if w == nil {
			return "not-run"
		}
		m := kv(a)
		i, _ := strconv.Atoi(m["p"])
		p := w.proxies[i]
		if !w.barrier(p) {
			return "stalled"
		}
		from, rcvd := parseListener(m["from"])
		data := []byte(unhx(m["msg"]))
		done := make(chan string, 1)
		// the pipeline runs on its own goroutine so that a deadlock or an endless loop in it is
		// observed as "stalled" instead of hanging the whole harness
		go func() {
			res := ""
			var ms0, ms1 runtime.MemStats
			runtime.ReadMemStats(&ms0)
			defer func() {
				if r := recover(); r != nil {
					res = "panic " + strings.ReplaceAll(strings.ReplaceAll(fmt.Sprintf("%v", r), " ", "_"), "\n", "_")
				}
				done <- res
			}()
			msg, err := ParseMessage(bufio.NewReaderSize(bytes.NewBuffer(data), len(data)))
			outcome := "parse-error"
			if err == nil {
				port, _ := strconv.Atoi(m["port"])
				raw := NewRawMessage(unhx(m["peer"]), port, from, rcvd, msg)
				if m["tcp"] != "-" {
					id, _ := strconv.Atoi(m["tcp"])
					c, ok := w.conns[id]
					if !ok {
						c = &vInConn{id: id, sink: &w.sink, remote: &net.TCPAddr{IP: net.ParseIP(unhx(m["peer"])), Port: port}, local: &net.TCPAddr{IP: net.ParseIP(from.addr), Port: from.port}}
						w.conns[id] = c
					}
					msg.ReceivedFrom = from
					raw.TcpConn = c
				}
				w.sink = w.sink[:0]
				m2, err := p.handleRawMessage(raw)
				if err == nil {
					p.handleDialog(raw.PeerAddr, raw.PeerPort, m2)
					p.HandleMessage(m2)
				}
				outcome = "processed sends=" + strconv.Itoa(len(w.sink)+len(w.collect()))
			}
			runtime.ReadMemStats(&ms1)
			alloc := ms1.TotalAlloc - ms0.TotalAlloc
			bound := uint64(256*len(data) + 4*1024*1024)
			if alloc > bound {
				res = outcome + " alloc=big:" + strconv.FormatUint(alloc, 10)
			} else {
				res = outcome + " alloc=ok"
			}
		}()
		select {
		case r := <-done:
			return r
		case <-time.After(8 * time.Second):
			w.wedged = true
			return "stalled"
		}
	})
	vReg("pipe state", func(a []string) string {
		w := vW
		if w == nil {
			return "not-run"
		}
		m := kv(a)
		i, _ := strconv.Atoi(m["p"])
		p := w.proxies[i]
		if !w.barrier(p) {
			return "stalled"
		}
		var learned []string
		for h, t := range w.learn.route {
			learned = append(learned, hx(h)+"="+hx(fmt.Sprintf("%s:%s:%d", t.GetProtocol(), t.GetAddress(), t.GetPort())))
		}
		sort.Strings(learned)
		bk := map[string]bool{}
		for k := range p.backends {
			bk[k] = true
		}
		var pins []string
		for k, e := range p.dialogBasedBackends.backends {
			if !vPinAlive(e) {
				continue // not honoured any more (deleted lazily)
			}
			ref := "RR"
			if _, ok := e.backend.(*RoundRobinBackend); !ok {
				ref = hx(e.backend.GetAddress())
			}
			ck := canonStr(k)
			if strings.Contains(ck, "z9hG4bK<BR>") {
				// transaction keys of proxy-generated branches collapse after canonicalisation
				ref = "*"
			}
			pins = append(pins, hx(ck)+"="+ref)
		}
		sort.Strings(pins)
		pins = uniqSorted(pins)
		rrs := "none"
		if rr := w.rrs[i]; rr != nil {
			rr.Lock()
			var l []string
			for _, b := range rr.backends {
				l = append(l, b.GetAddress())
			}
			rrs = fmt.Sprintf("%d/%s", rr.index, hxJoin(l))
			rr.Unlock()
		}
		tk := w.transKeys(p)
		var tl []string
		for k, v := range tk {
			tl = append(tl, hx(k)+"/"+v)
		}
		sort.Strings(tl)
		return "learned=[" + strings.Join(learned, ",") + "] backends=" + hxJoin(sortedKeys(bk)) + " pins=[" + strings.Join(pins, ",") + "] rr=" + rrs + " trans=[" + strings.Join(tl, ",") + "]"
	})
	vReg("pipe end", func(a []string) string {
		if vW != nil {
			vW.close()
			vW = nil
		}
		return "ok"
	})
	vReg("pipe branches", func(a []string) string {
		return fmt.Sprintf("generated=%d distinct=%d", vBranchCount, len(vBranchSeen))
	})
}
