//go:build verif

// Harness executor, compiled INTO package main of /repo through `go test -c -overlay`
// (nothing is written to /repo). It reads one operation per line from $VERIF_OPS, runs the
// real code, and writes one canonical result line per operation to $VERIF_OUT.
// Byte-string fields are hex ("-" = empty, "~" = absent). Everything after a "#" token on an
// op line is an expectation for the Lean-side oracle and is ignored here.
package main

import (
	"bufio"
	"encoding/hex"
	"fmt"
	"net"
	"os"
	"strings"
	"testing"
	"time"
)

type opFunc func(args []string) string

var vOps = map[string]opFunc{}

func vReg(name string, f opFunc) { vOps[name] = f }

var vWireDead bool

// vPortsFree: can every (address, udp-port / tcp-port) of this YAML configuration text be bound right now?
func vPortsFree(yaml string) bool {
	addr := ""
	for _, ln := range strings.Split(yaml, "\n") {
		t := strings.TrimSpace(strings.TrimPrefix(strings.TrimSpace(ln), "- "))
		if strings.HasPrefix(t, "address:") {
			addr = strings.TrimSpace(strings.TrimPrefix(t, "address:"))
		}
		for _, k := range []string{"udp-port:", "tcp-port:"} {
			if !strings.HasPrefix(t, k) || addr == "" {
				continue
			}
			port := strings.TrimSpace(strings.TrimPrefix(t, k))
			if port == "0" || port == "" {
				continue
			}
			if k == "udp-port:" {
				c, err := net.ListenPacket("udp", addr+":"+port)
				if err != nil {
					return false
				}
				c.Close()
			} else {
				c, err := net.Listen("tcp", addr+":"+port)
				if err != nil {
					return false
				}
				c.Close()
			}
		}
	}
	return true
}

func hx(s string) string {
	if len(s) == 0 {
		return "-"
	}
	return hex.EncodeToString([]byte(s))
}

func hxb(b []byte) string { return hx(string(b)) }

func unhx(s string) string {
	if s == "-" || s == "~" {
		return ""
	}
	b, err := hex.DecodeString(s)
	if err != nil {
		panic("bad hex field " + s)
	}
	return string(b)
}

func vExec(line string) (res string) {
	defer func() {
		if r := recover(); r != nil {
			msg := fmt.Sprintf("%v", r)
			msg = strings.ReplaceAll(msg, " ", "_")
			msg = strings.ReplaceAll(msg, "\n", "_")
			res = "panic " + msg
		}
	}()
	if i := strings.Index(line, " #"); i >= 0 {
		line = line[:i]
	}
	f := strings.Fields(line)
	if len(f) < 2 {
		return "bad-op"
	}
	fn, ok := vOps[f[0]+" "+f[1]]
	if !ok {
		return "bad-op"
	}
	if f[0] == "wire" {
		// a real-socket scenario whose service ports were already taken (a concurrent check, an earlier scenario's
		// service) cannot be run: every op up to its `wire end` answers not-run
		if f[1] == "end" {
			defer func() { vWireDead = false }()
		} else if vWireDead {
			return "not-run"
		} else if (f[1] == "start" || f[1] == "startall") && len(f) > 2 && !vPortsFree(unhx(f[2])) {
			vWireDead = true
			return "not-run"
		}
	}
	return fn(f[2:])
}

func TestVerifHarness(t *testing.T) {
	opsPath := os.Getenv("VERIF_OPS")
	outPath := os.Getenv("VERIF_OUT")
	if opsPath == "" || outPath == "" {
		t.Skip("VERIF_OPS / VERIF_OUT not set")
	}
	in, err := os.Open(opsPath)
	if err != nil {
		t.Fatal(err)
	}
	defer in.Close()
	out, err := os.Create(outPath)
	if err != nil {
		t.Fatal(err)
	}
	defer out.Close()
	w := bufio.NewWriterSize(out, 1<<20)
	defer w.Flush()
	sc := bufio.NewScanner(in)
	sc.Buffer(make([]byte, 1<<20), 1<<28)
	n := 0
	for sc.Scan() {
		line := sc.Text()
		if strings.TrimSpace(line) == "" {
			continue
		}
		// watchdog: an op that does not come back (a lock that is never released, a loop that never ends) must not
		// hang the whole run. The process exits WITHOUT a result line for this op: the runner attributes the death to
		// it ("process-died") and runs the remaining ops in a new process.
		resCh := make(chan string, 1)
		go func(l string) { resCh <- vExec(l) }(line)
		var res string
		select {
		case res = <-resCh:
		case <-time.After(45 * time.Second):
			w.Flush()
			head := line
			if len(head) > 200 {
				head = head[:200]
			}
			fmt.Fprintln(os.Stderr, "verif-watchdog: op did not return within 45s (stalled): "+head)
			os.Exit(3)
		}
		w.WriteString(res)
		w.WriteString("\n")
		n++
		if strings.HasPrefix(res, "panic") {
			w.Flush()
		}
	}
	if err := sc.Err(); err != nil {
		t.Fatal(err)
	}
}
