//go:build verif

package main

import (
	"strconv"
	"time"
)

// Time for the bindings of the pipeline stage. In a file of its own: a tree that changes the fields of the binding
// table breaks only these ops, the rest of the pipeline stage goes on.
func init() {
	vPinAlive = func(e *ExpireBackend) bool { return e.expire.After(time.Now()) }
	// pipe pinwait p=<i> <seconds>: that much time passes for the dialog / transaction bindings of the proxy (the stored
	// instants are moved into the past while the loop is idle)
	vReg("pipe pinwait", func(a []string) string {
		if vW == nil {
			return "not-run"
		}
		m := kv(a)
		i, _ := strconv.Atoi(m["p"])
		secs, _ := strconv.ParseInt(a[len(a)-1], 10, 64)
		p := vW.proxies[i]
		if !vW.barrier(p) {
			return "stalled"
		}
		d := time.Duration(secs) * time.Second
		p.dialogBasedBackends.nextCleanTime = p.dialogBasedBackends.nextCleanTime.Add(-d)
		for _, e := range p.dialogBasedBackends.backends {
			e.expire = e.expire.Add(-d)
		}
		return "ok"
	})
}
