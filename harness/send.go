//go:build verif

package main

import (
	"bytes"
	"fmt"
	"net"
	"os"
	"sort"
	"strconv"
	"strings"
	"syscall"
	"time"
)

// scripted connection double: the i-th Write succeeds iff script[i] (exhausted script = failure)
type vScriptConn struct {
	id      int
	kinds   []byte // per write: '1' success, '0' failure, 'p' failure after a partial write, 'c' failure "use of closed network connection"
	script  []bool
	pos     int
	log     *[]string
	written [][]byte
	closed  bool
}

func (c *vScriptConn) Write(b []byte) (int, error) {
	ok := false
	if c.pos < len(c.script) {
		ok = c.script[c.pos]
	}
	c.pos++
	if ok {
		*c.log = append(*c.log, fmt.Sprintf("c%d:1", c.id))
		c.written = append(c.written, append([]byte(nil), b...))
		return len(b), nil
	}
	*c.log = append(*c.log, fmt.Sprintf("c%d:0", c.id))
	kind := byte('0')
	if c.pos-1 < len(c.kinds) {
		kind = c.kinds[c.pos-1]
	}
	switch kind {
	case 'p':
		// the peer took part of the message before the connection broke
		n := len(b) / 3
		c.written = append(c.written, append([]byte(nil), b[:n]...))
		return n, fmt.Errorf("scripted write failure after %d bytes", n)
	case 'c':
		// the connection was closed on this side (e.g. by the goroutine that reads from it)
		return 0, &net.OpError{Op: "write", Net: "tcp", Err: net.ErrClosed}
	case 't':
		// the peer vanished without a word: the kernel gives up retransmitting, write(2) fails with ETIMEDOUT
		return 0, &net.OpError{Op: "write", Net: "tcp", Err: os.NewSyscallError("write", syscall.ETIMEDOUT)}
	case 'r':
		// the peer reset the connection
		return 0, &net.OpError{Op: "write", Net: "tcp", Err: os.NewSyscallError("write", syscall.ECONNRESET)}
	case 'e':
		// broken pipe
		return 0, &net.OpError{Op: "write", Net: "tcp", Err: os.NewSyscallError("write", syscall.EPIPE)}
	case 'd':
		// a write deadline that expired
		return 0, &net.OpError{Op: "write", Net: "tcp", Err: os.ErrDeadlineExceeded}
	}
	return 0, fmt.Errorf("scripted write failure")
}
func (c *vScriptConn) Read(b []byte) (int, error)         { return 0, fmt.Errorf("not readable") }
func (c *vScriptConn) Close() error                       { c.closed = true; return nil }
func (c *vScriptConn) LocalAddr() net.Addr                { return &net.TCPAddr{IP: net.IPv4(127, 0, 0, 1), Port: 1} }
func (c *vScriptConn) RemoteAddr() net.Addr               { return &net.TCPAddr{IP: net.IPv4(127, 0, 0, 1), Port: 2} }
func (c *vScriptConn) SetDeadline(t time.Time) error      { return nil }
func (c *vScriptConn) SetReadDeadline(t time.Time) error  { return nil }
func (c *vScriptConn) SetWriteDeadline(t time.Time) error { return nil }

func parseScript(s string, id int, log *[]string) *vScriptConn {
	// "s:101" -> script conn
	bits := s[2:]
	sc := &vScriptConn{id: id, log: log}
	for _, ch := range bits {
		sc.script = append(sc.script, ch == '1')
		sc.kinds = append(sc.kinds, byte(ch))
	}
	return sc
}

// real loopback listener that can be switched up/down on one fixed port. It is observed synchronously: on
// loopback a connection is in the accept queue when connect() returns and the bytes are in the receive queue
// when write() returns, so a non-blocking accept + read after Send sees everything Send produced (no
// goroutines, no waiting, no timing dependence).
type vListener struct {
	dead     bool // the port could not be bound again: the case is abandoned
	reset    bool // accept, then reset the connection at once
	addr     string
	ln       *net.TCPListener
	received map[string]*bytes.Buffer // by remote address of the accepted connection
	fds      map[string]int
}

var vSendPortSeq int

// the destination's port is taken from below the kernel's ephemeral range (so that no outgoing connection of this or
// another process can be given it while the listener is down), per process and per case
func newVListener() *vListener {
	for tries := 0; tries < 200; tries++ {
		vSendPortSeq++
		port := 20000 + (os.Getpid()*97+vSendPortSeq)%2000
		addr := "127.0.0.1:" + strconv.Itoa(port)
		l, err := net.Listen("tcp", addr)
		if err != nil {
			continue
		}
		l.Close()
		return &vListener{addr: addr, received: map[string]*bytes.Buffer{}, fds: map[string]int{}}
	}
	panic("no free port for the send listener")
}

func (v *vListener) up() {
	if v.ln != nil {
		return
	}
	var err error
	var ln net.Listener
	for i := 0; i < 50; i++ {
		ln, err = net.Listen("tcp", v.addr)
		if err == nil {
			break
		}
		time.Sleep(2 * time.Millisecond)
	}
	if err != nil {
		v.dead = true // cannot listen: the rest of this case is not run
		return
	}
	v.ln = ln.(*net.TCPListener)
}

// accept whatever is pending (resetting it at once in reset mode) and read whatever has arrived
func (v *vListener) collect() {
	if v.ln != nil {
		if rc, err := v.ln.SyscallConn(); err == nil {
			for {
				nfd := -1
				var peer string
				rc.Control(func(fd uintptr) {
					k, sa, e := syscall.Accept4(int(fd), syscall.SOCK_NONBLOCK|syscall.SOCK_CLOEXEC)
					if e == nil {
						nfd = k
						if s4, ok := sa.(*syscall.SockaddrInet4); ok {
							peer = net.JoinHostPort(net.IP(s4.Addr[:]).String(), strconv.Itoa(s4.Port))
						}
					}
				})
				if nfd < 0 {
					break
				}
				if v.reset {
					syscall.SetsockoptLinger(nfd, syscall.SOL_SOCKET, syscall.SO_LINGER, &syscall.Linger{Onoff: 1, Linger: 0})
					syscall.Close(nfd)
					continue
				}
				v.fds[peer] = nfd
				v.received[peer] = &bytes.Buffer{}
			}
		}
	}
	buf := make([]byte, 65536)
	for peer, fd := range v.fds {
		for {
			k, _, e := syscall.Recvfrom(fd, buf, syscall.MSG_DONTWAIT)
			if e != nil || k <= 0 {
				break
			}
			v.received[peer].Write(buf[:k])
		}
	}
}

func (v *vListener) down() {
	if v.ln != nil {
		v.collect()
		v.ln.Close()
		v.ln = nil
	}
}

func (v *vListener) closeAll() {
	v.down()
	for k, fd := range v.fds {
		syscall.Close(fd)
		delete(v.fds, k)
	}
}

var vSendResets int

var (
	vSendLis    *vListener
	vSendLog    []string
	vSendDials  []string // local addresses of dialed connections, in dial order
	vSendTarget interface {
		Send(msg *Message) error
	}
	vSendDialed []net.Conn
)

func vSendReset() {
	if vSendLis != nil {
		vSendLis.closeAll()
	}
	for _, c := range vSendDialed {
		c.Close()
	}
	vSendDialed = nil
	vSendLis = newVListener()
	vSendLog = nil
	vSendDials = nil
	vSendResets = 0
}

func vDialCallback(conn net.Conn) {
	vSendDials = append(vSendDials, conn.LocalAddr().String())
	vSendDialed = append(vSendDialed, conn)
	if vSendLis != nil && vSendLis.reset {
		vSendResets++
		// the destination accepts and resets: do it now and wait until the reset has arrived, so that the
		// write that follows fails deterministically
		vSendLis.collect()
		conn.SetReadDeadline(time.Now().Add(2 * time.Second))
		tmp := make([]byte, 16)
		conn.Read(tmp)
		conn.SetReadDeadline(time.Time{})
		return
	}
	// as in the running proxy, every connection it dials gets a goroutine that reads from it (the responses come back
	// on it) and hangs up when reading fails
	go func() {
		buf := make([]byte, 4096)
		for {
			if _, err := conn.Read(buf); err != nil {
				conn.Close()
				return
			}
		}
	}()
}

func newScriptedClient(spec string, reconnectable bool, id int) *TCPClientTransport {
	t := &TCPClientTransport{addr: vSendLis.addr, localAddress: "127.0.0.1", reconnectable: reconnectable, conn: nil, expire: 0, connectionEstablished: vDialCallback}
	if strings.HasPrefix(spec, "s:") {
		t.conn = parseScript(spec, id, &vSendLog)
	}
	return t
}

func init() {
	vReg("send new", func(a []string) string {
		vSendReset()
		switch a[0] {
		case "client":
			vSendTarget = newScriptedClient(a[2], a[1] == "1", 1)
		case "backend":
			local := "127.0.0.1:0"
			if len(a) > 2 && a[2] != "" && a[2] != "-" {
				// a configured backend-local-port (the TCP backend must keep working across re-connections whatever it is)
				local = "127.0.0.1:" + a[2]
			}
			b := &TCPBackend{localAddr: local, backendAddr: vSendLis.addr, conn: nil, connectionEstablished: vDialCallback}
			if strings.HasPrefix(a[1], "s:") {
				b.conn = parseScript(a[1], 1, &vSendLog)
			}
			vSendTarget = b
		case "failover":
			f := &FailOverClientTransport{}
			if a[1] != "none" {
				f.primary = newScriptedClient(a[1], false, 1)
			}
			if a[2] != "none" {
				f.secondary = newScriptedClient(a[2], true, 2)
			}
			vSendTarget = f
		default:
			return "bad-op"
		}
		return "ok"
	})
	vReg("send listener", func(a []string) string {
		switch a[0] {
		case "up":
			vSendLis.down()
			vSendLis.reset = false
			vSendLis.up()
		case "reset":
			vSendLis.down()
			vSendLis.reset = true
			vSendLis.up()
		default:
			vSendLis.down()
		}
		return "ok"
	})
	vReg("send msg", func(a []string) string {
		if vSendLis != nil && vSendLis.dead {
			return "not-run"
		}
		m, _ := NewRequest("MESSAGE", "sip:peer@example.com", "SIP/2.0")
		m.AddHeader("Call-ID", "send-"+a[0])
		m.body = []byte("payload-" + a[0] + "-" + strings.Repeat("x", 50))
		want, _ := m.Bytes()
		before := len(vSendLog)
		err := vSendTarget.Send(m)
		vSendLis.collect()
		res := "ok"
		if err != nil {
			res = "err"
		}
		out := []string{res}
		out = append(out, vSendLog[before:]...)
		var dl []string
		for k, d := range vSendDials {
			if buf, ok := vSendLis.received[d]; ok {
				n := bytes.Count(buf.Bytes(), want)
				if n > 0 {
					dl = append(dl, "d"+strconv.Itoa(k)+":"+strconv.Itoa(n))
				}
			}
		}
		sort.Strings(dl)
		out = append(out, dl...)
		out = append(out, "dials="+strconv.Itoa(len(vSendDials)))
		return strings.Join(out, " ")
	})
	// send closelocal: every connection dialed so far is closed on THIS side (as the goroutine that reads from it does
	// when the peer hangs up or sends something undecodable): the next write on it fails with "use of closed network
	// connection"
	vReg("send closelocal", func(a []string) string {
		for _, c := range vSendDialed {
			c.Close()
		}
		return "ok"
	})
	vReg("send sleep", func(a []string) string {
		ms, _ := strconv.Atoi(a[0])
		time.Sleep(time.Duration(ms) * time.Millisecond)
		return "ok"
	})
	vReg("send end", func(a []string) string {
		if vSendLis != nil {
			vSendLis.closeAll()
		}
		for _, c := range vSendDialed {
			c.Close()
		}
		vSendDialed = nil
		return "ok"
	})
}
