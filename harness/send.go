//go:build verif

package main

import (
	"bytes"
	"fmt"
	"net"
	"sort"
	"strconv"
	"strings"
	"sync"
	"time"
)

// scripted connection double: the i-th Write succeeds iff script[i] (exhausted script = failure)
type vScriptConn struct {
	id      int
	script  []bool
	pos     int
	log     *[]string
	written [][]byte
	closed  bool
}

func (c *vScriptConn) Write(b []byte) (int, error) {
	ok := false
	if c.pos < len(c.script) {
		ok = c.script[c.pos]
	}
	c.pos++
	if ok {
		*c.log = append(*c.log, fmt.Sprintf("c%d:1", c.id))
		c.written = append(c.written, append([]byte(nil), b...))
		return len(b), nil
	}
	*c.log = append(*c.log, fmt.Sprintf("c%d:0", c.id))
	return 0, fmt.Errorf("scripted write failure")
}
func (c *vScriptConn) Read(b []byte) (int, error)         { return 0, fmt.Errorf("not readable") }
func (c *vScriptConn) Close() error                       { c.closed = true; return nil }
func (c *vScriptConn) LocalAddr() net.Addr                { return &net.TCPAddr{IP: net.IPv4(127, 0, 0, 1), Port: 1} }
func (c *vScriptConn) RemoteAddr() net.Addr               { return &net.TCPAddr{IP: net.IPv4(127, 0, 0, 1), Port: 2} }
func (c *vScriptConn) SetDeadline(t time.Time) error      { return nil }
func (c *vScriptConn) SetReadDeadline(t time.Time) error  { return nil }
func (c *vScriptConn) SetWriteDeadline(t time.Time) error { return nil }

func parseScript(s string, id int, log *[]string) *vScriptConn {
	// "s:101" -> script conn
	bits := s[2:]
	sc := &vScriptConn{id: id, log: log}
	for _, ch := range bits {
		sc.script = append(sc.script, ch == '1')
	}
	return sc
}

// real loopback listener that can be switched up/down on one fixed port
type vListener struct {
	sync.Mutex
	reset    bool // accept, then reset the connection at once
	addr     string
	ln       net.Listener
	received map[string]*bytes.Buffer // by remote address of the accepted connection
	conns    []net.Conn
}

func newVListener() *vListener {
	l, err := net.Listen("tcp", "127.0.0.1:0")
	if err != nil {
		panic(err)
	}
	addr := l.Addr().String()
	l.Close()
	return &vListener{addr: addr, received: map[string]*bytes.Buffer{}}
}

func (v *vListener) up() {
	if v.ln != nil {
		return
	}
	var err error
	for i := 0; i < 50; i++ {
		v.ln, err = net.Listen("tcp", v.addr)
		if err == nil {
			break
		}
		time.Sleep(2 * time.Millisecond)
	}
	if err != nil {
		panic(err)
	}
	ln := v.ln
	go func() {
		for {
			c, err := ln.Accept()
			if err != nil {
				return
			}
			if v.reset {
				if tc, ok := c.(*net.TCPConn); ok {
					tc.SetLinger(0)
				}
				c.Close()
				continue
			}
			v.Lock()
			buf := &bytes.Buffer{}
			v.received[c.RemoteAddr().String()] = buf
			v.conns = append(v.conns, c)
			v.Unlock()
			go func() {
				tmp := make([]byte, 65536)
				for {
					n, err := c.Read(tmp)
					if n > 0 {
						v.Lock()
						buf.Write(tmp[:n])
						v.Unlock()
					}
					if err != nil {
						return
					}
				}
			}()
		}
	}()
}

func (v *vListener) down() {
	if v.ln != nil {
		v.ln.Close()
		v.ln = nil
	}
}

func (v *vListener) closeAll() {
	v.down()
	v.Lock()
	for _, c := range v.conns {
		c.Close()
	}
	v.conns = nil
	v.Unlock()
}

func (v *vListener) total() int {
	v.Lock()
	defer v.Unlock()
	n := 0
	for _, b := range v.received {
		n += b.Len()
	}
	return n + 1000000*len(v.received)
}

var vSendResets int

var (
	vSendLis    *vListener
	vSendLog    []string
	vSendDials  []string // local addresses of dialed connections, in dial order
	vSendTarget interface {
		Send(msg *Message) error
	}
	vSendDialed []net.Conn
)

func vSendReset() {
	if vSendLis != nil {
		vSendLis.closeAll()
	}
	for _, c := range vSendDialed {
		c.Close()
	}
	vSendDialed = nil
	vSendLis = newVListener()
	vSendLog = nil
	vSendDials = nil
	vSendResets = 0
}

func vDialCallback(conn net.Conn) {
	vSendDials = append(vSendDials, conn.LocalAddr().String())
	vSendDialed = append(vSendDialed, conn)
	if vSendLis != nil && vSendLis.reset {
		vSendResets++
		// the destination accepts and resets: wait until the reset has arrived, so that the write that
		// follows fails deterministically
		conn.SetReadDeadline(time.Now().Add(2 * time.Second))
		tmp := make([]byte, 16)
		conn.Read(tmp)
		conn.SetReadDeadline(time.Time{})
	}
}

func newScriptedClient(spec string, reconnectable bool, id int) *TCPClientTransport {
	t := &TCPClientTransport{addr: vSendLis.addr, localAddress: "127.0.0.1", reconnectable: reconnectable, conn: nil, expire: 0, connectionEstablished: vDialCallback}
	if strings.HasPrefix(spec, "s:") {
		t.conn = parseScript(spec, id, &vSendLog)
	}
	return t
}

func init() {
	vReg("send new", func(a []string) string {
		vSendReset()
		switch a[0] {
		case "client":
			vSendTarget = newScriptedClient(a[2], a[1] == "1", 1)
		case "backend":
			b := &TCPBackend{localAddr: "127.0.0.1:0", backendAddr: vSendLis.addr, conn: nil, connectionEstablished: vDialCallback}
			if strings.HasPrefix(a[1], "s:") {
				b.conn = parseScript(a[1], 1, &vSendLog)
			}
			vSendTarget = b
		case "failover":
			f := &FailOverClientTransport{}
			if a[1] != "none" {
				f.primary = newScriptedClient(a[1], false, 1)
			}
			if a[2] != "none" {
				f.secondary = newScriptedClient(a[2], true, 2)
			}
			vSendTarget = f
		default:
			return "bad-op"
		}
		return "ok"
	})
	vReg("send listener", func(a []string) string {
		switch a[0] {
		case "up":
			vSendLis.down()
			vSendLis.reset = false
			vSendLis.up()
		case "reset":
			vSendLis.down()
			vSendLis.reset = true
			vSendLis.up()
		default:
			vSendLis.down()
		}
		return "ok"
	})
	vReg("send msg", func(a []string) string {
		m, _ := NewRequest("MESSAGE", "sip:peer@example.com", "SIP/2.0")
		m.AddHeader("Call-ID", "send-"+a[0])
		m.body = []byte("payload-" + a[0] + "-" + strings.Repeat("x", 50))
		want, _ := m.Bytes()
		before := len(vSendLog)
		err := vSendTarget.Send(m)
		// quiescence on the listener side: every dialed connection accepted, no byte for 3 ms
		deadline := time.Now().Add(500 * time.Millisecond)
		last, stable := -1, 0
		for time.Now().Before(deadline) {
			vSendLis.Lock()
			acc := 0
			for _, d := range vSendDials {
				if _, ok := vSendLis.received[d]; ok {
					acc++
				}
			}
			vSendLis.Unlock()
			t := vSendLis.total()
			if (vSendLis.reset || acc == len(vSendDials)-vSendResets) && t == last {
				stable++
				if stable >= 3 {
					break
				}
			} else {
				stable = 0
			}
			last = t
			time.Sleep(time.Millisecond)
		}
		res := "ok"
		if err != nil {
			res = "err"
		}
		out := []string{res}
		out = append(out, vSendLog[before:]...)
		var dl []string
		vSendLis.Lock()
		for k, d := range vSendDials {
			if buf, ok := vSendLis.received[d]; ok {
				n := bytes.Count(buf.Bytes(), want)
				if n > 0 {
					dl = append(dl, "d"+strconv.Itoa(k)+":"+strconv.Itoa(n))
				}
			}
		}
		vSendLis.Unlock()
		sort.Strings(dl)
		out = append(out, dl...)
		out = append(out, "dials="+strconv.Itoa(len(vSendDials)))
		return strings.Join(out, " ")
	})
	vReg("send end", func(a []string) string {
		if vSendLis != nil {
			vSendLis.closeAll()
		}
		for _, c := range vSendDialed {
			c.Close()
		}
		vSendDialed = nil
		return "ok"
	})
}
