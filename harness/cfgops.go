//go:build verif

package main

import (
	"strings"
)

// Stream `cfg`: the small pieces of configuration handling that decide how the pipeline behaves, called the way
// the program calls them at start-up.
func init() {
	// cfg keep <word>: the keepNextHopRoute setting of a service as written in the configuration
	vReg("cfg keep", func(a []string) string {
		w := unhx(a[0])
		if w == "" {
			return "bad-op" // (the empty setting falls back to the environment; not exercised)
		}
		if toKeepNextHopRoute(w) {
			return "true"
		}
		return "false"
	})
	// cfg hosts <yaml> <name> <flattened name/ip pairs for the model…>: the host table of the first service, built
	// from the global `hosts:` section and the service's own (which overrides it)
	vReg("cfg hosts", func(a []string) string {
		cfg, err := loadConfigFromReader(strings.NewReader(unhx(a[0])))
		if err != nil || len(cfg.Proxies) == 0 {
			return "err"
		}
		r := createPreConfigHostResolver(cfg.Hosts, cfg.Proxies[0])
		ip, err := r.GetIp(unhx(a[1]))
		if err != nil {
			return "none"
		}
		return "ip " + hx(ip)
	})
}
