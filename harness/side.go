//go:build verif

package main

import (
	"bytes"
	"fmt"
	"net"
	"runtime"
	"sort"
	"strconv"
	"strings"
	"sync"
	"sync/atomic"
	"syscall"
	"time"
)

// ---------------------------------------------------------------- backend double

type vBackend struct {
	addr   string
	got    []string
	closed int
	sink   *[]string // every Send appends "<addr> <hex bytes>" here
	fail   bool
}

func (b *vBackend) Send(msg *Message) error {
	if b.fail {
		return fmt.Errorf("scripted backend failure")
	}
	bs, err := msg.Bytes()
	if err != nil {
		return err
	}
	b.got = append(b.got, string(bs))
	if b.sink != nil {
		*b.sink = append(*b.sink, hx(b.addr)+" "+hxb(bs))
	}
	return nil
}
func (b *vBackend) GetAddress() string { return b.addr }
func (b *vBackend) Close()             { b.closed++ }

type vLockedBackend struct {
	addr string
	mu   *sync.Mutex
	sink *[]string
}

func (b *vLockedBackend) Send(msg *Message) error {
	b.mu.Lock()
	*b.sink = append(*b.sink, b.addr)
	b.mu.Unlock()
	return nil
}
func (b *vLockedBackend) GetAddress() string { return b.addr }
func (b *vLockedBackend) Close()             {}

// listener recording add/remove notifications, applied like Proxy.receiveAndProcessMessage does
type vChangeListener struct {
	index map[string]bool
}

func (l *vChangeListener) HandleBackendAdded(backend Backend, parent *RoundRobinBackend) {
	l.index[backend.GetAddress()] = true
}
func (l *vChangeListener) HandleBackendRemoved(backend Backend, parent *RoundRobinBackend) {
	delete(l.index, backend.GetAddress())
}

func sortedKeys(m map[string]bool) []string {
	out := make([]string, 0, len(m))
	for k := range m {
		out = append(out, k)
	}
	sort.Strings(out)
	return out
}

func hxJoin(l []string) string {
	if len(l) == 0 {
		return "[]"
	}
	h := make([]string, len(l))
	for i, s := range l {
		h[i] = hx(s)
	}
	return "[" + strings.Join(h, ",") + "]"
}

var (
	vRR      *RoundRobinBackend
	vRRSink  []string
	vRRIndex *vChangeListener
	vRRMsg   *Message
)

func rrState() string {
	vRR.Lock()
	list := make([]string, 0)
	for _, b := range vRR.backends {
		list = append(list, b.GetAddress())
	}
	keys := map[string]bool{}
	for k := range vRR.backendMap {
		keys[k] = true
	}
	idx := vRR.index
	vRR.Unlock()
	return fmt.Sprintf("idx=%d list=%s keys=%s index=%s", idx, hxJoin(list), hxJoin(sortedKeys(keys)), hxJoin(sortedKeys(vRRIndex.index)))
}

// Quiescence after a resolution outcome: the resolver hands the change to `go notifyAddressChanged(...)`.
// The goroutine exists as soon as addressResolved returns, so "no goroutine has notifyAddressChanged on its
// stack" is exactly "every notification has been delivered". (Counting goroutines is not: the process has
// other goroutines that come and go, e.g. the resolver's own DNS lookups.)
func waitGoroutines(base int) {
	deadline := time.Now().Add(5 * time.Second)
	buf := make([]byte, 1<<20)
	for time.Now().Before(deadline) {
		n := runtime.Stack(buf, true)
		// (a goroutine that has not run yet shows only its wrapper and the "created by ...addressResolved" line)
		if !bytes.Contains(buf[:n], []byte("notifyAddressChanged")) && !bytes.Contains(buf[:n], []byte("DynamicHostResolver).addressResolved")) {
			return
		}
		runtime.Gosched()
		time.Sleep(50 * time.Microsecond)
	}
}

// ---------------------------------------------------------------- resolver world
var (
	vRes      *DynamicHostResolver
	vResProto string
	vResPort  string
)

// observation sockets of the resolver streams (udp rotations): every candidate backend address is bound, so that
// WHO RECEIVES a dispatch can be observed on the wire, not only the rotation's internal lists
var vResObs = map[string]*net.UDPConn{}
var vRR2 []*RoundRobinBackend

func vResObsClose() {
	for k, c := range vResObs {
		c.Close()
		delete(vResObs, k)
	}
}

func vResObsBind(ports []string) string {
	vResObsClose()
	for _, port := range ports {
		pn, _ := strconv.Atoi(port)
		for i := 1; i <= 5; i++ {
			addr := &net.UDPAddr{IP: net.IPv4(127, 0, 1, byte(i)), Port: pn}
			c, err := net.ListenUDP("udp", addr)
			if err != nil {
				vResObsClose()
				return "bind-error"
			}
			vResObs[addr.String()] = c
		}
	}
	return "ok"
}

// dispatch one full round (as many messages as the rotation has members) and report which addresses received
// how many of them; a full round leaves the cursor where it was
func vResDispatchRound() string {
	vRR.Lock()
	n := len(vRR.backends)
	vRR.Unlock()
	for i := 0; i < n; i++ {
		m, _ := NewRequest("OPTIONS", "sip:probe@svc.test", "SIP/2.0")
		m.AddHeader("Call-ID", "res-disp-"+strconv.Itoa(i))
		vRR.Send(m)
	}
	var got []string
	buf := make([]byte, 4096)
	for addr, c := range vResObs {
		cnt := 0
		if rc, err := c.SyscallConn(); err == nil {
			for {
				k := -1
				rc.Read(func(fd uintptr) bool {
					x, _, e := syscall.Recvfrom(int(fd), buf, syscall.MSG_DONTWAIT)
					if e == nil {
						k = x
					}
					return true
				})
				if k < 0 {
					break
				}
				cnt++
			}
		}
		if cnt == 1 {
			got = append(got, hx(addr))
		} else if cnt > 1 {
			got = append(got, hx(addr)+"*"+strconv.Itoa(cnt))
		}
	}
	sort.Strings(got)
	return "recv=[" + strings.Join(got, ",") + "]"
}

// ---------------------------------------------------------------- pins with a virtual clock
// The logic of DialogBasedBackend only compares stored instants with time.Now(); letting D of
// virtual time pass is therefore the same as moving every stored instant D into the past.
var vPins *DialogBasedBackend
var vPinBackends = map[string]*vBackend{}

func pinsShift(d time.Duration) {
	vPins.nextCleanTime = vPins.nextCleanTime.Add(-d)
	for _, e := range vPins.backends {
		e.expire = e.expire.Add(-d)
	}
}

// ---------------------------------------------------------------- pool
var vPool *ByteArrayPool
var vPoolIds = map[*byte]int{}
var vPoolHeld = map[int][]byte{}
var vPoolNext int

func init() {
	// the package-level resolver looks every registered name up every two seconds; in this harness every resolution
	// outcome is scripted, a real (failing) look-up in between would be an outcome nobody scripted
	dynamicHostResolver.Stop()

	vReg("rr new", func(a []string) string {
		vRR = NewRoundRobinBackend()
		vRRSink = nil
		vRRIndex = &vChangeListener{index: map[string]bool{}}
		vRR.AddBackendChangeListener(vRRIndex)
		m, _ := NewRequest("OPTIONS", "sip:probe@example.com", "SIP/2.0")
		vRRMsg = m
		return "ok"
	})
	vReg("rr add", func(a []string) string {
		vRR.AddBackend(&vBackend{addr: unhx(a[0]), sink: &vRRSink})
		return "ok"
	})
	vReg("rr rem", func(a []string) string {
		vRR.RemoveBackend(unhx(a[0]))
		return "ok"
	})
	vReg("rr disp", func(a []string) string {
		before := len(vRRSink)
		err := vRR.Send(vRRMsg)
		if len(vRRSink) == before {
			if err == nil {
				return "lost"
			}
			return "drop"
		}
		if len(vRRSink) != before+1 {
			return "multi"
		}
		if err != nil {
			return "sent-but-error"
		}
		// what Proxy.sendToBackend does after a successful dispatch (it logs the pool's name and its members)
		vRR.GetAddress()
		vRR.GetAllBackend()
		return "to " + strings.Fields(vRRSink[before])[0]
	})
	vReg("rr state", func(a []string) string { return rrState() })
	// rr race <millis> <seed>: dispatches racing with membership changes made from another goroutine.
	// Every dispatch must reach a backend that was registered at some moment of the run, never panic,
	// and -- three backends always stay registered -- never be dropped.
	vReg("rr race", func(a []string) string {
		ms, _ := strconv.Atoi(a[0])
		rr := NewRoundRobinBackend()
		var sink []string
		var mu sync.Mutex
		mk := func(addr string) *vLockedBackend { return &vLockedBackend{addr: addr, mu: &mu, sink: &sink} }
		for j := 0; j < 3; j++ {
			rr.AddBackend(mk(fmt.Sprintf("127.0.1.%d:5080", j+1)))
		}
		msg, _ := NewRequest("OPTIONS", "sip:probe@example.com", "SIP/2.0")
		var stop int32
		res := make(chan string, 4)
		go func() {
			extra := []string{"127.0.1.8:5080", "127.0.1.9:5080"}
			for atomic.LoadInt32(&stop) == 0 {
				for _, e := range extra {
					rr.AddBackend(mk(e))
				}
				runtime.Gosched()
				for _, e := range extra {
					rr.RemoveBackend(e)
				}
				runtime.Gosched()
			}
			res <- "ok"
		}()
		go func() {
			out := "ok"
			defer func() {
				if r := recover(); r != nil {
					out = "panic-" + strings.ReplaceAll(fmt.Sprintf("%v", r), " ", "_")
				}
				res <- out
			}()
			n := 0
			for atomic.LoadInt32(&stop) == 0 {
				mu.Lock()
				before := len(sink)
				mu.Unlock()
				err := rr.Send(msg)
				mu.Lock()
				after := len(sink)
				mu.Unlock()
				if err != nil || after != before+1 {
					out = fmt.Sprintf("dropped-or-duplicated-after-%d-dispatches", n)
					return
				}
				n++
			}
			if n < 100 {
				out = "too-few-dispatches"
			}
		}()
		time.Sleep(time.Duration(ms) * time.Millisecond)
		atomic.StoreInt32(&stop, 1)
		r1, r2 := <-res, <-res
		if r1 != "ok" {
			return r1
		}
		return r2
	})

	// ---- static routes ----
	var pcr *PreConfigRoute
	vReg("route new", func(a []string) string { pcr = NewPreConfigRoute(); return "ok" })
	// route cfg <hex yaml>: the table is built the way the program builds it at start-up, from the `route:` entries of
	// the first proxy of a YAML configuration (several dests may share one next hop)
	vReg("route cfg", func(a []string) string {
		cfg, err := loadConfigFromReader(strings.NewReader(unhx(a[0])))
		if err != nil || len(cfg.Proxies) == 0 {
			return "err"
		}
		pcr = createPreConfigRoute(cfg.Proxies[0])
		return "ok"
	})
	vReg("route add", func(a []string) string {
		if err := pcr.AddRouteItem(unhx(a[0]), unhx(a[1]), unhx(a[2])); err != nil {
			return "err"
		}
		return "ok"
	})
	vReg("route find", func(a []string) string {
		first := ""
		for i := 0; i < 50; i++ {
			proto, host, port, err := pcr.FindRoute(unhx(a[0]))
			r := "none"
			if err == nil {
				r = fmt.Sprintf("%s %s %d", hx(proto), hx(host), port)
			}
			if i == 0 {
				first = r
			} else if r != first {
				return "unstable " + first + " | " + r
			}
		}
		return first
	})
	// route conc <ms> <hex host>…: the listeners of a service share ONE table and look hosts up at the same time (one loop
	// goroutine each): every answer given under concurrency equals the answer given to the same host when asked alone
	vReg("route conc", func(a []string) string {
		ms, _ := strconv.Atoi(a[0])
		find := func(h string) string {
			proto, host, port, err := pcr.FindRoute(h)
			if err != nil {
				return "none"
			}
			return fmt.Sprintf("%s %s %d", proto, host, port)
		}
		var hosts []string
		want := map[string]string{}
		for _, x := range a[1:] {
			h := unhx(x)
			hosts = append(hosts, h)
			want[h] = find(h)
		}
		var stop, bad int32
		var wg sync.WaitGroup
		for k := 0; k < 4; k++ {
			wg.Add(1)
			go func(k int) {
				defer wg.Done()
				defer func() {
					if r := recover(); r != nil {
						atomic.StoreInt32(&bad, 2)
					}
				}()
				for i := k; atomic.LoadInt32(&stop) == 0; i++ {
					h := hosts[i%len(hosts)]
					if find(h) != want[h] {
						atomic.StoreInt32(&bad, 1)
						return
					}
				}
			}(k)
		}
		time.Sleep(time.Duration(ms) * time.Millisecond)
		atomic.StoreInt32(&stop, 1)
		wg.Wait()
		switch atomic.LoadInt32(&bad) {
		case 1:
			return "answer-changed-under-concurrent-lookups"
		case 2:
			return "panic-under-concurrent-lookups"
		}
		return "ok"
	})
	vReg("route item", func(a []string) string {
		it, err := NewPreRouteItem(unhx(a[0]), unhx(a[1]), unhx(a[2]))
		if err != nil {
			return "err"
		}
		return fmt.Sprintf("%s %s %s %d", hx(it.protocol), hx(it.dest), hx(it.host), it.port)
	})

	// ---- resolver -> rotation ----
	vReg("res new", func(a []string) string {
		vResProto, vResPort = a[0], a[1]
		vResObsClose()
		if vResProto == "udp" {
			if r := vResObsBind([]string{vResPort}); r != "ok" {
				return r
			}
		}
		vRR = NewRoundRobinBackend()
		vRRSink = nil
		vRRIndex = &vChangeListener{index: map[string]bool{}}
		vRR.AddBackendChangeListener(vRRIndex)
		vRes = &DynamicHostResolver{interval: time.Hour, stop: 1, hostIPs: make(map[string]*AddressWithCallback)}
		return "ok"
	})
	vReg("res host", func(a []string) string {
		host := unhx(a[0])
		rr := vRR
		proto, port := vResProto, vResPort
		e := NewAddressWithCallback()
		e.callbacks = append(e.callbacks, func(hostname string, newIPs []string, removedIPs []string) {
			rr.hostIPChanged(proto, "127.0.0.1:0", hostname, newIPs, removedIPs, port, func(conn net.Conn) {})
		})
		vRes.Lock()
		vRes.hostIPs[host] = e
		vRes.Unlock()
		return "ok"
	})
	vReg("res ok", func(a []string) string {
		addrs := make([]string, 0)
		for _, x := range a[1:] {
			addrs = append(addrs, unhx(x))
		}
		base := runtime.NumGoroutine()
		vRes.addressResolved(unhx(a[0]), addrs, nil)
		waitGoroutines(base)
		return rrState()
	})
	vReg("res fail", func(a []string) string {
		base := runtime.NumGoroutine()
		vRes.addressResolved(unhx(a[0]), nil, fmt.Errorf("scripted resolution failure"))
		waitGoroutines(base)
		return rrState()
	})
	// res2 new <proto> <tag> <host:port>…: the rotation is built by the REAL CreateRoundRobinBackend from
	// host-name backends (registered with the package's global resolver); resolutions are then scripted
	// through addressResolved of that global resolver. Host names are made unique by <tag>.
	vReg("res2 new", func(a []string) string {
		if vRR != nil {
			vRR.Close()
		}
		var addrs []string
		var ports []string
		for _, hp := range a[2:] {
			addrs = append(addrs, a[0]+"://"+unhx(hp))
			if _, p, err := net.SplitHostPort(unhx(hp)); err == nil {
				dup := false
				for _, q := range ports {
					dup = dup || q == p
				}
				if !dup {
					ports = append(ports, p)
				}
			}
		}
		vResObsClose()
		if a[0] == "udp" {
			if r := vResObsBind(ports); r != "ok" {
				return r
			}
		}
		rr, err := CreateRoundRobinBackend("127.0.0.1:0", addrs, func(conn net.Conn) {})
		if err != nil {
			return "err"
		}
		vRR = rr
		vRRIndex = &vChangeListener{index: map[string]bool{}}
		vRR.AddBackendChangeListener(vRRIndex)
		return "ok"
	})
	// res2 join <proto> <host:port>: ANOTHER rotation (another listener naming the same pool) subscribes to a host name the
	// resolver already knows, possibly while it has addresses; the first rotation must not notice
	vReg("res2 join", func(a []string) string {
		base := runtime.NumGoroutine()
		rr2, err := CreateRoundRobinBackend("127.0.0.1:0", []string{a[0] + "://" + unhx(a[1])}, func(conn net.Conn) {})
		if err != nil {
			return "err"
		}
		vRR2 = append(vRR2, rr2)
		waitGoroutines(base)
		return rrState()
	})
	// res3 real <proto> <port> <hostname>: the resolver's OWN periodic loop (interval 1 s) feeds the failures: the name
	// (under .invalid: it never resolves) gets one scripted success, then the loop's real, failing look-ups must empty
	// the rotation after the fourth one
	vReg("res3 real", func(a []string) string {
		r := NewDynamicHostResolver(1)
		defer r.Stop()
		rr := NewRoundRobinBackend()
		host := unhx(a[2])
		r.ResolveHost(host, func(hostname string, newIPs []string, removedIPs []string) {
			rr.hostIPChanged(a[0], "127.0.0.1:0", hostname, newIPs, removedIPs, a[1], func(conn net.Conn) {})
		})
		r.addressResolved(host, []string{"127.0.1.1", "127.0.1.2"}, nil)
		deadline := time.Now().Add(2 * time.Second)
		for time.Now().Before(deadline) {
			rr.Lock()
			n := len(rr.backends)
			rr.Unlock()
			if n == 2 {
				break
			}
			time.Sleep(time.Millisecond)
		}
		rr.Lock()
		n0 := len(rr.backends)
		rr.Unlock()
		if n0 != 2 {
			return "success-not-applied"
		}
		deadline = time.Now().Add(9 * time.Second)
		for time.Now().Before(deadline) {
			rr.Lock()
			n := len(rr.backends)
			rr.Unlock()
			if n == 0 {
				rr.Close()
				return "emptied-after-failures"
			}
			time.Sleep(20 * time.Millisecond)
		}
		rr.Close()
		return "still-has-members"
	})
	vReg("res2 ok", func(a []string) string {
		addrs := make([]string, 0)
		for _, x := range a[1:] {
			addrs = append(addrs, unhx(x))
		}
		base := runtime.NumGoroutine()
		dynamicHostResolver.addressResolved(unhx(a[0]), addrs, nil)
		waitGoroutines(base)
		return rrState()
	})
	// the error a failed look-up comes back with is not always the same: the name server's authoritative "no such host"
	// (nf), a time-out (tmp). Each of them is a failed resolution like any other.
	for _, kind := range []string{"nf", "tmp"} {
		kind := kind
		mk := func(host string) error {
			if kind == "nf" {
				return &net.DNSError{Err: "no such host", Name: host, IsNotFound: true}
			}
			return &net.DNSError{Err: "i/o timeout", Name: host, IsTimeout: true, IsTemporary: true}
		}
		vReg("res fail"+kind, func(a []string) string {
			base := runtime.NumGoroutine()
			vRes.addressResolved(unhx(a[0]), nil, mk(unhx(a[0])))
			waitGoroutines(base)
			return rrState()
		})
		vReg("res2 fail"+kind, func(a []string) string {
			base := runtime.NumGoroutine()
			dynamicHostResolver.addressResolved(unhx(a[0]), nil, mk(unhx(a[0])))
			waitGoroutines(base)
			return rrState()
		})
	}
	vReg("res2 fail", func(a []string) string {
		base := runtime.NumGoroutine()
		dynamicHostResolver.addressResolved(unhx(a[0]), nil, fmt.Errorf("scripted resolution failure"))
		waitGoroutines(base)
		return rrState()
	})
	vReg("res close", func(a []string) string {
		if vRR != nil {
			vRR.Close()
		}
		for _, r := range vRR2 {
			r.Close()
		}
		vRR2 = nil
		vResObsClose()
		return "ok"
	})
	vReg("res disp", func(a []string) string { return vResDispatchRound() })
	vReg("res2 disp", func(a []string) string { return vResDispatchRound() })

	// ---- pins ----
	vReg("pins new", func(a []string) string {
		ms, _ := strconv.Atoi(a[0])
		vPins = &DialogBasedBackend{timeout: time.Duration(ms) * time.Millisecond,
			backends:      make(map[string]*ExpireBackend),
			nextCleanTime: time.Now().Add(time.Duration(ms) * time.Millisecond)}
		vPinBackends = map[string]*vBackend{}
		return "ok"
	})
	vReg("pins newsec", func(a []string) string {
		s, _ := strconv.ParseInt(a[0], 10, 64)
		vPins = NewDialogBasedBackend(s)
		vPinBackends = map[string]*vBackend{}
		return "ok"
	})
	vReg("pins add", func(a []string) string {
		k, b := unhx(a[0]), unhx(a[1])
		e, _ := strconv.Atoi(a[2])
		be, ok := vPinBackends[b]
		if !ok {
			be = &vBackend{addr: b}
			vPinBackends[b] = be
		}
		vPins.AddBackend(k, be, e)
		return "ok size=" + strconv.Itoa(len(vPins.backends))
	})
	vReg("pins get", func(a []string) string {
		b, err := vPins.GetBackend(unhx(a[0]))
		if err != nil {
			return "none size=" + strconv.Itoa(len(vPins.backends))
		}
		return "some " + hx(b.GetAddress()) + " size=" + strconv.Itoa(len(vPins.backends))
	})
	vReg("pins rem", func(a []string) string {
		vPins.RemoveDialog(unhx(a[0]))
		return "ok size=" + strconv.Itoa(len(vPins.backends))
	})
	vReg("pins wait", func(a []string) string {
		ms, _ := strconv.ParseInt(a[0], 10, 64)
		pinsShift(time.Duration(ms) * time.Millisecond)
		return "ok size=" + strconv.Itoa(len(vPins.backends))
	})
	vReg("pins keys", func(a []string) string {
		keys := map[string]bool{}
		for k := range vPins.backends {
			keys[k] = true
		}
		return hxJoin(sortedKeys(keys))
	})

	// ---- buffer pool ----
	vReg("pool new", func(a []string) string {
		mc, _ := strconv.Atoi(a[0])
		vPool = NewByteArrayPool(mc, 64)
		vPoolIds = map[*byte]int{}
		vPoolHeld = map[int][]byte{}
		vPoolNext = 0
		return "ok"
	})
	vReg("pool alloc", func(a []string) string {
		b := vPool.Alloc()
		id, ok := vPoolIds[&b[0]]
		if !ok {
			id = vPoolNext
			vPoolNext++
			vPoolIds[&b[0]] = id
		}
		if _, held := vPoolHeld[id]; held {
			return fmt.Sprintf("double-alloc %d", id)
		}
		vPoolHeld[id] = b
		return fmt.Sprintf("buf %d size=%d", id, vPool.Size())
	})
	vReg("pool free", func(a []string) string {
		id, _ := strconv.Atoi(a[0])
		b, ok := vPoolHeld[id]
		if !ok {
			return "not-held"
		}
		delete(vPoolHeld, id)
		vPool.Free(b)
		return fmt.Sprintf("ok size=%d", vPool.Size())
	})
}
