//go:build verif

package main

import (
	"strings"
	"time"
)

// the one wire op that calls startProxy directly lives in its own file: a change of startProxy's signature must not
// take the other wire ops with it (wire startall goes through startProxies and does not depend on it)
func init() {
	vReg("wire start", func(a []string) string {
		cfg, err := loadConfigFromReader(strings.NewReader(unhx(a[0])))
		if err != nil {
			return "config-error " + strings.ReplaceAll(err.Error(), " ", "_")
		}
		for _, proxy := range cfg.Proxies {
			err = startProxy(proxy, createPreConfigRoute(proxy), createPreConfigHostResolver(cfg.Hosts, proxy))
			if err != nil {
				return "start-error " + strings.ReplaceAll(err.Error(), " ", "_")
			}
		}
		time.Sleep(20 * time.Millisecond)
		return "ok"
	})
}
