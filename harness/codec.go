//go:build verif

package main

import (
	"bufio"
	"bytes"
	"fmt"
	"net"
	"runtime"
	"strconv"
	"strings"
	"sync"
	"sync/atomic"
	"time"
)

func hxList(parts []string) string {
	var sb strings.Builder
	sb.WriteString(strconv.Itoa(len(parts)))
	for _, p := range parts {
		sb.WriteString(" ")
		sb.WriteString(hx(p))
	}
	return sb.String()
}

func kvList(kvs []KeyValue) string {
	var sb strings.Builder
	sb.WriteString(strconv.Itoa(len(kvs)))
	for _, kv := range kvs {
		sb.WriteString(" " + hx(kv.Key) + " " + hx(kv.Value))
	}
	return sb.String()
}

func optHx(s string, err error) string {
	if err != nil {
		return "~"
	}
	return hx(s)
}

func optInt(i int, err error) string {
	if err != nil {
		return "~"
	}
	return strconv.Itoa(i)
}

func addrSpecFields(a *AddrSpec) string {
	if a.IsSIPURI() {
		u, _ := a.GetSIPURI()
		return fmt.Sprintf("sip %s %s %s %s %d %d %s %s %s", hx(u.Scheme), hx(u.User), hx(u.Password), hx(u.Host), u.port, u.GetPort(), hx(u.GetTransport()), kvList(u.Parameters), kvList(u.Headers))
	}
	return "abs"
}

func nameAddrFields(na *NameAddr) string {
	return hx(na.DisplayName) + " " + hx(na.Addr.String())
}

// twice: decoding is a function of the text. The handler decodes, reports, and then consumes / modifies the
// decoded value (deferred); running it a second time on the same text must give the same report.
func twice(h func(a []string) string) func(a []string) string {
	return func(a []string) string {
		first := h(a)
		second := h(a)
		if first != second {
			return "decode-depends-on-history " + first + " | " + second
		}
		return first
	}
}

func init() {
	// codec conc <ms> <op>:<hex text>…  (op = uri, via, route, rr, from, to): the proxy decodes on several goroutines at
	// once (every UDP listener, every TCP connection, every listener's loop). Each text is first decoded alone; then four
	// goroutines decode the texts over and over at the same time: every report must equal the one obtained alone.
	vReg("codec conc", func(a []string) string {
		ms, _ := strconv.Atoi(a[0])
		type item struct {
			op  string
			arg []string
		}
		var items []item
		var want []string
		for _, x := range a[1:] {
			k := strings.IndexByte(x, ':')
			if k < 0 {
				continue
			}
			h, ok := vOps["codec "+x[:k]]
			if !ok {
				continue
			}
			it := item{op: "codec " + x[:k], arg: []string{x[k+1:]}}
			items = append(items, it)
			want = append(want, h(it.arg))
		}
		if len(items) == 0 {
			return "bad-op"
		}
		var stop, bad int32
		var wg sync.WaitGroup
		for g := 0; g < 4; g++ {
			wg.Add(1)
			go func(g int) {
				defer wg.Done()
				defer func() {
					if r := recover(); r != nil {
						atomic.StoreInt32(&bad, 2)
					}
				}()
				for i := g; atomic.LoadInt32(&stop) == 0; i++ {
					k := i % len(items)
					if vOps[items[k].op](items[k].arg) != want[k] {
						atomic.StoreInt32(&bad, 1)
						return
					}
				}
			}(g)
		}
		time.Sleep(time.Duration(ms) * time.Millisecond)
		atomic.StoreInt32(&stop, 1)
		wg.Wait()
		switch atomic.LoadInt32(&bad) {
		case 1:
			return "decoded-differently-under-concurrency"
		case 2:
			return "panic-under-concurrency"
		}
		return "ok"
	})
	// ---- stdlib micro-correspondence ----
	vReg("std split", func(a []string) string {
		return hxList(strings.Split(unhx(a[1]), unhx(a[0])))
	})
	vReg("std trim", func(a []string) string { return hx(strings.TrimSpace(unhx(a[0]))) })
	vReg("std fields", func(a []string) string { return hxList(strings.Fields(unhx(a[0]))) })
	vReg("std atoi", func(a []string) string {
		i, err := strconv.Atoi(unhx(a[0]))
		if err != nil {
			return "err"
		}
		return "ok " + strconv.Itoa(i)
	})
	vReg("std itoa", func(a []string) string {
		i, _ := strconv.ParseInt(a[0], 10, 64)
		return hx(fmt.Sprintf("%d", i))
	})
	vReg("std lower", func(a []string) string { return hx(strings.ToLower(unhx(a[0]))) })
	vReg("std fold", func(a []string) string {
		if strings.EqualFold(unhx(a[0]), unhx(a[1])) {
			return "1"
		}
		return "0"
	})
	vReg("std jhp", func(a []string) string {
		i, _ := strconv.Atoi(a[1])
		return hx(net.JoinHostPort(unhx(a[0]), strconv.Itoa(i)))
	})
	vReg("std cut", func(a []string) string {
		s := unhx(a[1])
		pos := strings.IndexByte(s, unhx(a[0])[0])
		if pos == -1 {
			return "none"
		}
		return hx(s[0:pos]) + " " + hx(s[pos+1:])
	})
	vReg("std cutlast", func(a []string) string {
		s := unhx(a[1])
		pos := strings.LastIndex(s, unhx(a[0]))
		if pos == -1 {
			return "none"
		}
		return hx(s[0:pos]) + " " + hx(s[pos+1:])
	})
	vReg("std prefix", func(a []string) string {
		if strings.HasPrefix(unhx(a[1]), unhx(a[0])) {
			return "1"
		}
		return "0"
	})
	vReg("std less", func(a []string) string {
		if unhx(a[0]) < unhx(a[1]) {
			return "1"
		}
		return "0"
	})

	// ---- typed header codec ----
	vReg("codec uri", func(a []string) string {
		as, err := ParseAddrSpec(unhx(a[0]))
		if err != nil {
			return "err"
		}
		var buf bytes.Buffer
		as.Write(&buf)
		return "ok " + hx(as.String()) + " " + hx(buf.String()) + " " + addrSpecFields(as)
	})
	vReg("codec via", twice(func(a []string) string {
		v, err := ParseVia(unhx(a[0]))
		if err != nil {
			return "err"
		}
		defer func() {
			if p, e := v.GetParam(0); e == nil {
				p.SetReceived("203.0.113.9")
				p.SetParam("rport", "9")
			}
			for v.Size() > 0 {
				v.PopViaParam()
			}
		}()
		var sb strings.Builder
		sb.WriteString("ok " + hx(v.String()) + " " + strconv.Itoa(v.Size()))
		for i := 0; i < v.Size(); i++ {
			p, _ := v.GetParam(i)
			br, e1 := p.GetBranch()
			rc, e2 := p.GetReceived()
			rp, e3 := p.GetRPort()
			sb.WriteString(fmt.Sprintf(" %s %s %s %s %d %d %s %s %s %s %s", hx(p.ProtocolName), hx(p.ProtocolVersion), hx(p.Transport), hx(p.Host), p.port, p.GetPort(), hx(p.GetSentBy()), optHx(br, e1), optHx(rc, e2), optInt(rp, e3), kvList(p.Params)))
		}
		return sb.String()
	}))
	// codec viastamp <via text> <ip> <port>: decode a Via header, stamp received/rport on its FIRST entry the
	// way handleRawMessage does, and re-encode: every other entry and parameter must come back untouched
	vReg("codec viastamp", func(a []string) string {
		v, err := ParseVia(unhx(a[0]))
		if err != nil {
			return "err"
		}
		p0, _ := v.GetParam(0)
		p0.SetReceived(unhx(a[1]))
		if p0.HasParam("rport") {
			p0.SetParam("rport", a[2])
		}
		var sb strings.Builder
		sb.WriteString("ok " + hx(v.String()) + " " + strconv.Itoa(v.Size()))
		for i := 0; i < v.Size(); i++ {
			p, _ := v.GetParam(i)
			br, e1 := p.GetBranch()
			sb.WriteString(" " + optHx(br, e1) + " " + kvList(p.Params))
		}
		return sb.String()
	})
	routeLike := func(n int, get func(i int) (*NameAddr, []KeyValue), enc string) string {
		var sb strings.Builder
		sb.WriteString("ok " + hx(enc) + " " + strconv.Itoa(n))
		for i := 0; i < n; i++ {
			na, ps := get(i)
			sb.WriteString(" " + nameAddrFields(na) + " " + kvList(ps))
		}
		return sb.String()
	}
	vReg("codec route", twice(func(a []string) string {
		r, err := ParseRoute(unhx(a[0]))
		if err != nil {
			return "err"
		}
		defer func() {
			// consume the decoded value the way the proxy does: a later decoding of the same text must not notice
			for r.GetRouteParamCount() > 0 {
				r.PopRouteParam()
			}
		}()
		var buf bytes.Buffer
		r.Write(&buf)
		if buf.String() != r.String() {
			return "inconsistent-write"
		}
		return routeLike(r.GetRouteParamCount(), func(i int) (*NameAddr, []KeyValue) {
			p, _ := r.GetRouteParam(i)
			return p.GetAddress(), p.rrParam
		}, r.String())
	}))
	vReg("codec rr", func(a []string) string {
		r, err := ParseRecordRoute(unhx(a[0]))
		if err != nil {
			return "err"
		}
		return routeLike(r.GetRecRouteCount(), func(i int) (*NameAddr, []KeyValue) {
			p, _ := r.GetRecRoute(i)
			return p.GetNameAddr(), p.rrParam
		}, r.String())
	})
	vReg("codec from", func(a []string) string {
		f, err := ParseFromSpec(unhx(a[0]))
		if err != nil {
			return "err"
		}
		tag, e1 := f.GetTag()
		as, e2 := f.GetAddrSpec()
		asS := "~"
		if e2 == nil {
			asS = hx(as.String())
		}
		form := "as"
		disp := "~"
		if f.nameAddr != nil {
			form = "na"
			disp = hx(f.nameAddr.DisplayName)
		}
		return "ok " + hx(f.String()) + " " + optHx(tag, e1) + " " + asS + " " + form + " " + disp + " " + kvList(f.params)
	})
	vReg("codec to", func(a []string) string {
		f, err := ParseTo(unhx(a[0]))
		if err != nil {
			return "err"
		}
		tag, e1 := f.GetTag()
		as, e2 := f.GetAddrSpec()
		asS := "~"
		if e2 == nil {
			asS = hx(as.String())
		}
		form := "as"
		disp := "~"
		if f.nameAddr != nil {
			form = "na"
			disp = hx(f.nameAddr.DisplayName)
		}
		return "ok " + hx(f.String()) + " " + optHx(tag, e1) + " " + asS + " " + form + " " + disp + " " + kvList(f.params)
	})
	vReg("codec cseq", func(a []string) string {
		c, err := ParseCSeq(unhx(a[0]))
		if err != nil {
			return "err"
		}
		return "ok " + hx(c.String()) + " " + strconv.Itoa(c.Seq) + " " + hx(c.Method)
	})
	vReg("codec nameaddr", func(a []string) string {
		na, err := ParseNameAddr(unhx(a[0]))
		if err != nil {
			return "err"
		}
		return "ok " + hx(na.String()) + " " + nameAddrFields(na)
	})

	// ---- whole messages ----
	vReg("msg parse", func(a []string) string {
		data := []byte(unhx(a[0]))
		rd := bytes.NewReader(data)
		m, err := ParseMessage(bufio.NewReader(rd))
		if err != nil {
			return "err"
		}
		b, err := m.Bytes()
		if err != nil {
			return "err-bytes"
		}
		if m.String() != string(b) {
			return "inconsistent-string"
		}
		return "ok " + hxb(b)
	})
	// msg hostile: accept/reject of arbitrary bytes, with panic capture and an allocation bound
	vReg("msg hostile", func(a []string) (res string) {
		data := []byte(unhx(a[0]))
		var ms0, ms1 runtime.MemStats
		runtime.ReadMemStats(&ms0)
		defer func() {
			if r := recover(); r != nil {
				res = "panic " + strings.ReplaceAll(strings.ReplaceAll(fmt.Sprintf("%v", r), " ", "_"), "\n", "_")
			}
		}()
		_, err := ParseMessage(bufio.NewReaderSize(bytes.NewBuffer(data), len(data)))
		runtime.ReadMemStats(&ms1)
		out := "accepted"
		if err != nil {
			out = "rejected"
		}
		alloc := ms1.TotalAlloc - ms0.TotalAlloc
		if alloc > uint64(256*len(data)+4*1024*1024) {
			return out + " alloc=big:" + strconv.FormatUint(alloc, 10)
		}
		return out + " alloc=ok"
	})
	vReg("msg dialog", func(a []string) string {
		m, err := ParseMessage(bufio.NewReader(bytes.NewReader([]byte(unhx(a[0])))))
		if err != nil {
			return "err"
		}
		d, err := m.GetDialog()
		b, _ := m.Bytes()
		if err != nil {
			return "none " + hxb(b)
		}
		return "id " + hx(d) + " " + hxb(b)
	})
	vReg("msg trans", func(a []string) string {
		m, err := ParseMessage(bufio.NewReader(bytes.NewReader([]byte(unhx(a[0])))))
		if err != nil {
			return "err"
		}
		d, err := m.GetClientTransaction()
		b, _ := m.Bytes()
		if err != nil {
			return "none " + hxb(b)
		}
		return "id " + hx(d) + " " + hxb(b)
	})
	vReg("msg same", func(a []string) string {
		m := NewMessage()
		if m.isSameHeader(unhx(a[0]), unhx(a[1])) {
			return "1"
		}
		return "0"
	})
}
