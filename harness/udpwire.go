//go:build verif

package main

import (
	"fmt"
	"net"
	"runtime"
	"strconv"
	"strings"
	"sync"
	"time"
)

// Stream `udpwire` (C10): the REAL UDP server transport (receive loop + parse loop + buffer pool) on a loopback
// socket, one datagram at a time. Only the transport's public surface is used here (constructor, Start, the
// MessageHandler interface), so that this file keeps compiling when the internals change.

type vUDPWireHandler struct {
	sync.Mutex
	got   []*Message
	peers []string // source the transport attributes each message to
	ch    chan bool
}

func (h *vUDPWireHandler) HandleRawMessage(raw *RawMessage) {
	h.Lock()
	h.got = append(h.got, raw.Message)
	h.peers = append(h.peers, net.JoinHostPort(raw.PeerAddr, strconv.Itoa(raw.PeerPort)))
	h.Unlock()
	h.ch <- true
}
func (h *vUDPWireHandler) HandleMessage(msg *Message) {}

var (
	vUDPWireH    *vUDPWireHandler
	vUDPWireAddr *net.UDPAddr
	vUDPWireSock *net.UDPConn
	vUDPWireSen  *net.UDPConn // the sentinel comes from ANOTHER source address
	vUDPWireSeq  int
)

func init() {
	vReg("udpwire new", func(a []string) string {
		port, _ := strconv.Atoi(a[0])
		t, err := NewUDPServerTransport("127.0.0.1", port, true, NewSelfLearnRoute())
		if err != nil {
			return "err"
		}
		vUDPWireH = &vUDPWireHandler{ch: make(chan bool, 1024)}
		if err := t.Start(vUDPWireH); err != nil {
			return "listen-error"
		}
		vUDPWireAddr = &net.UDPAddr{IP: net.IPv4(127, 0, 0, 1), Port: port}
		vUDPWireSock, err = net.ListenUDP("udp", &net.UDPAddr{IP: net.IPv4(127, 0, 2, 1), Port: 0})
		if err != nil {
			return "err"
		}
		vUDPWireSen, err = net.ListenUDP("udp", &net.UDPAddr{IP: net.IPv4(127, 0, 2, 2), Port: 0})
		if err != nil {
			return "err"
		}
		return "ok"
	})
	// udpwire send <hex datagram>: send it, then a short sentinel request through the same socket (same FIFO:
	// receive loop -> parse loop -> handler); when the sentinel arrives, the datagram has been dealt with.
	vReg("udpwire send", func(a []string) string {
		if vUDPWireH == nil {
			return "no-transport"
		}
		vUDPWireSeq++
		sentinelID := "udpwire-sentinel-" + strconv.Itoa(vUDPWireSeq)
		sentinel := "OPTIONS sip:s SIP/2.0\r\nCall-ID: " + sentinelID + "\r\nContent-Length: 0\r\n\r\n"
		vUDPWireH.Lock()
		vUDPWireH.got = nil
		vUDPWireH.peers = nil
		vUDPWireH.Unlock()
		if _, err := vUDPWireSock.WriteToUDP([]byte(unhx(a[0])), vUDPWireAddr); err != nil {
			return "send-error"
		}
		if _, err := vUDPWireSen.WriteToUDP([]byte(sentinel), vUDPWireAddr); err != nil {
			return "send-error"
		}
		deadline := time.After(5 * time.Second)
		for {
			select {
			case <-vUDPWireH.ch:
			case <-deadline:
				return "stalled"
			}
			vUDPWireH.Lock()
			got := append([]*Message(nil), vUDPWireH.got...)
			peers := append([]string(nil), vUDPWireH.peers...)
			vUDPWireH.Unlock()
			if len(got) == 0 {
				continue
			}
			last := got[len(got)-1]
			if id, err := last.GetHeaderValue("Call-ID"); err == nil && id == sentinelID {
				if len(got) == 1 {
					return "rejected"
				}
				b, _ := got[0].Bytes()
				res := "ok " + hxb(b)
				if len(got) > 2 {
					res += " extra-messages=" + strconv.Itoa(len(got)-2)
				}
				// the datagram came from the first socket, the sentinel from the second
				if peers[0] != vUDPWireSock.LocalAddr().String() || peers[len(peers)-1] != vUDPWireSen.LocalAddr().String() {
					res += " wrong-source=" + hx(peers[0])
				}
				return res
			}
		}
	})
	// udpwire flood <n> <k>: n well-formed datagrams back to back while NOBODY takes the decoded messages from the handler
	// (a message loop that is busy): the parse loop blocks, the queue between the receive loop and the parse loop fills,
	// the kernel drops what does not fit. Then the handler is drained. Datagrams may be missing (UDP), but every message
	// that comes out is one of the datagrams sent, with its own body, at most once, in the order sent.
	vReg("udpwire flood", func(a []string) string {
		if vUDPWireH == nil {
			return "no-transport"
		}
		n, _ := strconv.Atoi(a[0])
		vUDPWireSeq++
		// drain leftovers
		for len(vUDPWireH.ch) > 0 {
			<-vUDPWireH.ch
		}
		vUDPWireH.Lock()
		vUDPWireH.got = nil
		vUDPWireH.peers = nil
		vUDPWireH.Unlock()
		bodyOf := func(i int) []byte {
			body := make([]byte, 10+37*i%900)
			for j := range body {
				body[j] = byte('a' + (i+j)%26)
			}
			return body
		}
		for i := 0; i < n; i++ {
			body := bodyOf(i)
			d := "MESSAGE sip:s SIP/2.0\r\nCall-ID: flood-" + a[1] + "-" + strconv.Itoa(i) + "\r\nContent-Length: " + strconv.Itoa(len(body)) + "\r\n\r\n" + string(body)
			vUDPWireSock.WriteToUDP([]byte(d), vUDPWireAddr)
			if i%256 == 255 {
				time.Sleep(100 * time.Microsecond)
			}
		}
		time.Sleep(50 * time.Millisecond)
		for {
			select {
			case <-vUDPWireH.ch:
				continue
			case <-time.After(400 * time.Millisecond):
			}
			break
		}
		vUDPWireH.Lock()
		got := append([]*Message(nil), vUDPWireH.got...)
		vUDPWireH.Unlock()
		seen := map[int]bool{}
		prefix := "flood-" + a[1] + "-"
		for _, m := range got {
			id, _ := m.GetHeaderValue("Call-ID")
			ids := fmt.Sprintf("%v", id)
			if !strings.HasPrefix(ids, prefix) {
				continue
			}
			i, err := strconv.Atoi(ids[len(prefix):])
			if err != nil || i < 0 || i >= n {
				return "ok n=" + a[0] + " unknown-message-" + hx(ids)
			}
			if seen[i] {
				return "ok n=" + a[0] + " duplicated=" + strconv.Itoa(i)
			}
			seen[i] = true
			if string(m.body) != string(bodyOf(i)) {
				return "ok n=" + a[0] + " body-of-another-datagram-in=" + strconv.Itoa(i)
			}
			// (no order check here: a long burst is sent from whatever CPUs the sender happens to run on, and the loopback
			// interface queues per CPU, so the kernel itself may deliver such a burst slightly out of order)
		}
		if len(seen) == 0 {
			return "ok n=" + a[0] + " nothing-delivered"
		}
		return "ok n=" + a[0] + " intact-at-most-once"
	})
	// udpwire burst <n> <k>: n well-formed datagrams of different sizes back to back from the first socket, then the
	// sentinel from the second one: every one of them must come out exactly once (Call-ID burst-<k>-<i>)
	vReg("udpwire burst", func(a []string) string {
		if vUDPWireH == nil {
			return "no-transport"
		}
		n, _ := strconv.Atoi(a[0])
		vUDPWireSeq++
		sentinelID := "udpwire-sentinel-" + strconv.Itoa(vUDPWireSeq)
		sentinel := "OPTIONS sip:s SIP/2.0\r\nCall-ID: " + sentinelID + "\r\nContent-Length: 0\r\n\r\n"
		vUDPWireH.Lock()
		vUDPWireH.got = nil
		vUDPWireH.peers = nil
		vUDPWireH.Unlock()
		// (one OS thread for the whole burst: datagrams sent from one CPU stay in order on the loopback interface)
		runtime.LockOSThread()
		defer runtime.UnlockOSThread()
		for i := 0; i < n; i++ {
			body := make([]byte, 10+37*i%900)
			for j := range body {
				body[j] = byte('a' + (i+j)%26)
			}
			d := "MESSAGE sip:s SIP/2.0\r\nCall-ID: burst-" + a[1] + "-" + strconv.Itoa(i) + "\r\nContent-Length: " + strconv.Itoa(len(body)) + "\r\n\r\n" + string(body)
			if _, err := vUDPWireSock.WriteToUDP([]byte(d), vUDPWireAddr); err != nil {
				return "send-error"
			}
		}
		if _, err := vUDPWireSen.WriteToUDP([]byte(sentinel), vUDPWireAddr); err != nil {
			return "send-error"
		}
		deadline := time.After(8 * time.Second)
		for {
			select {
			case <-vUDPWireH.ch:
			case <-deadline:
				return "stalled"
			}
			vUDPWireH.Lock()
			got := append([]*Message(nil), vUDPWireH.got...)
			vUDPWireH.Unlock()
			if len(got) == 0 {
				continue
			}
			// the sentinel is the last datagram sent: it is handed over last (datagrams of one listener are handed to
			// the message loop in the order they arrived); if it was handed over earlier, wait for the rest
			sentinelAt := -1
			for k, m := range got {
				if id, err := m.GetHeaderValue("Call-ID"); err == nil && id == sentinelID {
					sentinelAt = k
				}
			}
			if sentinelAt >= 0 && sentinelAt != len(got)-1 && len(got) < n+1 {
				continue
			}
			if sentinelAt >= 0 {
				count := map[string]int{}
				inOrder := sentinelAt == len(got)-1
				prev := -1
				for k, m := range got {
					if k == sentinelAt {
						continue
					}
					id, _ := m.GetHeaderValue("Call-ID")
					ids := fmt.Sprintf("%v", id)
					count[ids]++
					if j, err := strconv.Atoi(ids[strings.LastIndex(ids, "-")+1:]); err == nil {
						if j < prev {
							inOrder = false
						}
						prev = j
					}
				}
				if !inOrder {
					return "ok n=" + a[0] + " handed-over-out-of-order"
				}
				var lost, dup []string
				for i := 0; i < n; i++ {
					c := count["burst-"+a[1]+"-"+strconv.Itoa(i)]
					if c == 0 {
						lost = append(lost, strconv.Itoa(i))
					} else if c > 1 {
						dup = append(dup, strconv.Itoa(i))
					}
				}
				if len(lost) == 0 && len(dup) == 0 && len(got)-1 == n {
					return "ok n=" + a[0] + " each-once"
				}
				return "ok n=" + a[0] + " lost=[" + strings.Join(lost, ",") + "] duplicated=[" + strings.Join(dup, ",") + "] delivered=" + strconv.Itoa(len(got)-1)
			}
		}
	})
}
