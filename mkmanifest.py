#!/usr/bin/env python3
"""Regenerate MANIFEST.json from props.py (claimed checks) and properties.jsonl (everything else
goes under not_applicable with a reason)."""
import json, os, sys
sys.path.insert(0, os.path.dirname(os.path.abspath(__file__)))
import props as P

V = os.path.dirname(os.path.abspath(__file__))

COMMON_NOTE = ("Trusted: Lean 4.33 kernel; axioms propext/Classical.choice/Quot.sound only (audited every run); the extractor "
               "(tie A) and the differential harness + compiled model driver (tie B); GoStd re-implementation of the Go "
               "stdlib functions used (validated by stream std). ")

PIPE_TIE = ("Tie: the hand-written executable Lean model of the whole per-message pipeline (handleRawMessage, handleDialog, HandleMessage, "
            "transport table, pins, rotation; Proxy/Model.lean over Sip/Message.lean) is run by the compiled driver on the same generated "
            "op lines as the REAL loop goroutine of assembled Proxy objects (harness injected into package main by go test -overlay): "
            "destinations, relayed bytes, transport-table changes and state snapshots must be identical, and the property's oracle - "
            "expectations derived by the generator from the abstract case, independently of code and model - is evaluated on the "
            "implementation's output. ")
PIPE_NOTE = ("Partial on the runtime side: sockets, goroutine scheduling and the OS are outside the model (observed by the wire stage "
             "where one exists); DNS misses count as failures; no time passes inside one case. ")
PIPE_TECH = "Lean 4 proof over a hand-written executable model + differential correspondence (real Proxy loop vs compiled model) with abstract-case oracles"

CLAIMS = {
    "C01": ("proof", "Theorems (Props/C01.lean), for EVERY configuration, state and received message, no hypothesis: every output of one step of the proxy "
            "prints a message whose start line, body and not-owned headers (name, printed value, multiplicity, order) are those of the message received "
            "(C01_step, C01_handleMessage, per-stage C01_handleRawMessage/_handleDialog/_getNextRequestHop/_responseHop/_insertSelf); the bytes on the wire carry "
            "exactly one Content-Length equal to the body size and nothing else but the owned header lines differs (C01_one_content_length, C01_content_length_value, "
            "C01_wire). From/To/CSeq are decoded in place and written back literally (Lemmas.roundTrips_all, after the repairs D6/D25). " + PIPE_TIE +
            "Streams: pipe (requests, responses, dialogs, TCP, twins; legal non-canonical CSeq/From/To/Request-URI spellings; repeated messages; requests over the sibling transport or at another listener entry; requests whose relayed copy is at the limit of one UDP datagram), frame (queued serialisation; operational bufio ops), send (what reaches the next hop across connection faults).",
            "7 C01 and section 14", PIPE_NOTE + "The parsed-to-wire theorem starts from the parsed message; bytes-to-parsed is Lemmas.Message.parse_render (well-formed input). "
            "Known findings: Request-URI with empty password / leading-zero port is re-encoded canonically.", PIPE_TECH),
    "C02": ("proof", "Theorems (Props/C02.lean): a response is relayed iff after popping the top Via another entry remains (C02_relay, C02_no_via_no_send, C02_no_hop_no_send); "
            "the hop is received/rport/sent-by/default port by the stated precedence (C02_hop, C02_sentby, C02_received_rport, C02_received_badrport, C02_received_norport, C02_port); "
            "the remaining Via stack is intact and in order (C02_hop_stack, C02_remaining); lifted to step (C02_step, C02_step_raw). " + PIPE_TIE +
            "Streams: pipe focused on responses with 1-6 Via entries in every layout, every status class, empty reason phrase, byte-identical repetitions; cfg (the host table built from the global and the service's hosts sections); wire (request/response pairs through the real service, the response returns to the true source).",
            "7 C02", PIPE_NOTE, PIPE_TECH),
    "C03": ("proof", "Theorems (Props/C03.lean): at most one output per message (C03_at_most_one); fixed precedence Route > static route > service backend > drop "
            "(C03_route_first, C03_static_second, C03_precedence, C03_precedence_hop/_backend/_drop); a backend target is a member and exactly one (C03_backend_is_member, "
            "C03_backend_exactly_one, C03_backend_none, C03_hop_exactly_one). " + PIPE_TIE + "Stream: the decision table {Route} x {static route} x {Request-URI kind} x {keep} x {transport}.",
            "7 C03", PIPE_NOTE + "The service-name regexp verdict enters the model as an oracle bit computed by the generator (Go regexp is not modelled).", PIPE_TECH),
    "C04": ("proof", "Theorems (Props/C04.lean): pin table laws (C04_get_add_same/_other, C04_get_del_same/_other); a response with both tags from a backend establishes the pin "
            "(C04_pin_established); an in-dialog request goes to the pinned backend whatever the rotation cursor (C04_sticky_step, C04_sticky_any_rotation); the pin survives any "
            "other traffic and other dialogs (C04_pin_survives_other_traffic, C04_pin_survives_other_dialog, runBackend_keeps, C04_sticky); unpinned requests are balanced "
            "(C04_unpinned_balanced). " + PIPE_TIE + "Streams: dialog histories (1-50 dialogs, 2-6 backends, both directions, every method, prefix-related Call-IDs, backends joining and leaving, Expires on in-dialog requests, time passing for the bindings - pipe pinwait), pins under a virtual clock, hand-over order of datagram bursts through the real UDP transport.",
            "7 C04", PIPE_NOTE + "Pin expiry is C15's subject.", PIPE_TECH),
    "C05": ("proof", "Theorems (Props/C05.lean) over the RoundRobinBackend model for every state and history: the target is a current member, an empty set drops (C05_member, "
            "C05_empty_drops, C05_nonempty_sends); any k consecutive dispatches over k backends are a permutation from any cursor (C05_window_perm, via List.rotate_perm) and counts "
            "differ by at most one (C05_counts); removed/added membership (C05_removed_gone, C05_added_joins); list/map agreement for every well-formed history (wf_run, "
            "C05_run_member); the racing theorem over the three separately locked steps (C05_racing). Tie: exhaustive (all sequences to length 5/7) and random differential "
            "histories on the real RoundRobinBackend, plus a racing stage (rr race) under the race detector.",
            "7 C05", "Partial on schedules: interleavings are those of the locked steps; sync.Mutex, the Go scheduler and memory model are trusted.",
            "Lean 4 proof (invariants, induction over histories) + exhaustive/random differential correspondence"),
    "C06": ("proof", "Theorems (Props/C06.lean): the own Via goes on top and the rest of the stack is untouched (C06_insertSelf_via), Record-Route by policy (C06_insertSelf_rr), "
            "Route untouched (C06_insertSelf_route); shape of the own Via / Record-Route (C06_ownVia_fields, C06_ownVia_shape_*, C06_ownRecordRoute_shape); which listener inserts itself "
            "on each path (C06_sendToBackend, C06_relay_learned, C06_relay_unlearned, C06_step_backend, C06_step_relay, C06_step_cover). " + PIPE_TIE +
            "Streams: pipe requests with learned/not-learned next hops, one or several listeners; branch freshness counted over the run.",
            "7 C06", PIPE_NOTE + "Freshness of branches rests on uuid.NewRandom (an oracle parameter of the model).", PIPE_TECH),
    "C07": ("proof", "Theorems (Props/C07.lean): stamping sets received to the source, rport only when asked for, keeps every other parameter and entry in order "
            "(C07_received, C07_rport_present, C07_rport_absent, C07_other_params_order, C07_stack, C07_frame), lifted to handleRawMessage and step for both values of received-support "
            "(C07_handleRawMessage, C07_step_enabled, C07_step_disabled). Regenerated-fact obligations: the YAML no-received flag reaches every listener constructor "
            "(Expected.Wiring) and every constructor stores it (Expected.Ctors). " + PIPE_TIE + "Plus a wire stage: the real startProxy from YAML over UDP and TCP, including "
            "listeners created for connections the proxy dialed itself.",
            "7 C07", PIPE_NOTE, "Lean 4 proof + kernel-checked obligations on regenerated wiring facts + differential correspondence + wire stage"),
    "C08": ("proof", "Theorems (Props/C08.lean): the modelled parser is total (Lean's termination checker: no input-dependent non-termination) and what it keeps is bounded by what it "
            "received (C08_body_bounded, C08_headers_bounded, C08_message_bounded, C08_stream_bounded); each extracted message consumes input (C08_progress); an undecodable stream "
            "closes the connection and the loop keeps serving (C08_undecodable_closes, C08_keeps_serving). Regenerated-fact obligation: the inventory of every index/slice/type "
            "assertion/map write with its guards equals the reviewed snapshot (Expected.Inventory). Tie: accept/reject of mutated byte strings vs the model, robustness oracle "
            "(no panic, bounded allocation, no stall) through the real pipeline over UDP and TCP paths, liveness probes, the real TCP receive loop on streams that stop decoding (the connection must be closed); a dying process is attributed to the op that killed it; wire stage: largest-size datagrams routed back to their sender and two listener entries flooded towards unknown next-hop names, each followed by liveness probes; udpwire flood (20 000 datagrams while the consumer is busy). The bounds also hold for the operational bufio.Reader model over every segmentation (C08_bufio_stream_bounded, C08_bufio_buffer_bounded, C08_bufio_line_bounded).",
            "7 C08", "Partial: Go runtime, GC, channel back-pressure, DNS latency and kernel buffers are not modelled; nil dereferences are not inventoried.",
            "Lean 4 proof over a total model + kernel-checked inventory obligation + differential correspondence with robustness oracle"),
    "C09": ("proof", "Theorems (Props/C09.lean) over a lock/thread model (Side/Lockset.lean): mutual exclusion of the lock semantics (mutual_exclusion), every reachable state of "
            "a disciplined program is race free (C09_disciplined_no_race), a decidable discipline check on an access table is sound (disciplinedB_sound, C09_table_no_race), "
            "no lock cycle means no deadlock (C09_no_lock_cycle_no_deadlock, C09_progress), and the converse witnesses (C09_undisciplined_races, C09_opposite_order_deadlocks). "
            "Regenerated-fact obligation: the access table extracted from /repo (every field access with the locks held, constructor flag, goroutine role) satisfies the discipline "
            "(Expected.Locks.repo_disciplined, decide +kernel), plus the sharing facts (Expected.Wiring). Tie: stress of several real Proxy loops of one service with membership "
            "changes, pool, transport table and resolver traffic under the Go race detector, plus a real two-listener service started through startProxy, several backend connections dying at once, and bursts through the real UDP transport; every race report is a violation keyed by its two code locations; an op that never returns is a violation (watchdog).",
            "7 C09", "Partial: the Go memory model and scheduler are trusted (DRF-SC); the extractor's role assignment (which goroutine runs which function) is hand-written in "
            "Expected/Locks.lean; AddBackend/RemoveBackend send to the loop's event channel (capacity 1000) while holding the rotation lock - assumed never full.",
            "Lean 4 proof (lockset discipline) + kernel-checked obligation on the regenerated access table + race-detector stress (incl. TCP backend membership churn with liveness probes) + concurrent-use ops with sequential answers as reference (route conc, codec conc, wire pair) + TCP framing stream with queued serialisation"),
    "C10": ("proof", "Theorems (Props/C10.lean): what is decoded from a datagram is a function of its own bytes (C10_local, C10_within_datagram), stale buffer content is invisible "
            "(C10_stale_invisible), over-declared and truncated datagrams are rejected (C10_overdeclared_udp, C10_truncated_udp, ...), pool buffers are exclusive "
            "(C10_pool_invariant, C10_pool_exclusive, C10_pool_held_distinct). Regenerated-fact obligations on the reader (Expected.Reader: parse over b[:n], loop shape). "
            "Tie: every datagram goes through the REAL startParseMessage in a clean and in a dirty 64 KiB pooled buffer with deferred serialisation; "
            "stream udpwire drives the real UDPServerTransport (receive loop, parse loop, pool) on a loopback socket with datagrams of very different sizes "
            "one after the other, a 20 000-datagram flood while the consumer is busy (every message that comes out is intact and comes out at most once); wire focus c10: two listener entries of a real service relaying at the same time, every datagram checked at the backend; pool exclusivity is an oracle on the implementation's answers.",
            "7 C10", "Partial: kernel datagram boundaries and the scheduler are not modelled.", "Lean 4 proof + differential correspondence (clean/dirty buffers, queued serialisation)"),
    "C11": ("proof", "Theorems (Props/C11.lean): the messages extracted from a byte stream are a function of the stream, not of its segmentation (C11_segmentation_independent, "
            "C11_any_split_exact, C11_exact_messages, C11_messages_then); a line read in fragments is their concatenation, and the uncopied variant corrupts (C11_fragments_joined, "
            "C11_fragments_uncopied_corrupt). The reader is no longer taken at its contract: Reader/Bufio.lean is an operational model of bufio.Reader (ReadSlice/ReadLine with ErrBufferFull fragments and CR put-back, "
            "ReadByte/UnreadByte, Read under io.CopyN) and of message.go's readLine join loop, skipWhiteSpace and ParseMessage on it; for EVERY segmentation and EVERY buffer size >= 2 the operational loop "
            "extracts exactly the messages of the logical stream (C11_bufio_refines, C11_bufio_segmentation_independent, C11_bufio_any_split_exact, C11_bufio_readLine_any_length, C11_bufio_udp; Lemmas/Bufio.lean). "
            "Tie: generated message sequences under scripted segmentations (exhaustive single/double cuts, random cuts to 1-byte segments, 20 KiB "
            "lines, SIP-looking bodies, keep-alives) through the REAL per-connection loop TCPServerTransport.receiveMessage over a connection double that delivers exactly the scripted segments, with queued serialisation; "
            "ops blines/bparse run the real readLine / ParseMessage on a real bufio.Reader of capacity N (16..4096) against the operational reader model (fragment boundaries, CR at the last byte of the buffer, CR CR LF, unterminated ends).",
            "7 C11 and 14.8", "Partial: the kernel's TCP stack is outside the model; the operational bufio model retries empty Reads for ever (io.ErrNoProgress after 100 is not modelled) and treats every read error as end of stream; slice aliasing of the first ReadLine fragment is covered by joinFragments + regenerated fact F8, not by the operational model.", "Lean 4 proof (refinement of an operational bufio.Reader model to the logical stream) + exhaustive/random segmentation correspondence"),
    "C12": ("proof", "Theorems (Props/C12.lean): the transport key determines (host, port, transaction) and distinct transactions of received messages never share a key, "
            "with no hypothesis on the method (C12_key_injective, C12_tid_method_no_blank, C12_distinct_transactions_distinct_keys); registration then lookup under any interleaving "
            "of other keys answers with the request's connection (C12_invariant, C12_registered_lookup, C12_two_connections_same_address); the registration key is the lookup key "
            "for every hop host (C12_registration_key_is_lookup_key) so the response is written on the request's connection and nowhere else (C12_request_registers, "
            "C12_response_on_request_connection, C12_same_hop_same_connection); a final response removes exactly its key (C12_remove_exact, C12_sendMessage_table). " + PIPE_TIE +
            "Stream: 2-8 connection doubles, equal/different sent-by (IP literals and host names), received on/off, interleaved transactions, '-' in extension methods, RFC 2543 forks (cookie-less branches, same Call-ID and CSeq); wire focus c12: answers that take 5.6 s (thorough: up to 31 s) return on the request's real TCP connection, and an answer after the sender closed its connection is dialled to the Via address.",
            "7 C12", PIPE_NOTE + "Connections are doubles in the in-package stage; real sockets are exercised by the wire stage (focus c12).", PIPE_TECH),
    "C13": ("proof", "Theorems (Props/C13.lean): the own top Route entry is consumed exactly when it designates the receiving listener (C13_own_route, C13_designates, C13_port); "
            "the next hop is the first remaining entry (C13_hop, C13_hop_abs, C13_hop_none); keep/strip of the next-hop entry by configuration (C13_keep, C13_strip); "
            "the other stacks are untouched (C13_other_stacks); lifted to step (C13_step). " + PIPE_TIE + "Streams: Route sets of 0-6 entries in any layout, own entry by address/alias/with "
            "and without port, near misses, the listener named twice, messages over either transport of a listener entry; requests on accepted TCP connections whose registration fails (no Via, no branch); cfg (every spelling of the keepNextHopRoute setting through toKeepNextHopRoute; the host table built from the global and the service's hosts sections - the aliases a Route entry may name).",
            "7 C13", PIPE_NOTE, PIPE_TECH),
    "C14": ("proof", "Theorems (Props/C14.lean, 52): per-type round-trip laws parse(encode x) = x and re-encode stability on explicit decidable domains, and accessor theorems "
            "(host, port, transport, tag, branch, received, rport) for key/value parameters, URI parameters and headers, SIP URIs, absolute URIs, addr-spec, name-addr, Via entries "
            "and lists, Route/Record-Route entries and lists; From/To/CSeq are lossless for EVERY text (C14_from_to_lossless, C14_cseq_lossless). Tie: grammar-directed "
            "differential stream whose expected decodes and accessor values are computed from the abstract value independently of code and model (every text is decoded twice, the first decoded value consumed in between); stdlib micro-correspondence "
            "underneath (stream std); codec conc: the decoders run from four goroutines at once, every report equals the one obtained alone. Obligation on regenerated facts: the program has no process-wide state beyond four known variables (Expected.Globals).",
            "7 C14", "Known findings (known_findings.json): IPv6 references, ';'/'?' in user parts (named by the property), empty password, port with leading zeros.",
            "Lean 4 proof (round-trip laws on decidable domains) + grammar-directed differential correspondence"),
    "C15": ("proof", "Theorems (Props/C15.lean) over the DialogBasedBackend model with explicit time, for arbitrary histories of add/get/remove at non-decreasing instants: a pin is "
            "honoured strictly before t0+max(timeout,Expires) whatever else happens (C15_honoured, C15_lifetime), never from that instant on (C15_not_after), gone after remove "
            "(C15_terminated), and after any add no entry that expired more than one timeout earlier survives (sweepInv_run, C15_purged). Tie: differential histories on the real "
            "object under a virtual clock (stored instants shifted); the dialog histories of the pipeline (re-pins, rejected re-INVITEs); a two-service configuration started through startProxies in real time (the dialog timeout of one service does not leak into the next; a service's own dialogTimeout beats DEFAULT_DIALOG_TIMEOUT of the environment); time passing inside the pipeline stage (pipe pinwait: lifetimes from Side.Pins.lifetime) with Expires headers on in-dialog requests - after the lifetime, and after a terminating NOTIFY, two consecutive requests of the dialog reach two different backends (sound by Props.C05.C05_consecutive_distinct).",
            "7 C15", "Partial: wall-clock behaviour (timer granularity, scheduling) is not modelled.", "Lean 4 proof (history invariants) + virtual-clock differential correspondence"),
    "C16": ("proof", "Theorems (Props/C16.lean): the identifier is direction independent (C16_symmetric, C16_direction_independent), unaffected by display names, URI parameters, "
            "other header parameters and header spelling (C16_decorations, C16_display_name, C16_other_params, C16_header_spelling), absent without either tag (C16_no_from_tag, "
            "C16_no_to_tag), and injective on the discriminating components (C16_injective, C16_same_dialog_iff, C16_discriminating); witnesses for the excluded points "
            "(C16_blank_inside_collides, C16_colon_in_host_collides). Tie: exhaustive assignments over small alphabets x orientations x request/response x decorations through the "
            "real GetDialog with a bijection oracle over the whole run.",
            "7 C16", "Components free of blanks (true of Call-IDs, tags and URIs).", "Lean 4 proof + exhaustive differential correspondence with bijection oracle"),
    "C17": ("proof", "Theorems (Props/C17.lean, Lemmas/Spell, PipeRel, Layout, LayoutPipe): re-spelling header names (letter case, compact forms) of a message gives the same state, the "
            "same destinations and re-spelled payloads through the WHOLE step (C17_respell_step, C17_respell_run, C17_bytes, C17_letter_case, C17_compact_form, C17_real_table); "
            "splitting a Via/Route/Record-Route list over several lines or joining it gives the same stacks, hops and content (C17_stack_split, C17_relayout_step, C17_relayout_run, "
            "C17_relayout_content); witnesses for what is needed (C17_sanity_needed, C17_split_fail). Obligation on regenerated facts: no header name is compared with == "
            "(Expected.Wiring). " + PIPE_TIE + "Stream: metamorphic twins (same structure stream, different spelling/layout stream) compared pairwise.",
            "7 C17", PIPE_NOTE, "Lean 4 proof (relation lifted through the pipeline) + metamorphic differential correspondence"),
    "C18": ("proof", "Theorems (Props/C18.lean): characterisation of pattern matching (glob_literal, glob_star, glob_cons), the precedence literal > first matching pattern in "
            "configuration order > default > none (C18_literal_wins, C18_wildcard_next, C18_default_last, C18_precedence), determinism (C18_deterministic), next-hop port defaults. "
            "Obligation on regenerated facts: FindRoute ranges over no map (Expected.Routes). Tie: exhaustive tables over the pattern universe x all hosts, each lookup repeated 50 times; tables built from a YAML configuration through createPreConfigRoute (several dests per entry), the same configuration rebuilt several times; the request pipeline with repeated To hosts and To URIs with explicit ports; route conc: four goroutines look hosts up in one table, every answer equals the answer given alone.",
            "7 C18", "Assumption (validated exhaustively by the stream, not a theorem): on patterns over [A-Za-z0-9._*-] Go's regexp of the escaped pattern decides the model's glob.",
            "Lean 4 proof + exhaustive differential correspondence"),
    "C19": ("proof", "Theorems (Props/C19.lean): for every history of duplicate-free resolutions and failures the rotation list, its map and the proxy's address index hold exactly the "
            "current resolved set (C19_tracks, C19_history); up to three consecutive failures change nothing, the fourth empties a non-empty set (C19_tolerance, C19_fourth_empties, "
            "failLimit_is_three). Tie: exhaustive (length 3/5 over subsets of 3) and random outcome histories fed to the real addressResolved, through a hand-assembled rotation and "
            "through the real CreateRoundRobinBackend with the global resolver; for udp rotations one full dispatch round is observed on real sockets bound at every candidate address (who receives, not only what the tables say); resolution failures of several kinds (generic, no such host, time-out); the pipeline dialog stream with backends joining and leaving (an address that answered before it joined is recognised as a backend afterwards).",
            "7 C19", "Partial: notifications run in fresh goroutines; the model is the synchronous composition the property's quiescence grants (the harness waits until no goroutine "
            "has notifyAddressChanged on its stack). Two names with overlapping images are outside the theorem.",
            "Lean 4 proof (membership invariants) + exhaustive differential correspondence"),
    "C20": ("proof", "Theorems (Props/C20.lean) over the send loops for every fault oracle: success implies exactly one completed write, error implies none (C20_client, C20_backend, "
            "C20_failover), fallback to a fresh connection within the same send (C20_fallback, C20_fallback_backend, C20_failover_to_secondary), refusal yields an error - total "
            "functions, no hang (C20_refusal), the working connection is reused (C20_sticks), retry bound (retries_is_two). Tie: exhaustive fault patterns (scripted connection "
            "doubles x real loopback listener up/down/accept-then-reset x 1-3 messages), observed synchronously; partial writes, connections closed on the proxy's side, idle periods with a reader goroutine attached, a configured local port.",
            "7 C20", "Partial: 'written' means Write returned nil; ops after an accept-then-reset are compared by the oracle only (outcome depends on the peer's RST).",
            "Lean 4 proof (loop induction over fault oracles) + exhaustive fault enumeration"),
}


def main():
    allp = [json.loads(l) for l in open(os.path.join(V, "properties.jsonl"))]
    m = json.load(open(os.path.join(V, "MANIFEST.json")))
    checks = []
    for p in allp:
        pid = p["id"]
        if pid in P.PROPS and pid in CLAIMS:
            cat, text, ref, note, tech = CLAIMS[pid]
            checks.append({
                "property_id": pid,
                "quick_cmd": "./check %s --tier quick" % pid,
                "thorough_cmd": "./check %s --tier thorough" % pid,
                "evidence_file": "/verif/evidence/%s.json" % pid,
                "replay_cmd_template": "./check %s --replay {path}" % pid,
                "engine": "lean-proofs",
                "level_claimed": {"category": cat, "text": text, "design_ref": "DESIGN.md section " + ref},
                "level_note": COMMON_NOTE + note,
                "technique": tech,
            })
    m["checks"] = checks
    claimed = {c["property_id"] for c in checks}
    m["not_applicable"] = [{"property_id": p["id"], "reason": "not yet claimed: model/stream under construction (DESIGN.md section 7); the technique applies"} for p in allp if p["id"] not in claimed]
    for e in m["engines"]:
        e["serves_properties"] = sorted(claimed)
    m["notes"] = "All checks: ./check <id> --tier quick|thorough; known findings in known_findings.json; seeded changes in seeded/."
    json.dump(m, open(os.path.join(V, "MANIFEST.json"), "w"), indent=1)
    print("claimed:", sorted(claimed))


if __name__ == "__main__":
    main()
