#!/usr/bin/env python3
"""Regenerate MANIFEST.json from props.py (claimed checks) and properties.jsonl (everything else
goes under not_applicable with a reason)."""
import json, os, sys
sys.path.insert(0, os.path.dirname(os.path.abspath(__file__)))
import props as P

V = os.path.dirname(os.path.abspath(__file__))

COMMON_NOTE = ("Trusted: Lean 4.33 kernel; axioms propext/Classical.choice/Quot.sound only (audited every run); the extractor "
               "(tie A) and the differential harness + compiled model driver (tie B); GoStd re-implementation of the Go "
               "stdlib functions used (validated by stream std). ")

PIPE_TEXT = ("Executable Lean model of the whole per-message pipeline (handleRawMessage, handleDialog, HandleMessage, transport table, pins, rotation) tied to proxy.go/message.go/transport.go by differential execution through the REAL loop goroutine of assembled Proxy objects: outputs (destination, bytes), transport-table changes and state snapshots must be identical; predictions derived from the abstract case are checked on the implementation's output. Theorems about the model are in Props/.")
PIPE_NOTE = "Partial: sockets, goroutine scheduling and the OS are outside the model; DNS misses count as failures; time does not pass inside a case."
PIPE_TECH = "Lean model + differential pipeline correspondence with abstract-case oracles"

CLAIMS = {
    "C05": ("proof", "Lean theorems over the RoundRobinBackend model for every state and history: target is a current member, empty set drops, any k consecutive dispatches are a permutation of the k backends from any cursor, floor/ceil counts, removed/added membership, list/map agreement for every well-formed history, and the racing theorem over the three locked steps. Tied to backend.go by exhaustive (all sequences to length 5/7) and random differential histories on the real RoundRobinBackend, with the rotation oracle evaluated on the implementation's trace.",
            "7 C05", "Partial on schedules: interleavings are those of the locked steps; sync.Mutex, the Go scheduler and memory model are trusted. The theorem that the trace oracle accepts every model history is not yet proved (the oracle runs on the implementation only).",
            "Lean proof (invariants, induction over histories, List.rotate_perm) + differential correspondence"),
    "C14": ("proof", "Lean theorems over the codec model (split/join inverse laws; per-type round-trip theorems being extended) tied to the Go parsers/encoders by a grammar-directed differential stream whose expected decodes and accessor values are computed from the abstract value, independently of code and model; stdlib micro-correspondence underneath.",
            "7 C14", "IPv6 references and ';'/'?' in user parts are the property's own known findings (known_findings.json). Unicode case folding of header names outside ASCII is not modelled.",
            "Lean proof (split/join inverse laws) + grammar-directed differential correspondence"),
    "C15": ("proof", "Lean theorems over the DialogBasedBackend model with explicit time, for arbitrary histories of add/get/remove at non-decreasing instants: a pin is honoured strictly before t0+max(timeout,Expires) whatever else happens, never from that instant on, gone after remove, and (sweep invariant) after any add no entry that expired more than one timeout earlier survives, whatever Expires values were used. Tied to backend.go by differential histories on the real object under a virtual clock (stored instants shifted), with the lifetime/purge oracle evaluated on the implementation.",
            "7 C15", "Partial: wall-clock behaviour (timer granularity, scheduling) is not modelled; the float comparison in AddBackend is exact only for whole-second timeouts; BYE/NOTIFY wiring to remove() belongs to the pipeline model (C04).",
            "Lean proof (history invariants) + virtual-clock differential correspondence"),
    "C18": ("proof", "Lean theorems over the PreConfigRoute model: characterisation of pattern matching ('*' any sequence, every other byte itself), the precedence literal > first matching pattern in configuration order > default > none proved against the very oracle evaluated on the implementation, determinism, next-hop port defaults. Tied to preconfig_route.go by exhaustive tables (<=3/4 entries over the pattern universe) x all hosts with each lookup repeated 50 times.",
            "7 C18", "Assumption (not a theorem): on patterns over [A-Za-z0-9._*-] Go's regexp of the escaped pattern decides the same relation as the model's glob; validated exhaustively by the stream.",
            "Lean proof + exhaustive differential correspondence"),
    "C19": ("proof", "Lean theorems over the resolver/rotation model: for every history of duplicate-free IPv4 resolutions and failures the rotation list, its address map and the proxy's address index hold exactly the current resolved set; up to three consecutive failures change nothing, the fourth empties a non-empty set and resets the count. Tied to resolver.go/backend.go by exhaustive (length 3/5 over subsets of 3) and random outcome histories fed to the real addressResolved with real UDP/TCP backends.",
            "7 C19", "Partial: notifications run in fresh goroutines; the model is the synchronous composition the property's quiescence grants. One host name per rotation in the theorem (two names are exercised by the stream).",
            "Lean proof (membership invariants) + exhaustive differential correspondence"),
    "C20": ("proof", "Lean theorems over the send loops for every fault oracle: success implies exactly one completed write, error implies none (client transport, TCP backend, fail-over), fallback to a fresh connection within the same send, refusal yields an error (total functions: no hang), the working connection is reused first. Tied to transport.go/backend.go by the exhaustive fault-pattern stream (scripted connection doubles x real loopback listener up/down x 1-3 messages).",
            "7 C20", "Partial: 'written' means Write returned nil; accept-then-reset peers are not scripted (outcome depends on RST timing).",
            "Lean proof (loop induction over fault oracles) + exhaustive fault enumeration"),
    "C01": ("proof", PIPE_TEXT + " C01: the relay oracle (start line, every non-routing header with name/value/multiplicity/order, body, exactly one Content-Length equal to the body size) is evaluated with an independent reader on every relayed message of every path.",
            "7 C01", PIPE_NOTE, PIPE_TECH),
    "C02": ("proof", PIPE_TEXT + " C02: responses with 1-6 Via entries in every layout; expected destination (received/rport/sent-by/default port, host table, supported transports) and remaining Via stack predicted from the abstract case.",
            "7 C02", PIPE_NOTE, PIPE_TECH),
    "C03": ("proof", PIPE_TEXT + " C03: the decision table {Route} x {static route} x {Request-URI} x {keep} x {transport}; exactly one destination by fixed precedence or none.",
            "7 C03", PIPE_NOTE + " The service-name regexp verdict is an oracle computed by the generator.", PIPE_TECH),
    "C04": ("proof", PIPE_TEXT + " C04: histories of 1-50 concurrent dialogs over 2-6 backends, pins by INVITE answers from a backend address and by SUBSCRIBE answers towards a backend, in-dialog requests of every method in both directions, unrelated traffic, early termination.",
            "7 C04", PIPE_NOTE + " Pin expiry is C15's subject (no time passes inside one case).", PIPE_TECH),
    "C06": ("proof", PIPE_TEXT + " C06: own Via (listener transport/address/port, fresh z9hG4bK branch) on top, Record-Route by policy, learned / not learned next hops, one or several listeners; branch freshness is counted over the run.",
            "7 C06", PIPE_NOTE + " Freshness of branches rests on uuid.NewRandom (oracle).", PIPE_TECH),
    "C07": ("proof", PIPE_TEXT + " C07: stamping of received/rport on the sender's Via for both values of received-support; the YAML wiring of no-received into every listener constructor is a kernel-checked obligation on regenerated call-site facts (Expected.Wiring) and is exercised end to end by the wire stage (real startProxy, UDP and TCP, response returns to the true source).",
            "7 C07", PIPE_NOTE, "Lean obligation on regenerated wiring facts + differential pipeline correspondence + wire stage"),
    "C12": ("proof", PIPE_TEXT + " C12: 2-8 simultaneous connection doubles from 127.0.0.1 with equal/different sent-by, interleaved transactions, provisional and first final responses must be written on the connection the request used; the transport table is compared with the model after every case.",
            "7 C12", PIPE_NOTE + " Hypotheses: methods without '-', sent-by IP literals or received-support on (D17), entries younger than one hour.", PIPE_TECH),
    "C13": ("proof", PIPE_TEXT + " C13: Route sets of 0-6 entries in any layout; own entry by address/alias/with and without port, near misses, keep-next-hop-route on/off; the relayed Route stack is predicted from the abstract case.",
            "7 C13", PIPE_NOTE, PIPE_TECH),
    "C17": ("proof", PIPE_TEXT + " C17: metamorphic twins (same structure stream, different spelling/layout stream) are compared pairwise on destination, Via/Route/Record-Route stacks, remaining headers up to name class, and body; plus the obligation that no header name is compared with == anywhere (Expected.Wiring).",
            "7 C17", PIPE_NOTE, "metamorphic differential correspondence + Lean obligation on regenerated facts"),
    "C16": ("proof", "Dialog identity: exhaustive assignments over small alphabets (incl. equal URIs, equal tags, '-'-containing values) x both orientations x request/response x decorations, plus random long identifiers, through the real GetDialog; the oracle demands a bijection between abstract dialog keys and implementation identifiers over the whole run; model and implementation identifiers are compared byte for byte. Theorems on the identifier function are being added to Props/C16.",
            "7 C16", "Components free of blanks (true of Call-IDs, tags and URIs).", "differential correspondence with bijection oracle + Lean model"),
    "C10": ("proof", "UDP isolation: every datagram is pushed through the REAL parse loop (startParseMessage) in a clean and in a dirty 64 KiB buffer; cut, over- and under-declared datagrams; identical outcome required and over-declared/truncated ones must be rejected; pool exclusivity by exhaustive and random Alloc/Free histories against the pool model. Theorems in Props/C10.",
            "7 C10", "Partial: kernel datagram boundaries and the scheduler are not modelled.", "Lean model + differential correspondence (clean/dirty buffers)"),
    "C11": ("proof", "TCP framing: generated message sequences under scripted segmentations (exhaustive single and double cuts of short streams, random multi-cuts down to 1-byte segments, header lines up to 20 KiB, SIP-looking bodies, keep-alives) through ParseMessage on one bufio.Reader; the model extracts messages from the joined stream, so any dependence on segmentation is a disagreement. Theorems in Props/C11.",
            "7 C11", "Partial: bufio.Reader is represented by its contract.", "Lean model + exhaustive/random segmentation correspondence"),
    "C08": ("proof", "Robustness: accept/reject of arbitrary mutated byte strings compared with the model's total parser (Lean's termination checker = no input-dependent non-termination in the modelled code); robustness oracle (no panic, allocation bounded by bytes received) on the parser and on the whole pipeline for hostile field values over UDP and TCP paths; liveness probes after hostile input; a dying harness process is attributed to the op that killed it. Thorough tier adds Go's coverage-guided fuzzer on the same entry point.",
            "7 C08", "Partial: Go runtime, GC, channel back-pressure, DNS latency and kernel buffers are not modelled; nil dereferences are not inventoried.", "total Lean model + differential correspondence + robustness oracle"),
    "C09": ("proof", "Concurrency: several real Proxy loops of one service (shared self-learned route table) are fed concurrently while backends are added/removed and the pool, transport table and a resolver are used from other goroutines, under the Go race detector; every request must reach exactly one backend; every data-race report is a violation keyed by its two code locations. The sharing facts (one SelfLearnRoute per service, one Proxy per listener) are kernel-checked obligations on regenerated wiring facts.",
            "7 C09", "Partial: the Go memory model and scheduler are not modelled (DRF-SC trusted); AddBackend/RemoveBackend send to the loop's event channel (capacity 1000) while holding the rotation lock - assumed never full.", "race-detector stress + Lean obligation on regenerated sharing facts"),
}


def main():
    allp = [json.loads(l) for l in open(os.path.join(V, "properties.jsonl"))]
    m = json.load(open(os.path.join(V, "MANIFEST.json")))
    checks = []
    for p in allp:
        pid = p["id"]
        if pid in P.PROPS and pid in CLAIMS:
            cat, text, ref, note, tech = CLAIMS[pid]
            checks.append({
                "property_id": pid,
                "quick_cmd": "./check %s --tier quick" % pid,
                "thorough_cmd": "./check %s --tier thorough" % pid,
                "evidence_file": "/verif/evidence/%s.json" % pid,
                "replay_cmd_template": "./check %s --replay {path}" % pid,
                "engine": "lean-proofs",
                "level_claimed": {"category": cat, "text": text, "design_ref": "DESIGN.md section " + ref},
                "level_note": COMMON_NOTE + note,
                "technique": tech,
            })
    m["checks"] = checks
    claimed = {c["property_id"] for c in checks}
    m["not_applicable"] = [{"property_id": p["id"], "reason": "not yet claimed: model/stream under construction (DESIGN.md section 7); the technique applies"} for p in allp if p["id"] not in claimed]
    for e in m["engines"]:
        e["serves_properties"] = sorted(claimed)
    m["notes"] = "All checks: ./check <id> --tier quick|thorough; known findings in known_findings.json; seeded changes in seeded/."
    json.dump(m, open(os.path.join(V, "MANIFEST.json"), "w"), indent=1)
    print("claimed:", sorted(claimed))


if __name__ == "__main__":
    main()
