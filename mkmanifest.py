#!/usr/bin/env python3
"""Regenerate MANIFEST.json from props.py (claimed checks) and properties.jsonl (everything else
goes under not_applicable with a reason)."""
import json, os, sys
sys.path.insert(0, os.path.dirname(os.path.abspath(__file__)))
import props as P

V = os.path.dirname(os.path.abspath(__file__))

COMMON_NOTE = ("Trusted: Lean 4.33 kernel; axioms propext/Classical.choice/Quot.sound only (audited every run); the extractor "
               "(tie A) and the differential harness + compiled model driver (tie B); GoStd re-implementation of the Go "
               "stdlib functions used (validated by stream std). ")

CLAIMS = {
    "C05": ("proof", "Lean theorems over the RoundRobinBackend model for every state and history: target is a current member, empty set drops, any k consecutive dispatches are a permutation of the k backends from any cursor, floor/ceil counts, removed/added membership, list/map agreement for every well-formed history, and the racing theorem over the three locked steps. Tied to backend.go by exhaustive (all sequences to length 5/7) and random differential histories on the real RoundRobinBackend, with the rotation oracle evaluated on the implementation's trace.",
            "7 C05", "Partial on schedules: interleavings are those of the locked steps; sync.Mutex, the Go scheduler and memory model are trusted. The theorem that the trace oracle accepts every model history is not yet proved (the oracle runs on the implementation only).",
            "Lean proof (invariants, induction over histories, List.rotate_perm) + differential correspondence"),
    "C14": ("proof", "Round-trip theorems over the codec model (in progress: key/value layer proved; per-type theorems being added) tied to the Go parsers/encoders by a grammar-directed differential stream whose expected decodes come from the abstract value, independently of code and model; stdlib micro-correspondence underneath.",
            "7 C14", "IPv6 references and ';'/'?' in user parts are the property's own known findings (known_findings.json). Unicode case folding of header names outside ASCII is not modelled.",
            "Lean proof (split/join inverse laws) + grammar-directed differential correspondence"),
    "C15": ("proof", "Lean theorems over the DialogBasedBackend model with explicit time, for arbitrary histories of add/get/remove at non-decreasing instants: a pin is honoured strictly before t0+max(timeout,Expires) whatever else happens, never from that instant on, gone after remove, and (sweep invariant) after any add no entry that expired more than one timeout earlier survives, whatever Expires values were used. Tied to backend.go by differential histories on the real object under a virtual clock (stored instants shifted), with the lifetime/purge oracle evaluated on the implementation.",
            "7 C15", "Partial: wall-clock behaviour (timer granularity, scheduling) is not modelled; the float comparison in AddBackend is exact only for whole-second timeouts; BYE/NOTIFY wiring to remove() belongs to the pipeline model (C04).",
            "Lean proof (history invariants) + virtual-clock differential correspondence"),
    "C18": ("proof", "Lean theorems over the PreConfigRoute model: characterisation of pattern matching ('*' any sequence, every other byte itself), the precedence literal > first matching pattern in configuration order > default > none proved against the very oracle evaluated on the implementation, determinism, next-hop port defaults. Tied to preconfig_route.go by exhaustive tables (<=3/4 entries over the pattern universe) x all hosts with each lookup repeated 50 times.",
            "7 C18", "Assumption (not a theorem): on patterns over [A-Za-z0-9._*-] Go's regexp of the escaped pattern decides the same relation as the model's glob; validated exhaustively by the stream.",
            "Lean proof + exhaustive differential correspondence"),
    "C19": ("proof", "Lean theorems over the resolver/rotation model: for every history of duplicate-free IPv4 resolutions and failures the rotation list, its address map and the proxy's address index hold exactly the current resolved set; up to three consecutive failures change nothing, the fourth empties a non-empty set and resets the count. Tied to resolver.go/backend.go by exhaustive (length 3/5 over subsets of 3) and random outcome histories fed to the real addressResolved with real UDP/TCP backends.",
            "7 C19", "Partial: notifications run in fresh goroutines; the model is the synchronous composition the property's quiescence grants. One host name per rotation in the theorem (two names are exercised by the stream).",
            "Lean proof (membership invariants) + exhaustive differential correspondence"),
    "C20": ("proof", "Lean theorems over the send loops for every fault oracle: success implies exactly one completed write, error implies none (client transport, TCP backend, fail-over), fallback to a fresh connection within the same send, refusal yields an error (total functions: no hang), the working connection is reused first. Tied to transport.go/backend.go by the exhaustive fault-pattern stream (scripted connection doubles x real loopback listener up/down x 1-3 messages).",
            "7 C20", "Partial: 'written' means Write returned nil; accept-then-reset peers are not scripted (outcome depends on RST timing).",
            "Lean proof (loop induction over fault oracles) + exhaustive fault enumeration"),
}


def main():
    allp = [json.loads(l) for l in open(os.path.join(V, "properties.jsonl"))]
    m = json.load(open(os.path.join(V, "MANIFEST.json")))
    checks = []
    for p in allp:
        pid = p["id"]
        if pid in P.PROPS and pid in CLAIMS:
            cat, text, ref, note, tech = CLAIMS[pid]
            checks.append({
                "property_id": pid,
                "quick_cmd": "./check %s --tier quick" % pid,
                "thorough_cmd": "./check %s --tier thorough" % pid,
                "evidence_file": "/verif/evidence/%s.json" % pid,
                "replay_cmd_template": "./check %s --replay {path}" % pid,
                "engine": "lean-proofs",
                "level_claimed": {"category": cat, "text": text, "design_ref": "DESIGN.md section " + ref},
                "level_note": COMMON_NOTE + note,
                "technique": tech,
            })
    m["checks"] = checks
    claimed = {c["property_id"] for c in checks}
    m["not_applicable"] = [{"property_id": p["id"], "reason": "not yet claimed: model/stream under construction (DESIGN.md section 7); the technique applies"} for p in allp if p["id"] not in claimed]
    for e in m["engines"]:
        e["serves_properties"] = sorted(claimed)
    m["notes"] = "All checks: ./check <id> --tier quick|thorough; known findings in known_findings.json; seeded changes in seeded/."
    json.dump(m, open(os.path.join(V, "MANIFEST.json"), "w"), indent=1)
    print("claimed:", sorted(claimed))


if __name__ == "__main__":
    main()
