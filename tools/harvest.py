#!/usr/bin/env python3
"""harvest.py confirm <Cxx> <mN> — confirm one seeded change in a scratch worktree of /repo (outside /repo and
/verif), and print a JSON record: patch applies to HEAD, builds, the pinned suite passes with it, the
demonstration fails with it and passes without it. The worktree is removed afterwards."""
import subprocess, sys, os, json, re, shutil
ENV = dict(os.environ, GOFLAGS="-mod=mod", GOPROXY="off", GOSUMDB="off", GOTOOLCHAIN="local")
def sh(cmd, cwd=None, timeout=1500):
    try:
        r = subprocess.run(cmd, shell=True, cwd=cwd, env=ENV, stdout=subprocess.PIPE, stderr=subprocess.STDOUT, text=True, timeout=timeout)
        return r.returncode, r.stdout
    except subprocess.TimeoutExpired as e:
        return 124, (e.stdout or "") if isinstance(e.stdout, str) else "timeout"
def main():
    pid, m = sys.argv[2], sys.argv[3]
    src = "%s/%s/out/%s" % (os.environ.get("MUT_BASE", "/tmp/mut"), pid, m)
    patch = src + "/patch.rebased.diff" if os.path.exists(src + "/patch.rebased.diff") else src + "/patch.diff"
    wt = "/tmp/hv/%s_%s" % (pid, m)
    os.makedirs("/tmp/hv", exist_ok=True)
    sh("git -C /repo worktree remove --force %s" % wt)
    rc, out = sh("git -C /repo worktree add --detach %s HEAD" % wt)
    rec = {"property": pid, "mutant": m, "patch": os.path.basename(patch), "head": sh("git -C /repo rev-parse --short HEAD")[1].strip()}
    try:
        rc, out = sh("git apply --whitespace=nowarn %s" % patch, cwd=wt)
        rec["applies"] = rc == 0
        if rc != 0:
            rec["apply_output"] = out[-400:]; return rec
        rc, out = sh("go build ./... && go vet ./... >/dev/null 2>&1; go build ./...", cwd=wt)
        rec["builds"] = rc == 0
        base = json.load(open("/root/.vp/BASELINE.json"))
        want = set(t.split("::")[1] for t in base["stable_pass"])
        rc, out = sh("go test -json -vet=off -count=1 -timeout 25m ./...", cwd=wt)
        passed = set()
        for l in out.splitlines():
            try: j = json.loads(l)
            except Exception: continue
            if j.get("Action") == "pass" and j.get("Test"): passed.add(j["Test"])
        rec["suite_pass"] = rc == 0 and want <= passed
        rec["suite_passed_tests"] = len(want & passed)
        notes = open(src + "/notes.md").read() if os.path.exists(src + "/notes.md") else ""
        race = "-race " if re.search(r"go test[^\n]*-race", notes) else ""
        shutil.copy(src + "/demo_test.go", wt + "/zz_demo_test.go")
        rc, out = sh("go test %s-vet=off -count=1 -timeout 10m -run TestDemo ." % race, cwd=wt)
        rec["demo_cmd"] = "go test %s-vet=off -count=1 -run TestDemo ." % race
        rec["demo_fails_with_patch"] = rc != 0
        rec["demo_failed_tests"] = sorted(set(re.findall(r"--- FAIL: (\S+)", out)))
        if rc != 0 and not rec["demo_failed_tests"]:
            rec["demo_output_tail"] = out[-600:]
        sh("git apply -R --whitespace=nowarn %s" % patch, cwd=wt)
        rc, out = sh("go test %s-vet=off -count=1 -timeout 10m -run TestDemo ." % race, cwd=wt)
        rec["demo_passes_without_patch"] = rc == 0
        if rc != 0:
            rec["demo_clean_output_tail"] = out[-800:]
        return rec
    finally:
        sh("git -C /repo worktree remove --force %s" % wt)
        sh("rm -rf %s" % wt)
if __name__ == "__main__":
    print(json.dumps(main()))
