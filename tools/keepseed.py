#!/usr/bin/env python3
"""keepseed.py <round> <Cxx> <mN> — file one confirmed seeded change under /verif/seeded/<Cxx>-r<round>m<N>/ :
patch.diff, demo_test.go.txt, notes.md, meta.json (confirmation record written by tools/harvest.py, the
verdict of the property's quick check under the change from tools/tryseed.py's output, the replay it produced).
Inputs: $MUT_BASE/<Cxx>/out/<mN>/{patch.diff,demo_test.go,notes.md}, $MUT_BASE/confirm/<Cxx>_<mN>.json,
$MUT_BASE/trial/<Cxx>_<mN>.txt (output of tryseed.py)."""
import sys, os, json, re, shutil
rnd, pid, m = sys.argv[1], sys.argv[2], sys.argv[3]
base = os.environ.get("MUT_BASE", "/tmp/mut5")
src = "%s/%s/out/%s" % (base, pid, m)
conf = json.load(open("%s/confirm/%s_%s.json" % (base, pid, m)))
trial = open("%s/trial/%s_%s.txt" % (base, pid, m)).read()
ok = all(conf.get(k) for k in ("applies", "builds", "suite_pass", "demo_fails_with_patch", "demo_passes_without_patch"))
if not ok:
    print("not confirmed, not kept:", pid, m); sys.exit(1)
sid = "%s-r%sm%s" % (pid, rnd, m[1:])
dst = os.path.join(os.path.dirname(os.path.dirname(os.path.abspath(__file__))), "seeded", sid)
os.makedirs(dst, exist_ok=True)
shutil.copy(src + "/patch.diff", dst + "/patch.diff")
shutil.copy(src + "/demo_test.go", dst + "/demo_test.go.txt")
notes = open(src + "/notes.md").read()
open(dst + "/notes.md", "w").write(notes)
title = notes.strip().splitlines()[0].lstrip("# ").strip()
needs = ""
mm = re.search(r"(?is)##\s*What it needs[^\n]*\n(.*?)(?:\n## |\Z)", notes)
if mm:
    needs = " ".join(mm.group(1).split())[:1200]
first = [l for l in trial.splitlines() if l.startswith(pid + " ")]
verdict, vline, what = "MISSED", "", ""
if first:
    verdict = first[0].split()[1]
    vm = re.search(r"(VIOLATION .*)", first[0])
    vline = vm.group(1) if vm else ""
mw = re.search(r"// (property \S+ violated: .*)", trial)
if mw:
    what = mw.group(1).strip()
rep = re.search(r"replay=(\S+)", vline)
failing = None
if rep and os.path.exists(rep.group(1)) and verdict == "DETECTED":
    shutil.copy(rep.group(1), dst + "/found.replay.ops")
    failing = "found.replay.ops"
meta = {
    "breaks_property": pid, "round": int(rnd), "title": "%s / %s - %s" % (pid, m, title),
    "needs_to_manifest": needs,
    "written_by": "fresh sub-agent given only the property text, a scratch worktree of /repo and the titles of the earlier changes to avoid",
    "confirmed_in_scratch_worktree_of_repo_head": conf.get("head"),
    "confirmation": {"patch_applies": conf.get("applies"), "builds": conf.get("builds"), "pinned_suite_passes_with_patch": conf.get("suite_pass"),
                     "pinned_tests_passed": conf.get("suite_passed_tests"),
                     "demo_cmd": "cp demo_test.go.txt <worktree>/zz_demo_test.go && " + conf.get("demo_cmd", ""),
                     "demo_fails_with_patch": conf.get("demo_fails_with_patch"), "demo_failed_tests": conf.get("demo_failed_tests"),
                     "demo_passes_without_patch": conf.get("demo_passes_without_patch")},
    "what_i_ran": ["MUT_BASE=%s tools/harvest.py confirm %s %s   (scratch worktree under /tmp, removed afterwards)" % (base, pid, m),
                   "git -C /repo apply seeded/%s/patch.diff && ./check %s --tier quick ; git -C /repo checkout -- .   (tools/tryseed.py)" % (sid, pid)],
    "check_result": {"check": "./check %s --tier quick" % pid, "verdict": verdict, "violation_line": vline, "what": what, "failing_input": failing},
}
json.dump(meta, open(dst + "/meta.json", "w"), indent=1)
print(sid, verdict, what[:100])
