#!/usr/bin/env python3
"""tryseed.py <patch.diff> <prop> [more props…] — apply a seeded change to /repo, run the checks, undo.
Prints one line per check: DETECTED (VIOLATION with replay) / DETECTED-NOINPUT / MISSED."""
import subprocess, sys, os, re
patch = os.path.abspath(sys.argv[1]); props = sys.argv[2:]
tier = os.environ.get("SEED_TIER", "quick")
def sh(cmd, **kw): return subprocess.run(cmd, shell=True, stdout=subprocess.PIPE, stderr=subprocess.STDOUT, text=True, **kw)
st = sh("git -C /repo status --porcelain --untracked-files=no").stdout.strip()
if st:
    print("refusing: /repo has local changes:\n" + st); sys.exit(2)
r = sh("git -C /repo apply --whitespace=nowarn %s" % patch)
if r.returncode != 0:
    print("patch does not apply:", r.stdout[:500]); sys.exit(2)
try:
    for p in props:
        r = sh("cd /verif && VERIF_EVIDENCE_DIR=/verif/out/trial-evidence ./check %s --tier %s" % (p, tier))
        v = [l for l in r.stdout.splitlines() if l.startswith("VIOLATION")]
        if v:
            kind = "DETECTED-NOINPUT" if "no-failing-input-found" in v[0] else "DETECTED"
            print("%s %s %s" % (p, kind, v[0][:200]))
            m = re.search(r"replay=(\S+)", v[0])
            if m and os.path.exists(m.group(1)):
                print("   " + open(m.group(1)).readline().strip()[:300])
        else:
            print("%s MISSED (rc=%d) %s" % (p, r.returncode, r.stdout.strip()[-200:].replace("\n", " | ")))
finally:
    sh("git -C /repo checkout -- .")
    print("repo restored:", sh("git -C /repo status --porcelain --untracked-files=no").stdout.strip() or "clean")
