#!/bin/bash
# seeded_sweep.sh [ids…] — apply each kept seeded change (/verif/seeded/<id>/patch.diff) to /repo in turn, run the
# quick check of the property it breaks, undo the change; one line per change. Never leaves /repo modified.
cd /verif
ids=("$@"); [ ${#ids[@]} -eq 0 ] && ids=($(ls seeded))
for id in "${ids[@]}"; do
  p=${id%%-*}
  tools/tryseed.py seeded/$id/patch.diff $p 2>&1 | head -1 | sed "s/^/$id: /" | cut -c1-160
done
