#!/usr/bin/env python3
"""triage.py <prop> [stream] [max] — decode disagreements / oracle failures of the last kept run dir."""
import sys, glob, os, re, subprocess
sys.path.insert(0, '/verif')
import vlib
prop = sys.argv[1]; stream = sys.argv[2] if len(sys.argv) > 2 else None; mx = int(sys.argv[3]) if len(sys.argv) > 3 else 5
W = int(sys.argv[4]) if len(sys.argv) > 4 else 700
d = sorted(glob.glob('/verif/build/run-%s-*' % prop), key=os.path.getmtime)[-1]
if stream is None:
    stream = os.path.basename(glob.glob(d + '/*.ops')[0])[:-4]
ops = open(d + '/%s.ops' % stream).read().split('\n'); impl = open(d + '/%s.impl' % stream).read().split('\n'); model = open(d + '/%s.model' % stream).read().split('\n')
rc, diffs, specs, summary, out = vlib.run_model(d + '/%s.ops' % stream, d + '/%s.impl' % stream, d + '/x.model')
print(summary)
def dec(tok):
    if re.fullmatch(r'([0-9a-f]{2})+', tok): return repr(vlib.unhex(tok).decode('latin-1'))
    if '=' in tok:
        k, v = tok.split('=', 1)
        if re.fullmatch(r'([0-9a-f]{2})+', v): return k + '=' + repr(vlib.unhex(v).decode('latin-1'))
        if re.fullmatch(r'\[?([0-9a-f:,/=-]|c\d+|udp|tcp|RR)+\]?', v) and len(v) > 8:
            return k + '=' + re.sub(r'([0-9a-f]{2}){2,}', lambda m: repr(vlib.unhex(m.group(0)).decode('latin-1')), v)
    if re.fullmatch(r'\[?([0-9a-f:,/=-])+\]?', tok) and len(tok) > 8:
        return re.sub(r'([0-9a-f]{2}){2,}', lambda m: repr(vlib.unhex(m.group(0)).decode('latin-1')), tok)
    return tok
def show(line): return ' '.join(dec(t) for t in line.split())
shown = 0
spec_by_line = {}
for (ln, pid, what) in specs: spec_by_line.setdefault(ln, []).append(pid + ' ' + what)
for ln in sorted(set(diffs) | set(spec_by_line)):
    if shown >= mx: break
    shown += 1
    print('=' * 100); print('line', ln, 'DIFF' if ln in diffs else '', spec_by_line.get(ln, ''))
    # context: back to cfg
    j = ln - 1
    while j > 0 and ' cfg ' not in ops[j] and ' new' not in ops[j]: j -= 1
    for k in range(j, ln - 1):
        if ops[k].split()[1] in ('cfg', 'proxy', 'new'): print('   ctx:', show(ops[k].split(' # ')[0])[:300])
    print(' op   :', show(ops[ln - 1])[:W])
    print(' impl :', show(impl[ln - 1])[:W])
    print(' model:', show(model[ln - 1])[:W])
