"""Shared machinery of ./check: build steps (tie A extractor, lake, harness), running the two
sides of the correspondence, verdict protocol, known findings, evidence."""
import fcntl, hashlib, json, os, re, subprocess, sys, time, glob, shutil

VERIF = os.path.dirname(os.path.abspath(__file__))
REPO = os.environ.get("VERIF_REPO", "/repo")
BUILD = os.path.join(VERIF, "build")
LEAN = os.path.join(VERIF, "lean")
OUT = os.path.join(VERIF, "out")
GOENV = dict(os.environ, GOFLAGS="-mod=mod", GOPROXY="off", GOSUMDB="off", GOTOOLCHAIN="local",
             CGO_ENABLED=os.environ.get("CGO_ENABLED", "1"))

FORBIDDEN = re.compile(r"\b(sorry|admit|native_decide|bv_decide|implemented_by|unsafe|maxHeartbeats\s+0)\b|^\s*axiom\s", re.M)
ALLOWED_AXIOMS = {"propext", "Classical.choice", "Quot.sound"}


def log(*a):
    print(*a, file=sys.stderr, flush=True)


def run(cmd, cwd=None, env=None, timeout=None, check=False, stdin=None):
    p = subprocess.run(cmd, cwd=cwd, env=env, stdout=subprocess.PIPE, stderr=subprocess.STDOUT,
                       timeout=timeout, input=stdin, text=True)
    if check and p.returncode != 0:
        raise RuntimeError("command failed: %s\n%s" % (" ".join(cmd), p.stdout[-4000:]))
    return p.returncode, p.stdout


class Lock:
    def __init__(self, name):
        os.makedirs(BUILD, exist_ok=True)
        self.path = os.path.join(BUILD, name + ".lock")

    def __enter__(self):
        self.f = open(self.path, "w")
        fcntl.flock(self.f, fcntl.LOCK_EX)
        return self

    def __exit__(self, *a):
        fcntl.flock(self.f, fcntl.LOCK_UN)
        self.f.close()


def tree_hash(paths):
    h = hashlib.sha256()
    for p in sorted(paths):
        h.update(p.encode())
        with open(p, "rb") as f:
            h.update(f.read())
    return h.hexdigest()


def repo_go_files():
    return [p for p in glob.glob(os.path.join(REPO, "*.go"))] + [os.path.join(REPO, "go.mod")]


# ---------------------------------------------------------------- tie A + proofs

def build_extractor():
    src = glob.glob(os.path.join(VERIF, "extract", "*.go"))
    stamp = os.path.join(BUILD, "extract.hash")
    h = tree_hash(src)
    exe = os.path.join(BUILD, "extract")
    if os.path.exists(exe) and os.path.exists(stamp) and open(stamp).read() == h:
        return exe
    rc, out = run(["go", "build", "-o", exe, "."], cwd=os.path.join(VERIF, "extract"), env=GOENV)
    if rc != 0:
        raise RuntimeError("extractor build failed:\n" + out)
    open(stamp, "w").write(h)
    return exe


def regenerate():
    """Tie A: regenerate lean/Generated/*.lean from /repo's working tree."""
    exe = build_extractor()
    rc, out = run([exe, REPO, os.path.join(LEAN, "Generated")], cwd=REPO, env=GOENV)
    if rc != 0:
        return False, out
    return True, out


def forbidden_tokens():
    hits = []
    for root, _, files in os.walk(LEAN):
        if ".lake" in root:
            continue
        for fn in files:
            if not fn.endswith(".lean"):
                continue
            p = os.path.join(root, fn)
            txt = open(p, encoding="utf-8").read()
            # strip comments: block comments (possibly nested one level) and line comments
            txt = re.sub(r"/-.*?-/", lambda m: "\n" * m.group(0).count("\n"), txt, flags=re.S)
            txt = re.sub(r"--.*", "", txt)
            for m in FORBIDDEN.finditer(txt):
                line = txt.count("\n", 0, m.start()) + 1
                hits.append("%s:%d: %s" % (os.path.relpath(p, VERIF), line, m.group(0).strip()))
    return hits


def lake_build(targets):
    rc, out = run(["lake", "build"] + targets, cwd=LEAN, timeout=3600)
    return rc == 0, out


def audit_axioms(module):
    """Run Audit/<module>.lean (a list of `#print axioms`) and return {theorem: [axioms]}."""
    path = os.path.join(LEAN, "Audit", module + ".lean")
    rc, out = run(["lake", "env", "lean", path], cwd=LEAN, timeout=1800)
    res = {}
    bad = []
    # messages look like: 'Props.C05.foo' depends on axioms: [propext, Quot.sound]   or
    #                     'Props.C05.foo' does not depend on any axioms
    for m in re.finditer(r"'([^']+)' (depends on axioms: \[([^\]]*)\]|does not depend on any axioms)", out, flags=re.S):
        name = m.group(1)
        axs = [a.strip() for a in (m.group(3) or "").replace("\n", " ").split(",") if a.strip()]
        res[name] = axs
        for a in axs:
            if a not in ALLOWED_AXIOMS:
                bad.append("%s uses axiom %s" % (name, a))
    if rc != 0:
        bad.append("audit file failed to elaborate: " + out[-2000:])
    return res, bad


# ---------------------------------------------------------------- tie B

HARNESS_FILES = None


def harness_sources():
    return sorted(glob.glob(os.path.join(VERIF, "harness", "*.go")))


def build_harness(race=False):
    """go test -c with the harness files overlaid into package main of /repo (nothing written to /repo)."""
    os.makedirs(BUILD, exist_ok=True)
    name = "harness-race.test" if race else "harness.test"
    exe = os.path.join(BUILD, name)
    stamp = exe + ".hash"
    h = tree_hash(repo_go_files() + harness_sources() + [os.path.join(REPO, "go.sum")])
    if os.path.exists(exe) and os.path.exists(stamp) and open(stamp).read() == h:
        return exe, "cached"
    if os.path.exists(exe):
        os.remove(exe)
    if os.path.exists(stamp):
        os.remove(stamp)        # (a build that has to drop files writes no stamp: an older stamp must not vouch for it)
    # A change to /repo may break the compilation of ONE harness file (it touches an internal that the change
    # renamed or removed). Such files are dropped one by one (never main.go) so that the remaining streams can
    # still run and look for a failing input; the dropped files are reported as a broken correspondence.
    srcs = harness_sources()
    dropped = []
    out = ""
    for attempt in range(8):
        overlay = {"Replace": {}}
        for src in srcs:
            base = os.path.basename(src)[:-3]
            overlay["Replace"][os.path.join(REPO, "zz_verif_%s_test.go" % base)] = src
        ov = os.path.join(BUILD, "overlay-race.json" if race else "overlay.json")
        json.dump(overlay, open(ov, "w"))
        cmd = ["go", "test", "-c", "-tags", "verif", "-vet=off", "-overlay", ov, "-o", exe]
        if race:
            cmd.insert(3, "-race")
        cmd.append(".")
        rc, out = run(cmd, cwd=REPO, env=GOENV, timeout=1200)
        if rc == 0:
            break
        bad = (set(re.findall(r"zz_verif_(\w+?)_test\.go:\d+", out)) | set(re.findall(r"/harness/(\w+)\.go:\d+", out))) - {"main"}
        bad = {b for b in bad if any(os.path.basename(x)[:-3] == b for x in srcs)}
        if not bad:
            return None, out
        dropped += sorted(bad)
        srcs = [x for x in srcs if os.path.basename(x)[:-3] not in bad]
    else:
        return None, out
    LAST_DROPPED[race] = dropped
    if dropped:
        return exe, "DROPPED harness files (do not compile against the tree): " + ", ".join(dropped) + "\n" + out
    open(stamp, "w").write(h)
    return exe, out


LAST_DROPPED = {}


def _limits():
    import resource
    # a runaway allocation must kill the harness quickly instead of thrashing the machine
    resource.setrlimit(resource.RLIMIT_AS, (24 << 30, 24 << 30))


def run_harness(exe, ops_path, out_path, timeout=1200, extra_env=None):
    """Run the executor. If the process dies (fatal error in a goroutine of the code under test,
    out of memory, timeout) the op that was being executed is identified by the number of result
    lines written, its result becomes `process-died`, and the remaining ops are run in a new process."""
    env = dict(GOENV, VERIF_OPS=ops_path, VERIF_OUT=out_path, GOMEMLIMIT="8GiB")
    if extra_env:
        env.update(extra_env)
    ops = [l for l in open(ops_path).read().split("\n") if l.strip()]
    done = []
    crashes = 0
    log = ""
    cur_ops = ops
    while True:
        part_ops = ops_path + ".part"
        part_out = out_path + ".part"
        open(part_ops, "w").write("\n".join(cur_ops) + "\n")
        if os.path.exists(part_out):
            os.remove(part_out)
        env2 = dict(env, VERIF_OPS=part_ops, VERIF_OUT=part_out)
        try:
            p = subprocess.run([exe, "-test.run", "^TestVerifHarness$", "-test.timeout", "%ds" % timeout], cwd=BUILD, env=env2,
                               stdout=subprocess.PIPE, stderr=subprocess.STDOUT, timeout=timeout + 30, text=True, preexec_fn=_limits)
            rc, out = p.returncode, p.stdout
        except subprocess.TimeoutExpired as e:
            rc, out = 124, "timeout"
        log += out[-3000:]
        got = open(part_out).read().split("\n") if os.path.exists(part_out) else []
        if got and got[-1] == "":
            got.pop()
        if len(got) == len(cur_ops) and (rc == 0 or "race detected during execution of test" in out):
            # (the testing package fails a test during which the race detector reported something; the
            # reports themselves are collected from the detector's log)
            done += got
            break
        # the process died while executing op number len(got)+1 of this part
        crashes += 1
        k = min(len(got), len(cur_ops) - 1)
        done += got[:k] + ["process-died " + (re.sub(r"\s+", "_", (re.search(r"(fatal error: [^\n]*|panic: [^\n]*|signal: [^\n]*|verif-watchdog: op did not return within 45s \(stalled\))", out) or re.match(r"", "")).group(0))[:200] or "rc=%d" % rc)]
        rest = cur_ops[k + 1:]
        # resume at the next reset op so that stateful streams stay consistent
        j = 0
        while j < len(rest) and not (len(rest[j].split()) > 1 and (rest[j].split()[1] in ("cfg", "new", "start") or rest[j].split()[0] in ("std", "codec", "msg", "frame", "udpbuf"))):
            done.append("not-run")
            j += 1
        cur_ops = rest[j:]
        stalled = "verif-watchdog" in out
        if not cur_ops or crashes >= (6 if stalled else 20):
            done += ["not-run"] * len(cur_ops)
            break
    open(out_path, "w").write("\n".join(done) + "\n")
    for f in (ops_path + ".part", out_path + ".part"):
        if os.path.exists(f):
            os.remove(f)
    return 0, log


def sipdrv():
    return os.path.join(LEAN, ".lake", "build", "bin", "sipdrv")


def run_model(ops_path, impl_path, model_path, timeout=1200):
    rc, out = run([sipdrv(), "run", ops_path, impl_path, model_path], cwd=BUILD, timeout=timeout)
    diffs, specs, summary = [], [], None
    for line in out.splitlines():
        if line.startswith("DIFF "):
            diffs.append(int(line.split()[1]))
        elif line.startswith("SPEC "):
            p = line.split()
            specs.append((int(p[1]), p[2], " ".join(p[3:])))
        elif line.startswith("SUMMARY"):
            summary = line
    return rc, diffs, specs, summary, out


# ---------------------------------------------------------------- findings

def load_findings():
    p = os.path.join(VERIF, "known_findings.json")
    if not os.path.exists(p):
        return []
    return json.load(open(p))["findings"]


def unhex(s):
    if s in ("-", "~"):
        return b""
    try:
        return bytes.fromhex(s)
    except ValueError:
        return b""


def decode_op(line):
    """op line with hex fields rendered as latin-1 text (for classifiers and reports)."""
    toks = line.split(" # ")[0].split()
    out = []
    for t in toks:
        if re.fullmatch(r"([0-9a-f]{2})+", t):
            out.append(unhex(t).decode("latin-1"))
        elif re.fullmatch(r"[a-z]+=([0-9a-f]{2})+", t):
            k, v = t.split("=", 1)
            out.append(k + "=" + unhex(v).decode("latin-1"))
        else:
            out.append(t)
    return out


def finding_matches(f, prop, op_line, what=None):
    if f.get("property") != prop or f.get("status") != "open":
        return False
    m = f.get("match", {})
    if "what_regex" in m and (what is None or not re.search(m["what_regex"], what)):
        return False
    toks = op_line.split(" # ")[0].split()
    if "stream" in m and (len(toks) < 1 or toks[0] != m["stream"]):
        return False
    if "op" in m and (len(toks) < 2 or toks[1] != m["op"]):
        return False
    if "race_regex" in m:
        return bool(re.search(m["race_regex"], op_line))
    if "input_regex" in m:
        dec = decode_op(op_line)
        text = "\x00".join(dec[2:])
        if not re.search(m["input_regex"], text, flags=re.S):
            return False
    return True


# ---------------------------------------------------------------- race detector reports

def parse_race_logs(prefix):
    """Go race detector logs (GORACE=log_path=<prefix>): one entry per DATA RACE report:
    key = the two innermost frames that lie in /repo's own files, with file names (line numbers dropped)."""
    races = {}
    for path in glob.glob(prefix + ".*"):
        txt = open(path, errors="replace").read()
        for block in txt.split("==================")[1::2]:
            if "DATA RACE" not in block:
                continue
            accesses = re.split(r"\n\n", block.strip())
            tops = []
            for acc in accesses:
                if not re.match(r"\s*(WARNING: DATA RACE\n)?\s*((Previous )?(read|write|atomic)[^\n]* at |Read at|Write at|Previous)", acc, flags=re.I):
                    continue
                frames = re.findall(r"^\s+(\S+)\(\)\n\s+(\S+?):(\d+)", acc, flags=re.M)
                top = None
                for fn, f, ln in frames:
                    if f.startswith(REPO + "/") and "zz_verif_" not in f:
                        top = "%s@%s" % (fn.split("/")[-1].replace("sipproxy.", ""), os.path.basename(f))
                        break
                tops.append(top or "harness")
            if len(tops) >= 2:
                key = " | ".join(sorted(tops[:2]))
                races.setdefault(key, block.strip()[:6000])
    return races
