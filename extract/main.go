// extract — tie A: re-reads /repo's working tree (go/parser + go/types, stdlib only) and
// regenerates /verif/lean/Generated/*.lean: the tables, constants, call-site wiring and
// inventories that theorems in Props/ and Expected/ are stated about. Files are rewritten
// only when their content changed, so unchanged facts keep lake's cache and changed facts
// force the kernel to re-check every dependent theorem.
package main

import (
	"bytes"
	"fmt"
	"go/ast"
	"go/parser"
	"go/printer"
	"go/token"
	"os"
	"path/filepath"
	"sort"
	"strconv"
	"strings"
)

var fset = token.NewFileSet()

func die(format string, a ...interface{}) {
	fmt.Fprintf(os.Stderr, "extract: "+format+"\n", a...)
	os.Exit(2)
}

func exprStr(e ast.Expr) string {
	var buf bytes.Buffer
	printer.Fprint(&buf, fset, e)
	return strings.Join(strings.Fields(buf.String()), " ")
}

func leanStr(s string) string {
	var sb strings.Builder
	sb.WriteByte('"')
	for _, r := range s {
		switch r {
		case '"':
			sb.WriteString("\\\"")
		case '\\':
			sb.WriteString("\\\\")
		case '\n':
			sb.WriteString("\\n")
		case '\t':
			sb.WriteString("\\t")
		default:
			sb.WriteRune(r)
		}
	}
	sb.WriteByte('"')
	return sb.String()
}

func leanStrList(l []string) string {
	q := make([]string, len(l))
	for i, s := range l {
		q[i] = leanStr(s)
	}
	return "[" + strings.Join(q, ", ") + "]"
}

func funcName(fd *ast.FuncDecl) string {
	if fd.Recv != nil && len(fd.Recv.List) > 0 {
		t := fd.Recv.List[0].Type
		if st, ok := t.(*ast.StarExpr); ok {
			t = st.X
		}
		return exprStr(t) + "." + fd.Name.Name
	}
	return fd.Name.Name
}

type pkgInfo struct {
	files map[string]*ast.File
	funcs map[string]*ast.FuncDecl
	names []string
}

func load(dir string) *pkgInfo {
	p := &pkgInfo{files: map[string]*ast.File{}, funcs: map[string]*ast.FuncDecl{}}
	ents, err := os.ReadDir(dir)
	if err != nil {
		die("%v", err)
	}
	for _, e := range ents {
		n := e.Name()
		if !strings.HasSuffix(n, ".go") || strings.HasSuffix(n, "_test.go") {
			continue
		}
		f, err := parser.ParseFile(fset, filepath.Join(dir, n), nil, parser.ParseComments)
		if err != nil {
			die("cannot parse %s: %v", n, err)
		}
		if hasBuildTag(f, "verif") {
			continue
		}
		p.files[n] = f
		for _, d := range f.Decls {
			if fd, ok := d.(*ast.FuncDecl); ok && fd.Body != nil {
				name := funcName(fd)
				if fd.Name.Name == "init" {
					name = "init@" + n
				}
				p.funcs[name] = fd
				p.names = append(p.names, name)
			}
		}
	}
	sort.Strings(p.names)
	return p
}

func hasBuildTag(f *ast.File, tag string) bool {
	for _, cg := range f.Comments {
		if cg.Pos() > f.Package {
			break
		}
		for _, c := range cg.List {
			if strings.HasPrefix(c.Text, "//go:build") && strings.Contains(c.Text, tag) && !strings.Contains(c.Text, "!"+tag) {
				return true
			}
		}
	}
	return false
}

func writeIfChanged(path string, content string) {
	old, err := os.ReadFile(path)
	if err == nil && string(old) == content {
		return
	}
	if err := os.WriteFile(path, []byte(content), 0o644); err != nil {
		die("%v", err)
	}
}

// ---- F1: compact header table --------------------------------------------------------------
func compactTable(p *pkgInfo) [][2]string {
	var out [][2]string
	for _, name := range p.names {
		if !strings.HasPrefix(name, "init@") {
			continue
		}
		ast.Inspect(p.funcs[name].Body, func(n ast.Node) bool {
			ce, ok := n.(*ast.CallExpr)
			if !ok {
				return true
			}
			se, ok := ce.Fun.(*ast.SelectorExpr)
			if !ok || se.Sel.Name != "AddCompact" || len(ce.Args) != 2 {
				return true
			}
			a, ok1 := ce.Args[0].(*ast.BasicLit)
			b, ok2 := ce.Args[1].(*ast.BasicLit)
			if !ok1 || !ok2 {
				die("AddCompact with non-literal argument at %s", fset.Position(ce.Pos()))
			}
			as, _ := strconv.Unquote(a.Value)
			bs, _ := strconv.Unquote(b.Value)
			out = append(out, [2]string{as, bs})
			return true
		})
	}
	return out
}

// ---- F2: literal maps (finalResponseStatusCodes, SupportedProtocol) -----------------------
func mapLiteral(p *pkgInfo, varName string) (keys []string, vals []string) {
	found := false
	for _, f := range p.files {
		for _, d := range f.Decls {
			gd, ok := d.(*ast.GenDecl)
			if !ok || gd.Tok != token.VAR {
				continue
			}
			for _, s := range gd.Specs {
				vs := s.(*ast.ValueSpec)
				for i, n := range vs.Names {
					if n.Name != varName || i >= len(vs.Values) {
						continue
					}
					cl, ok := vs.Values[i].(*ast.CompositeLit)
					if !ok {
						die("%s is not a composite literal", varName)
					}
					found = true
					for _, el := range cl.Elts {
						kv, ok := el.(*ast.KeyValueExpr)
						if !ok {
							die("%s is no longer a keyed literal (element %s): the fact F2 cannot be read", varName, exprStr(el))
						}
						keys = append(keys, exprStr(kv.Key))
						vals = append(vals, exprStr(kv.Value))
					}
				}
			}
		}
	}
	if !found {
		die("variable %s not found", varName)
	}
	return
}

// ---- F3: literals and comparison operators per function ------------------------------------
func literalsOf(fd *ast.FuncDecl) []string {
	var out []string
	ast.Inspect(fd.Body, func(n ast.Node) bool {
		switch x := n.(type) {
		case *ast.CallExpr:
			// skip logging calls: zap.L().X(...)
			if strings.HasPrefix(exprStr(x.Fun), "zap.") {
				return false
			}
			if se, ok := x.Fun.(*ast.SelectorExpr); ok {
				if strings.HasPrefix(exprStr(se.X), "zap.") {
					return false
				}
			}
		case *ast.BasicLit:
			out = append(out, x.Value)
		case *ast.BinaryExpr:
			switch x.Op {
			case token.LSS, token.GTR, token.LEQ, token.GEQ, token.EQL, token.NEQ, token.LAND, token.LOR, token.REM, token.ADD, token.SUB, token.MUL, token.QUO:
				out = append(out, "op"+x.Op.String())
			}
		case *ast.UnaryExpr:
			if x.Op == token.NOT {
				out = append(out, "op!")
			}
		}
		return true
	})
	return out
}

// ---- F4: call-site wiring -------------------------------------------------------------------
var wiredCallees = []string{"NewProxy", "NewProxyItem", "NewRawMessage", "NewTCPServerTransport", "NewTCPServerTransportWithConn", "NewUDPServerTransport", "NewDialogBasedBackend", "NewSelfLearnRoute", "NewByteArrayPool", "CreateRoundRobinBackend", "NewClientTransportMgr"}

type wireFact struct {
	caller, callee string
	inLoop         bool
	args           [][2]string // (parameter name, argument expression)
}

func paramNames(fd *ast.FuncDecl) []string {
	var out []string
	for _, f := range fd.Type.Params.List {
		if len(f.Names) == 0 {
			out = append(out, "_")
		}
		for _, n := range f.Names {
			out = append(out, n.Name)
		}
	}
	return out
}

func wiring(p *pkgInfo) []wireFact {
	want := map[string]bool{}
	for _, w := range wiredCallees {
		want[w] = true
	}
	var out []wireFact
	for _, name := range p.names {
		fd := p.funcs[name]
		var walk func(n ast.Node, inLoop bool)
		walk = func(n ast.Node, inLoop bool) {
			ast.Inspect(n, func(m ast.Node) bool {
				if m == nil || m == n {
					return true
				}
				switch x := m.(type) {
				case *ast.ForStmt:
					walk(x.Body, true)
					return false
				case *ast.RangeStmt:
					walk(x.Body, true)
					return false
				case *ast.CallExpr:
					if id, ok := x.Fun.(*ast.Ident); ok && want[id.Name] {
						callee, ok := p.funcs[id.Name]
						if !ok {
							die("callee %s not found", id.Name)
						}
						pn := paramNames(callee)
						if len(pn) != len(x.Args) {
							die("arity mismatch calling %s in %s", id.Name, name)
						}
						wf := wireFact{caller: name, callee: id.Name, inLoop: inLoop}
						for i, a := range x.Args {
							wf.args = append(wf.args, [2]string{pn[i], exprStr(a)})
						}
						out = append(out, wf)
					}
				}
				return true
			})
		}
		walk(fd.Body, false)
	}
	return out
}

// ---- F7: range over maps is typed (see typed.go); name comparisons -------------------------
func nameComparisons(p *pkgInfo) []string {
	var out []string
	for _, name := range p.names {
		fd := p.funcs[name]
		ast.Inspect(fd.Body, func(n ast.Node) bool {
			be, ok := n.(*ast.BinaryExpr)
			if !ok || (be.Op != token.EQL && be.Op != token.NEQ) {
				return true
			}
			isName := func(e ast.Expr) bool {
				se, ok := e.(*ast.SelectorExpr)
				return ok && se.Sel.Name == "name"
			}
			if isName(be.X) || isName(be.Y) {
				out = append(out, name+": "+exprStr(be))
			}
			return true
		})
	}
	return out
}

func main() {
	if len(os.Args) != 3 {
		die("usage: extract <repo dir> <Generated dir>")
	}
	repo, outDir := os.Args[1], os.Args[2]
	p := load(repo)

	// Tables.lean
	var sb strings.Builder
	sb.WriteString("-- GENERATED by /verif/extract from the Go sources; do not edit.\nimport GoStd.Bytes\nnamespace Generated\nopen GoStd\n\n")
	sb.WriteString("/-- F1: AddCompact(full, compact) calls of init(), in source order. -/\ndef compactTableStr : List (String × String) := [\n")
	ct := compactTable(p)
	for i, e := range ct {
		sep := ","
		if i == len(ct)-1 {
			sep = ""
		}
		sb.WriteString(fmt.Sprintf("  (%s, %s)%s\n", leanStr(e[0]), leanStr(e[1]), sep))
	}
	sb.WriteString("]\n\ndef compactTable : List (Bytes × Bytes) := compactTableStr.map fun e => (str e.1, str e.2)\n\n")
	fk, fv := mapLiteral(p, "finalResponseStatusCodes")
	var fin []string
	for i := range fk {
		if fv[i] == "true" {
			fin = append(fin, fk[i])
		}
	}
	sb.WriteString("/-- F2: keys of finalResponseStatusCodes mapped to true. -/\ndef finalClasses : List Int := [" + strings.Join(fin, ", ") + "]\n\n")
	sk, _ := mapLiteral(p, "SupportedProtocol")
	var sup []string
	for _, k := range sk {
		u, _ := strconv.Unquote(k)
		sup = append(sup, u)
	}
	sb.WriteString("/-- F2: keys of SupportedProtocol. -/\ndef supportedProtocolsStr : List String := " + leanStrList(sup) + "\ndef supportedProtocols : List Bytes := supportedProtocolsStr.map str\n\n")
	sb.WriteString("end Generated\n")
	writeIfChanged(filepath.Join(outDir, "Tables.lean"), sb.String())

	// Consts.lean: literals per function
	sb.Reset()
	sb.WriteString("-- GENERATED by /verif/extract from the Go sources; do not edit.\nnamespace Generated\n\n/-- F3: per function, the basic literals and comparison/arithmetic operators of its body in source order (logging calls skipped). -/\ndef literals : List (String × List String) := [\n")
	for i, name := range p.names {
		sep := ","
		if i == len(p.names)-1 {
			sep = ""
		}
		sb.WriteString(fmt.Sprintf("  (%s, %s)%s\n", leanStr(name), leanStrList(literalsOf(p.funcs[name])), sep))
	}
	sb.WriteString("]\n\ndef literalsOf (f : String) : List String := ((literals.find? (·.1 == f)).map (·.2)).getD [\"<missing function>\"]\n\nend Generated\n")
	writeIfChanged(filepath.Join(outDir, "Consts.lean"), sb.String())

	// Wiring.lean
	sb.Reset()
	sb.WriteString("-- GENERATED by /verif/extract from the Go sources; do not edit.\nnamespace Generated\n\nstructure Wire where\n  caller : String\n  callee : String\n  inLoop : Bool\n  args : List (String × String)\n  deriving Repr, DecidableEq\n\n/-- F4: every call of a constructor of interest: parameter name = argument expression. -/\ndef wiring : List Wire := [\n")
	ws := wiring(p)
	for i, w := range ws {
		sep := ","
		if i == len(ws)-1 {
			sep = ""
		}
		var ps []string
		for _, a := range w.args {
			ps = append(ps, "("+leanStr(a[0])+", "+leanStr(a[1])+")")
		}
		sb.WriteString(fmt.Sprintf("  { caller := %s, callee := %s, inLoop := %v, args := [%s] }%s\n", leanStr(w.caller), leanStr(w.callee), w.inLoop, strings.Join(ps, ", "), sep))
	}
	sb.WriteString("]\n\n/-- sibling of F5: every ==/!= comparison with a `.name` operand (header names must go through isSameHeader). -/\ndef nameComparisons : List String := " + leanStrList(nameComparisons(p)) + "\n\nend Generated\n")
	writeIfChanged(filepath.Join(outDir, "Wiring.lean"), sb.String())

	typedFacts(repo, outDir, p)
}
