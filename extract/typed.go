package main

// typedFacts: facts that need go/types (F5 partial-operation inventory, F6 access table,
// F7 map ranges, F8 view uses). Filled in below as the corresponding properties come online.
func typedFacts(repo, outDir string, p *pkgInfo) {}
