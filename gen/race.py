"""Stream `race` (C09): concurrency stress under the race detector. The executor is the -race build
of the harness; data-race reports are collected from the detector's log by ./check."""
from .common import *

def generate(seed, tier):
    g = Gen(seed)
    lines = []
    runs = [(2, 600), (4, 600)] if tier == "quick" else [(2, 3000), (3, 3000), (4, 3000), (4, 6000), (2, 6000), (3, 6000)]
    for (nl, ms) in runs:
        lines.append("race inproc %d %d %d # spec=C09 eq delivered-all" % (nl, ms, g.rint(1, 10**6)))
        g.count("stress_runs")
    lines.append("race exitflag %d # spec=C09 eq ok" % (20 if tier == "quick" else 200))
    # a real two-listener service started through the wiring of main.go, dialog bookkeeping on both listeners at once
    import os, time
    base = 25000 + ((os.getpid() * 29 + int(time.time())) % 900)
    lines.append("race service %d %d # spec=C09 eq ok" % (base, 500 if tier == "quick" else 3000))
    g.count("real_service_runs")
    # a host-name TCP backend whose addresses come and go while requests flow (dial / close under membership changes)
    lines.append("race tcpchurn %d %d # spec=C09 eq ok" % (base + 100, 700 if tier == "quick" else 4000))
    g.count("tcp_membership_churn_runs")
    # the three separately locked steps of a dispatch racing with membership changes at full speed
    for _ in range(2 if tier == "quick" else 10):
        lines.append("rr race %d %d # spec=C09 eq ok" % (500 if tier == "quick" else 3000, g.rint(1, 10**6)))
        g.count("rotation_race_runs")
    return lines, g.stats
