"""Stream `wire`: the real startProxy (YAML configuration, real listeners, goroutines, sockets) on
loopback; UAs and backends are harness sockets. No model side: the property oracles are evaluated
on what arrives at the harness sockets. Backend doubles answer to the sent-by of the proxy's top
Via (RFC 3261 18.2.2), as a real UAS would."""
from .common import *
from .pipe import Via, BR, hxs

def yaml_cfg(name, lip, udp, tcp, no_received, backends, extra=""):
    y = "proxies:\n- name: %s\n%s  listens:\n  - address: %s\n    udp-port: %d\n    tcp-port: %d\n" % (name, extra, lip, udp, tcp)
    if no_received is not None:
        y += "    no-received: %s\n" % ("true" if no_received else "false")
    y += "    backends:\n" + "".join("    - %s\n" % b for b in backends)
    return y

def msg(start, headers, body=b""):
    hs = headers + [("Content-Length", str(len(body)))]
    return (start + "\r\n" + "".join("%s: %s\r\n" % h for h in hs) + "\r\n").encode("latin-1") + body

import os, time
# ports differ from run to run (connections of a previous run may still be in TIME_WAIT); the
# concrete ports are part of the op lines, so a replay file is self-contained
# Every scenario gets its own block of ports, taken from one running counter: a service started by `wire start` stays
# bound for the life of the harness process, so no later scenario may come near its ports. The whole stage stays inside
# 26000..32700, below the kernel's ephemeral range; the stage's region depends on the process and the time.
SIZES = {"quick": {"c07": 6 * 12 + 2 * 12 + 2 * 14 + 2 * 8, "c08": 2 * 8 + 12, "c15": 32, "c12": 2 * 8, "c10": 12}, "thorough": {"c07": 60 * 12 + 20 * 12 + 20 * 14 + 20 * 8, "c08": 30 * 8 + 5 * 12, "c15": 4 * 16, "c12": 6 * 8, "c10": 4 * 12}}
_next = [26000, 32700]

def region(tier, focus):
    sz = SIZES[tier]
    total = sum(sz.values())
    nonce = (int(time.time()) // 2 + os.getpid()) % ((32700 - 26000) // total)
    start = 26000 + nonce * total + sum(v for f, v in sz.items() if f < focus)
    _next[0], _next[1] = start, start + sz[focus]

def take(n):
    base = _next[0]
    _next[0] += n
    assert _next[0] <= _next[1], "wire: port region exhausted"
    return base

def gen_c07(g, lines, k):
    base = take(12)
    lip, P, T = "127.0.0.1", base, base + 1
    BP, UP, VP, LP = base + 2, base + 3, base + 4, base + 5
    no_received = [None, False, True, None][k % 4]
    rcvd = not no_received
    be = "127.0.1.1:%d" % BP
    lines.append("wire start %s" % hx(yaml_cfg("svc.test", lip, P, T, no_received, ["udp://" + be])))
    lines.append("wire bind %s" % hx(be))
    ua, named = "127.0.2.1:%d" % UP, "127.0.2.9:%d" % VP
    lines.append("wire bind %s" % hx(ua)); lines.append("wire bind %s" % hx(named))
    for ti, tr in enumerate(("UDP", "TCP")):
        rport = [None, "", "9"][(k + ti) % 3]          # every rport shape, deterministically
        recv_spoof = g.pick([None, "1.2.3.4"])
        ps = [("branch", "z9hG4bK" + g.word(ALNUM.upper(), 6, 9))]
        if rport is not None: ps.append(("rport", rport))
        if recv_spoof: ps.append(("received", recv_spoof))
        v = Via(tr, "127.0.2.9", VP, ps)
        call = g.word(ALNUM, 8, 12)
        hs = [("Via", v.text()), ("From", "<sip:a@ua.test>;tag=1"), ("To", "<sip:b@svc.test>"), ("Call-ID", call), ("CSeq", "1 OPTIONS"), ("Max-Forwards", "70")]
        req = msg("OPTIONS sip:svc.test SIP/2.0", hs)
        if tr == "UDP":
            src_ip, src_port = "127.0.2.1", UP
            lines.append("wire udp %s %s %s" % (hx(ua), hx("%s:%d" % (lip, P)), hx(req)))
            own = "SIP/2.0/UDP %s:%d;branch=%s" % (lip, P, BR)
        else:
            src_ip, src_port = "127.0.2.1", LP
            lines.append("wire tcpconnect 1 %s %s" % (hx("%s:%d" % (lip, T)), hx("%s:%d" % (src_ip, src_port))))
            lines.append("wire tcpsend 1 %s" % hx(req))
            own = "SIP/2.0/UDP %s:%d;branch=%s" % (lip, P, BR)      # transports[0] of the listener entry is its UDP transport
        exp_v = v.stamped(src_ip, src_port) if rcvd else v
        lines.append("wire recv %s 800 msg=%s # spec=C07 dest U %s # spec=C07 vias %s # spec=C01 relay" % (hx(be), hx(req), hx(be), hxs([own, exp_v.text()])))
        # the backend answers towards the proxy's own Via; the response must travel back to the true source
        resp = msg("SIP/2.0 200 OK", [("Via", own), ("Via", exp_v.text()), ("From", "<sip:a@ua.test>;tag=1"), ("To", "<sip:b@svc.test>;tag=2"), ("Call-ID", call), ("CSeq", "1 OPTIONS")])
        if tr == "UDP" and rcvd and rport is None:
            # (the socket the response must arrive at is bound BEFORE the response is sent: a datagram for an unbound
            # port is lost)
            lines.append("wire bind %s" % hx("127.0.2.1:%d" % VP))
        lines.append("wire udp %s %s %s" % (hx(be), hx("%s:%d" % (lip, P)), hx(resp)))
        if tr == "UDP":
            if rcvd:
                # received = true source address; rport requested -> true source port, else the sent-by port
                if rport is not None:
                    lines.append("wire recv %s 800 msg=%s # spec=C07 dest U %s # spec=C07 vias %s" % (hx(ua), hx(resp), hx(ua), hxs([exp_v.text()])))
                else:
                    tgt = "127.0.2.1:%d" % VP
                    lines.append("wire recv %s 800 msg=%s # spec=C07 dest U %s" % (hx(tgt), hx(resp), hx(tgt)))
            else:
                hh, hp = exp_v.hop()
                tgt = "%s:%d" % (hh, hp)
                if hh == "127.0.2.9":
                    lines.append("wire recv %s 800 msg=%s # spec=C07 dest U %s" % (hx(tgt), hx(resp), hx(tgt)))
                lines.append("wire recv %s 150 msg=%s # spec=C07 dest none" % (hx(ua), hx(resp)))
        else:
            if rcvd and rport is not None:
                lines.append("wire tcprecv 1 800 msg=%s # spec=C12 dest C 1 # spec=C07 vias %s" % (hx(resp), hxs([exp_v.text()])))
        g.count("wire_c07_%s_%s" % (tr, "rcvd" if rcvd else "norcvd"))
    lines.append("wire end")

def gen_c07_two(g, lines, k):
    """one service, two listeners with DIFFERENT no-received settings, in both orders: each listener stamps (or
    does not stamp) according to its own setting, whatever the others say"""
    base = take(14)
    lip = "127.0.0.1"
    P1, T1, P2, T2, BP, UP, VP = base, base + 1, base + 2, base + 3, base + 4, base + 5, base + 6
    first_off = (k % 2 == 0)                 # which of the two listeners has no-received: true
    nr = [first_off, not first_off]
    be = "127.0.1.1:%d" % BP
    y = "proxies:\n- name: svc.test\n  listens:\n"
    for (P, T, off) in ((P1, T1, nr[0]), (P2, T2, nr[1])):
        y += "  - address: %s\n    udp-port: %d\n    tcp-port: %d\n" % (lip, P, T)
        if off:
            y += "    no-received: true\n"
        y += "    backends:\n    - udp://%s\n" % be
    lines.append("wire start %s" % hx(y))
    lines.append("wire bind %s" % hx(be))
    ua = "127.0.2.1:%d" % UP
    lines.append("wire bind %s" % hx(ua))
    for li, (P, off) in enumerate(((P1, nr[0]), (P2, nr[1]))):
        v = Via("UDP", "127.0.2.9", VP, [("branch", "z9hG4bK" + g.word(ALNUM.upper(), 6, 9)), ("rport", "")])
        req = msg("OPTIONS sip:svc.test SIP/2.0", [("Via", v.text()), ("From", "<sip:a@ua.test>;tag=1"), ("To", "<sip:b@svc.test>"), ("Call-ID", g.word(ALNUM, 8, 12)), ("CSeq", "1 OPTIONS")])
        lines.append("wire udp %s %s %s" % (hx(ua), hx("%s:%d" % (lip, P)), hx(req)))
        own = "SIP/2.0/UDP %s:%d;branch=%s" % (lip, P, BR)
        exp_v = v if off else v.stamped("127.0.2.1", UP)
        lines.append("wire recv %s 800 msg=%s # spec=C07 dest U %s # spec=C07 vias %s" % (hx(be), hx(req), hx(be), hxs([own, exp_v.text()])))
        g.count("wire_c07_two_listener_%d_%s" % (li, "norcvd" if off else "rcvd"))
    lines.append("wire end")

def gen_c07_outbound(g, lines, k):
    """a listener created for a connection the proxy dialed itself (tcp:// backend): the backend talks back
    over that connection; its requests must be stamped like any other (received-support on)"""
    base = take(12)
    lip, P, T, BP, UP = "127.0.0.1", base, base + 1, base + 2, base + 3
    no_received = [None, True][k % 2]
    rcvd = not no_received
    be = "127.0.1.1:%d" % BP
    ua = "127.0.2.1:%d" % UP
    lines.append("wire listen %s" % hx(be))
    lines.append("wire start %s" % hx(yaml_cfg("svc.test", lip, P, T, no_received, ["tcp://" + be])))
    lines.append("wire bind %s" % hx(ua))
    own = "SIP/2.0/UDP %s:%d;branch=%s" % (lip, P, BR)
    v1 = Via("UDP", "127.0.2.9", UP, [("branch", "z9hG4bK" + g.word(ALNUM.upper(), 6, 9)), ("rport", "")])
    r1 = msg("OPTIONS sip:svc.test SIP/2.0", [("Via", v1.text()), ("From", "<sip:a@ua.test>;tag=1"), ("To", "<sip:b@svc.test>"), ("Call-ID", g.word(ALNUM, 8, 12)), ("CSeq", "1 OPTIONS")])
    lines.append("wire udp %s %s %s" % (hx(ua), hx("%s:%d" % (lip, P)), hx(r1)))
    e1 = v1.stamped("127.0.2.1", UP) if rcvd else v1
    lines.append("wire accepted %s 1500 msg=%s # spec=C07 dest T %s # spec=C07 vias %s" % (hx(be), hx(r1), hx(be), hxs([own, e1.text()])))
    # the backend sends a request of its own over the connection the proxy opened
    v2 = Via("TCP", "10.9.9.9", 5099, [("branch", "z9hG4bK" + g.word(ALNUM.upper(), 6, 9)), ("rport", "")])
    r2 = msg("MESSAGE sip:svc.test SIP/2.0", [("Via", v2.text()), ("From", "<sip:be@be.test>;tag=9"), ("To", "<sip:b@svc.test>"), ("Call-ID", g.word(ALNUM, 8, 12)), ("CSeq", "7 MESSAGE")])
    lines.append("wire accwrite %s %s" % (hx(be), hx(r2)))
    e2 = v2.stamped("127.0.1.1", BP) if rcvd else v2
    lines.append("wire accepted %s 1500 msg=%s # spec=C07 dest T %s # spec=C07 vias %s" % (hx(be), hx(r2), hx(be), hxs([own, e2.text()])))
    g.count("wire_c07_outbound_%s" % ("rcvd" if rcvd else "norcvd"))
    lines.append("wire end")

def gen_c02_closed(g, lines, k, idle_ms=0):
    """a request arrives on a TCP connection, the sender closes that connection, then the response comes: the next Via
    entry says TCP, so the response is sent over TCP to that entry's address (received, sent-by port) - on a new
    connection, since the old one is gone. k odd: the connection stays open and carries the response."""
    base = take(8)
    lip, P, T, BP, VP, LP = "127.0.0.1", base, base + 1, base + 2, base + 3, base + 4
    be = "127.0.1.1:%d" % BP
    back = "127.0.2.1:%d" % VP                 # where the response must arrive: true source address, sent-by port
    lines.append("wire start %s" % hx(yaml_cfg("svc.test", lip, P, T, None, ["udp://" + be])))
    lines.append("wire bind %s" % hx(be))
    lines.append("wire listen %s" % hx(back))
    v = Via("TCP", "127.0.2.9", VP, [("branch", "z9hG4bK" + g.word(ALNUM.upper(), 6, 9))])
    call = g.word(ALNUM, 8, 12)
    req = msg("OPTIONS sip:svc.test SIP/2.0", [("Via", v.text()), ("From", "<sip:a@ua.test>;tag=1"), ("To", "<sip:b@svc.test>"), ("Call-ID", call), ("CSeq", "1 OPTIONS")])
    lines.append("wire tcpconnect 7 %s %s" % (hx("%s:%d" % (lip, T)), hx("127.0.2.1:%d" % LP)))
    lines.append("wire tcpsend 7 %s" % hx(req))
    own = "SIP/2.0/UDP %s:%d;branch=%s" % (lip, P, BR)
    exp_v = v.stamped("127.0.2.1", LP)
    lines.append("wire recv %s 1500 msg=%s # spec=C02 dest U %s" % (hx(be), hx(req), hx(be)))
    resp = msg("SIP/2.0 200 OK", [("Via", own), ("Via", exp_v.text()), ("From", "<sip:a@ua.test>;tag=1"), ("To", "<sip:b@svc.test>;tag=2"), ("Call-ID", call), ("CSeq", "1 OPTIONS")])
    if k % 2 == 0:
        lines.append("wire tcpclose 7")
        lines.append("wire sleep 300")
        lines.append("wire udp %s %s %s" % (hx(be), hx("%s:%d" % (lip, P)), hx(resp)))
        lines.append("wire accepted %s 2500 msg=%s # spec=C02 dest T %s # spec=C02 vias %s" % (hx(back), hx(resp), hx(back), hxs([exp_v.text()])))
        g.count("wire_c02_response_after_sender_closed")
    else:
        if idle_ms:
            # the backend takes its time (a ringing phone): the answer still returns on the connection the request used
            lines.append("wire sleep %d" % idle_ms)
            g.count("wire_c12_slow_answer")
        lines.append("wire udp %s %s %s" % (hx(be), hx("%s:%d" % (lip, P)), hx(resp)))
        lines.append("wire tcprecv 7 1500 msg=%s # spec=C12 dest C 7 # spec=C02 vias %s" % (hx(resp), hxs([exp_v.text()])))
        g.count("wire_c02_response_on_open_connection")
    lines.append("wire end")

def gen_c08(g, lines, k):
    """hostile field values against the REAL service (real UDP/TCP transports, real client-transport selection): after each
    batch a well-formed request must still be relayed"""
    from . import hostile
    base = take(8)
    lip, P, T, BP, UP = "127.0.0.1", base, base + 1, base + 2, base + 3
    be = "127.0.1.1:%d" % BP
    ua = "127.0.2.1:%d" % UP
    lines.append("wire start %s" % hx(yaml_cfg("svc.test", lip, P, T, [None, True][k % 2], ["udp://" + be])))
    lines.append("wire bind %s" % hx(be))
    lines.append("wire bind %s" % hx(ua))
    def probe(tag, patient=False):
        v = Via("UDP", "127.0.2.1", UP, [("branch", "z9hG4bKLIVE" + g.word(ALNUM.upper(), 6, 9)), ("rport", "")])
        req = msg("OPTIONS sip:svc.test SIP/2.0", [("Via", v.text()), ("From", "<sip:p@ua.test>;tag=1"), ("To", "<sip:svc.test>"), ("Call-ID", "live-" + tag), ("CSeq", "1 OPTIONS")])
        if patient:
            lines.append("wire probe %s %s %s %s 5 1500 msg=%s # spec=C08 dest U %s" % (hx(ua), hx("%s:%d" % (lip, P)), hx(be), hx(req), hx(req), hx(be)))
            return
        lines.append("wire udp %s %s %s" % (hx(ua), hx("%s:%d" % (lip, P)), hx(req)))
        lines.append("wire recv %s 1500 msg=%s # spec=C08 dest U %s" % (hx(be), hx(req), hx(be)))
    probe("first-%d" % k)
    batch = []
    for h in hostile.HOSTS:
        hb = h.replace("127.0.2.1", "127.0.2.1").encode("latin-1")
        batch.append(hostile.VALID[2].replace(b"127.0.3.1:5070", hb).replace(b"127.0.0.1:5060", ("%s:%d" % (lip, P)).encode()))
        batch.append(hostile.VALID[1].replace(b"10.0.0.1:5060", hb).replace(b"SIP/2.0/UDP " + hb, b"SIP/2.0/TCP " + hb).replace(b"127.0.0.1:5060", ("%s:%d" % (lip, P)).encode()))
        batch.append(hostile.VALID[0].replace(b"10.0.0.1:5060", hb))
    g.r.shuffle(batch)
    for i, m in enumerate(batch[: (12 if k % 2 else 40)]):
        lines.append("wire udp %s %s %s" % (hx(ua), hx("%s:%d" % (lip, P)), hx(m)))
        g.count("wire_hostile_datagrams")
        if i % 6 == 5:
            lines.append("wire sleep 30")
            lines.append("wire drain %s" % hx(be))
            probe("%d-%d" % (k, i))
    lines.append("wire sleep 30")
    lines.append("wire drain %s" % hx(be))
    probe("last-%d" % k)
    # well-formed requests of the largest size a datagram can have, routed back to their (self-learned) sender: with the
    # proxy's own Via and `received` added they no longer fit into a datagram, the send fails - and the listener goes on
    for j in range(3):
        v = Via("UDP", "127.0.2.1", UP, [("branch", "z9hG4bKBIG" + g.word(ALNUM.upper(), 6, 9)), ("rport", "")])
        hs = [("Via", v.text()), ("Route", "<sip:127.0.2.1:%d;lr>" % UP), ("From", "<sip:p@ua.test>;tag=1"), ("To", "<sip:x@far.example.org>"),
              ("Call-ID", "big-%d-%d" % (k, j)), ("CSeq", "1 MESSAGE"), ("Content-Type", "text/plain"), ("Subject", "x" * 40)]
        empty = msg("MESSAGE sip:x@far.example.org SIP/2.0", hs)
        pad = 65507 - len(empty) - 5                       # Content-Length grows from "0" to five digits
        big = msg("MESSAGE sip:x@far.example.org SIP/2.0", hs, b"B" * pad)
        assert len(big) == 65507 - 1 or len(big) == 65507, len(big)
        lines.append("wire udp %s %s %s" % (hx(ua), hx("%s:%d" % (lip, P)), hx(big)))
        lines.append("wire sleep 20")
        g.count("wire_largest_datagrams")
    lines.append("wire drain %s" % hx(ua))
    probe("after-largest-%d" % k, patient=True)
    lines.append("wire end")

def gen_c08_two(g, lines, k):
    """two listener entries of one service receive, at the same moment, requests whose next hop is a host name nobody has
    seen before (each loop asks the service's shared resolver): nothing may die, both listeners go on serving"""
    base = take(12)
    lip = "127.0.0.1"
    P1, P2, BP, UP = base, base + 2, base + 4, base + 5
    be, ua = "127.0.1.1:%d" % BP, "127.0.2.1:%d" % UP
    y = "proxies:\n- name: svc.test\n  listens:\n"
    for P in (P1, P2):
        y += "  - address: %s\n    udp-port: %d\n    backends:\n    - udp://%s\n" % (lip, P, be)
    lines.append("wire start %s" % hx(y))
    lines.append("wire bind %s" % hx(be))
    lines.append("wire bind %s" % hx(ua))
    def probe(tag, P, patient=False):
        v = Via("UDP", "127.0.2.1", UP, [("branch", "z9hG4bKLIVE" + g.word(ALNUM.upper(), 6, 9)), ("rport", "")])
        req = msg("OPTIONS sip:svc.test SIP/2.0", [("Via", v.text()), ("From", "<sip:p@ua.test>;tag=1"), ("To", "<sip:svc.test>"), ("Call-ID", "live2-" + tag), ("CSeq", "1 OPTIONS")])
        if patient:
            # (after a flood the listener may still be busy with it, and its socket buffer full: the probe is repeated)
            lines.append("wire probe %s %s %s %s 6 2000 msg=%s # spec=C08 dest U %s # spec=C09 dest U %s" % (hx(ua), hx("%s:%d" % (lip, P)), hx(be), hx(req), hx(req), hx(be), hx(be)))
            return
        lines.append("wire udp %s %s %s" % (hx(ua), hx("%s:%d" % (lip, P)), hx(req)))
        lines.append("wire recv %s 1500 msg=%s # spec=C08 dest U %s # spec=C09 dest U %s" % (hx(be), hx(req), hx(be), hx(be)))
    probe("a-%d" % k, P1); probe("b-%d" % k, P2)
    for j in range(40 if k == 0 else 120):
        v = Via("UDP", "127.0.2.1", UP, [("branch", "z9hG4bK" + g.word(ALNUM.upper(), 6, 9))])
        name = "n%d-%d-%s.invalid" % (k, j, g.word("abcdefghijklmnopqrstuvwxyz", 4, 8))
        req = msg("MESSAGE sip:x@far.example.org SIP/2.0", [("Via", v.text()), ("Route", "<sip:%s:5070;lr>" % name), ("From", "<sip:p@ua.test>;tag=1"), ("To", "<sip:x@far.example.org>"), ("Call-ID", "res-%d-%d" % (k, j)), ("CSeq", "1 MESSAGE")])
        lines.append("wire udp %s %s %s" % (hx(ua), hx("%s:%d" % (lip, (P1, P2)[j % 2])), hx(req)))
        g.count("wire_unknown_next_hop_names")
    lines.append("wire flood %s %s %s %d %s" % (hx(ua), hx("%s:%d" % (lip, P1)), hx("%s:%d" % (lip, P2)), 6000 if k == 0 else 30000, "f%d%s" % (k, g.word("abcdefghijklmnopqrstuvwxyz", 4, 6))))
    lines.append("wire sleep 600")
    lines.append("wire drain %s" % hx(be))
    probe("c-%d" % k, P1, patient=True); probe("d-%d" % k, P2, patient=True)
    lines.append("wire end")

def gen_c10_pair(g, lines, k):
    """two listener entries of one service relay at the same time, each its own stream of datagrams: what the backend gets
    for a datagram is that datagram (body and length), never bytes of what the other listener is relaying"""
    base = take(12)
    lip = "127.0.0.1"
    P1, P2, BP, U1, U2 = base, base + 2, base + 4, base + 5, base + 6
    be, ua1, ua2 = "127.0.1.1:%d" % BP, "127.0.2.1:%d" % U1, "127.0.2.2:%d" % U2
    y = "proxies:\n- name: svc.test\n  listens:\n"
    for P in (P1, P2):
        y += "  - address: %s\n    udp-port: %d\n    backends:\n    - udp://%s\n" % (lip, P, be)
    lines.append("wire start %s" % hx(y))
    for x in (be, ua1, ua2):
        lines.append("wire bind %s" % hx(x))
    lines.append("wire pair %s %s %s %s %s %d %s # spec=C10 eq ok intact # spec=C09 eq ok intact # spec=C01 eq ok intact" % (
        hx(ua1), hx(ua2), hx("%s:%d" % (lip, P1)), hx("%s:%d" % (lip, P2)), hx(be), 1500 if k == 0 else 6000, "q%d%s" % (k, g.word("abcdefghijklmnopqrstuvwxyz", 4, 6))))
    g.count("wire_two_listeners_relaying_at_once")
    lines.append("wire end")

def gen_c15(g, lines, k):
    """two services in one configuration file, started the way main() starts them (startProxies): the first one sets
    dialogTimeout: 1, the second one leaves it to the default (1200 s). A dialog pinned on the second service is still
    pinned one and a half seconds later."""
    base = take(16)
    lip = "127.0.0.1"
    P1, P2, B1, B2, B3, UP = base, base + 1, base + 2, base + 3, base + 4, base + 5
    b1, b2, b3, ua = "127.0.1.1:%d" % B1, "127.0.1.2:%d" % B2, "127.0.1.3:%d" % B3, "127.0.2.1:%d" % UP
    y = ("proxies:\n- name: one.test\n  dialogTimeout: 1\n  listens:\n  - address: %s\n    udp-port: %d\n    backends:\n    - udp://%s\n"
         "- name: two.test\n  listens:\n  - address: %s\n    udp-port: %d\n    backends:\n    - udp://%s\n    - udp://%s\n") % (lip, P1, b1, lip, P2, b2, b3)
    lines.append("wire startall %s" % hx(y))
    for x in (b1, b2, b3, ua):
        lines.append("wire bind %s" % hx(x))
    call = g.word(ALNUM, 8, 12)
    v = Via("UDP", "127.0.2.1", UP, [("branch", "z9hG4bK" + g.word(ALNUM.upper(), 6, 9))])
    inv = msg("INVITE sip:two.test SIP/2.0", [("Via", v.text()), ("From", "<sip:a@ua.test>;tag=f1"), ("To", "<sip:b@two.test>"), ("Call-ID", call), ("CSeq", "1 INVITE")])
    lines.append("wire udp %s %s %s" % (hx(ua), hx("%s:%d" % (lip, P2)), hx(inv)))
    # the rotation's first dispatch goes to the second backend
    lines.append("wire recv %s 1500 msg=%s # spec=C15 dest U %s" % (hx(b3), hx(inv), hx(b3)))
    own = "SIP/2.0/UDP %s:%d;branch=%s" % (lip, P2, BR)
    ok = msg("SIP/2.0 200 OK", [("Via", own), ("Via", v.stamped("127.0.2.1", UP).text()), ("From", "<sip:a@ua.test>;tag=f1"), ("To", "<sip:b@two.test>;tag=t1"), ("Call-ID", call), ("CSeq", "1 INVITE")])
    lines.append("wire udp %s %s %s" % (hx(b3), hx("%s:%d" % (lip, P2)), hx(ok)))
    lines.append("wire recv %s 1500 msg=%s # spec=C15 dest U %s" % (hx(ua), hx(ok), hx(ua)))
    lines.append("wire sleep 1600")
    for i in range(4):
        vi = Via("UDP", "127.0.2.1", UP, [("branch", "z9hG4bK" + g.word(ALNUM.upper(), 6, 9))])
        info = msg("INFO sip:two.test SIP/2.0", [("Via", vi.text()), ("From", "<sip:a@ua.test>;tag=f1"), ("To", "<sip:b@two.test>;tag=t1"), ("Call-ID", call), ("CSeq", "%d INFO" % (2 + i))])
        lines.append("wire udp %s %s %s" % (hx(ua), hx("%s:%d" % (lip, P2)), hx(info)))
        lines.append("wire recv %s 1500 msg=%s # spec=C15 dest U %s" % (hx(b3), hx(info), hx(b3)))
    lines.append("wire recv %s 150 msg=%s # spec=C15 dest none" % (hx(b2), hx(inv)))
    g.count("wire_c15_two_services")
    lines.append("wire end")

def gen_c15_env(g, lines, k):
    """the service says dialogTimeout: 1 and the environment says DEFAULT_DIALOG_TIMEOUT=600: the service's own setting is
    the configured dialog timeout (the environment only fills in for a service that has none). A dialog bound on this
    service has lapsed 1.6 s later: two requests bearing its identifiers are load-balanced, one to each backend."""
    base = take(16)
    lip = "127.0.0.1"
    P1, B1, B2, UP = base, base + 2, base + 3, base + 5
    b1, b2, ua = "127.0.1.1:%d" % B1, "127.0.1.2:%d" % B2, "127.0.2.1:%d" % UP
    y = ("proxies:\n- name: one.test\n  dialogTimeout: 1\n  listens:\n  - address: %s\n    udp-port: %d\n    backends:\n    - udp://%s\n    - udp://%s\n") % (lip, P1, b1, b2)
    lines.append("wire setenv %s %s" % (hx("DEFAULT_DIALOG_TIMEOUT"), hx("600")))
    lines.append("wire startall %s" % hx(y))
    lines.append("wire setenv %s -" % hx("DEFAULT_DIALOG_TIMEOUT"))
    for x in (b1, b2, ua):
        lines.append("wire bind %s" % hx(x))
    call = g.word(ALNUM, 8, 12)
    v = Via("UDP", "127.0.2.1", UP, [("branch", "z9hG4bK" + g.word(ALNUM.upper(), 6, 9))])
    inv = msg("INVITE sip:one.test SIP/2.0", [("Via", v.text()), ("From", "<sip:a@ua.test>;tag=f1"), ("To", "<sip:b@one.test>"), ("Call-ID", call), ("CSeq", "1 INVITE")])
    lines.append("wire udp %s %s %s" % (hx(ua), hx("%s:%d" % (lip, P1)), hx(inv)))
    lines.append("wire recv %s 1500 msg=%s # spec=C15 dest U %s" % (hx(b2), hx(inv), hx(b2)))       # the rotation's first dispatch
    own = "SIP/2.0/UDP %s:%d;branch=%s" % (lip, P1, BR)
    ok = msg("SIP/2.0 200 OK", [("Via", own), ("Via", v.stamped("127.0.2.1", UP).text()), ("From", "<sip:a@ua.test>;tag=f1"), ("To", "<sip:b@one.test>;tag=t1"), ("Call-ID", call), ("CSeq", "1 INVITE")])
    lines.append("wire udp %s %s %s" % (hx(b2), hx("%s:%d" % (lip, P1)), hx(ok)))
    lines.append("wire recv %s 1500 msg=%s # spec=C15 dest U %s" % (hx(ua), hx(ok), hx(ua)))
    # inside the lifetime: bound
    vi = Via("UDP", "127.0.2.1", UP, [("branch", "z9hG4bK" + g.word(ALNUM.upper(), 6, 9))])
    info = msg("INFO sip:one.test SIP/2.0", [("Via", vi.text()), ("From", "<sip:a@ua.test>;tag=f1"), ("To", "<sip:b@one.test>;tag=t1"), ("Call-ID", call), ("CSeq", "2 INFO")])
    lines.append("wire udp %s %s %s" % (hx(ua), hx("%s:%d" % (lip, P1)), hx(info)))
    lines.append("wire recv %s 1500 msg=%s # spec=C15 dest U %s" % (hx(b2), hx(info), hx(b2)))
    lines.append("wire sleep 1600")
    # after it: load-balanced like new ones, the rotation goes on where it stood (b1, then b2)
    for i, tgt in enumerate((b1, b2)):
        vi = Via("UDP", "127.0.2.1", UP, [("branch", "z9hG4bK" + g.word(ALNUM.upper(), 6, 9))])
        info = msg("INFO sip:one.test SIP/2.0", [("Via", vi.text()), ("From", "<sip:a@ua.test>;tag=f1"), ("To", "<sip:b@one.test>;tag=t1"), ("Call-ID", call), ("CSeq", "%d INFO" % (3 + i))])
        lines.append("wire udp %s %s %s" % (hx(ua), hx("%s:%d" % (lip, P1)), hx(info)))
        lines.append("wire recv %s 1500 msg=%s # spec=C15 dest U %s" % (hx(tgt), hx(info), hx(tgt)))
    g.count("wire_c15_service_setting_beats_environment")
    lines.append("wire end")

def generate(seed, tier, focus="c07"):
    g = Gen(seed)
    lines = []
    region("quick" if tier == "quick" else "thorough", focus)
    n = 6 if tier == "quick" else 60
    for k in range(n):
        if focus == "c15":
            if k < (1 if tier == "quick" else 2):
                gen_c15(g, lines, k)
                gen_c15_env(g, lines, k)
            continue
        if focus == "c10":
            if k < (1 if tier == "quick" else 4):
                gen_c10_pair(g, lines, k)
            continue
        if focus == "c12":
            if k < (2 if tier == "quick" else 6):
                gen_c02_closed(g, lines, 2 * k + 1, idle_ms=[5600, 0, 7000, 0, 31000, 0][k])
            continue
        if focus == "c08":
            if k < (2 if tier == "quick" else 30):
                gen_c08(g, lines, k)
            if k < (1 if tier == "quick" else 5):
                gen_c08_two(g, lines, k)
            continue
        if focus == "c07":
            gen_c07(g, lines, k)
            if k < (2 if tier == "quick" else 20):
                gen_c07_outbound(g, lines, k)
                gen_c07_two(g, lines, k)
                gen_c02_closed(g, lines, k)
    return lines, g.stats
