"""Stream `std`: Go stdlib functions as the modelled code uses them (bottom of tie B)."""
from .common import *

SPACE_RUNES = [chr(c) for c in [0x85, 0xA0, 0x1680] + list(range(0x2000, 0x200B)) + [0x2028, 0x2029, 0x202F, 0x205F, 0x3000]]
NON_SPACE_RUNES = [chr(c) for c in [0x200B, 0x2060, 0xFEFF, 0x180E, 0xA1, 0x84, 0x86, 0x2027, 0x200C, 0xE9, 0x20AC, 0x1F600, 0x200A + 1, 0x1FFF, 0x2FFF, 0x3001]]

def spacey(g, lo, hi):
    """byte strings rich in ASCII blanks, Unicode blanks, look-alikes, truncated/invalid UTF-8."""
    parts = []
    for _ in range(g.rint(lo, hi)):
        k = g.rint(0, 9)
        if k == 0: parts.append(g.pick([b" ", b"\t", b"\r", b"\n", b"\v", b"\f"]))
        elif k == 1: parts.append(g.pick(SPACE_RUNES).encode("utf-8"))
        elif k == 2: parts.append(g.pick(NON_SPACE_RUNES).encode("utf-8"))
        elif k == 3:
            e = g.pick(SPACE_RUNES).encode("utf-8")
            parts.append(e[:g.rint(1, len(e))])          # truncated encoding
        elif k == 4: parts.append(bytes([g.pick([0x80, 0x85, 0xA0, 0xC2, 0xE1, 0xE2, 0xE3, 0x9A, 0x9F, 0xFF, 0xC0, 0xF0])]))
        elif k == 5: parts.append(g.rbytes(1, 3))
        else: parts.append(g.word(ALNUM + ";=:,<>@/", 1, 4).encode())
    return b"".join(parts)

def generate(seed, tier):
    g = Gen(seed)
    n = 1500 if tier == "quick" else 40000
    lines = []
    fixed = [b"", b" ", b"  a  ", b"\xc2\xa0a\xc2\xa0", b"\xe2\x80\x80", b"\xe2\x80", b"a\xe2\x80\x8b", b"\xe3\x80\x80x\xe3\x80\x80",
             b"\x85", b"\xc2\x85", b"\xa0 x", b"x \xa0", b"x\xc2", b"\xe1\x9a\x80\xe1\x9a", b" \xe2\x81\x9f ", b"\xe2\x80\xa8\xe2\x80\xa9\xe2\x80\xaf"]
    for s in fixed:
        lines.append("std trim %s" % hx(s)); lines.append("std fields %s" % hx(s))
    for i in range(n):
        k = i % 11
        if k == 0:
            sep = g.pick(b";,:/&=")
            s = "".join(g.pick(["a", "bc", chr(sep), chr(sep) * 2, "", " "]) for _ in range(g.rint(0, 8)))
            lines.append("std split %s %s" % (hx(bytes([sep])), hx(s)))
        elif k == 1: lines.append("std trim %s" % hx(spacey(g, 0, 8)))
        elif k == 2: lines.append("std fields %s" % hx(spacey(g, 0, 10)))
        elif k == 3:
            c = g.rint(0, 9)
            if c == 0: s = g.pick(["", "+", "-", "+-1", "1_000", " 1", "1 ", "0x10", "\uff11\uff12"])
            elif c == 1: s = g.pick(["9223372036854775807", "9223372036854775808", "-9223372036854775808", "-9223372036854775809", "18446744073709551616", "000000000000000000000000012", "+0", "-0", "99999999999999999999999"])
            elif c == 2: s = g.pick(["+", "-", ""]) + g.word("0123456789", 17, 21)
            else: s = g.pick(["", "", "+", "-"]) + g.word("0123456789", 1, 6) + g.pick(["", "", "", "a", " "])
            lines.append("std atoi %s" % hx(s.encode("utf-8")))
        elif k == 4: lines.append("std itoa %d" % g.pick([0, 1, -1, 9, 10, 5060, 65535, -65536, 2**31 - 1, -2**31, 2**63 - 1, -2**63, g.rint(-10**12, 10**12)]))
        elif k == 5: lines.append("std lower %s" % hx(g.word(TOKEN, 0, 12)))
        elif k == 6:
            a = g.word(ALNUM + "-", 0, 8)
            b = g.pick([a, a.upper(), a.lower(), a.swapcase(), a + "x", g.word(ALNUM + "-", 0, 8)])
            lines.append("std fold %s %s" % (hx(a), hx(b)))
        elif k == 7:
            h = g.pick(["127.0.0.1", "example.com", "::1", "fe80::1", "[::1]", "", "a:b", "h%25eth0"])
            lines.append("std jhp %s %d" % (hx(h), g.pick([0, 5060, 65535, -1, 80])))
        elif k == 8:
            c = g.pick(b";:=@?<>")
            s = g.word("ab" + chr(c), 0, 8)
            lines.append("std %s %s %s" % (g.pick(["cut", "cutlast"]), hx(bytes([c])), hx(s)))
        elif k == 9:
            lines.append("std prefix %s %s" % (hx(g.pick(["sip:", "sips:", "SIP/"])), hx(g.pick(["sip:a", "sips:a", "sip", "SIP/2.0 200 OK", "sIP/2.0", "", "sips", "SIP/"]))))
        else:
            a = g.rbytes(0, 4); b = g.pick([a, a + b"\x00", a[:-1] if a else b"", g.rbytes(0, 4)])
            lines.append("std less %s %s" % (hx(a), hx(b)))
    return lines, g.stats
