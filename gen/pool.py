"""Stream `pool` (C10): Alloc/Free histories on the real ByteArrayPool (clients free only what they hold)."""
import itertools
from .common import *

def generate(seed, tier):
    g = Gen(seed)
    lines = []
    L = 6 if tier == "quick" else 8
    n = 0
    for cap in (0, 1, 2, 3):
        def rec(seq, held, nxt, pool):
            nonlocal n
            if len(seq) == L:
                lines.append("pool new %d" % cap); lines.extend(seq); n += 1
                return
            # alloc
            if pool:
                b = pool[-1]; rec(seq + ["pool alloc"], held + [b], nxt, pool[:-1])
            else:
                rec(seq + ["pool alloc"], held + [nxt], nxt + 1, pool)
            for b in held:
                h2 = [x for x in held if x != b]
                p2 = pool + [b] if (len(pool) == 0 or len(pool) < cap) else pool
                rec(seq + ["pool free %d" % b], h2, nxt, p2)
        rec([], [], 0, [])
    g.count("exhaustive_histories", n)
    for _ in range(100 if tier == "quick" else 2000):
        cap = g.pick([0, 1, 2, 4, 8]); lines.append("pool new %d" % cap)
        held, nxt, pool = [], 0, []
        for _ in range(g.rint(1, 80)):
            if held and g.chance(0.5):
                b = g.pick(held); held.remove(b)
                if len(pool) == 0 or len(pool) < cap: pool.append(b)
                lines.append("pool free %d" % b)
            else:
                if pool: held.append(pool.pop())
                else: held.append(nxt); nxt += 1
                lines.append("pool alloc")
        g.count("random_histories")
    return lines, g.stats
