"""Stream `res` (C19): scripted resolution outcomes fed to addressResolved; rotation observed."""
import itertools
from .common import *

IPS = ["127.0.1.%d" % i for i in range(1, 6)]

def subsets(xs):
    out = []
    for k in range(len(xs) + 1):
        for c in itertools.combinations(xs, k):
            out.append(list(c))
    return out

import os, time
# ports of this process (observation sockets are bound on them; concurrent checks must not collide)
PBASE = 24000 + ((int(time.time()) * 13 + os.getpid() * 7) % 1990)     # below the kernel's ephemeral port range
PORTS = {"5080": str(PBASE), "6090": str(PBASE + 1), "5060": str(PBASE + 2), "5070": str(PBASE + 3)}

def case(proto, port, hosts, steps, disp=None):
    """disp: positions after which one full dispatch round is observed on the wire (udp only)"""
    out = ["res new %s %s" % (proto, PORTS[port])]
    for h in hosts:
        out.append("res host %s" % hx(h))
    for i, (h, o) in enumerate(steps):
        if o is None: out.append("res %s %s" % (["fail", "failnf", "fail", "failtmp"][(i + len(steps)) % 4], hx(h)))
        else: out.append(("res ok %s " % hx(h) + " ".join(hx(x) for x in o)).rstrip())
        if proto == "udp" and (disp is None and i == len(steps) - 1 or disp is not None and i in disp):
            out.append("res disp")
    out.append("res close")
    return out

def generate(seed, tier):
    g = Gen(seed)
    lines = []
    outcomes = subsets(IPS[:3]) + [None]
    L = 3 if tier == "quick" else 5
    n = 0
    for seq in itertools.product(outcomes, repeat=L):
        # failure tolerance needs runs of >= 4 failures: pad every exhaustive sequence on both sides
        lines += case("udp" if n % 2 == 0 else "tcp", "5080", ["svc.test"], [("svc.test", o) for o in seq])
        n += 1
    g.count("exhaustive_sequences", n)
    # all positions of failure runs of length 1..6 after/before successes
    for k in range(1, 7):
        for s0 in subsets(IPS[:2]):
            for s1 in subsets(IPS[:2]):
                steps = [("svc.test", s0)] + [("svc.test", None)] * k + [("svc.test", s1)] + [("svc.test", None)] * 5
                lines += case("udp", "5080", ["svc.test"], steps, disp={0, k, k + 1, k + 6})
                g.count("failure_run_cases")
    for _ in range(150 if tier == "quick" else 2000):
        two = g.chance(0.4)
        hosts = ["svc.test", "alt.test"] if two else ["svc.test"]
        steps = []
        for _ in range(g.rint(1, 60)):
            h = g.pick(hosts)
            pool = IPS if not two else (IPS[:3] if h == "svc.test" else IPS[3:])
            if g.chance(0.45): steps.append((h, None))
            else: steps.append((h, [x for x in pool if g.chance(0.5)]))
        lines += case(g.pick(["udp", "tcp"]), g.pick(["5080", "6090"]), hosts, steps, disp={i for i in range(len(steps)) if g.chance(0.3)} | {len(steps) - 1})
        g.count("random_histories")
    # the rotation built by the real CreateRoundRobinBackend from host names (one or two names, same or
    # different ports); host names are unique per case because the package-level resolver keeps them
    nonce = "%x" % ((int(time.time()) * 1000 + os.getpid()) % (1 << 32))
    for k in range(60 if tier == "quick" else 1500):
        two = g.chance(0.7)
        ha = "a%s-%d.invalid" % (nonce, k); hb = "b%s-%d.invalid" % (nonce, k)
        pa = PORTS[g.pick(["5060", "5070"])]; pb = PORTS[g.pick(["5060", "5070", "5080"])] if two else None
        hosts = [(ha, pa)] + ([(hb, pb)] if two else [])
        proto = g.pick(["udp", "tcp"])
        lines.append("res2 new %s %s %s" % (proto, nonce, " ".join(hx("%s:%s" % h) for h in hosts)))
        for _ in range(g.rint(2, 14)):
            h = g.pick(hosts)[0]
            pool = IPS[:3] if h == ha else IPS[2:]      # the two names may even share an address: the ports tell them apart when they differ
            if two and pa == pb:
                pool = IPS[:2] if h == ha else IPS[3:]   # same port: disjoint address sets (the property's domain)
            if g.chance(0.3):
                lines.append("res2 %s %s" % (g.pick(["fail", "failnf", "failtmp"]), hx(h)))
            else:
                lines.append(("res2 ok %s " % hx(h) + " ".join(hx(x) for x in pool if g.chance(0.6))).rstrip())
            if g.chance(0.15):
                # another listener names the same pool now (the name is known, maybe resolved already)
                hj = g.pick(hosts)
                lines.append("res2 join %s %s" % (proto, hx("%s:%s" % hj)))
                g.count("second_subscription")
            if proto == "udp" and g.chance(0.5):
                lines.append("res2 disp")
        if proto == "udp":
            lines.append("res2 disp")
        lines.append("res close")
        g.count("create_rr_cases")
    # the resolver's own periodic loop (real time, about five seconds)
    for k in range(1 if tier == "quick" else 3):
        lines.append("res3 real udp %s %s # spec=C19 eq emptied-after-failures" % (PORTS["5080"], hx("r%s-%d.invalid" % (nonce, k))))
        g.count("real_loop_cases")
    return lines, g.stats
