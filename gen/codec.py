"""Stream `codec` (C14): values derived from a grammar of the RFC 3261 productions in use.
Every case carries the expected decode (components, accessors) and the expected re-encoding,
computed here from the ABSTRACT value -- independently of both the Go code and the Lean model.
`kind` tags: dom = inside C14's domain; ipv6 / usersemi = the property's own known-finding classes;
odd = outside the stated grammar (compared model-vs-implementation only, no oracle)."""
from .common import *

PCT = ["%20", "%41", "%3B", "%25", "%2c", "%", "%%", "%s", "%d", "%!", "%v%n"]

def esc_word(g, alphabet, lo, hi, pct=0.15):
    out = []
    for _ in range(g.rint(lo, hi)):
        if g.chance(pct):
            out.append(g.pick(PCT))
        else:
            out.append(g.r.choice(alphabet))
    return "".join(out)

def host(g):
    k = g.rint(0, 5)
    if k <= 1:
        return "%d.%d.%d.%d" % (g.rint(1, 223), g.rint(0, 255), g.rint(0, 255), g.rint(1, 254))
    if k == 2:
        return g.word("abcdefghijklmnopqrstuvwxyz", 1, 8) + g.pick([".com", ".example.org", "", ".a-b.net", "-x"])
    if k == 3:
        return g.pick(["example.com", "a", "sip.x.y.z", "h-x-sip", "gw1"])
    return g.word(ALNUM, 1, 6) + "." + g.word("abcdefghij", 2, 3)

def port(g):
    return g.pick([None, None, 5060, 5061, 1, 65535, g.rint(1, 65535)])

USER_OK = UNRESERVED + "&=+$/"     # user-unreserved without ';' '?' (domain) and ',' (list headers)
PASS_OK = UNRESERVED + "&=+$"
PARAM_OK = UNRESERVED + "[]/:&+$"
HDR_OK = UNRESERVED + "[]/?:+$"

class SipUri:
    def __init__(self, g, in_list=False, kind="dom"):
        self.kind = kind
        self.scheme = g.pick(["sip", "sip", "sip", "sips"])
        self.user = ""
        self.password = ""
        if g.chance(0.7):
            self.user = esc_word(g, USER_OK + ("" if in_list else ","), 1, 10)
            if g.chance(0.3):
                self.password = esc_word(g, PASS_OK + ("" if in_list else ","), 1, 6)
        if kind == "usersemi":
            self.user = g.word(ALNUM, 1, 4) + g.pick([";", "?", ";x=1", "?a"]) + g.word(ALNUM, 0, 3)
        self.host = host(g)
        if kind == "ipv6":
            self.host = g.pick(["[::1]", "[2001:db8::1]", "[fe80::1:2]"])
        self.port = port(g)
        # legal but unusual spellings, tracked as known findings: an empty password ("user:@host") and a port
        # written with leading zeros
        self.empty_pw = bool(self.user) and not self.password and kind == "dom" and g.chance(0.03)
        self.port_zeros = self.port is not None and kind == "dom" and g.chance(0.03)
        if self.empty_pw: g.count("uri_empty_password")
        if self.port_zeros: g.count("uri_port_leading_zeros")
        self.params = []
        for _ in range(g.pick([0, 0, 1, 1, 2, 3, 6])):
            c = g.rint(0, 5)
            if c == 0:
                self.params.append(("lr", ""))
            elif c == 1:
                self.params.append((g.pick(["transport"]), g.pick(["udp", "tcp", "tls", "UDP", "sctp"])))
            elif c == 2:
                self.params.append((esc_word(g, PARAM_OK, 1, 6, 0.1), ""))          # valueless flag parameter
            else:
                self.params.append((esc_word(g, PARAM_OK, 1, 6, 0.1), esc_word(g, PARAM_OK, 1, 8)))
        self.headers = []
        for _ in range(g.pick([0, 0, 0, 1, 2, 3])):
            self.headers.append((esc_word(g, HDR_OK, 1, 6, 0.1), esc_word(g, HDR_OK, 0, 8)))

    def hostport(self):
        return self.host + ((":0%d" if self.port_zeros else ":%d") % self.port if self.port is not None else "")

    def render(self, params=True, headers=True):
        s = self.scheme + ":"
        if self.user:
            s += self.user + (":" + self.password if (self.password or self.empty_pw) else "") + "@"
        s += self.hostport()
        if params:
            for k, v in self.params:
                s += ";" + k + ("=" + v if v else "")
        if headers and self.headers:
            s += "?" + "&".join(k + "=" + v for k, v in self.headers)
        return s

    def transport(self):
        for k, v in self.params:
            if k == "transport":
                return v
        return "udp"

    def get_port(self):
        if self.port is not None:
            return self.port
        return 5061 if self.transport() == "tls" else 5060

    def fields(self):
        return "sip %s %s %s %s %d %d %s %s %s" % (hx(self.scheme), hx(self.user), hx(self.password), hx(self.host),
            self.port or 0, self.get_port(), hx(self.transport()), kvlist(self.params), kvlist(self.headers))

class AbsUri:
    def __init__(self, g, in_list=False, bare=False):
        self.kind = "dom"
        k = g.rint(0, 3)
        if k == 0:
            self.text = "tel:+" + g.word("0123456789-", 3, 12)
        elif k == 1:
            self.text = "tel:" + g.word("0123456789", 2, 6) + ("" if bare else ";phone-context=" + host(g))
        elif k == 2:
            self.text = "urn:service:" + g.pick(["sos", "sos.fire", "sos.police", "counseling"])
        else:
            self.text = "urn:" + g.word(ALNUM, 1, 5) + ":" + esc_word(g, UNRESERVED + ":+", 1, 10)
        if not bare and g.chance(0.3):
            self.text += g.pick(["%20", "%", ";x=%41", "%s%d"])

    def render(self, params=True, headers=True):
        return self.text

    def fields(self):
        return "abs"

def addr_spec(g, in_list=False, bare=False, kind="dom"):
    if kind in ("ipv6", "usersemi"):
        return SipUri(g, in_list, kind)
    if g.chance(0.75):
        u = SipUri(g, in_list)
        if bare:
            u.params = []; u.headers = []
        return u
    return AbsUri(g, in_list, bare)

def display(g):
    k = g.rint(0, 5)
    if k <= 1:
        return ""
    if k == 2:
        return g.word(TOKEN, 1, 8) + " "
    if k == 3:
        return g.word(ALNUM, 1, 5) + " " + g.word(TOKEN, 1, 5) + " "
    if k == 4:
        return '"' + esc_word(g, ALNUM + " .;=:@%()'", 0, 12, 0.2) + '" '
    return '"' + g.pick(["50% off", "J. O'Hara", "a;b=c", "%s%d%n", "éè", "Bob", "Lab C:\\\\", "a\\\\", "x \\\"y\\\" \\\\"]) + '"' + g.pick(["", " "])

def gen_params(g, maxn=5, tag=None):
    ps = []
    for _ in range(g.pick([0, 0, 1, 2, 3, maxn])):
        c = g.rint(0, 4)
        if c == 0:
            ps.append((g.word(TOKEN.replace("%", ""), 1, 8), ""))
        elif c == 1:
            ps.append((g.word(TOKEN.replace("%", ""), 1, 8), '"' + esc_word(g, ALNUM + " =:@%()", 0, 10, 0.2) + '"'))
        else:
            ps.append((g.word(TOKEN.replace("%", ""), 1, 8), esc_word(g, TOKEN.replace("%", ""), 1, 10, 0.15)))
    ps = [(k, v) for (k, v) in ps if k not in ("tag", "branch", "received", "rport", "transport")]
    if tag is not None:
        ps.insert(g.rint(0, len(ps)), ("tag", tag))
    return ps

def render_params(ps):
    return "".join(";" + k + ("=" + v if v else "") for k, v in ps)

def gen_uri_case(g, kind):
    a = addr_spec(g, kind=kind)
    s = a.render()
    return "codec uri %s # spec=C14 eq ok %s %s %s" % (hx(s), hx(s), hx(s), a.fields()), a.kind

def gen_via_case(g, kind):
    n = g.pick([1, 1, 1, 2, 3, 5])
    entries, texts = [], []
    for _ in range(n):
        tr = g.pick(["UDP", "TCP", "TLS", "SCTP", "udp", "tls", g.word(TOKEN.replace("%", ""), 1, 5)])
        pn, pv = g.pick([("SIP", "2.0"), ("SIP", "2.0"), (g.word(ALNUM, 1, 4), g.word("0123456789.", 1, 3))])
        h = host(g)
        if kind == "ipv6":
            h = g.pick(["[::1]", "[2001:db8::1]"])
        p = port(g)
        ps = []
        for _ in range(g.pick([0, 1, 2, 3, 8])):
            c = g.rint(0, 6)
            if c == 0: ps.append(("branch", "z9hG4bK" + esc_word(g, TOKEN.replace("%", ""), 1, 12, 0.1)))
            elif c == 1: ps.append(("rport", g.pick(["", str(g.rint(1, 65535)), "abc"])))
            elif c == 2: ps.append(("received", host(g)))
            elif c == 3: ps.append((g.word(TOKEN.replace("%", ""), 1, 6), ""))
            else: ps.append((g.word(TOKEN.replace("%", ""), 1, 6), esc_word(g, TOKEN.replace("%", "") + ":[]", 1, 10, 0.15)))
        # keys are looked up by first occurrence
        def first(key):
            for k, v in ps:
                if k == key:
                    return v
            return None
        getport = p if p is not None else (5061 if tr == "TLS" else 5060)
        rp = first("rport")
        rport = rp if (rp is not None and rp.isdigit()) else None
        text = "%s/%s/%s %s%s%s" % (pn, pv, tr, h, ":%d" % p if p is not None else "", render_params(ps))
        texts.append(text)
        entries.append("%s %s %s %s %d %d %s %s %s %s %s" % (hx(pn), hx(pv), hx(tr), hx(h), p or 0, getport,
            hx("%s:%d" % (h, getport)), opt(first("branch")), opt(first("received")), rport if rport is not None else "~", kvlist(ps)))
    s = ",".join(texts)
    return "codec via %s # spec=C14 eq ok %s %d %s" % (hx(s), hx(s), n, " ".join(entries)), kind

def gen_viastamp_case(g):
    """stamping received/rport on the first entry of a decoded Via must leave every other entry and
    parameter untouched (expected result computed from the abstract entries)"""
    n = g.pick([1, 2, 2, 3, 5])
    ents = []
    for i in range(n):
        tr = g.pick(["UDP", "TCP", "TLS"]); h = host(g); p = port(g)
        ps = [("branch", "z9hG4bK" + g.word(ALNUM, 4, 10))]
        if g.chance(0.4): ps.append(("rport", g.pick(["", "1234"])))
        if g.chance(0.2): ps.insert(g.rint(0, len(ps)), ("received", "1.2.3.4"))
        for _ in range(g.pick([0, 0, 1, 3])):
            ps.append((g.word(TOKEN.replace("%", ""), 1, 6), g.pick(["", esc_word(g, TOKEN.replace("%", ""), 1, 8, 0.1)])))
        ents.append((tr, h, p, ps))
    def text(e):
        tr, h, p, ps = e
        return "SIP/2.0/%s %s%s%s" % (tr, h, ":%d" % p if p is not None else "", render_params(ps))
    s = ",".join(text(e) for e in ents)
    ip, pt = g.pick(["127.0.0.9", "10.20.30.40"]), g.rint(1024, 65535)
    tr, h, p, ps = ents[0]
    ps2 = list(ps)
    for i, (k, v) in enumerate(ps2):
        if k == "received":
            ps2[i] = (k, ip); break
    else:
        ps2.append(("received", ip))
    for i, (k, v) in enumerate(ps2):
        if k == "rport":
            ps2[i] = (k, str(pt)); break
    out = [(tr, h, p, ps2)] + ents[1:]
    def first(ps, key):
        for k, v in ps:
            if k == key: return v
        return None
    exp = "ok %s %d %s" % (hx(",".join(text(e) for e in out)), n, " ".join("%s %s" % (opt(first(e[3], "branch")), kvlist(e[3])) for e in out))
    return "codec viastamp %s %s %d # spec=C14 eq %s" % (hx(s), hx(ip), pt, exp), "dom"

def gen_route_case(g, kind, op):
    n = g.pick([1, 1, 2, 3, 4])
    texts, entries = [], []
    for i in range(n):
        a = addr_spec(g, in_list=True, kind=kind if i == 0 else "dom")
        d = display(g)
        if "," in d: d = d.replace(",", "")
        ps = gen_params(g, 5)
        ps = [(k, v.replace(",", "")) for k, v in ps]
        ps = [(k, v) for k, v in ps if v != '""' or True]
        t = d + "<" + a.render() + ">" + render_params(ps)
        texts.append(t)
        entries.append("%s %s %s" % (hx(d), hx(a.render()), kvlist(ps)))
    s = ",".join(texts)
    return "codec %s %s # spec=C14 eq ok %s %d %s" % (op, hx(s), hx(s), n, " ".join(entries)), kind

def gen_fromto_case(g, kind, op):
    tag = g.pick([None, g.word(ALNUM + "-._", 1, 10), g.word(ALNUM, 4, 8)])
    ps = gen_params(g, 5, tag)
    if g.chance(0.7) or kind != "dom":
        a = addr_spec(g, kind=kind)
        d = display(g)
        s = d + "<" + a.render() + ">" + render_params(ps)
        form, disp = "na", hx(d)
    else:
        a = addr_spec(g, bare=True)
        s = a.render() + render_params(ps)
        form, disp = "as", "~"
    return "codec %s %s # spec=C14 eq ok %s %s %s %s %s %s" % (op, hx(s.encode("utf-8").decode("latin-1")), hx(s.encode("utf-8").decode("latin-1")), opt(tag), hx(a.render()), form, disp if disp == "~" else hx(d.encode("utf-8").decode("latin-1")), kvlist(ps)), kind

def gen_cseq_case(g):
    n = g.pick([0, 1, 2, 100, 2**31 - 1, g.rint(0, 2**31 - 1)])
    m = g.pick(["INVITE", "ACK", "BYE", "SUBSCRIBE", "NOTIFY", g.word(TOKEN.replace("%", ""), 1, 8)])
    # any 1*DIGIT LWS Method: leading zeros and wider white space are legal and must come back unchanged
    digits = g.pick(["%d", "%d", "%d", "%03d", "%010d", "00%d"]) % n
    s = digits + g.pick([" ", " ", " ", "  ", "\t", " \t "]) + m
    g.count("cseq_canonical" if s == "%d %s" % (n, m) else "cseq_noncanonical")
    return "codec cseq %s # spec=C14 eq ok %s %d %s" % (hx(s), hx(s), n, hx(m)), "dom"

ODD = ["", "sip:", "sips:", "sip:@", "sip:a@", "sip:a@b:", "sip:a@b:x", "sip:a@b:-5", "sip:a@b;", "sip:a@b;;x", "sip:a@b;x=", "sip:a@b?x", "sip:a@b?x=1&y",
       "sip:a:@b", "sip::p@b", "<", ">", "<>", "><", "a<b", "<sip:a@b", "sip:a@b>", "\"x\" <sip:a@b>;", "<sip:a@b>;;", "<sip:a@b> ;x", "<sip:a@b>x",
       "SIP/2.0/UDP", "SIP/2.0/UDP h:1:2", "SIP/2.0 h", "SIP/2.0/UDP  h ;branch=x", " SIP/2.0/UDP h", "SIP/2.0/UDP h:x", "SIP/2.0/UDP h, SIP/2.0/TCP i:5", "SIP/2.0/UDP [;branch=x",
       "SIP / 2.0 / UDP h", "1", "1  INVITE", "007 INVITE", "x INVITE", "1 INVITE x", "-1 ACK", "tel:+1;tag=x", "sip:a@b;tag=x;", "<sip:a@b>;tag", "<sip:a@b>;tag=", "<<sip:a@b>>",
       "<sip:a,b@h>", "<sip:a@h>,", ",<sip:a@h>", "<sip:a@h>, <sip:b@h>", "<sip:a@h> , <sip:b@h>;lr", "sip:a@[::1]:5060", "sip:[::1]", "<sip:u;x@h>", "sip:u?x@h"]

def generate(seed, tier):
    g = Gen(seed)
    n = 4000 if tier == "quick" else 120000
    lines = []
    kinds = ["dom"] * 17 + ["ipv6", "usersemi", "odd"]
    for i in range(n):
        kind = g.pick(kinds)
        t = i % 8
        if kind == "odd":
            s = g.pick(ODD)
            if g.chance(0.5):
                s = s + g.pick(["", ";", ",", " ", "%", ">", "<", "=", ":"]) + g.pick(ODD)
            op = g.pick(["uri", "via", "route", "rr", "from", "to", "cseq", "nameaddr"])
            lines.append("codec %s %s" % (op, hx(s)))
            g.count("odd")
            continue
        if i % 9 == 8:
            line, k = gen_viastamp_case(g)
        elif t == 0:
            line, k = gen_uri_case(g, kind)
        elif t in (1, 2):
            line, k = gen_via_case(g, kind if kind != "usersemi" else "dom")
        elif t == 3:
            line, k = gen_route_case(g, kind, "route")
        elif t == 4:
            line, k = gen_route_case(g, kind, "rr")
        elif t == 5:
            line, k = gen_fromto_case(g, kind, "from")
        elif t == 6:
            line, k = gen_fromto_case(g, kind, "to")
        else:
            line, k = gen_cseq_case(g)
        g.count("kind_" + k)
        g.count("op_" + line.split()[1])
        lines.append(line)
    # the same decoders from several goroutines at once (each listener, each TCP connection, each loop decodes on its own)
    dom = [l for l in lines if l.startswith("codec ") and l.split()[1] in ("uri", "via", "route", "rr", "from", "to") and " # spec=C14 eq ok " in l]
    for r in range(3 if tier == "quick" else 40):
        pick = [dom[g.rint(0, len(dom) - 1)] for _ in range(12)]
        lines.append("codec conc %d %s # spec=C14 eq ok # spec=C09 eq ok" % (120 if tier == "quick" else 400, " ".join("%s:%s" % (l.split()[1], l.split()[2]) for l in pick)))
        g.count("concurrent_decoding_runs")
    return lines, g.stats
