"""Stream `pins` (C15): pin / lookup / terminate / time-passes histories on the real
DialogBasedBackend under a virtual clock (stored instants are shifted; see harness/side.go).
Probes keep >= 50 ms distance from every expiry and sweep boundary, so the few microseconds
of real time that pass during a case cannot decide an outcome."""
from .common import *

def generate(seed, tier):
    g = Gen(seed)
    lines = []
    ncases = 250 if tier == "quick" else 6000
    for c in range(ncases):
        T = g.pick([1000, 2500, 10000, 1200000])          # ms
        lines.append("pins new %d" % T)
        now = 0
        next_clean = T
        entries = {}                                      # key -> expiry (spec view incl. not-yet-purged)
        nd = g.pick([1, 2, 5, 20, 200]) if tier != "quick" else g.pick([1, 2, 5, 20, 60])
        keys = ["c%d-t%d" % (i, g.rint(0, 99)) for i in range(nd)]
        for _ in range(g.rint(3, 60)):
            k = g.rint(0, 9)
            if k <= 2:
                key = g.pick(keys); be = "10.0.0.%d:5060" % g.rint(1, 4)
                E = g.pick([0, 0, 0, 1, T // 1000, T // 1000 + 1, 5, 60, 3600, 2**31 - 1, -1])
                life = E * 1000 if (E > 0 and E * 1000 > T) else T
                lines.append("pins add %s %s %d" % (hx(key), hx(be), E))
                entries[key] = now + life
                if next_clean < now:
                    next_clean = now + T
                    entries = {kk: e for kk, e in entries.items() if not e < now}
                g.count("add")
            elif k <= 5:
                key = g.pick(keys)
                lines.append("pins get %s" % hx(key))
                if key in entries and not entries[key] > now:
                    del entries[key]
                g.count("get")
            elif k == 6:
                key = g.pick(keys)
                lines.append("pins rem %s" % hx(key)); entries.pop(key, None)
                g.count("remove")
            else:
                for _try in range(20):
                    w = g.pick([g.rint(1, 400), g.rint(400, 3 * T), int(T * 0.6), int(T * 1.4), g.rint(1, 2 * T) + g.pick([0, 3600 * 1000])])
                    t2 = now + w
                    bounds = list(entries.values()) + [next_clean]
                    if all(abs(t2 - b) >= 50 for b in bounds):
                        lines.append("pins wait %d" % w); now = t2
                        g.count("wait")
                        break
        lines.append("pins keys")
    return lines, g.stats
