"""Stream `rr` (C05): add / remove / dispatch histories on the real RoundRobinBackend."""
import itertools
from .common import *

ADDRS = ["127.0.0.%d:5060" % i for i in range(2, 8)]

def seq_lines(seq):
    out = ["rr new"]
    for op in seq:
        if op[0] == "a": out.append("rr add %s" % hx(op[1]))
        elif op[0] == "r": out.append("rr rem %s" % hx(op[1]))
        else: out.append("rr disp")
    out.append("rr state")
    return out

def exhaustive(L, naddr):
    """all well-formed sequences of length exactly L (every shorter one is a prefix of one of them);
    addresses are introduced in canonical order (they are interchangeable)."""
    res = []
    def rec(seq, present, introduced):
        if len(seq) == L:
            res.append(list(seq)); return
        seq.append(("d",)); rec(seq, present, introduced); seq.pop()
        for i in range(min(introduced + 1, naddr)):
            a = ADDRS[i]
            if a not in present:
                seq.append(("a", a)); rec(seq, present | {a}, max(introduced, i + 1)); seq.pop()
        for i in range(min(introduced + 1, naddr)):
            a = ADDRS[i]
            # removal of present and of absent (never added / already removed) addresses
            seq.append(("r", a)); rec(seq, present - {a}, max(introduced, i + 1) if a in present else introduced); seq.pop()
    rec([], frozenset(), 0)
    return res

def generate(seed, tier):
    g = Gen(seed)
    lines = []
    L, na = (5, 3) if tier == "quick" else (7, 4)
    ex = exhaustive(L, na)
    g.count("exhaustive_sequences", len(ex))
    for s in ex:
        lines += seq_lines(s)
    nrand, maxlen = (300, 80) if tier == "quick" else (3000, 400)
    for _ in range(nrand):
        present = set()
        seq = []
        for _ in range(g.rint(1, maxlen)):
            k = g.rint(0, 9)
            if k <= 5: seq.append(("d",))
            elif k <= 7:
                cand = [a for a in ADDRS[:5] if a not in present]
                if cand:
                    a = g.pick(cand); present.add(a); seq.append(("a", a))
            else:
                a = g.pick(ADDRS[:5]); present.discard(a); seq.append(("r", a))
        lines += seq_lines(seq)
        g.count("random_sequences")
    # dispatches racing with membership changes made from another thread
    for _ in range(2 if tier == "quick" else 12):
        lines.append("rr race %d %d # spec=C05 eq ok" % (400 if tier == "quick" else 2000, g.rint(1, 10**6)))
        g.count("race_runs")
    return lines, g.stats
