"""Stream for C08: arbitrary and adversarial bytes.
(a) `msg hostile`: accept/reject of arbitrary byte strings (mutations of valid messages, hostile
    field values) -- compared model-vs-implementation in full, plus the robustness oracle (no panic,
    allocation bounded by the bytes received);
(b) `pipe rawd`: structurally valid messages with hostile typed headers through the whole pipeline
    (decode, learn, stamp, route, pin, relay) on UDP and TCP paths, robustness oracle, each followed
    by a well-formed sentinel request that must still be served."""
from .common import *
from .pipe import World, Case, hitems, expect_dest

VALID = [
    b"INVITE sip:bob@svc.test SIP/2.0\r\nVia: SIP/2.0/UDP 10.0.0.1:5060;branch=z9hG4bKa1;rport\r\nMax-Forwards: 70\r\nFrom: Alice <sip:alice@ua1.test>;tag=f1\r\nTo: <sip:bob@svc.test>\r\nCall-ID: c1@ua1.test\r\nCSeq: 1 INVITE\r\nContact: <sip:alice@10.0.0.1>\r\nContent-Type: application/sdp\r\nContent-Length: 4\r\n\r\nv=0\n",
    b"SIP/2.0 200 OK\r\nVia: SIP/2.0/UDP 127.0.0.1:5060;branch=z9hG4bKp1\r\nVia: SIP/2.0/UDP 10.0.0.1:5060;branch=z9hG4bKa1;received=127.0.2.1;rport=5062\r\nFrom: <sip:alice@ua1.test>;tag=f1\r\nTo: <sip:bob@svc.test>;tag=t1\r\nCall-ID: c1@ua1.test\r\nCSeq: 1 INVITE\r\nContent-Length: 0\r\n\r\n",
    b"BYE sip:svc.test SIP/2.0\r\nv: SIP/2.0/TCP 10.0.0.1;branch=z9hG4bKb2\r\nRoute: <sip:127.0.0.1:5060;lr>, <sip:127.0.3.1:5070;transport=tcp;lr>\r\nf: <sip:alice@ua1.test>;tag=f1\r\nt: <sip:bob@svc.test>;tag=t1\r\ni: c1@ua1.test\r\nCSeq: 2 BYE\r\nl: 0\r\n\r\n",
    b"NOTIFY urn:service:sos SIP/2.0\r\nVia: SIP/2.0/UDP 10.0.0.1\r\nFrom: <tel:+1>;tag=a\r\nTo: <tel:+2>;tag=b\r\nCall-ID: z\r\nCSeq: 3 NOTIFY\r\nSubscription-State: terminated\r\nRecord-Route: <sip:p1.example.org;lr>\r\nContent-Length: 0\r\n\r\n",
]

NUMS = ["-1", "-0", "+5", "0", "00", "4000000000", "4000000000000000", "9223372036854775807", "9223372036854775808", "99999999999999999999", "1e3", "0x10", " 7", "7 ", "", "abc", "2147483648"]
HOSTS = ["[", "]", "[]", "[[", "[::1]", "[::1", "::1]", "", ":", "a:b:c", "h:", "h:x", "h:99999999999999999999", "h:-1", "h:0", "x" * 5000, "\x00", "%s%n", "h h",
         # the sender's own address (a host the listener has just learned) with ports no socket address can have
         "127.0.2.1:70000", "127.0.2.1:-1", "127.0.2.1:65536", "127.0.2.1:0", "127.0.2.1:99999999999"]

def mutate(g, m):
    k = g.rint(0, 13)
    if k == 0: return m[:g.rint(0, len(m))]
    if k == 1:
        p = g.rint(0, len(m)); return m[:p] + g.pick([b"\r\n", b"\n", b":", b";", b",", b"<", b">", b"=", b" ", b"\x00", b"\xff", b"%", b"[", b"@"]) * g.pick([1, 1, 2, 50]) + m[p:]
    if k == 2:
        p = g.rint(0, max(0, len(m) - 1)); return m[:p] + m[p + g.rint(1, 20):]
    if k == 3: return m.replace(b"Content-Length: ", b"Content-Length: " + g.pick(NUMS).encode(), 1).replace(b"l: 0", b"l: " + g.pick(NUMS).encode(), 1)
    if k == 4: return m.replace(b"10.0.0.1", g.pick(HOSTS).encode("latin-1"), g.pick([1, 2]))
    if k == 5: return g.rbytes(0, g.pick([1, 10, 100, 3000]))
    if k == 6:
        hdrs = b"".join(b"X-%d: %s\r\n" % (i, b"v" * g.pick([0, 1, 50])) for i in range(g.pick([100, 3000])))
        return m.replace(b"\r\n", b"\r\n" + hdrs, 1)
    if k == 7:
        ps = b";".join(b"p%d=%d" % (i, i) for i in range(g.pick([100, 5000])))
        return m.replace(b";branch", b";" + ps + b";branch", 1)
    if k == 8: return m.replace(b"\r\n", b"\n")
    if k == 9:
        for h in (b"Via", b"v", b"From", b"f", b"To", b"t", b"CSeq", b"Call-ID", b"i", b"Content-Length", b"l"):
            if g.chance(0.3): m = m.replace(h + b":", b"X" + h + b":", 1)
        return m
    if k == 10: return m.replace(b"sip:", g.pick([b"sip::", b"sips:", b"sip:@", b"sip:;", b"sip:?", b":", b"tel:", b""]), g.pick([1, 3]))
    if k == 11: return m.replace(b"<", g.pick([b"", b"<<", b">"]), 1).replace(b">", g.pick([b"", b">>", b"<"]), 1)
    if k == 12: return g.pick([b"", b"\r\n", b"\r\n\r\n", b" ", b"SIP/", b"SIP/2.0", b"SIP/2.0 x y", b"SIP/2.0 200", b"A B", b"A B C D\r\n\r\n"]) + (m if g.chance(0.3) else b"")
    a = mutate(g, m)
    return mutate(g, a)

def ascii_names(m):
    head = m.split(b"\r\n\r\n")[0].split(b"\n\n")[0]
    for line in head.split(b"\n")[1:]:
        name = line.split(b":")[0]
        if any(c >= 0x80 for c in name):
            return False
    return True

def generate(seed, tier):
    g = Gen(seed)
    lines = []
    for _ in range(3000 if tier == "quick" else 150000):
        m = mutate(g, g.pick(VALID))
        weak = "" if ascii_names(m) else " # weak"
        lines.append("msg hostile %s # spec=C08 robust%s" % (hx(m), weak))
        g.count("hostile_parse")
    # the real per-connection TCP loop on streams that stop decoding: truncated messages, garbage after a message,
    # a lone start line, an absurd Content-Length, a plain end of stream: the connection must be closed
    for _ in range(150 if tier == "quick" else 5000):
        v = g.pick(VALID)
        k = g.rint(0, 5)
        if k == 0: stream = v[:g.rint(1, len(v) - 1)]
        elif k == 1: stream = v + g.rbytes(1, 40)
        elif k == 2: stream = v + v[:g.rint(1, len(v) - 1)]
        elif k == 3: stream = v.split(b"\n")[0] + b"\n"
        elif k == 4: stream = v.replace(b"Content-Length: 4", b"Content-Length: 4000000000").replace(b"Content-Length: 0", b"Content-Length: 99999")
        else: stream = v + mutate(g, g.pick(VALID))
        lines.append("frame run %s %s # spec=C08 closed%s" % (hx(stream), g.pick(["-", "1,1,1,1,1,1,1", "7", "100"]), "" if ascii_names(stream) else " # weak"))
        g.count("hostile_tcp_streams")
    # through the pipeline
    ncase = 60 if tier == "quick" else 2500
    for c in range(ncase):
        w = World(g, nlisten=1, nback=2, names="svc.test, urn:service:sos", rcvd=(c % 2 == 0))
        w.routes = []
        w.listeners[0].proto = g.pick(["UDP", "TCP"])
        lst = w.listeners[0]
        cs = Case(g, w)
        lines += cs.ops
        structured = []
        if c % 3 == 0:
            # structurally valid messages with one hostile field value each (the property's own list)
            for h in HOSTS:
                structured.append(VALID[0].replace(b"10.0.0.1:5060", h.encode("latin-1")))
                structured.append(VALID[1].replace(b"10.0.0.1:5060", h.encode("latin-1")))
                structured.append(VALID[2].replace(b"127.0.3.1:5070", h.encode("latin-1")))
            for nv in NUMS:
                structured.append(VALID[0].replace(b"Content-Length: 4", b"Content-Length: " + nv.encode()))
                structured.append(VALID[0].replace(b"CSeq: 1", b"CSeq: " + nv.encode()))
                structured.append(VALID[0].replace(b"Max-Forwards: 70", b"Expires: " + nv.encode()))
                structured.append(VALID[1].replace(b"rport=5062", b"rport=" + nv.encode()))
            for nv in NUMS + ["-200", "-100", "-99", "700", "999", "65536", "-2147483648", "1000000"]:
                # status codes: parseStatusLine accepts any integer
                structured.append(VALID[1].replace(b"SIP/2.0 200 OK", b"SIP/2.0 " + nv.encode() + b" OK"))
            for miss in (b"Via", b"From", b"To", b"Call-ID", b"CSeq", b"Content-Length"):
                structured.append(b"\r\n".join(l for l in VALID[0].split(b"\r\n") if not l.startswith(miss + b":")))
        for m in structured:
            tcp = g.pick(["1", "2"]) if lst.proto == "TCP" else "-"
            lines.append("pipe rawd p=0 from=%s peer=%s port=%d tcp=%s rx=0 msg=%s # spec=C08 robust" % (lst.tok(), hx("127.0.2.1"), 5062, tcp, hx(m)))
            g.count("hostile_structured")
        for _ in range(g.rint(2, 10)):
            m = mutate(g, g.pick(VALID))
            tcp = g.pick(["-", "1", "2"]) if lst.proto == "TCP" else "-"
            peer = g.pick(["127.0.2.1", "127.0.1.1"])
            lines.append("pipe rawd p=0 from=%s peer=%s port=%d tcp=%s rx=0 msg=%s # spec=C08 robust" % (lst.tok(), hx(peer), g.pick([5060, 5080, 40000]), tcp, hx(m)))
            g.count("hostile_pipeline")
            if g.chance(0.5):
                # liveness: a well-formed request that follows is still served by exactly one backend
                s = b"OPTIONS sip:svc.test SIP/2.0\r\nVia: SIP/2.0/UDP 127.0.2.1:5062;branch=z9hG4bKLIVE%d\r\nFrom: <sip:p@ua1.test>;tag=1\r\nTo: <sip:svc.test>\r\nCall-ID: live%d\r\nCSeq: 1 OPTIONS\r\nContent-Length: 0\r\n\r\n" % (g.rint(0, 10**6), g.rint(0, 10**6))
                lines.append("pipe raw p=0 from=%s peer=%s port=5062 tcp=- rx=0 msg=%s # weak # spec=C08 %s" % (lst.tok(), hx("127.0.2.1"), hx(s), expect_dest("B", None, w.backends[0])))
                g.count("liveness_probes")
        lines.append("pipe end")
    return lines, g.stats
