"""Stream `msg dialog` (C16): dialog identity. Every message carries the ABSTRACT dialog key computed
here (Call-ID and the unordered pair of (tag, core URI) halves); the Lean-side oracle checks that the
implementation's identifiers are in bijection with the abstract keys over the whole run."""
import hashlib, itertools
from .common import *

CALLIDS = ["c", "c-x", "a@h", "c-x-1"]
TAGS = ["x", "1", "x-1", "a-b", "x-sip"]
URIS = ["sip:q@h", "sip:h", "sip:q@h:5", "sip:q@h:5060", "sip:q@h-x-sip:5", "sip:5-x-sip:q@h", "tel:+1", "urn:service:sos", "sip:q:pw@h", "sip:h:5060", "sip:q@h:5061"]

def core(uri):
    if uri.startswith("sip:") or uri.startswith("sips:"):
        return uri.split("?")[0].split(";")[0]
    return uri

def akey(callid, h1, h2):
    k = repr((callid, sorted([h1, h2])))
    return hashlib.sha1(k.encode()).hexdigest()[:16]

def decorate(g, uri, level):
    if level == 0 or not uri.startswith("sip"):
        return "<%s>" % uri
    return g.pick(["", "Bob ", '"B" ']) + "<%s%s%s>" % (uri, g.pick(["", ";transport=tcp", ";lr;x=1", ";transport=tls", ";transport=tls;lr", ";tag=x", ";tag=1;lr", ";x=1;tag=x-1", ";TAG=x", ";tag"]), g.pick(["", "?h=v"]))

def message(g, callid, ftag, furi, ttag, turi, as_response, level):
    sm = g.pick([0, 1, 2, 3, 4, 5]) if level else 0
    names = {0: ("From", "To", "Call-ID", "CSeq", "Via", "Content-Length"), 1: ("f", "t", "i", "CSeq", "v", "l"),
             4: ("F", "T", "I", "CSeq", "V", "L"), 5: ("F", "t", "I", "cseq", "v", "L"),
             2: ("FROM", "TO", "CALL-ID", "CSEQ", "VIA", "CONTENT-LENGTH"), 3: ("from", "to", "call-id", "cseq", "via", "content-length")}[sm]
    f = decorate(g, furi, level) + (";tag=" + ftag if ftag is not None else "") + (";foo=bar" if level and g.chance(0.5) else "")
    t = decorate(g, turi, level) + (";tag=" + ttag if ttag is not None else "") + (";q=1" if level and g.chance(0.3) else "")
    start = "SIP/2.0 200 OK" if as_response else "BYE sip:svc.test SIP/2.0"
    hs = [(names[4], "SIP/2.0/UDP 10.0.0.1;branch=z9hG4bKabc"), (names[0], f), (names[1], t), (names[2], callid), (names[3], "2 BYE"), (names[5], "0")]
    if level and g.chance(0.5):
        hs = [hs[0], hs[2], hs[1]] + hs[3:]
    return (start + "\r\n" + "".join("%s: %s\r\n" % h for h in hs) + "\r\n").encode("latin-1")

def generate(seed, tier):
    g = Gen(seed)
    lines = []
    cs, ts, us = (CALLIDS[:3], TAGS[:4], URIS[:7]) if tier == "quick" else (CALLIDS, TAGS, URIS)
    n = 0
    for c in cs:
        for t1, t2 in itertools.product(ts, repeat=2):
            for u1, u2 in itertools.product(us, repeat=2):
                k = akey(c, (t1, core(u1)), (t2, core(u2)))
                for swap in (False, True):
                    ft, fu, tt, tu = (t2, u2, t1, u1) if swap else (t1, u1, t2, u2)
                    resp = g.chance(0.5); lvl = g.pick([0, 1])
                    lines.append("msg dialog %s # spec=C16 key %s" % (hx(message(g, c, ft, fu, tt, tu, resp, lvl)), k))
                    n += 1
    g.count("exhaustive_messages", n)
    # a message lacking either tag belongs to no dialog
    for _ in range(60):
        c, u1, u2 = g.pick(cs), g.pick(us), g.pick(us)
        ft, tt = g.pick([(None, "x"), ("x", None), (None, None)])
        lines.append("msg dialog %s # spec=C16 key none" % hx(message(g, c, ft, u1, tt, u2, g.chance(0.5), 1)))
    # long realistic identifiers
    for _ in range(300 if tier == "quick" else 20000):
        c = g.word(ALNUM + "-.", 8, 30) + "@" + g.word(ALNUM + "-.", 3, 12)
        t1, t2 = g.word(ALNUM + "-._", 4, 16), g.word(ALNUM + "-._", 4, 16)
        def ru():
            return g.pick(["sip:%s@%s" % (g.word(ALNUM + "-.", 1, 10), g.word(ALNUM + "-.", 3, 12)), "sip:%s@%s:%d" % (g.word(ALNUM + "-", 1, 8), g.word(ALNUM + "-.", 3, 12), g.rint(1, 65535)),
                           "tel:+%s" % g.word("0123456789-", 5, 12), "sip:" + g.word(ALNUM + "-.", 3, 12)])
        u1, u2 = ru(), ru()
        if g.chance(0.2): u2 = u1
        k = akey(c, (t1, core(u1)), (t2, core(u2)))
        for swap in (False, True):
            ft, fu, tt, tu = (t2, u2, t1, u1) if swap else (t1, u1, t2, u2)
            lines.append("msg dialog %s # spec=C16 key %s" % (hx(message(g, c, ft, fu, tt, tu, g.chance(0.5), 1)), k))
        g.count("random_dialogs")
    return lines, g.stats
