"""Stream `pipe`: whole messages through the real pipeline (handleRawMessage -> handleDialog ->
HandleMessage inside the real loop goroutine) of assembled Proxy objects.

The generator builds ABSTRACT cases (service configuration, Via/Route/Record-Route stacks, header
lists, bodies), renders them, and derives from the abstract case -- not from the model -- what the
property predicts: destination, Via/Route/Record-Route stacks of the relayed message, connection
affinity, backend stickiness. Those predictions travel as expectation suffixes (" # spec=Cxx ...")
and are checked by the Lean-side oracles on the IMPLEMENTATION's output."""
import re
from .common import *

LISTEN_IP = "127.0.0.1"
BR = "z9hG4bK<BR>"


def hitems(rows):
    """[[a,b],[c]] -> 'hex(a):hex(b),hex(c)'"""
    if not rows:
        return "-"
    return ",".join(":".join(hx(x) for x in r) for r in rows)


class Listener:
    def __init__(self, proto, addr, port, rcvd=True):
        self.proto, self.addr, self.port, self.rcvd = proto, addr, port, rcvd

    def tok(self):
        return hitems([[self.proto, self.addr, str(self.port), "1" if self.rcvd else "0"]])

    def via(self):
        return "SIP/2.0/%s %s:%d;branch=%s" % (self.proto, self.addr, self.port, BR)

    def rr(self):
        return "<sip:%s:%d;lr>" % (self.addr, self.port)


class Via:
    def __init__(self, transport, host, port, params):
        self.transport, self.host, self.port, self.params = transport, host, port, list(params)

    def text(self):
        s = "SIP/2.0/%s %s" % (self.transport, self.host)
        if self.port is not None:
            s += ":%d" % self.port
        for k, v in self.params:
            s += ";" + k + ("=" + v if v != "" else "")
        return s

    def get(self, key):
        for k, v in self.params:
            if k == key:
                return v
        return None

    def stamped(self, ip, port):
        ps = list(self.params)
        for i, (k, v) in enumerate(ps):
            if k == "received":
                ps[i] = (k, ip)
                break
        else:
            ps.append(("received", ip))
        for i, (k, v) in enumerate(ps):
            if k == "rport":
                ps[i] = (k, str(port))
                break
        return Via(self.transport, self.host, self.port, ps)

    def hop(self):
        """(host, port) a response must be sent to according to this entry"""
        rc = self.get("received")
        dport = self.port if self.port is not None else (5061 if self.transport == "TLS" else 5060)
        if rc is not None:
            rp = self.get("rport")
            if rp is not None and re.fullmatch(r"[+-]?[0-9]{1,18}", rp):
                return rc, int(rp)
            return rc, dport
        return self.host, dport


class World:
    def __init__(self, g, nlisten=1, nback=3, names=None, keep=None, mustrr=None, rcvd=None):
        self.g = g
        base = 10000 + (g.rint(0, 30000) + PROC_NONCE) % 9990      # below the kernel's ephemeral port range
        self.names = names if names is not None else g.pick([
            "svc.test", "urn:service:sos", "svc.test, urn:service:sos", "alice@svc.test,urn:service:sos",
            "^sip[0-9]+@pbx.test$, svc.test", "tel:112, svc.test", "tel:+15550100, svc.test", "svc.test, a+b@svc.test, tel:+1(555)0100",
            "urn:service:sos, c++@svc.test"])
        self.keep = g.chance(0.5) if keep is None else keep
        self.listeners = []
        for i in range(nlisten):
            self.listeners.append(Listener(g.pick(["UDP", "UDP", "TCP"]), LISTEN_IP, 5060 + 2 * i, g.chance(0.75) if rcvd is None else rcvd))
        if nlisten == 2 and rcvd is None and g.chance(0.5):
            self.listeners[1].rcvd = not self.listeners[0].rcvd        # two listener entries that differ in received-support
        self.mustrr = [g.chance(0.4) if mustrr is None else mustrr for _ in range(nlisten)]
        self.backends = [["127.0.1.%d:5080" % (j + 1) for j in range(nback)] if (i == 0 or g.chance(0.5)) else None for i in range(nlisten)]
        self.hosts = {"proxy.test": LISTEN_IP, "ua1.test": "127.0.2.1", "ua2.test": "127.0.2.2", "hop1.test": "127.0.3.1", "hop2.test": "127.0.3.2", "gw.test": "127.0.3.3"}
        self.port_hop = base + 1
        self.port_ua = base + 2
        # static routes
        self.routes = g.pick([
            [],
            [("udp", "dest.test", "127.0.3.1:%d" % self.port_hop)],
            [("udp", "*.wild.test", "127.0.3.2:%d" % self.port_hop), ("tcp", "dest.test", "hop1.test:%d" % self.port_hop)],
            [("udp", "default", "127.0.3.3:%d" % self.port_hop)],
            [("udp", "dest.test", "hop1.test:%d" % self.port_hop), ("udp", "*.wild.test", "127.0.3.2:%d" % self.port_hop), ("tcp", "default", "127.0.3.3:%d" % self.port_hop)],
            [("sctp", "dest.test", "127.0.3.1:%d" % self.port_hop)],
            # wildcards that are not "*.domain", and exact entries that are a suffix of other hosts
            [("udp", "10.20.*", "127.0.3.1:%d" % self.port_hop), ("udp", "sip*.pbx.test", "127.0.3.2:%d" % self.port_hop), ("udp", "dest.test", "127.0.3.3:%d" % self.port_hop)],
            [("udp", "dest.test", "127.0.3.1:%d" % self.port_hop), ("udp", "*.wild.*", "127.0.3.2:%d" % self.port_hop)],
            # a wildcard listed BEFORE an exact entry it covers: the exact entry still wins
            [("udp", "*.wild.test", "127.0.3.2:%d" % self.port_hop), ("udp", "a.wild.test", "127.0.3.1:%d" % self.port_hop), ("udp", "*", "127.0.3.3:%d" % self.port_hop)],
        ])
        ips = ["127.0.2.1", "127.0.2.2", "127.0.2.3", "127.0.3.1", "127.0.3.2", "127.0.3.3"]
        self.obs = []
        for ip in ips:
            for p in (self.port_hop, self.port_ua):
                self.obs.append("%s:%d" % (ip, p))
        for l in self.listeners:
            self.obs += ["%s:%d" % (LISTEN_IP, l.port + 1), "127.0.0.9:%d" % l.port, "127.0.3.2:%d" % l.port]
        self.obs.append("%s:5060" % LISTEN_IP)      # (listeners are doubles: nothing of the proxy is bound there)
        self.obs += ["%s:%d" % (LISTEN_IP, l.port) for l in self.listeners]
        # (the sibling transport of a listener entry sits on port+1; its own near misses are port+2)
        for l in self.listeners:
            self.obs += ["%s:%d" % (LISTEN_IP, l.port + 2), "127.0.0.9:%d" % (l.port + 1), "127.0.3.2:%d" % (l.port + 1)]
        self.obs += ["127.0.2.%d:5060" % i for i in (1, 2, 3)]
        self.obs = sorted(set(self.obs))
        self.learned = {}        # host -> Listener (generator's own bookkeeping of the property's "learned")
        self.tcpreg = {}         # (ip, port, method, branch) -> conn id

    def lines(self):
        out = ["pipe cfg name=%s keep=%d timeout=1200 hosts=%s routes=%s obsudp=%s obstcp=%s" % (
            hx(self.names), 1 if self.keep else 0, hitems([[k, v] for k, v in self.hosts.items()]),
            hitems([list(r) for r in self.routes]), hitems([[o] for o in self.obs]), hitems([[o] for o in self.obs]))]
        for i, l in enumerate(self.listeners):
            out.append("pipe proxy mustrr=%d lst=%s backends=%s" % (1 if self.mustrr[i] else 0, l.tok(),
                       "none" if self.backends[i] is None else hitems([[b] for b in self.backends[i]])))
        return out

    def resolve(self, host):
        if re.fullmatch(r"(\d{1,3}\.){3}\d{1,3}", host):
            return host
        return self.hosts.get(host)

    def name_list(self):
        return [n.strip() for n in self.names.split(",")]

    def service_match(self, uri_kind, user, host, port, whole, lst):
        """(literal, rx): does the Request-URI designate the service / the listener"""
        names = self.name_list()
        if uri_kind == "abs":
            lit = whole in names
            target = whole
        else:
            lit = (host == lst.addr and port == lst.port)
            for n in names:
                if "@" in n:
                    u, h = n.split("@", 1)
                    if host == h and user == u:
                        lit = True
                elif host == n:
                    lit = True
            target = "%s@%s" % (user, host)
        rx = False
        for n in names:
            try:
                if re.search(n, target):
                    rx = True
            except re.error:
                pass
        return lit, rx

    def static_route(self, host):
        for (p, d, n) in self.routes:
            if d == host:
                return (p, d, n)
        for (p, d, n) in self.routes:
            rx = "^" + re.escape(d).replace(r"\*", ".*") + "$"
            if re.match(rx, host):
                return (p, d, n)
        for (p, d, n) in self.routes:
            if d == "default":
                return (p, d, n)
        return None

    def learn(self, host, lst):
        self.learned[host] = lst


NAMES_VIA = ["Via", "Via", "v", "VIA", "via", "V", "vIa"]
NAMES_ROUTE = ["Route", "Route", "ROUTE", "route", "rOuTe"]
NAMES_RR = ["Record-Route", "Record-Route", "record-route", "RECORD-ROUTE"]


def layout(g, names, entries, sep_choices=(",", ", ")):
    """lay a stack of entries out as header lines: any mix of comma lists and repeated lines"""
    lines = []
    i = 0
    while i < len(entries):
        k = g.sp_rint(1, len(entries) - i)
        lines.append((g.sp_pick(names), g.sp_pick(sep_choices).join(entries[i:i + k])))
        i += k
    return lines


def spell(g, name, mode):
    compact = {"from": "f", "to": "t", "call-id": "i", "content-length": "l", "contact": "m", "content-type": "c", "subject": "s",
               "supported": "k", "event": "o", "via": "v", "refer-to": "r", "allow-events": "u", "content-encoding": "e"}
    if mode == 0:
        return name
    if mode == 1:
        c = compact.get(name.lower(), name)
        # compact forms are letters: both cases are the same name
        return c.upper() if (len(c) == 1 and g.sp_chance(0.3)) else c
    if mode == 2:
        return name.upper()
    if mode == 3:
        return name.lower()
    return "".join(c.upper() if g.sp_chance(0.5) else c.lower() for c in name)


EXT_NAMES = ["X-Foo", "Subject", "s", "Contact", "m", "User-Agent", "Allow", "Supported", "k", "P-Asserted-Identity", "x-ODD.case_1", "Content-Type", "c", "Max-Forwards", "Expires", "Event", "o", "Accept", "X-Foo", "Warning", "Date"]


def ext_value(g, big=False):
    """header values as latin-1 strings (= arbitrary bytes) without CR/LF and without surrounding blanks"""
    k = g.rint(0, 9)
    if k == 0:
        return ""
    if k == 1:
        return g.pick(["50% off", "%s%d%n", "a%41b", "100%", "%"])
    if k == 2:
        return '"' + g.word(ALNUM + " ;,=<>@", 0, 20) + '"' + g.pick(["", ";q=0.5", " <sip:x@y>;tag=1"])
    if k == 3:
        return g.word(ALNUM + " ;,:=<>@/?&", 1, 40).strip() or "x"
    if k == 4:
        return ("\u00e9\u20ac \u4e2d\u6587 " + g.word(ALNUM, 1, 5)).encode("utf-8").decode("latin-1")
    if k == 5:
        raw = b"\xff\xfe" + g.rbytes(1, 8).replace(b"\r", b"r").replace(b"\n", b"n") + b"\xc3"
        return raw.decode("latin-1")
    if k == 6 and big:
        return g.word(ALNUM + " ;,%", 1000, 16000).strip() or "x"
    return g.word(TOKEN + " ", 1, 30).strip() or "x"


class Case:
    def __init__(self, g, w):
        self.g, self.w = g, w
        self.ops = list(w.lines())

    # ---- message rendering -------------------------------------------------
    def render(self, start, headers, body, eol="\r\n", cl_name="Content-Length"):
        hs = list(headers) + [(cl_name, str(len(body)))]
        txt = start + eol + "".join(n + ":" + ("" if v == "" else g_space(self.g) + v) + eol for n, v in hs) + eol
        return txt.encode("latin-1") + body


def g_space(g):
    return g.sp_pick([" ", " ", " ", "", "  ", "\t"])


def u8(s):
    return s.encode("utf-8").decode("latin-1")


def std_headers(g, method, callid=None, ftag="ft1", ttag=None, furi="sip:alice@ua1.test", turi="sip:bob@dest.test", cseq=None, spell_mode=None):
    sm = spell_mode if spell_mode is not None else g.sp_pick([0, 0, 0, 1, 2, 3, 4])
    callid = callid or (g.word(ALNUM, 6, 14) + "@" + g.pick(["ua1.test", "10.1.1.1"]))
    # legal layouts of From/To the proxy must hand on as they are: LWS around ';' and '=', quoted display names
    # holding separators, extra parameters
    semi = g.pick([";"] * 8 + [" ;", "; ", " ; ", "\t;"])
    eq = g.pick(["="] * 10 + [" = ", "= "])
    disp = g.pick(["", "", "Alice ", '"A. B." ', '"A. B."', '"a;b" ', '"x=y; z" ', '"q \\"r\\"" ', "Bob  ", "a b c "])
    extra = g.pick([""] * 6 + [";x=1", ";y", " ;z = \"q\""])
    f = "%s<%s>%s%stag%s%s" % (disp, furi, extra, semi, eq, ftag)
    t = "<%s>" % turi + ("%stag%s%s" % (semi, eq, ttag) if ttag else "")
    g.count("fromto_plain" if (semi, eq) == (";", "=") else "fromto_lws")
    hs = [(spell(g, "From", sm), f), (spell(g, "To", sm), t), (spell(g, "Call-ID", sm), callid),
          (spell(g, "CSeq", sm), cseq_text(g, cseq or g.rint(1, 9999), method))]
    return hs


def cseq_text(g, n, method):
    """1*DIGIT LWS Method; mostly canonical, sometimes with leading zeros / wider white space (structure stream,
    so that a respelled twin carries the same text)"""
    return g.pick(["%d", "%d", "%d", "%d", "%d", "%04d", "0%d"]) % n + g.pick([" ", " ", " ", " ", " ", "  ", "\t"]) + method


def mix(g, owned_groups, other_groups, extras):
    """header order: the backbone (non-routing headers; order drawn from the STRUCTURE stream) with
    the routing-header lines inserted at positions drawn from the SPELLING/LAYOUT stream (each group
    keeps its internal order), so that a respelled twin has the same backbone."""
    seqs = [list(x) for x in other_groups if x] + [[e] for e in extras]
    out = []
    while seqs:
        i = g.rint(0, len(seqs) - 1)
        out.append(seqs[i].pop(0))
        if not seqs[i]:
            seqs.pop(i)
    for grp in owned_groups:
        pos = sorted(g.sp_rint(0, len(out)) for _ in grp)
        for k, (p, line) in enumerate(zip(pos, grp)):
            out.insert(p + k, line)
    return out


def ext_headers(g, n, big=False):
    return [(spell(g, g.pick(EXT_NAMES), g.sp_pick([0, 0, 0, 1, 2, 3, 4])), ext_value(g, big)) for _ in range(n)]


def body_of(g, big=False):
    k = g.rint(0, 6)
    if k == 0:
        return b""
    if k == 1:
        return b"v=0\r\no=- 1 1 IN IP4 10.0.0.1\r\ns=-\r\n"
    if k == 2:
        return g.rbytes(1, 300)
    if k == 3:
        return b"INVITE sip:x@y SIP/2.0\r\nVia: SIP/2.0/UDP evil\r\nContent-Length: 5\r\n\r\nhello"
    if k == 4 and big:
        return g.rbytes(20000, 60000)
    return g.word(ALNUM + " \r\n\x00", 1, 200).encode("latin-1")


def sip_uri_text(g, user, host, port=None, params=""):
    return "sip:" + (user + "@" if user else "") + host + (":%d" % port if port else "") + params


def expect_dest(kind, dest=None, members=None):
    if kind == "none":
        return "dest none"
    if kind == "B":
        return "dest B any " + ",".join(hx(m) for m in members)
    return "dest %s %s" % (kind, hx(dest))


def hxs(entries):
    return " ".join(hx(e) for e in entries) if entries else ""


def via_stack(g, w, n, peer_ip, top_matches_peer=False):
    vs = []
    for i in range(n):
        # (hosts that later requests are routed to appear here too: being listed in a Via is learning)
        host = g.pick(["127.0.2.1", "127.0.2.2", "ua1.test", "ua2.test", "10.9.8.7", "far.example.org", "127.0.2.3",
                       "127.0.3.1", "127.0.3.2", "hop1.test", "hop2.test", "127.0.3.3", "127.0.3.1", "hop1.test"])
        port = g.pick([None, None, w.port_ua, 5060, 5070])
        ps = [("branch", "z9hG4bK" + g.word(ALNUM.upper(), 5, 10))]
        if g.chance(0.3):
            ps.append(("rport", ""))
        if g.chance(0.15):
            ps.append(("rport", str(g.rint(1, 65535))))
        if g.chance(0.15):
            ps.insert(g.rint(0, len(ps)), ("received", g.pick(["1.2.3.4", "127.0.2.9"])))
        if g.chance(0.3):
            ps.append((g.word("abcdefgh", 1, 5), g.pick(["", "1", "x.y", "a%41b"])))
        if g.chance(0.06):
            ps = ps[1:] if ps[0][0] == "branch" else [x for x in ps if x[0] != "branch"]      # an RFC 2543 sender: no branch at all
            g.count("via_without_branch")
        vs.append(Via(g.pick(["UDP", "UDP", "TCP", "udp"]), host, port, ps))
    return vs


def gen_request_case(g, tier, focus=None, c17=None):
    """one world, a few requests through it; covers C01 C03 C06 C07 C13 (+ twins for C17)"""
    w = World(g, nlisten=g.pick([1, 2, 2]))
    c = Case(g, w)
    ops = c.ops
    nmsg = g.rint(1, 4)

    def schedule():
        """message numbers; now and then the SAME message once more (in-dialog requests repeat their route set and
        their Via text literally): the random choices are replayed, the expectations are recomputed with what the
        world has learned meanwhile"""
        import random as _random
        rep = _random.Random(g.rint(0, 2 ** 30))
        for k in range(nmsg):
            st = (g.r.getstate(), g.sp.getstate())
            flip[0] = False
            yield k
            if rep.random() < 0.3:
                g.r.setstate(st[0]); g.sp.setstate(st[1])
                g.count("req_repeated")
                # ... now and then over the OTHER transport of the listener entry, with the very same Request-URI text:
                # what is decided for a request depends on the transport that received it, not on what was decided for
                # the same text before
                flip[0] = rep.random() < 0.5
                if flip[0]:
                    g.count("req_repeated_over_other_transport")
                # ... or at ANOTHER listener entry of the service (its own received-support setting, its own address): what one
                # listener did to a Via text must not show in what another one relays for the same text
                flip_pi[0] = (not flip[0]) and len(w.listeners) > 1 and rep.random() < 0.6
                if flip_pi[0]:
                    g.count("req_repeated_at_other_listener")
                yield k
                flip_pi[0] = False
    occ = -1
    flip = [False]
    flip_pi = [False]
    for mi in schedule():
        occ += 1
        pi = g.rint(0, len(w.listeners) - 1)
        if flip_pi[0]:
            pi = (pi + 1) % len(w.listeners)
        lst = w.listeners[pi]
        if g.chance(0.3):
            # the message arrives over the OTHER transport of the same listener entry (its TCP port next to its UDP port, or
            # the other way round): one Proxy serves both, and "the receiving listener" is the transport that received it
            lst = Listener("TCP" if lst.proto == "UDP" else "UDP", lst.addr, lst.port + 1, lst.rcvd)
            g.count("req_over_sibling_transport")
        lst_ru = lst                      # the listener the Request-URI text is written for
        if flip[0]:
            base_l = w.listeners[pi]
            lst = base_l if (lst.proto != base_l.proto) else Listener("TCP" if base_l.proto == "UDP" else "UDP", base_l.addr, base_l.port + 1, base_l.rcvd)
        peer_ip = g.pick(["127.0.2.1", "127.0.2.2", "127.0.2.3"])
        peer_port = g.pick([w.port_ua, 5060, g.rint(1024, 65000)])
        method = g.pick(["INVITE", "OPTIONS", "MESSAGE", "REGISTER", "SUBSCRIBE", "X-CUSTOM", "INFO"])
        # ---- Request-URI ----
        ru_kind = g.pick(["svc-lit", "svc-lit", "userhost", "userhost", "urn", "tel", "tel", "listener", "foreign", "regex"])
        user, host, port, whole, kind = "", "", 5060, "", "sip"
        if ru_kind == "svc-lit":
            user, host = g.pick(["", "bob", "carol"]), "svc.test"
            ru = sip_uri_text(g, user, host)
        elif ru_kind == "userhost":
            user, host = g.pick(["alice", "bob", "a+b", "c++", "ab"]), "svc.test"
            ru = sip_uri_text(g, user, host, params=g.pick(["", ";user=phone", ";transport=tcp"]))
        elif ru_kind == "urn":
            kind, whole = "abs", g.pick(["urn:service:sos", "urn:service:sos.fire", "urn:service:other"])
            ru = whole
        elif ru_kind == "tel":
            kind, whole = "abs", g.pick(["tel:112", "tel:+15551234", "tel:112;phone-context=x.test", "tel:+15550100", "tel:+15550100", "tel:15550100", "tel:+1(555)0100"])
            ru = whole
        elif ru_kind == "listener":
            user, host = g.pick(["", "x"]), lst_ru.addr
            port = g.pick([lst_ru.port, lst_ru.port, 5099])
            ru = sip_uri_text(g, user, host, port if (port != 5060 or g.chance(0.5)) else None)
        elif ru_kind == "regex":
            user, host = "sip%d" % g.rint(0, 99), g.pick(["pbx.test", "pbxXtest", "pbx.test.evil"])
            ru = sip_uri_text(g, user, host)
        else:
            user, host = g.pick(["", "zed"]), g.pick(["foreign.example.org", "10.20.30.40", "svc.testx"])
            ru = sip_uri_text(g, user, host)
        if kind == "sip" and g.chance(0.25):
            # legal spellings that do not take part in routing and must be handed on as they are
            deco = g.pick(["pw", "emptypw", "hdr", "hdr-empty", "zero-port", "params"])
            if deco == "pw" and user:
                ru = ru.replace(user + "@", user + ":p%40w@", 1)
            elif deco == "emptypw" and user:
                ru = ru.replace(user + "@", user + ":@", 1)
            elif deco == "hdr":
                ru += "?subject=a%20b&x=1"
            elif deco == "hdr-empty":
                ru += "?x="
            elif deco == "zero-port":
                ru = re.sub(r"^(sips?:[^;?]*?):(\d+)", lambda m: m.group(1) + ":0" + m.group(2), ru, count=1)
            elif deco == "params":
                ru += g.pick([";x", ";x=1;y", ";lr", ";maddr=10.1.1.1"]) if "?" not in ru else ""
            g.count("ruri_deco_" + deco)
        lit, rx = w.service_match(kind, user, host, port, whole, lst)
        # a configured service name that holds expression operators and is meant literally: ask for exactly that name, with
        # nothing else (no Route, no static route) deciding the request
        op_names = [n for n in w.name_list() if n.startswith("tel:") and re.search(r"[+*(]", n)]
        force_service = False
        if op_names and g.chance(0.4):
            kind, whole = "abs", g.pick(op_names)
            ru = whole
            user, host, port = "", "", 5060
            lit, rx = w.service_match(kind, user, host, port, whole, lst)
            force_service = True
            g.count("ruri_is_operator_literal_name")
        # ---- To host -> static route ----
        to_host = g.pick(["dest.test", "dest.test", "a.wild.test", "b.c.wild.test", "nowhere.test", "nowhere.test", "svc.test", "svc.test", "wild.test",
                          "voipdest.test", "10.20.7.7", "110.20.7.7", "sip7.pbx.test", "sip.pbx.test", "xsip7.pbx.test", "a.wild.org", "dest.test.org"])
        if force_service:
            to_host = "nowhere.test"
        sr = w.static_route(to_host)
        to_port = g.pick([None, None, None, 5060, 5070, 5099, w.port_hop])
        if to_port is not None:
            g.count("to_uri_with_port")
        # ---- Route set ----
        route_mode = g.pick(["none", "none", "none", "none", "own", "own", "own+next", "next", "own+next+more", "nearmiss+next", "alias+next", "own+own+next"])
        if force_service:
            route_mode = g.pick(["none", "own"])
        own_variants = [sip_uri_text(g, "", lst.addr, lst.port, ";lr"), sip_uri_text(g, "", "proxy.test", lst.port, ";lr")]
        if lst.port == 5060:
            own_variants += [sip_uri_text(g, "", lst.addr, None, ";lr"), sip_uri_text(g, "", "proxy.test", None, ";lr")]
        nh_host = g.pick(["127.0.3.1", "127.0.3.2", "hop1.test", "hop2.test", "127.0.2.1"])
        nh_tr = g.pick(["", "", ";transport=udp", ";transport=tcp", ";transport=TCP", ";transport=tls", ";transport=sctp"])
        nh_port = g.pick([w.port_hop, w.port_hop, w.port_ua])
        next_uri = sip_uri_text(g, g.pick(["", "gw"]), nh_host, nh_port, nh_tr + g.pick(["", ";lr"]))
        routes = []

        def rentry(uri):
            return g.pick(["", "", "P1 ", '"Px" ']) + "<" + uri + ">" + g.pick(["", "", ";x=1", ";ob;k=v"])
        own_first = False
        if route_mode == "own":
            routes = [rentry(g.pick(own_variants))]; own_first = True
        elif route_mode in ("own+next", "alias+next"):
            routes = [rentry(own_variants[1] if route_mode == "alias+next" else g.pick(own_variants)), rentry(next_uri)]; own_first = True
        elif route_mode == "next":
            routes = [rentry(next_uri)]
        elif route_mode == "own+next+more":
            routes = [rentry(g.pick(own_variants)), rentry(next_uri)] + [rentry("sip:far%d.example.org;lr" % i) for i in range(g.rint(1, 3))]; own_first = True
        elif route_mode == "own+own+next":
            # the listener is named twice (a spiral): exactly ONE entry is consumed, the second own entry is the next hop
            second = g.pick(own_variants)
            routes = [rentry(own_variants[0]), rentry(second), rentry(next_uri)]; own_first = True
            m = re.match(r"sip:([^:;]+)(?::(\d+))?", second)
            nh_host, nh_port, nh_tr = m.group(1), int(m.group(2) or 5060), ""
        elif route_mode == "nearmiss+next":
            misses = [sip_uri_text(g, "", lst.addr, lst.port + 1, ";lr"), sip_uri_text(g, "", "127.0.0.9", lst.port, ";lr"),
                      sip_uri_text(g, "", "hop2.test", lst.port, ";lr")]
            if lst.port != 5060:
                # right host, no port written: designates port 5060, not this listener
                misses += [sip_uri_text(g, "", lst.addr, None, ";lr"), sip_uri_text(g, "", "proxy.test", None, ";lr")] * 2
            miss = g.pick(misses)
            routes = [rentry(miss), rentry(next_uri)]
            # the near miss itself is the next hop
            m = re.match(r"sip:([^:;]+)(?::(\d+))?", miss)
            nh_host, nh_port, nh_tr = m.group(1), int(m.group(2) or 5060), ""
            if nh_host == "proxy.test" or (nh_host == lst.addr and nh_port == 5060):
                nh_host = nh_host
        s1 = routes[1:] if own_first else routes
        # ---- expected destination by fixed precedence ----
        by = None
        if s1:
            by = "route"
            tr = "udp"
            mt = re.search(r";transport=([A-Za-z]+)", nh_tr)
            if mt:
                tr = mt.group(1)
            hop_host, hop_port, hop_tr = nh_host, nh_port, tr
        elif sr is not None:
            by = "static"
            hop_tr = sr[0]
            hh = sr[2]
            if ":" in hh:
                hop_host, hp = hh.rsplit(":", 1); hop_port = int(hp)
            else:
                hop_host, hop_port = hh, (5061 if hop_tr.lower() == "tls" else 5060)
        elif (lit or rx):
            by = "service"
        dest_kind, dest_addr = "none", None
        if by in ("route", "static"):
            ip = w.resolve(hop_host)
            if hop_tr.lower() == "udp" and ip:
                dest_kind, dest_addr = "U", "%s:%d" % (ip, hop_port)
            elif hop_tr.lower() == "tcp" and ip:
                dest_kind, dest_addr = "T", "%s:%d" % (ip, hop_port)
        elif by == "service":
            if w.backends[pi]:
                dest_kind = "B"
        # ---- stacks ----
        nvia = g.pick([0, 1, 1, 2, 3, 6]) if mi > 0 or g.chance(0.8) else 1
        vias = via_stack(g, w, nvia, peer_ip)
        rrs_in = ["<sip:rr%d.example.org;lr>" % i + g.pick(["", ";x=y"]) for i in range(g.pick([0, 0, 0, 1, 2, 4]))]
        if g.chance(0.08):
            # a spiral: the request has been through this listener before - its top Via and / or its first Record-Route entry
            # already name the listener. The proxy still pushes ONE new Via (fresh branch) and, by policy, one Record-Route.
            if vias and g.chance(0.7):
                vias[0] = Via(lst.proto, lst.addr, lst.port, [("branch", "z9hG4bK" + g.word(ALNUM.upper(), 5, 10))])
            if rrs_in and g.chance(0.7):
                rrs_in[0] = "<sip:%s:%d;lr>" % (lst.addr, lst.port)
            g.count("req_spiral_own_via_or_rr")
        # ---- learning (the property's notion): sender address and every Via host of a request ----
        w.learn(peer_ip, lst)
        for v in vias:
            w.learn(v.host, lst)
        # ---- what the relayed message must look like ----
        in_via_texts = [v.text() for v in vias]
        stamped = list(vias)
        if lst.rcvd and vias:
            stamped[0] = vias[0].stamped(peer_ip, peer_port)
        ins = None
        if dest_kind == "B":
            ins = w.listeners[pi]
        elif dest_kind in ("U", "T") and hop_host in w.learned:
            ins = w.learned[hop_host]
        exp_vias = ([ins.via()] if ins else []) + [v.text() for v in stamped]
        exp_rrs = ([ins.rr()] if (ins and (rrs_in or w.mustrr[pi])) else []) + rrs_in
        if by == "route":
            exp_routes = s1 if w.keep else s1[1:]
        else:
            exp_routes = s1
        # ---- render ----
        sm = g.sp_pick([0, 0, 1, 2, 3, 4])
        base_h = std_headers(g, method, turi="sip:bob@" + to_host + (":%d" % to_port if to_port is not None else ""), spell_mode=sm)
        via_lines = layout(g, NAMES_VIA, in_via_texts)
        route_lines = layout(g, NAMES_ROUTE, routes)
        rr_lines = layout(g, NAMES_RR, rrs_in)
        big = (tier != "quick" and g.chance(0.05))
        headers = mix(g, [via_lines, route_lines, rr_lines], [base_h], ext_headers(g, g.pick([0, 1, 3, 8, 40]) if g.chance(0.3) else g.rint(0, 4), big))
        body = body_of(g, big)
        # a message relayed over UDP must fit into one datagram (65 507 bytes) after the proxy has added its own
        # Via / Record-Route: keep the rendered size under 60 000 by shortening the body, then the extension headers
        # (sizes are computed from the VALUES only, with a flat allowance per name: a respelled twin must be cut alike)
        hsize = sum(24 + len(v.strip()) for n, v in headers)
        while hsize > 50000:
            k = max(range(len(headers)), key=lambda i: len(headers[i][1]))     # only the big extension values are that long
            if len(headers[k][1]) < 2000:
                break
            headers[k] = (headers[k][0], headers[k][1][:len(headers[k][1]) // 2].strip())
            hsize = sum(24 + len(v.strip()) for n, v in headers)
        if hsize + len(body) > 60000:
            body = body[:60000 - hsize]
        eol = g.sp_pick(["\r\n", "\r\n", "\n"])
        data = c.render("%s %s SIP/2.0" % (method, ru), headers, body, eol, cl_name=spell(g, "Content-Length", g.sp_pick([0, 0, 1, 2, 3, 4])))
        exp = ["spec=C03 " + expect_dest(dest_kind, dest_addr, w.backends[pi] or []), "spec=C03 atmostone"]
        if dest_kind != "none":
            exp += ["spec=C01 relay", "spec=C06 vias " + hxs(exp_vias), "spec=C06 rrs " + hxs(exp_rrs), "spec=C13 routes " + hxs(exp_routes)]
            if vias:
                exp.append("spec=C07 vias " + hxs(exp_vias))
        g.count("req_dest_" + dest_kind)
        g.count("req_by_" + str(by))
        g.count("route_mode_" + route_mode)
        if c17:
            exp.append("spec=C17 %s %s.%d" % (c17[0], c17[1], occ))
        tcp_id = "-"
        if lst.proto == "TCP" and g.chance(0.6):
            # the request arrives on an accepted TCP connection (registered for its responses before the Route set is looked
            # at; the registration can fail - no Via, no branch - and the request is routed all the same)
            tcp_id = str(g.rint(1, 3))
            g.count("req_on_tcp_connection")
            if not vias:
                g.count("req_on_tcp_connection_without_via")
        op = "pipe raw p=%d from=%s peer=%s port=%d tcp=%s rx=%d msg=%s" % (pi, lst.tok(), hx(peer_ip), peer_port, tcp_id, 1 if rx else 0, hx(data))
        ops.append(op + "".join(" # " + e for e in exp))
        if g.chance(0.3):
            ops.append("pipe state p=%d" % pi)
    ops.append("pipe end")
    return ops


def gen_response_case(g, tier, c17=None):
    """responses by Via (C02, C01), incl. unsupported transports, received/rport, 1-6 entries"""
    w = World(g, nlisten=1)
    c = Case(g, w)
    ops = c.ops
    lst = w.listeners[0]
    nresp = g.rint(1, 4)

    def schedule():
        """now and then the SAME response once more (the 180 and the 200 of a transaction carry the same Via text; a
        retransmission is byte-identical): the random choices are replayed"""
        import random as _random
        rep = _random.Random(g.rint(0, 2 ** 30))
        for k in range(nresp):
            st = (g.r.getstate(), g.sp.getstate())
            yield k
            if rep.random() < 0.35:
                g.r.setstate(st[0]); g.sp.setstate(st[1])
                g.count("resp_repeated")
                yield k
    occ = -1
    for mi in schedule():
        occ += 1
        n = g.pick([1, 2, 2, 2, 3, 4, 6])
        top = Via(lst.proto, lst.addr, lst.port, [("branch", "z9hG4bK" + g.word(ALNUM.upper(), 6, 10))])
        rest = []
        for i in range(n - 1):
            host = g.pick(["127.0.2.1", "127.0.2.2", "ua1.test", "ua2.test", "127.0.2.3"]) if i == 0 else g.pick(["10.9.8.7", "far.example.org", "127.0.2.2"])
            port = g.pick([None, w.port_ua, w.port_ua, w.port_hop])
            tr = g.pick(["UDP", "UDP", "UDP", "TCP", "TLS", "SCTP", "udp"])
            ps = [("branch", "z9hG4bK" + g.word(ALNUM.upper(), 5, 10))]
            k = g.rint(0, 5)
            if k == 0:
                ps.append(("rport", ""))
            elif k == 1:
                ps += [("received", g.pick(["127.0.2.2", "127.0.2.3"])), ("rport", str(g.pick([w.port_ua, w.port_hop])))]
            elif k == 2:
                ps += [("received", g.pick(["127.0.2.2", "127.0.2.3"]))]
            elif k == 3:
                ps += [("rport", ""), ("received", "127.0.2.1")]
            if g.chance(0.3):
                ps.append((g.word("abcdefgh", 1, 5), g.pick(["", "1", "a%41b"])))
            rest.append(Via(tr, host, port, ps))
        entries = [top] + rest
        code = g.pick([100, 180, 183, 200, 200, 202, 302, 404, 486, 500, 603, 699])
        method = g.pick(["INVITE", "OPTIONS", "BYE", "MESSAGE", "REGISTER"])
        dest_kind, dest_addr = "none", None
        if rest:
            v1 = rest[0]
            hh, hp = v1.hop()
            ip = w.resolve(hh)
            if v1.transport.lower() == "udp" and ip and hp == 5060:
                pass
            if v1.transport.lower() == "udp" and ip:
                dest_kind, dest_addr = "U", "%s:%d" % (ip, hp)
            elif v1.transport.lower() == "tcp" and ip:
                dest_kind, dest_addr = "T", "%s:%d" % (ip, hp)
        # destination must be observable: only obs ports are bound
        if dest_kind != "none" and dest_addr not in w.obs:
            # keep the case but make the port observable by rewriting the port choice: skip instead
            continue
        via_lines = layout(g, NAMES_VIA, [v.text() for v in entries])
        headers = mix(g, [via_lines], [std_headers(g, method, ttag="tt9")], ext_headers(g, g.rint(0, 4)))
        body = body_of(g)
        reason = g.pick(["OK", "Ringing", "Not Found", "Multiple Choices", "Busy Here", "Server Internal Error", "OK", "Ringing", "", "Ol\xe9 \"x\" %41;,"])
        data = c.render("SIP/2.0 %d %s" % (code, reason), headers, body, g.pick(["\r\n", "\r\n", "\n"]))
        exp = ["spec=C02 " + expect_dest(dest_kind, dest_addr), "spec=C02 atmostone"]
        if dest_kind != "none":
            exp += ["spec=C02 vias " + hxs([v.text() for v in rest]), "spec=C01 relay"]
        g.count("resp_dest_" + dest_kind)
        g.count("resp_vias_%d" % n)
        peer = g.pick(["127.0.1.1", "127.0.1.2", "127.0.9.9"])
        if c17:
            exp.append("spec=C17 %s %s.%d" % (c17[0], c17[1], occ))
        ops.append("pipe raw p=0 from=%s peer=%s port=5080 tcp=- rx=0 msg=%s" % (lst.tok(), hx(peer), hx(data)) + "".join(" # " + e for e in exp))
    ops.append("pipe end")
    return ops


def gen_largest_case(g, tier):
    """requests whose relayed copy is just below / just above what ONE UDP datagram can carry (65 507 bytes): in steps of
    11 bytes across the limit. Below it the request is relayed like any other; above it the send fails and nothing is
    relayed. Whatever does arrive at the next hop is the request that was received (names, values, order, body):
    `weak` = the model is not asked (it knows no datagram limit), the property's oracle is."""
    w = World(g, nlisten=1, nback=2, names="svc.test", keep=g.chance(0.5), rcvd=True)
    w.listeners[0].proto = "UDP"
    w.routes = []
    c = Case(g, w)
    ops = c.ops
    lst = w.listeners[0]
    hop = "127.0.3.1:%d" % w.port_hop
    for j in range(34):
        via = Via("UDP", "127.0.2.1", w.port_ua, [("branch", "z9hG4bK" + g.word(ALNUM.upper(), 6, 9)), ("rport", "")])
        hs = [("Via", via.text()), ("Route", "<sip:%s;lr>" % hop), ("From", "Alice <sip:alice@ua1.test>;tag=ft1"), ("To", "<sip:bob@far.example.org>"),
              ("Call-ID", "large-%d@ua1.test" % j), ("CSeq", "7 MESSAGE"), ("Contact", "<sip:alice@127.0.2.1>"), ("Content-Type", "text/plain"),
              ("Subject", "s" * 30), ("Supported", "x,y"), ("Content-Encoding", "identity"), ("Refer-To", "<sip:q@r>"), ("X-Pad", "p" * 20)]
        target = 65507 - 290 + 11 * j                       # size of the request as received
        head = c.render("MESSAGE sip:bob@far.example.org SIP/2.0", hs, b"", "\r\n")
        body = b"L" * (target - len(head) - 4)               # Content-Length: 0 -> five digits
        data = c.render("MESSAGE sip:bob@far.example.org SIP/2.0", hs, body, "\r\n")
        ops.append("pipe raw p=0 from=%s peer=%s port=%d tcp=- rx=0 msg=%s # weak # spec=C01 relay # spec=C03 atmostone" % (
            lst.tok(), hx("127.0.2.1"), w.port_ua, hx(data)))
        g.count("req_at_the_datagram_limit")
    ops.append("pipe end")
    return ops


# ---------------------------------------------------------------- dialogs (C04, C16, C15 wiring)

class Dialog:
    def __init__(self, g, i):
        self.callid = g.pick(["c%d" % i, "call-%d-x" % i, g.word(ALNUM, 6, 12) + "@ua1.test"])
        self.ftag = g.pick(["f%d" % i, "a-b-%d" % i, "1", g.word(ALNUM + "-._", 3, 10)])
        self.ttag = g.pick(["t%d" % i, "x-y-%d" % i, "1", self.ftag if g.chance(0.1) else g.word(ALNUM + "-._", 3, 10)])
        self.furi = g.pick(["sip:alice%d@ua1.test" % i, "sip:alice@ua1.test", "tel:+1555%04d" % i, "sip:a-b@h-x-sip:5"])
        self.turi = g.pick(["sip:svc.test", "sip:bob@svc.test", "urn:service:sos", self.furi if g.chance(0.25) else "sip:carol@svc.test"])
        self.backend = None
        self.pinned = False
        self.pin_at = 0
        self.kind = g.pick(["invite", "invite", "invite", "subscribe"])
        self.cseq = g.rint(1, 100)


def dialog_msg(c, g, method, ru, d, from_caller, extra=None, with_ttag=True, vias=None):
    f_uri, f_tag, t_uri, t_tag = (d.furi, d.ftag, d.turi, d.ttag) if from_caller else (d.turi, d.ttag, d.furi, d.ftag)
    sm = g.sp_pick([0, 0, 1, 2, 3, 4])
    disp = g.pick(["", "Someone ", '"Q" '])
    f = "%s<%s%s>;tag=%s%s" % (disp, f_uri, g.pick(["", ";transport=tcp", ";x=1"]) if f_uri.startswith("sip:") else "", f_tag, g.pick(["", ";foo=bar"]))
    t = "<%s%s>" % (t_uri, g.pick(["", ";user=phone"]) if t_uri.startswith("sip:") else "") + (";tag=%s" % t_tag if with_ttag else "")
    d.cseq += 1
    hs = [(spell(g, "From", sm), f), (spell(g, "To", sm), t), (spell(g, "Call-ID", sm), d.callid), (spell(g, "CSeq", sm), cseq_text(g, d.cseq, method))]
    via_lines = layout(g, NAMES_VIA, [v.text() for v in (vias or [])])
    headers = mix(g, [via_lines], [hs], (extra or []) + ext_headers(g, g.rint(0, 2)))
    return c.render("%s %s SIP/2.0" % (method, ru), headers, body_of(g), g.sp_pick(["\r\n", "\r\n", "\n"]))


def dialog_resp(c, g, code, method, d, vias, extra=None):
    sm = g.sp_pick([0, 0, 1, 2, 3, 4])
    f = "<%s>;tag=%s" % (d.furi, d.ftag)
    t = "<%s>;tag=%s" % (d.turi, d.ttag)
    hs = [(spell(g, "From", sm), f), (spell(g, "To", sm), t), (spell(g, "Call-ID", sm), d.callid), (spell(g, "CSeq", sm), cseq_text(g, d.cseq, method))]
    via_lines = layout(g, NAMES_VIA, [v.text() for v in vias])
    headers = mix(g, [via_lines], [hs], (extra or []) + ext_headers(g, g.rint(0, 2)))
    return c.render("SIP/2.0 %d %s" % (code, g.pick(["OK", "Ringing", "Accepted", "Gone"])), headers, b"", g.sp_pick(["\r\n", "\n"]))


def gen_dialog_case(g, tier, c17=None):
    """1-50 concurrent dialogs over 2-6 backends: pin by INVITE answer / SUBSCRIBE answer, in-dialog
    requests of every method in both directions, unrelated traffic in between, early termination."""
    nb = g.rint(2, 6)
    w = World(g, nlisten=1, nback=nb, names="svc.test, urn:service:sos", rcvd=True)
    w.routes = []          # in-dialog requests must be addressed to the service, not statically routed
    w.listeners[0].proto = "UDP"
    w.obs += ["127.0.1.%d:5080" % (j + 1) for j in range(nb + 2)]        # (the last two join and leave during the case)
    c = Case(g, w)
    ops = c.ops
    lst = w.listeners[0]
    nd = g.pick([1, 2, 3, 5, 12]) if tier == "quick" else g.pick([1, 2, 5, 20, 50])
    ds = [Dialog(g, i) for i in range(nd)]
    for j in range(1, nd):
        # concurrent dialogs whose Call-IDs (and now and then tags) are extensions of one another
        if g.chance(0.35):
            o = ds[g.rint(0, j - 1)]
            cid = o.callid + g.pick(["0", "-1", "x", ".b", "1"])
            if any(x.callid == cid for x in ds):
                continue          # (two entries of the case must stay two dialogs)
            ds[j].callid = cid
            if g.chance(0.3):
                ds[j].ftag, ds[j].ttag = o.ftag, o.ttag
            g.count("dlg_callid_extends_another")
    ua_ip = "127.0.2.1"
    evn = 0
    steps = g.rint(4, 14) * nd if nd <= 5 else g.rint(3, 6) * nd

    def raw(data, peer, port, exp):
        nonlocal evn
        if c17:
            exp = exp + ["spec=C17 %s %s.%d" % (c17[0], c17[1], evn)]
        evn += 1
        ops.append("pipe raw p=0 from=%s peer=%s port=%d tcp=- rx=0 msg=%s" % (lst.tok(), hx(peer), port, hx(data)) + "".join(" # " + e for e in exp))
    now = [0]          # virtual clock of the case, seconds (`pipe pinwait`); every binding lives between 1200 s (the dialog
                       # timeout) and 7200 s (the largest Expires an establishing response carries here)
    pairs = [0]

    def lb_pair(d, why):
        """two consecutive requests of a dialog that is not bound (any more): load-balanced like new ones, so - strict
        rotation over >= 2 backends, nothing in between - they reach two DIFFERENT backends; a binding that is still
        honoured sends both to the same one"""
        pairs[0] += 1
        tag = "lb%d" % pairs[0]
        for k in range(2):
            via = Via("UDP", ua_ip, w.port_ua, [("branch", "z9hG4bK" + g.word(ALNUM.upper(), 6, 9))])
            m = dialog_msg(c, g, g.pick(["INFO", "MESSAGE", "UPDATE", "OPTIONS"]), g.pick(["sip:svc.test", "sip:bob@svc.test"]), d, g.chance(0.5), vias=[via])
            raw(m, ua_ip, w.port_ua, ["spec=C04 " + expect_dest("B", None, w.backends[0]),
                                      ("spec=C15 remember %s" % tag) if k == 0 else ("spec=C15 destdiffers %s" % tag)] +
                ([("spec=C19 remember %s" % tag) if k == 0 else ("spec=C19 destdiffers %s" % tag)] if why == "answer_from_non_member" else []))
        g.count("dlg_lb_pair_" + why)
    spare = ["127.0.1.%d:5080" % (nb + 1 + j) for j in range(2)]      # addresses that join and leave the service's backends
    strangers = 0
    for _ in range(steps):
        bound = [x for x in ds if x.pinned]
        if g.chance(0.07):
            x = g.pick(spare)
            if x not in w.backends[0]:
                if g.chance(0.6):
                    # before it joins, the address answers something (a late answer of an earlier membership, a peer that is
                    # no backend yet): relayed by its Via, and attributed to nobody - the dialog is bound to no backend
                    strangers += 1
                    dz = Dialog(g, 700 + strangers)
                    own = Via("UDP", lst.addr, lst.port, [("branch", "z9hG4bKown" + g.word(ALNUM, 4, 6))])
                    back = Via("UDP", ua_ip, w.port_ua, [("branch", "z9hG4bK" + g.word(ALNUM.upper(), 6, 9))]).stamped(ua_ip, w.port_ua)
                    r = dialog_resp(c, g, 200, "INVITE", dz, [own, back])
                    xip, xport = x.split(":")
                    raw(r, xip, int(xport), ["spec=C02 " + expect_dest("U", "%s:%d" % (ua_ip, w.port_ua))])
                    lb_pair(dz, "answer_from_non_member")
                    g.count("dlg_answer_from_address_before_it_joins")
                ops.append("pipe badd p=0 %s" % hx(x))
                w.backends[0].append(x)
                g.count("dlg_backend_added")
            elif not any(dd.backend == x for dd in ds) and len(w.backends[0]) > 2:
                ops.append("pipe brem p=0 %s" % hx(x))
                w.backends[0].remove(x)
                g.count("dlg_backend_removed")
            continue
        if bound and g.chance(0.05):
            # more time passes than any binding lives: every binding made so far has lapsed
            ops.append("pipe pinwait p=0 %d" % g.pick([7300, 8000, 100000]))
            now[0] += 100000
            for x in bound:
                x.pinned = False
            g.count("dlg_all_bindings_lapsed")
            lb_pair(g.pick(bound), "after_lifetime")
            continue
        if bound and g.chance(0.08) and all(now[0] + 300 - x.pin_at < 1100 for x in bound):
            # a little time passes: every binding is still inside its lifetime
            wsec = g.pick([30, 200, 300])
            ops.append("pipe pinwait p=0 %d" % wsec)
            now[0] += wsec
            g.count("dlg_short_wait")
            continue
        d = g.pick(ds)
        svc_ru = g.pick(["sip:svc.test", "sip:bob@svc.test", "urn:service:sos"])
        ua_via = Via("UDP", ua_ip, w.port_ua, [("branch", "z9hG4bK" + g.word(ALNUM.upper(), 6, 9))])
        if g.chance(0.15):
            # unrelated out-of-dialog traffic advances the rotation
            m = dialog_msg(c, g, g.pick(["OPTIONS", "MESSAGE", "REGISTER"]), svc_ru, Dialog(g, 900 + g.rint(0, 99)), True, with_ttag=False, vias=[ua_via])
            raw(m, ua_ip, w.port_ua, ["spec=C03 " + expect_dest("B", None, w.backends[0])])
            g.count("dlg_unrelated")
            continue
        if d.backend is None:
            if d.kind == "invite":
                # initial INVITE is load-balanced, then answered by a backend from its configured address
                m = dialog_msg(c, g, "INVITE", svc_ru, d, True, with_ttag=False, vias=[ua_via])
                raw(m, ua_ip, w.port_ua, ["spec=C04 " + expect_dest("B", None, w.backends[0])])
                d.backend = g.pick(w.backends[0])
                bip, bport = d.backend.split(":")
                # any response carrying both tags pins, a rejection with a To tag included (its ACK and whatever
                # else follows in that dialog must reach the backend that answered)
                code = g.pick([180, 183, 200, 200, 200, 486, 404, 302, 603])
                own = Via("UDP", lst.addr, lst.port, [("branch", "z9hG4bKown" + g.word(ALNUM, 4, 6))])
                back = ua_via.stamped(ua_ip, w.port_ua)
                r = dialog_resp(c, g, code, "INVITE", d, [own, back], extra=[(spell(g, "Expires", g.sp_pick([0, 2, 3, 4])), g.pick(["0", "60", "7200", "0600", "+90", "007", "3600 ", "1e3", "x"]))] if g.chance(0.5) else None)
                raw(r, bip, int(bport), ["spec=C02 " + expect_dest("U", "%s:%d" % (ua_ip, w.port_ua)), "spec=C01 relay"])
                d.pinned = True; d.pin_at = now[0]
                g.count("dlg_invite_pinned")
            else:
                # SUBSCRIBE issued by a backend towards a UA, answered by the UA: the response travels towards the backend
                d.backend = g.pick(w.backends[0])
                bip, bport = d.backend.split(":")
                own = Via("UDP", lst.addr, lst.port, [("branch", "z9hG4bKown" + g.word(ALNUM, 4, 6))])
                bvia = Via("UDP", bip, int(bport), [("branch", "z9hG4bK" + g.word(ALNUM.upper(), 6, 9))])
                d.cseq += 1
                r = dialog_resp(c, g, g.pick([200, 202]), "SUBSCRIBE", d, [own, bvia], extra=[("Expires", g.pick(["0600", "+90", "3600", "0", "0"]))] if g.chance(0.5) else None)
                raw(r, ua_ip, w.port_ua, ["spec=C02 " + expect_dest("U", d.backend), "spec=C01 relay"])
                d.pinned = True; d.pin_at = now[0]
                g.count("dlg_subscribe_pinned")
            continue
        # in-dialog request, either direction, any method
        from_caller = g.chance(0.5)
        method = g.pick(["ACK", "BYE", "INVITE", "UPDATE", "INFO", "NOTIFY", "SUBSCRIBE", "PRACK", "MESSAGE", "REFER"])
        extra = []
        terminate = False
        if method == "NOTIFY":
            ss = g.pick(["active;expires=60", "active", "terminated", "pending"])
            extra = [(spell(g, "Subscription-State", g.sp_pick([0, 2, 3, 4])), ss)]
            terminate = (ss == "terminated")
        if method in ("SUBSCRIBE", "INVITE", "UPDATE", "REFER", "NOTIFY", "MESSAGE") and g.chance(0.3):
            # an Expires header on a REQUEST inside the dialog (refreshing SUBSCRIBE, session refresh) promises nothing about
            # the binding: its lifetime was fixed by the response that established it
            extra = extra + [(spell(g, "Expires", g.sp_pick([0, 2, 3, 4])), g.pick(["100000", "60", "3600", "2147483647", "86400"]))]
            g.count("dlg_indialog_request_with_expires")
        m = dialog_msg(c, g, method, svc_ru, d, from_caller, extra=extra, vias=[ua_via])
        if d.pinned and g.chance(0.08):
            # the backend the dialog is bound to cannot be reached at the moment: the request goes nowhere else
            ops.append("pipe bfail p=0 1 %s" % hx(d.backend))
            raw(m, ua_ip, w.port_ua, ["spec=C04 dest none", "spec=C06 dest none"])
            ops.append("pipe bfail p=0 0 %s" % hx(d.backend))
            g.count("dlg_pinned_backend_down")
            if terminate:
                d.pinned = False       # the terminating NOTIFY dissolves the binding whether or not it could be delivered
            continue
        if d.pinned:
            # (a backend that joined during the case is recognised as the source of its answers like any other: C19)
            raw(m, ua_ip, w.port_ua, ["spec=C04 " + expect_dest("B", None, [d.backend]), "spec=C01 relay"] +
                (["spec=C19 " + expect_dest("B", None, [d.backend])] if d.backend in spare else []))
            g.count("dlg_indialog_" + method)
        else:
            raw(m, ua_ip, w.port_ua, ["spec=C04 " + expect_dest("B", None, w.backends[0])])
            g.count("dlg_after_termination")
        if terminate:
            if d.pinned and g.chance(0.5):
                d.pinned = False
                lb_pair(d, "after_termination")
            d.pinned = False
        if method == "INVITE" and d.pinned and g.chance(0.7):
            # the pinned backend answers the re-INVITE, possibly with a rejection: the dialog lives on
            bip, bport = d.backend.split(":")
            own = Via("UDP", lst.addr, lst.port, [("branch", "z9hG4bKown" + g.word(ALNUM, 4, 6))])
            back = ua_via.stamped(ua_ip, w.port_ua)
            r = dialog_resp(c, g, g.pick([200, 491, 488, 403, 100, 180]), "INVITE", d, [own, back])
            raw(r, bip, int(bport), ["spec=C02 " + expect_dest("U", "%s:%d" % (ua_ip, w.port_ua))])
            d.pin_at = now[0]          # an answer with both tags binds again: a new lifetime starts
            g.count("dlg_reinvite_answered")
        if method == "BYE" and d.pinned and g.chance(0.7):
            # the backend answers the BYE (any final status): the pin dissolves
            bip, bport = d.backend.split(":")
            own = Via("UDP", lst.addr, lst.port, [("branch", "z9hG4bKown" + g.word(ALNUM, 4, 6))])
            back = ua_via.stamped(ua_ip, w.port_ua)
            r = dialog_resp(c, g, g.pick([200, 481, 500]), "BYE", d, [own, back])
            raw(r, bip, int(bport), ["spec=C02 " + expect_dest("U", "%s:%d" % (ua_ip, w.port_ua))])
            d.pinned = False
            g.count("dlg_bye_answered")
            if d.kind == "invite" and g.chance(0.5):
                # the same identifiers are used again (a new INVITE answered with the same tags): the dialog is pinned anew
                d.backend = None
                g.count("dlg_repin_after_bye")
    ops.append("pipe state p=0")
    ops.append("pipe end")
    return ops


# ---------------------------------------------------------------- TCP connection affinity (C12)

def gen_tcp_case(g, tier):
    nb = g.rint(1, 3)
    rcvd = g.chance(0.7)
    w = World(g, nlisten=1, nback=nb, names="svc.test", rcvd=rcvd)
    w.routes = []
    w.listeners[0].proto = "TCP"
    g.count("tcp_case_rcvd" if rcvd else "tcp_case_no_received")
    c = Case(g, w)
    ops = c.ops
    lst = w.listeners[0]
    nconn = g.rint(2, 8)
    conns = []
    for k in range(nconn):
        conns.append({"id": k + 1, "port": 30000 + g.rint(0, 20000) + k,
                      "sentby": g.pick([("10.1.1.1", 5060), ("10.1.1.1", 5060), ("127.0.0.1", None), ("192.168.7.%d" % k, 5060 + k),
                                        ("ua1.test", 5060), ("ua2.test", None)]),
                      "rport": g.chance(0.6)})
    pending = []     # transactions awaiting responses: (conn, method, via_as_relayed, dialog, got_final)
    dash_twin = []
    # long structured branches that differ only in a trailing counter (as some stacks produce)
    long_prefix = ("z9hG4bK" + g.word(ALNUM, 50, 90)) if g.chance(0.3) else None
    if long_prefix:
        g.count("tcp_case_long_branches")
    steps = g.rint(4, 20 * nconn if tier != "quick" else 5 * nconn)
    branches = set()
    for _ in range(steps):
        if pending and g.chance(0.12):
            # a minute passes while transactions are open (the periodic sweep of the transport table comes due)
            ops.append("pipe tick p=0 %d" % g.pick([61, 61, 120, 600]))
            g.count("tcp_sweep_due")
        if pending and g.chance(0.5):
            t = g.pick(pending)
            final = g.chance(0.5)
            code = g.pick([200, 404, 486, 603]) if final else g.pick([100, 180, 183])
            own = Via("TCP", lst.addr, lst.port, [("branch", "z9hG4bKown" + g.word(ALNUM, 4, 6))])
            r = dialog_resp(c, g, code, t["method"], t["d"], [own, t["via"]])
            bip, bport = g.pick(w.backends[0]).split(":")
            if g.chance(0.25):
                # the answer comes from an address that is not a configured backend (a next hop, a backend's other socket)
                bip, bport = g.pick([("127.0.1.9", "5080"), (bip, "5999"), ("127.0.3.1", str(w.port_hop))])
                g.count("tcp_resp_from_non_backend")
            ops.append("pipe raw p=0 from=%s peer=%s port=%s tcp=- rx=0 msg=%s # spec=C12 dest C %d # spec=C01 relay" % (
                lst.tok(), hx(bip), bport, hx(r), t["conn"]["id"]))
            g.count("tcp_resp_final" if final else "tcp_resp_provisional")
            if final:
                pending.remove(t)
            continue
        if len(conns) >= 2 and g.chance(0.08):
            # an RFC 2543 sender forks one request over two connections: same sent-by, same Call-ID and CSeq, two distinct
            # branches WITHOUT the magic cookie - two transactions, each answered on its own connection
            c1, c2 = g.r.sample(conns, 2)
            c2["sentby"], c2["rport"], c1["rport"] = c1["sentby"], False, False
            dl = Dialog(g, 500 + len(branches))
            cs0 = dl.cseq
            stem = g.word(ALNUM, 5, 9)
            meth = g.pick(["INVITE", "OPTIONS", "MESSAGE"])
            for cnx, brx in ((c1, g.pick(["1", "a", ""]) + stem), (c2, stem + g.pick(["2", "b", "-x"]))):
                if brx in branches:
                    continue
                branches.add(brx)
                dl.cseq = cs0
                viax = Via("TCP", cnx["sentby"][0], cnx["sentby"][1], [("branch", brx)])
                mx = dialog_msg(c, g, meth, "sip:svc.test", dl, True, with_ttag=False, vias=[viax])
                ops.append("pipe raw p=0 from=%s peer=%s port=%d tcp=%d rx=0 msg=%s # spec=C03 %s" % (
                    lst.tok(), hx("127.0.0.1"), cnx["port"], cnx["id"], hx(mx), expect_dest("B", None, w.backends[0])))
                pending.append({"conn": cnx, "method": meth, "via": viax.stamped("127.0.0.1", cnx["port"]) if rcvd else viax, "d": dl})
            g.count("tcp_legacy_fork_without_cookie")
            continue
        cn = g.pick(conns)
        br = "z9hG4bK" + g.word(ALNUM.upper(), 6, 10)
        if long_prefix:
            br = long_prefix + str(30000 + len(branches))
        forced_method = None
        if g.chance(0.06):
            # extension method containing '-': method M-X with branch Y, and (on another connection announcing the
            # same sent-by) method M with branch X-Y -- distinct branches, distinct transactions
            x, y = "z9hG4bKq" + g.word(ALNUM.upper(), 3, 6), "z9hG4bK" + g.word(ALNUM.upper(), 6, 10)
            first = g.chance(0.5)
            forced_method, br = ("PING-" + x, y) if first else ("PING", x + "-" + y)
            other = [o for o in conns if o is not cn]
            if other:
                o = g.pick(other)
                o["sentby"], o["rport"] = cn["sentby"], False
                cn["rport"] = False
                dash_twin.append((o, ("PING", x + "-" + y) if first else ("PING-" + x, y)))
            g.count("tcp_dash_method")
        elif dash_twin and g.chance(0.7):
            cn, (forced_method, br) = dash_twin.pop()
        if forced_method is None and pending and g.chance(0.5):
            # distinct branch that extends (or is a prefix of) the branch of a transaction still open
            ob = g.pick(pending)["via"].get("branch")
            br = g.pick([ob + g.pick(["1", "0", "-1", "x"]), ob[:-1] if len(ob) > 9 else ob + "7"])
        while br in branches:
            br = "z9hG4bK" + g.word(ALNUM.upper(), 6, 10)
        branches.add(br)
        method = forced_method or g.pick(["INVITE", "OPTIONS", "MESSAGE", "REGISTER", "BYE"])
        ps = [("branch", br)] + ([("rport", "")] if cn["rport"] else [])
        via = Via("TCP", cn["sentby"][0], cn["sentby"][1], ps)
        d = Dialog(g, len(branches))
        m = dialog_msg(c, g, method, "sip:svc.test", d, True, with_ttag=False, vias=[via])
        ops.append("pipe raw p=0 from=%s peer=%s port=%d tcp=%d rx=0 msg=%s # spec=C03 %s" % (
            lst.tok(), hx("127.0.0.1"), cn["port"], cn["id"], hx(m), expect_dest("B", None, w.backends[0])))
        pending.append({"conn": cn, "method": method, "via": via.stamped("127.0.0.1", cn["port"]) if rcvd else via, "d": d})
        g.count("tcp_requests")
    ops.append("pipe state p=0")
    ops.append("pipe end")
    return ops


def generate(seed, tier, focus=None):
    g = Gen(seed)
    lines = []
    n = {"quick": 300, "thorough": 10000}[tier]
    kinds = {None: ["req", "req", "resp", "dialog", "tcp", "twin"], "requests": ["req"], "responses": ["resp"],
             "dialogs": ["dialog"], "tcp": ["tcp"], "twins": ["twin"]}[focus]
    if focus in ("dialogs", "tcp", "twins"):
        n = n // 3 if focus != "tcp" else n // 2
    def Gen2(a, b=None):
        x = Gen(a, b)
        x.stats = g.stats          # one histogram for the whole run
        return x
    for i in range(n):
        kind = kinds[i % len(kinds)]
        sub = g.rint(0, 2**31)
        if kind == "req":
            lines += gen_request_case(Gen2(sub), tier)
        elif kind == "resp":
            lines += gen_response_case(Gen2(sub), tier)
        elif kind == "dialog":
            lines += gen_dialog_case(Gen2(sub), tier)
        elif kind == "tcp":
            lines += gen_tcp_case(Gen2(sub), tier)
        else:
            # metamorphic twins (C17): same structure stream, different spelling/layout stream
            f = [gen_request_case, gen_response_case, gen_dialog_case][g.rint(0, 2)]
            tag = "t%d" % i
            if f is gen_request_case:
                lines += f(Gen2(sub, sub + 1), tier, c17=("base", tag))
                for k in range(2):
                    lines += f(Gen2(sub, sub + 2 + k), tier, c17=("twin", tag))
            else:
                lines += f(Gen2(sub, sub + 1), tier, c17=("base", tag))
                for k in range(2):
                    lines += f(Gen2(sub, sub + 2 + k), tier, c17=("twin", tag))
            g.count("twin_groups")
        g.count("cases_" + kind)
    if focus is None:
        for _ in range(1 if tier == "quick" else 6):
            lines += gen_largest_case(Gen2(g.rint(0, 2**31)), tier)
    lines.append("pipe branches")
    return lines, g.stats
