"""Stream `route` (C18): static route tables over a small universe of patterns and hosts."""
import itertools
from .common import *

PATTERNS = ["a.com", "*.a.com", "a.*", "*", "default", "aXa.com", "x.a.com", "*.com", "*a.com", "a*com"]
HOSTS = ["a.com", "x.a.com", "aXa.com", "a.org", "default", "y.x.a.com", "b.com", "xa.com", "a.", "acom", ".a.com", "a.com.", ""]

def table_lines(g, pats, hosts):
    out = ["route new"]
    for i, p in enumerate(pats):
        proto = ["udp", "tcp", "tls", "TLS"][i % 4]
        hop = "10.0.%d.%d" % (i, len(p)) + (":%d" % (6000 + i) if i % 2 == 0 else "")
        out.append("route add %s %s %s" % (hx(proto), hx(p), hx(hop)))
    for h in hosts:
        out.append("route find %s" % hx(h))
    # second pass in another order: the answer for a host must not depend on what was looked up in between
    for h in reversed(hosts):
        out.append("route find %s" % hx(h))
    return out

def cfg_lines(g, entries, hosts):
    """the table built from a YAML configuration, the way the program does at start-up: entries = [(protocol, [dests], nexthop)]"""
    y = "proxies:\n- name: svc.test\n  route:\n"
    flat = []
    for (proto, dests, hop) in entries:
        y += "  - protocol: %s\n    nexthop: \"%s\"\n    dests:\n" % (proto, hop) + "".join("    - \"%s\"\n" % d for d in dests)
        for d in dests:
            flat += [hx(proto), hx(d), hx(hop)]
    out = [("route cfg %s " % hx(y) + " ".join(flat)).rstrip()]
    for h in hosts:
        out.append("route find %s" % hx(h))
    for h in reversed(hosts):
        out.append("route find %s" % hx(h))
    return out

def conc_line(hosts, ms):
    return "route conc %d %s # spec=C18 eq ok # spec=C09 eq ok" % (ms, " ".join(hx(h) for h in hosts if h))

def generate(seed, tier):
    g = Gen(seed)
    lines = []
    # tables built from the configuration: several dests share one next hop, wildcards in any position of the list
    for _ in range(150 if tier == "quick" else 3000):
        entries = []
        for i in range(g.rint(1, 4)):
            dests = [g.pick(PATTERNS + ["*.b.com", "b.*", "test1", "*.example.com"]) for _ in range(g.rint(1, 4))]
            entries.append((g.pick(["udp", "tcp", "tls"]), dests, "10.9.%d.1" % i + g.pick(["", ":6000"])))
        hosts = [g.pick(HOSTS + ["z.b.com", "b.a", "a.example.com", "test1", "q.example.com"]) for _ in range(8)]
        one = cfg_lines(g, entries, hosts)
        lines += one
        # the same configuration is turned into a table several more times (another start of the program, another
        # listener of the service): the answers must be the same
        for _ in range(g.pick([1, 1, 3, 8])):
            lines += one
        g.count("config_built_tables")
    # several wildcards that all match, built many times from one configuration
    for _ in range(10 if tier == "quick" else 100):
        entries = [("udp", ["*.example.com"], "10.9.0.1"), ("tcp", ["a.*"], "10.9.1.1"), ("udp", ["*"], "10.9.2.1")]
        g.r.shuffle(entries)
        one = cfg_lines(g, entries, ["a.example.com", "a.org", "q.example.com"])
        for _ in range(12):
            lines += one
        g.count("config_rebuilt_12_times")
    # one table, several listeners looking hosts up at the same time
    for _ in range(3 if tier == "quick" else 30):
        entries = [("udp", ["*.example.com", "test1"], "10.9.0.1"), ("tcp", ["a.*", "*.b.com"], "10.9.1.1:6000"), ("tls", ["default"], "10.9.2.1"), ("udp", ["x.a.com"], "10.9.3.1")]
        g.r.shuffle(entries)
        hs = ["a.example.com", "a.org", "q.example.com", "z.b.com", "nowhere.test", "x.a.com", "test1", "b.a"]
        lines += cfg_lines(g, entries, hs)
        lines.append(conc_line(hs, 150 if tier == "quick" else 600))
        g.count("concurrent_lookup_runs")
    maxn = 3 if tier == "quick" else 4
    pats = PATTERNS[:8] if tier == "quick" else PATTERNS
    n = 0
    for k in range(0, maxn + 1):
        for t in itertools.permutations(pats, k):
            lines += table_lines(g, list(t), HOSTS if tier != "quick" else HOSTS[:9])
            n += 1
    g.count("exhaustive_tables", n)
    # overwrite of an existing pattern, larger random tables
    for _ in range(200 if tier == "quick" else 3000):
        t = [g.pick(PATTERNS + ["*.b.com", "b.*", "*.x.a.com", "y.*.com", "*.*", "**", "a-b.com", "a_b.*"]) for _ in range(g.rint(1, 10))]
        lines += table_lines(g, t, [g.pick(HOSTS + ["z.b.com", "b.a", "y.q.com", "w.x.a.com", "a-b.com", "a_b.org"]) for _ in range(6)])
        g.count("random_tables")
    # next-hop strings with/without port, for udp/tcp/tls
    for proto in ["udp", "tcp", "tls", "TLS", "Tls", "sctp"]:
        for hop in ["h", "h:5070", "10.1.2.3", "10.1.2.3:1", "h:", "h:x", "h:65535", "[::1]:5060", "a:b:7", "h:5060", "h:5061", "gw.example.org:5060", "10.0.0.1:5061", "h:0", "h:1"]:
            # expected by the property text: written port wins; omitted -> 5060, or 5061 for tls (any letter case)
            if ":" in hop:
                host, port = hop.rsplit(":", 1)
                exp = "%s %s %s %d" % (hx(proto), hx("d"), hx(host), int(port)) if port.isdigit() else "err"
            else:
                exp = "%s %s %s %d" % (hx(proto), hx("d"), hx(hop), 5061 if proto.lower() == "tls" else 5060)
            lines.append("route item %s %s %s # spec=C18 eq %s" % (hx(proto), hx("d"), hx(hop), exp))
    return lines, g.stats
