"""Stream `cfg`: configuration handling that decides how the pipeline behaves (main.go)."""
from .common import *

TRUE_WORDS = ["true", "yes", "1", "on", "t", "y"]

def generate(seed, tier, focus="keep"):
    g = Gen(seed)
    lines = []
    if focus == "keep":
        # every spelling of the setting (C13: the next-hop Route entry is relayed or stripped "according to the service's
        # keep-next-hop-route setting")
        words = []
        for w in TRUE_WORDS + ["false", "no", "0", "off", "f", "n", "maybe", "2", "tru", "yess", " true"]:
            words += [w, w.upper(), w.capitalize()]
        for w in sorted(set(words)):
            exp = "true" if w.lower() in TRUE_WORDS else "false"
            lines.append("cfg keep %s # spec=C13 eq %s" % (hx(w), exp))
            g.count("keep_words")
    elif focus == "timeout":
        # the dialog timeout a service gets (C15: "the configured dialog timeout"): its own setting when there is one, the
        # environment's default only when there is none, 1200 otherwise
        for cfgv in [0, 1, 5, 600, 1200, 86400, -1]:
            for env in [None, "1", "600", "3600", "0", "-5", "+90", "007", "abc", "", "12s", " 30", "99999999999999999999", "1200"]:
                if cfgv > 0:
                    exp = str(cfgv)
                elif env is None:
                    exp = "1200"
                else:
                    import re as _re
                    mm = _re.fullmatch(r"[+-]?[0-9]+", env)
                    exp = str(int(env)) if (mm and -2**63 <= int(env) < 2**63) else "1200"
                lines.append("cfg deftimeout %d %s # spec=C15 eq %s" % (cfgv, "~" if env is None else hx(env) if env != "" else "-", exp))
                g.count("dialog_timeout_resolutions")
    else:
        # host tables: a name defined globally and again in the service (the service's entry wins), only globally, only
        # in the service, nowhere
        for i in range(60 if tier == "quick" else 600):
            names = ["gw.test", "ua.test", "hop.test", "only-global.test", "only-service.test"]
            glob = [(n, "10.0.0.%d" % g.rint(1, 250)) for n in names if n != "only-service.test" and g.chance(0.7)]
            serv = [(n, "10.1.0.%d" % g.rint(1, 250)) for n in names if n != "only-global.test" and g.chance(0.7)]
            y = "hosts:\n" + "".join("- name: %s\n  ip: %s\n" % e for e in glob) if glob else ""
            y += "proxies:\n- name: svc.test\n"
            if serv:
                y += "  hosts:\n" + "".join("  - name: %s\n    ip: %s\n" % e for e in serv)
            flat = []
            for (n, ip) in glob + serv:
                flat += [hx(n), hx(ip)]
            for n in names + ["nowhere.test"]:
                want = dict(glob)
                want.update(dict(serv))
                exp = ("ip " + hx(want[n])) if n in want else None
                # (a name in neither table goes to the DNS: only the configured names are asked)
                if exp is None:
                    continue
                lines.append(("cfg hosts %s %s " % (hx(y), hx(n)) + " ".join(flat)).rstrip() + " # spec=C02 eq " + exp + " # spec=C13 eq " + exp)
                g.count("host_lookups")
    return lines, g.stats
