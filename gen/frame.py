"""Streams `frame` (C11) and `udpbuf` (C10).
frame: sequences of generated messages (header lines 1 B - 20 KiB, bodies that look like SIP,
CRLF or LF, CRLF keep-alives in between) under scripted segmentations of the byte stream:
exhaustively all single and double cut positions for short streams, random multi-cuts down to
1-byte segments otherwise.
udpbuf: every datagram is parsed twice through the real parse loop, once in a clean 64 KiB buffer
and once in a dirty one (stale bytes of an earlier, longer datagram behind it); datagrams are cut at
any offset or declare a Content-Length larger / smaller than what they carry."""
from .common import *

def fmsg(g, big=False, eol=None, tiny=False, limit=None):
    """limit: largest size wanted (a UDP datagram carries at most 65 507 bytes); a larger draw is repeated smaller"""
    if limit is not None:
        while True:
            m = fmsg(g, big, eol, tiny)
            if len(m) <= limit:
                return m
            big = g.chance(0.5)
    eol = eol or g.pick(["\r\n", "\r\n", "\n"])
    req = g.chance(0.6)
    start = "%s sip:%s SIP/2.0" % (g.pick(["INVITE", "OPTIONS", "MESSAGE"]), g.pick(["svc.test", "a@b.example.org"])) if req else "SIP/2.0 %d %s" % (g.pick([100, 200, 404]), g.pick(["OK", "Not Found"]))
    hs = [("Via", "SIP/2.0/TCP 10.0.0.%d:5060;branch=z9hG4bK%s" % (g.rint(1, 9), g.word(ALNUM.upper(), 4, 8))),
          ("From", "<sip:a@h>;tag=1"), ("To", "<sip:b@h>"), ("Call-ID", g.word(ALNUM, 4, 10)), ("CSeq", "%d %s" % (g.rint(1, 99), "INVITE"))]
    if tiny:
        hs = hs[:1]
    for _ in range(0 if tiny else g.rint(0, 3)):
        ln = g.pick([1, 10, 100]) if not big else g.pick([1, 100, 4000, 4090, 4094, 4095, 4096, 4097, 4100, 8192, 8193, 12000, 20000])
        hs.append((g.pick(["X-A", "Subject", "X-Long"]), g.word(ALNUM + " ;,%", ln, ln).strip() or "x"))
    k = g.rint(0, 4)
    if k == 0: body = b""
    elif k == 1: body = b"v=0\r\ns=-\r\n"
    elif k == 2: body = ("BYE sip:x@y SIP/2.0\r\nVia: SIP/2.0/TCP evil\r\nContent-Length: 3\r\n\r\nabc").encode()
    elif k == 3 and big: body = g.rbytes(5000, 60000)
    else: body = g.rbytes(1, 40)
    hs.append(("Content-Length", str(len(body))))
    return (start + eol + "".join("%s: %s%s" % (n, v, eol) for n, v in hs) + eol).encode("latin-1") + body

def frame_case(g, msgs, keepalives, cuts):
    stream = b""
    for m, ka in zip(msgs, keepalives):
        stream += b"\r\n" * ka + m
    return "frame run %s %s # spec=C11 msgs %s" % (hx(stream), ",".join(str(c) for c in cuts) if cuts else "-", " ".join(hx(m) for m in msgs))

def generate(seed, tier, focus="frame"):
    g = Gen(seed)
    lines = []
    if focus == "frame":
        # exhaustive single and double cuts of short streams
        nshort = 3 if tier == "quick" else 12
        for _ in range(nshort):
            msgs = [fmsg(g, tiny=True) for _ in range(g.rint(1, 2))]
            kas = [g.rint(0, 2) for _ in msgs]
            total = sum(len(m) + 2 * k for m, k in zip(msgs, kas))
            for a in range(1, total):
                lines.append(frame_case(g, msgs, kas, [a]))
                g.count("single_cuts")
            step = 1 if tier != "quick" else 5
            for a in range(1, total, step):
                for b in range(1, total - a, step):
                    lines.append(frame_case(g, msgs, kas, [a, b]))
                    g.count("double_cuts")
        for _ in range(150 if tier == "quick" else 4000):
            big = g.chance(0.4)
            msgs = [fmsg(g, big) for _ in range(g.rint(1, 8 if not big else 3))]
            kas = [g.rint(0, 3) if g.chance(0.3) else 0 for _ in msgs]
            total = sum(len(m) + 2 * k for m, k in zip(msgs, kas))
            mode = g.rint(0, 3)
            if mode == 0: cuts = []
            elif mode == 1: cuts = [1] * min(total, 3000)
            elif mode == 2: cuts = [g.rint(1, 7) for _ in range(min(total, 2000))]
            else: cuts = [g.pick([1, 2, 100, 1000, 4095, 4096, 4097, 9000]) for _ in range(60)]
            lines.append(frame_case(g, msgs, kas, cuts))
            g.count("random_streams")
            g.count("big_streams" if big else "small_streams")
        # the operational reader (Reader/Bufio.lean) against the real bufio.Reader + readLine / ParseMessage:
        # small buffers so that short lines already come in fragments; CR at the buffer's last byte; CR CR LF;
        # lines whose length is a multiple of the buffer size; unterminated ends; segment boundaries anywhere
        def rcuts(total):
            mode = g.rint(0, 4)
            if mode == 0: return []
            if mode == 1: return [1] * min(total, 400)
            if mode == 2: return [g.rint(1, 5) for _ in range(min(total, 300))]
            if mode == 3: return [g.pick([15, 16, 17, 31, 32, 33]) for _ in range(40)]
            return [g.rint(1, max(1, total)) for _ in range(3)]
        for _ in range(250 if tier == "quick" else 6000):
            N = g.pick([16, 16, 17, 20, 32, 64, 100, 4096, 1])
            nl = g.rint(1, 6)
            parts = []
            for _ in range(nl):
                ln = g.pick([0, 1, 5, N - 2, N - 1, N, N + 1, 2 * N - 1, 2 * N, 2 * N + 1, 3 * N, g.rint(0, 3 * N + 5)])
                ln = max(0, min(ln, 400))
                body = g.word(ALNUM + " :;", ln, ln).encode() if ln else b""
                if ln and g.chance(0.3):
                    body = body[:-1] + b"\r"                      # a CR that is content (or half of CR CR LF)
                if ln > 2 and g.chance(0.15):
                    k = g.rint(0, ln - 1); body = body[:k] + b"\r" + body[k + 1:]
                parts.append(body + g.pick([b"\r\n", b"\r\n", b"\n"]))
            stream = b"".join(parts)
            tail = g.rint(0, 3)
            exp = ""
            if tail == 0:
                want = [x[:-1] if x.endswith(b"\r") else x for x in stream.split(b"\n")[:-1]]
                exp = " # spec=C11 eq n=%d %s" % (len(want), " ".join(hx(x) for x in want))
                exp = exp.rstrip()
            elif tail == 1:
                stream += g.word(ALNUM, 1, 2 * N + 3 if N < 200 else 50).encode()      # unterminated rest
            elif tail == 2:
                stream += b"\r"
            else:
                stream = stream[:-1]                                                    # ends in CR or mid-line
            lines.append("frame blines %d %s %s%s" % (N, hx(stream), ",".join(str(c) for c in rcuts(len(stream))) or "-", exp))
            g.count("bufio_lines"); g.count("bufio_N_%d" % N)
        for _ in range(150 if tier == "quick" else 4000):
            N = g.pick([16, 17, 20, 32, 64, 100, 4096])
            big = g.chance(0.15)
            msgs = [fmsg(g, big, tiny=g.chance(0.5) and not big) for _ in range(g.rint(1, 4 if not big else 2))]
            kas = [g.rint(0, 3) if g.chance(0.4) else 0 for _ in msgs]
            stream = b"".join(b"\r\n" * k + m for m, k in zip(msgs, kas))
            kind = g.rint(0, 4)
            exp = " # spec=C11 msgs %s" % " ".join(hx(m) for m in msgs)
            if kind == 0:
                stream += b"\r\n" * g.rint(0, 3)
            elif kind == 1:
                cutp = g.rint(1, len(msgs[-1]) - 1)
                stream += msgs[-1][:cutp]; exp = ""                                     # truncated last message
            elif kind == 2:
                stream += g.pick([b"garbage\r\n\r\n", b"\r", b" \t ", b"X" * (N + 3)]); exp = ""
            cuts = rcuts(len(stream)) if len(stream) < 3000 else [g.pick([1, 2, 100, 1000, 4095, 4096, 4097]) for _ in range(40)]
            lines.append("frame bparse %d %s %s%s" % (N, hx(stream), ",".join(str(c) for c in cuts) or "-", exp))
            g.count("bufio_parse"); g.count("bufio_parse_N_%d" % N)
        # streams that must stop: truncated, garbage after a message
        for _ in range(40):
            m = fmsg(g)
            cutp = g.rint(1, len(m) - 1)
            lines.append("frame run %s %s" % (hx(m + m[:cutp]), g.pick(["-", "3", "1,1,1,1,1,1,1,1"])))
    elif focus == "udpwire":
        # the real UDP transport on a loopback socket: datagrams of very different sizes one after the other
        # (each is followed by a short sentinel datagram inside the harness), cut and over-declared ones in between
        import os, time
        port = 23000 + ((int(time.time()) * 7 + os.getpid()) % 990)      # below the kernel's ephemeral port range
        lines.append("udpwire new %d" % port)
        for i in range(120 if tier == "quick" else 3000):
            k = g.rint(0, 5)
            m = fmsg(g, big=g.chance(0.3), limit=60000)
            exp = None
            if k == 0:
                d = m[:g.rint(1, len(m) - 1)]
            elif k == 1:
                # junk, or a keep-alive (CRLF, double CRLF, blanks, an empty datagram)
                d = g.pick([g.rbytes(1, 40), b"\r\n", b"\r\n\r\n", b" ", b"\n", b""])
            elif k == 2:
                body = g.rbytes(1, 10)
                d = ("MESSAGE sip:s SIP/2.0\r\nVia: SIP/2.0/UDP h\r\nContent-Length: %d\r\n\r\n" % (len(body) + g.rint(1, 30))).encode() + body
                exp = "rejected"
            else:
                d = m
            if len(d) > 60000:
                d = d[:60000]
            e = (" # spec=C10 eq " + exp) if exp else ""
            if k >= 3 and len(d) == len(m):
                e += " # spec=C10 accepted"
            lines.append("udpwire send %s # spec=C10 selfrelay1%s # spec=C07 source" % (hx(d), e))
            if i % 6 == 5:
                # a burst: the receive loop runs ahead of the parse loop; nothing may be lost or delivered twice
                nb = g.pick([3, 8, 30])
                lines.append("udpwire burst %d %d # spec=C10 eq ok n=%d each-once # spec=C09 eq ok n=%d each-once # spec=C04 eq ok n=%d each-once" % (nb, i, nb, nb, nb))
                g.count("udpwire_bursts")
            g.count("udpwire_kind_%d" % min(k, 3))
        # a flood while the consumer is busy (the queues between the kernel, the receive loop and the parse loop are full)
        for nf in ([20000] if tier == "quick" else [20000, 60000, 30000]):
            lines.append("udpwire flood %d %d # spec=C10 eq ok n=%d intact-at-most-once # spec=C09 eq ok n=%d intact-at-most-once # spec=C08 eq ok n=%d intact-at-most-once" % (nf, len(lines), nf, nf, nf))
            g.count("udpwire_floods")
    else:
        for i in range(400 if tier == "quick" else 8000):
            m = fmsg(g, big=g.chance(0.1), limit=60000)
            k = g.rint(0, 5)
            stale = g.pick([b"ZZZZZZZZZZZZZZZZZZZZ" * 50, fmsg(g) * 3, b"\r\n\r\nabcdef" * 20, b"\r\nContent-Length: 0\r\n\r\n" + fmsg(g)])
            exp = None
            if k == 0:
                d = m
            elif k == 1:                       # cut at any byte offset
                d = m[:g.rint(1, len(m) - 1)]
            elif k == 2:                       # declares more than it carries
                body = g.rbytes(1, 10)
                d = ("MESSAGE sip:s SIP/2.0\r\nVia: SIP/2.0/UDP h\r\nContent-Length: %d\r\n\r\n" % (len(body) + g.rint(1, 30))).encode() + body
                exp = "rejected pool+2"
            elif k == 3:                       # declares less than it carries
                body = g.rbytes(5, 20)
                d = ("MESSAGE sip:s SIP/2.0\r\nVia: SIP/2.0/UDP h\r\nContent-Length: %d\r\n\r\n" % g.rint(0, len(body) - 1)).encode() + body
            elif k == 4:                       # ends before its header section is complete
                hdr_end = m.find(b"\r\n\r\n") if b"\r\n\r\n" in m else m.find(b"\n\n")
                d = m[:g.rint(1, max(1, hdr_end))]
                exp = "rejected pool+2"
            else:
                d = m
            tag = "u%d" % i
            e = (" # spec=C10 eq " + exp) if exp else ""
            lines.append("udpbuf run %d %s # spec=C10 remember %s # spec=C10 selfrelay%s" % (len(d), hx(d), tag, e))
            lines.append("udpbuf run %d %s # spec=C10 sameas %s # spec=C10 selfrelay%s" % (len(d), hx(d + stale), tag, e))
            g.count("udp_kind_%d" % k)
    return lines, g.stats
