"""Helpers shared by the generators: hex fields, seeded PRNG, alphabets."""
import random

def hx(b):
    if isinstance(b, str):
        b = b.encode("latin-1")
    return b.hex() if b else "-"

def opt(b):
    return "~" if b is None else hx(b)

def kvlist(kvs):
    out = [str(len(kvs))]
    for k, v in kvs:
        out += [hx(k), hx(v)]
    return " ".join(out)

def hxlist(parts):
    return " ".join([str(len(parts))] + [hx(p) for p in parts])

class Gen:
    """One PRNG per generator run; every random choice derives from the seed."""
    def __init__(self, seed, spell_seed=None):
        self.r = random.Random(seed)
        # second stream: choices that only affect header-name spelling, list layout and blanks
        self.sp = random.Random(seed if spell_seed is None else spell_seed)
        self.stats = {}

    def sp_pick(self, seq):
        return seq[self.sp.randrange(len(seq))]

    def sp_chance(self, p):
        return self.sp.random() < p

    def sp_rint(self, a, b):
        return self.sp.randint(a, b)

    def count(self, key, n=1):
        self.stats[key] = self.stats.get(key, 0) + n

    def chance(self, p):
        return self.r.random() < p

    def pick(self, seq):
        return seq[self.r.randrange(len(seq))]

    def rint(self, a, b):
        return self.r.randint(a, b)

    def word(self, alphabet, lo, hi):
        n = self.r.randint(lo, hi)
        return "".join(self.r.choice(alphabet) for _ in range(n))

    def rbytes(self, lo, hi):
        n = self.r.randint(lo, hi)
        return bytes(self.r.getrandbits(8) for _ in range(n))

ALNUM = "abcdefghijklmnopqrstuvwxyzABCDEFGHIJKLMNOPQRSTUVWXYZ0123456789"
TOKEN = ALNUM + "-.!%*_+`'~"
UNRESERVED = ALNUM + "-_.!~*'()"


# per-process offset for loopback ports: two check processes running at the same time on one machine must not
# bind the same observation sockets (a replay file carries the ports it was generated with)
import os as _os, time as _time
PROC_NONCE = (_os.getpid() * 131 + int(_time.time())) % 30000
