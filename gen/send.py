"""Stream `send` (C20): every fault pattern over send sequences of 1-3 messages, for client
transports (plain, fail-over) and TCP backends. Cached connections are scripted doubles; dial
outcomes come from a real loopback listener that is up (accepts, healthy) or down (refuses)."""
import itertools
from .common import *

# per write of the cached connection: 1 success, 0 failure, p failure after a partial write (the peer took the first
# third), c failure "use of closed network connection" (closed on this side), t / r / e / d failure with ETIMEDOUT /
# ECONNRESET / EPIPE / deadline exceeded
SCRIPTS = ["none", "s:111", "s:011", "s:001", "s:000", "s:101", "s:110", "s:100", "s:010",
           "s:p11", "s:pp1", "s:c11", "s:cc1", "s:1p1", "s:1c1", "s:pc1",
           # the error a failed write comes back with is not always the same: ETIMEDOUT of a peer that vanished (t), ECONNRESET
           # (r), EPIPE (e), an expired write deadline (d) - the same send falls back to a fresh connection in every case
           "s:t11", "s:tt1", "s:1t1", "s:r11", "s:e11", "s:d11", "s:td1"]

def generate(seed, tier):
    g = Gen(seed)
    lines = []
    n = 0
    lis_seqs = []
    for k in (1, 2, 3):
        lis_seqs += list(itertools.product(["up", "down"] if k == 3 else ["up", "down", "reset"], repeat=k))
    targets = []
    for cached in SCRIPTS:
        targets.append("client 1 %s" % cached)
        targets.append("client 0 %s" % cached)
        targets.append("backend %s" % cached)
    for p in SCRIPTS:
        for q in SCRIPTS:
            targets.append("failover %s %s" % (p, "fresh" if q == "none" else q))
        targets.append("failover %s none" % p)
    if tier == "quick":
        # every target x every listener sequence of length <= 2, plus a seeded third of the length-3 ones
        pass
    for t in targets:
        for ls in lis_seqs:
            if tier == "quick" and len(ls) == 3 and not g.chance(0.34):
                continue
            lines.append("send new " + t)
            seen_reset = False
            for i, st in enumerate(ls):
                lines.append("send listener " + st)
                seen_reset = seen_reset or st == "reset"
                # "accept then reset": whether the reset is seen by connect() or by the first write() depends on
                # timing, so from then on only the oracle applies (exactly-once on success, nothing on error)
                lines.append("send msg %d%s" % (i + 1, " # weak" if seen_reset else ""))
            lines.append("send end")
            n += 1
    g.count("fault_patterns", n)
    # connections closed on the proxy's side between messages (its reader goroutine hangs up), for every target that
    # can dial, with and without a configured local port for the backend
    import os, time
    lport = 22000 + ((os.getpid() * 17 + int(time.time())) % 1990)     # below the ephemeral range, away from the listener's range
    for t in ["client 1 none", "backend none", "backend none %d" % lport, "failover none fresh", "backend s:011 %d" % (lport + 1)]:
        for k in (2, 3, 4):
            lines.append("send new " + t)
            lines.append("send listener up")
            for i in range(k):
                lines.append("send msg %d" % (i + 1))
                lines.append("send closelocal")
            lines.append("send end")
            g.count("closed_on_this_side_patterns")
    # an idle period between two messages on a working dialed connection (longer than any send time-out one might
    # think of): the second message goes straight over the same connection
    for t in (["client 1 none"] if tier == "quick" else ["client 1 none", "failover none fresh", "backend none"]):
        lines += ["send new " + t, "send listener up", "send msg 1", "send sleep 5600", "send msg 2", "send end"]
        g.count("idle_period_patterns")
    return lines, g.stats
