/- Drv.Pipe — model side of stream `pipe` (mirrors harness/pipe.go). -/
import Proxy.Model
import Generated.Tables
import Drv.Util
import Drv.Codec
import Drv.Side
open GoStd Sip Proxy

namespace Driver

structure PipeProxy where
  mustrr : Bool
  lst : Listener
  rcvd : Bool
  hasBackends : Bool
  st : St := {}

structure PipeWorld where
  name : Bytes := []
  keep : Bool := false
  hosts : List (Bytes × Bytes) := []
  routes : Side.SR.Table := []
  learned : List (Bytes × Listener) := []
  proxies : Array PipeProxy := #[]
  failing : List Bytes := []          -- environment: backends whose Send fails at the moment (`pipe bfail`)
  timeout : Nat := 1200               -- dialog timeout of the service, seconds
  now : Nat := 0                      -- virtual clock of the case, seconds (`pipe pinwait`)
  pinExp : List (Nat × Bytes × Nat) := []   -- (proxy, key, instant at which the binding stops being honoured): Side.Pins.lifetime

def kvArgs (a : List String) : List (String × String) :=
  a.filterMap fun t =>
    match t.splitOn "=" with
    | k :: v :: rest => some (k, String.intercalate "=" (v :: rest))
    | _ => none

def kvGet (m : List (String × String)) (k : String) : String := ((m.find? (·.1 == k)).map (·.2)).getD ""

/-- "a:b,c:d" of hex items -/
def itemsOf (s : String) : List (List Bytes) :=
  if s == "" || s == "-" then [] else (s.splitOn ",").map fun it => (it.splitOn ":").map unhex

def parseListenerTok (s : String) : Listener × Bool :=
  match itemsOf s with
  | (p :: a :: port :: rest) :: _ =>
    ({ proto := p, addr := a, port := (atoi port).getD 0 }, rest.head? == some (str "1"))
  | _ => ({ proto := [], addr := [], port := 0 }, false)

def splitNames (name : Bytes) : List Bytes := (split 44 name).map trimSpace

def mkCfg (w : PipeWorld) (p : PipeProxy) : Cfg :=
  { cm := cmap, finalClasses := Generated.finalClasses, supported := Generated.supportedProtocols,
    names := splitNames w.name, keepNextHopRoute := w.keep, mustRecordRoute := p.mustrr,
    hosts := w.hosts, routes := w.routes,
    transports0 := if p.hasBackends then some p.lst else none }

def sortStrings (l : List String) : List String := (l.toArray.qsort (fun a b => a < b)).toList

def dedup (l : List String) : List String :=
  l.foldr (fun x acc => if acc.head? == some x then acc else x :: acc) []

def bracket (l : List String) : String := "[" ++ String.intercalate "," l ++ "]"

def primKind : Option Prim → String
  | some (.conn c) => s!"c{c}"
  | some (.udp _ _) => "udp"
  | none => "-"

def transList (tr : List (Bytes × TransEntry)) : List (String × String) :=
  tr.map fun e => (toHexField e.1, primKind e.2.primary)

def outStr : Out → String
  | .backend a d => s!"B {toHexField a} {toHexField d}"
  | .udp ip port d => s!"U {toHexField (ip ++ [58] ++ itoa port)} {toHexField d}"
  | .conn c d => s!"C {c} {toHexField d}"
  | .tcp ip port d => s!"T {toHexField (ip ++ [58] ++ itoa port)} {toHexField d}"

def branchToken : Bytes := str "z9hG4bK<BR>"

def hasSub (p : Bytes) : Bytes → Bool
  | [] => p.isEmpty
  | b :: bs => p.isPrefixOf (b :: bs) || hasSub p bs

def execPipe (w : PipeWorld) (op : String) (a : List String) : PipeWorld × String :=
  let m := kvArgs a
  match op with
  | "cfg" =>
    let routes := (itemsOf (kvGet m "routes")).foldl (fun t r =>
      match r with
      | [p, d, n] => Side.SR.addRouteItem t p d n
      | _ => t) []
    let hosts := (itemsOf (kvGet m "hosts")).foldl (fun (h : List (Bytes × Bytes)) r =>
      match r with
      | [n, ip] => assocSet h n ip
      | _ => h) []
    ({ name := unhex (kvGet m "name"), keep := kvGet m "keep" == "1", hosts := hosts, routes := routes,
       timeout := if kvGet m "timeout" == "" then 1200 else parseNat (kvGet m "timeout") }, "ok")
  | "proxy" =>
    let (lst, rcvd) := parseListenerTok (kvGet m "lst")
    let bk := kvGet m "backends"
    let addrs := if bk == "none" then [] else (itemsOf bk).filterMap (·.head?)
    let st : St := addrs.foldl backendAdded {}
    ({ w with proxies := w.proxies.push { mustrr := kvGet m "mustrr" == "1", lst := lst, rcvd := rcvd, hasBackends := bk != "none", st := st } }, "ok")
  | "badd" | "brem" =>
    let i := parseNat (kvGet m "p")
    match w.proxies[i]?, a.getLast? with
    | some p, some x =>
      let st' := if op == "badd" then backendAdded p.st (unhex x) else backendRemoved p.st (unhex x)
      ({ w with proxies := w.proxies.set! i { p with st := st' } }, "ok")
    | _, _ => (w, "bad-op")
  | "end" => (w, "ok")
  | "bfail" =>
    match a.reverse with
    | addr :: on :: _ =>
      let x := unhex addr
      ({ w with failing := if on == "1" then x :: w.failing else w.failing.filter (· != x) }, "ok")
    | _ => (w, "bad-op")
  | "pinwait" =>                   -- time passes for the bindings of the dialog / transaction table (stored instants move into the past)
    ({ w with now := w.now + parseNat (a.getLastD "0") }, "ok")
  | "tick" => (w, "ok")            -- time passes for the sweep of the transport table: entries live an hour, nothing expires
  | "branches" => (w, "skip")
  | "rawd" => (w, "skip")          -- hostile-input stream: oracles only (no panic, bounded allocation)
  | "raw" =>
    let i := parseNat (kvGet m "p")
    match w.proxies[i]? with
    | none => (w, "bad-op")
    | some p =>
      match parseMessage cmap (unhex (kvGet m "msg")) with
      | .error => (w, "parse-error")
      | .ok msg _ =>
        let (frm, rcvd) := parseListenerTok (kvGet m "from")
        let tcp := kvGet m "tcp"
        let ev : RawEv := { peerAddr := unhex (kvGet m "peer"), peerPort := parseInt (kvGet m "port"), frm := frm,
                            receivedSupport := rcvd, tcpConn := if tcp == "-" then none else some (parseNat tcp),
                            msg := msg, rxMatch := kvGet m "rx" == "1", branch := branchToken }
        -- bindings whose lifetime (Side.Pins.lifetime: max(timeout, Expires), from the moment they were stored) has elapsed are
        -- not honoured any more; the step itself knows no time, so they are dropped before it runs. The bindings that
        -- survive are marked (their `expires` field, which the step only stores, carries their index) so that the ones
        -- the step stores or stores AGAIN can be told apart afterwards: those start a new lifetime now.
        let alive (e : PinEntry) : Bool :=
          match w.pinExp.find? (fun x => x.1 == i && x.2.1 == e.key) with
          | some x => x.2.2 > w.now
          | none => true
        let saved := p.st.pins.filter alive
        let mark : Int := -1000000000000000
        let p : PipeProxy := { p with st := { p.st with pins := saved.mapIdx fun k e => { e with expires := mark - (k : Int) } } }
        let cfg := mkCfg w p
        let st0 := { p.st with learned := w.learned }
        let (st1, outs) := step cfg st0 ev
        -- environment faults: a send to a failing backend produces nothing, and (sendToBackend binds the transaction
        -- only after a successful send) leaves no new binding to it
        let dead (a : Bytes) : Bool := w.failing.contains a
        let outs := outs.filter fun o => match o with
          | .backend a _ => !dead a
          | _ => true
        let newDead (e : PinEntry) : Bool :=
          !p.st.pins.contains e && (match e.backend with
            | .member a => dead a
            | _ => false)
        let bad := st1.pins.filter newDead
        -- (a binding that the failed send would have replaced is still there)
        let st1 : St := { st1 with pins := st1.pins.filter (fun e => !newDead e) ++
                                            p.st.pins.filter (fun e => bad.any (fun b => b.key == e.key)) }
        let before := transList p.st.trans
        let after := transList st1.trans
        let added := after.filter (fun e => !before.contains e)
        let removed := before.filter (fun e => !(after.any (fun x => x.1 == e.1)))
        let obs := sortStrings (outs.map outStr)
        let res := s!"n={obs.length}" ++ (if obs.isEmpty then "" else " " ++ String.intercalate " " obs)
        let res := res ++ " keys+=" ++ bracket (sortStrings (added.map fun e => e.1 ++ "/" ++ e.2))
                       ++ " keys-=" ++ bracket (sortStrings (removed.map (·.1)))
        let fresh := st1.pins.filter (fun e => e.expires > mark)
        let lifetime (e : PinEntry) : Nat := if e.expires > 0 && e.expires.toNat > w.timeout then e.expires.toNat else w.timeout
        -- (transaction keys of proxy-generated branches are one key here and many in the implementation, whose table is
        -- printed with such keys collapsed: the collapsed key is alive as long as any of them is)
        let prevExp (k : Bytes) : Nat :=
          if hasSub (str "z9hG4bK<BR>") k then
            match w.pinExp.find? (fun x => x.1 == i && x.2.1 == k) with
            | some x => x.2.2
            | none => 0
          else 0
        let pinExp := (w.pinExp.filter fun x => !(x.1 == i && fresh.any (fun e => e.key == x.2.1)))
                        ++ fresh.map fun e => (i, e.key, max (prevExp e.key) (w.now + lifetime e))
        let st1 : St := { st1 with pins := st1.pins.map fun e =>
          if e.expires > mark then e else (saved[(mark - e.expires).toNat]?).getD e }
        ({ w with learned := st1.learned, pinExp := pinExp, proxies := w.proxies.set! i { p with st := st1 } }, res)
  | "state" =>
    let i := parseNat (kvGet m "p")
    match w.proxies[i]? with
    | none => (w, "bad-op")
    | some p =>
      let learned := sortStrings (w.learned.map fun e =>
        toHexField e.1 ++ "=" ++ toHexField (e.2.proto ++ [58] ++ e.2.addr ++ [58] ++ itoa e.2.port))
      let alive (e : PinEntry) : Bool :=
        match w.pinExp.find? (fun x => x.1 == i && x.2.1 == e.key) with
        | some x => x.2.2 > w.now
        | none => true
      let pins := dedup (sortStrings ((p.st.pins.filter alive).map fun e =>
        toHexField e.key ++ "=" ++
          (if hasSub (str "z9hG4bK<BR>") e.key then "*"
           else match e.backend with | .rotation => "RR" | .member ad => toHexField ad)))
      let rr := if p.hasBackends then s!"{p.st.rr.index}/{hexJoin p.st.rr.backends}" else "none"
      let tl := sortStrings ((transList p.st.trans).map fun e => e.1 ++ "/" ++ e.2)
      (w, s!"learned={bracket learned} backends={hexJoin (sortBytes p.st.backends)} pins={bracket pins} rr={rr} trans={bracket tl}")
  | _ => (w, "bad-op")

end Driver
