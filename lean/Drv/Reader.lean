/- Drv.Reader — model side of streams `frame` and `udpbuf`. -/
import Reader.Frame
import Reader.Bufio
import Drv.Codec
open GoStd Sip

namespace Driver

/-- the connection double of the harness: one Read per scripted cut, then the rest in one piece -/
def segments : Bytes → List Nat → List Bytes
  | [], _ => []
  | d, [] => [d]
  | d, c :: cs => d.take c :: segments (d.drop c) cs

def parseCuts (f : String) : List Nat :=
  if f == "-" then [] else ((f.splitOn ",").map parseNat).filter (· > 0)

/-- readLine after readLine on the operational reader until it fails -/
def linesLoop (N : Nat) : Nat → Reader.Bufio.BR → List Bytes
  | 0, _ => []
  | fuel + 1, b =>
    match Reader.Bufio.readLine N b with
    | none => []
    | some (l, b') => l :: linesLoop N fuel b'

/-- ParseMessage after ParseMessage on the operational reader until it fails -/
def parseLoop (N : Nat) : Nat → Reader.Bufio.BR → List Message
  | 0, _ => []
  | fuel + 1, b =>
    match Reader.Bufio.parseMessage N cmap b with
    | none => []
    | some (m, b') => m :: parseLoop N fuel b'

def execReader (stream op : String) (a : List String) : String :=
  match stream, op, a with
  | "frame", "blines", [n, s, cuts] =>
    let d := unhex s
    let N := max (parseNat n) 16      -- bufio.NewReaderSize raises the size to its minimum of 16
    let ls := linesLoop N (d.length + 2) ⟨[], segments d (parseCuts cuts)⟩
    (String.intercalate " " (s!"n={ls.length}" :: ls.map toHexField)).trimAscii.toString
  | "frame", "bparse", [n, s, cuts] =>
    let d := unhex s
    let N := max (parseNat n) 16
    let ms := parseLoop N (d.length + 2) ⟨[], segments d (parseCuts cuts)⟩
    (String.intercalate " " (s!"n={ms.length}" :: ms.map fun m => toHexField (m.bytes cmap))).trimAscii.toString
  | "frame", "run", [s, _] =>
    let ms := Reader.connLoop cmap (unhex s)
    (String.intercalate " " (s!"n={ms.length}" :: ms.map fun m => toHexField (m.bytes cmap))).trimAscii.toString ++ " closed=1"
  | "udpbuf", "run", [n, b] =>
    match Reader.udpParse cmap (unhex b) (parseNat n) with
    | some m => s!"ok {toHexField (m.bytes cmap)} pool+2"
    | none => "rejected pool+2"
  | "udpwire", "new", _ => "ok"
  | "udpwire", "burst", n :: _ => s!"ok n={n} each-once"
  | "udpwire", "flood", n :: _ => s!"ok n={n} intact-at-most-once"
  | "udpwire", "send", [b] =>
    let d := unhex b
    match Reader.udpParse cmap d d.length with
    | some m => s!"ok {toHexField (m.bytes cmap)}"
    | none => "rejected"
  | _, _, _ => "bad-op"

end Driver
