/- Drv.Reader — model side of streams `frame` and `udpbuf`. -/
import Reader.Frame
import Drv.Codec
open GoStd Sip

namespace Driver

def execReader (stream op : String) (a : List String) : String :=
  match stream, op, a with
  | "frame", "run", [s, _] =>
    let ms := Reader.connLoop cmap (unhex s)
    (String.intercalate " " (s!"n={ms.length}" :: ms.map fun m => toHexField (m.bytes cmap))).trimAscii.toString ++ " closed=1"
  | "udpbuf", "run", [n, b] =>
    match Reader.udpParse cmap (unhex b) (parseNat n) with
    | some m => s!"ok {toHexField (m.bytes cmap)} pool+2"
    | none => "rejected pool+2"
  | "udpwire", "new", _ => "ok"
  | "udpwire", "burst", n :: _ => s!"ok n={n} each-once"
  | "udpwire", "send", [b] =>
    let d := unhex b
    match Reader.udpParse cmap d d.length with
    | some m => s!"ok {toHexField (m.bytes cmap)}"
    | none => "rejected"
  | _, _, _ => "bad-op"

end Driver
