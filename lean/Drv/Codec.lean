/- Driver.Codec — model side of streams `std`, `codec`, `msg`. Output format mirrors harness/codec.go. -/
import Sip.Message
import Generated.Tables
import Drv.Util
import Side.Config
open GoStd Sip

namespace Driver

def cmap : List (Bytes × Bytes) := buildCompactMap Generated.compactTable

def kvList (kvs : List KeyValue) : String :=
  String.intercalate " " (toString kvs.length :: kvs.flatMap fun kv => [toHexField kv.key, toHexField kv.value])

def addrSpecFields : AddrSpec → String
  | .sip u => s!"sip {toHexField u.scheme} {toHexField u.user} {toHexField u.password} {toHexField u.host} {u.port} {u.getPort} {toHexField u.getTransport} {kvList u.params} {kvList u.headers}"
  | .abs _ => "abs"

def nameAddrFields (na : NameAddr) : String := s!"{toHexField na.display} {toHexField na.addr.encode}"

def viaParamFields (p : ViaParam) : String :=
  let rport := match getParam p.params (str "rport") with
    | some v => atoi v
    | none => none
  s!"{toHexField p.protoName} {toHexField p.protoVersion} {toHexField p.transport} {toHexField p.host} {p.port} {p.getPort} {toHexField p.getSentBy} {optHex (getParam p.params (str "branch"))} {optHex (getParam p.params (str "received"))} {optInt rport} {kvList p.params}"

def routeLike (rs : List RouteParam) : String :=
  String.intercalate " " (["ok", toHexField (encodeRoute rs), toString rs.length] ++
    rs.map fun r => s!"{nameAddrFields r.nameAddr} {kvList r.params}")

def fromToFields (f : FromTo) : String :=
  let (form, disp) := match f.nameAddr with
    | some na => ("na", toHexField na.display)
    | none => ("as", "~")
  s!"ok {toHexField f.encode} {optHex f.getTag} {optHex (f.getAddrSpec.map AddrSpec.encode)} {form} {disp} {kvList f.params}"

def execStd (op : String) (a : List String) : String :=
  match op, a with
  | "split", [c, s] => match unhex c with
      | [b] => hexList (split b (unhex s))
      | _ => "bad-op"
  | "trim", [s] => toHexField (trimSpace (unhex s))
  | "fields", [s] => hexList (fields (unhex s))
  | "atoi", [s] => match atoi (unhex s) with
      | some i => s!"ok {i}"
      | none => "err"
  | "itoa", [i] => toHexField (itoa (parseInt i))
  | "lower", [s] => toHexField (toLower (unhex s))
  | "fold", [x, y] => boolStr (equalFold (unhex x) (unhex y))
  | "jhp", [h, p] => toHexField (joinHostPort (unhex h) (parseInt p))
  | "cut", [c, s] => match unhex c with
      | [b] => match cut b (unhex s) with
        | some (l, r) => s!"{toHexField l} {toHexField r}"
        | none => "none"
      | _ => "bad-op"
  | "cutlast", [c, s] => match unhex c with
      | [b] => match cutLast b (unhex s) with
        | some (l, r) => s!"{toHexField l} {toHexField r}"
        | none => "none"
      | _ => "bad-op"
  | "prefix", [p, s] => boolStr (hasPrefix (unhex p) (unhex s))
  | "less", [x, y] => boolStr (decide (unhex x < unhex y))
  | _, _ => "bad-op"

def execCodec (op : String) (a : List String) : String :=
  match op, a with
  | "conc", _ => "ok"      -- the decoders run from several goroutines at once: same reports as alone (no model of the scheduler)
  | "uri", [s] => match parseAddrSpec (unhex s) with
      | none => "err"
      | some as => s!"ok {toHexField as.encode} {toHexField as.encode} {addrSpecFields as}"
  | "via", [s] => match parseVia (unhex s) with
      | none => "err"
      | some v => String.intercalate " " (["ok", toHexField (encodeVia v), toString v.length] ++ v.map viaParamFields)
  | "viastamp", [s, ip, port] => match parseVia (unhex s) with
      | none => "err"
      | some [] => "err"
      | some (vp :: rest) =>
        let ps1 := setParam vp.params (str "received") (unhex ip)
        let ps2 := if hasParam ps1 (str "rport") then setParam ps1 (str "rport") port.toUTF8.toList else ps1
        let v := { vp with params := ps2 } :: rest
        String.intercalate " " (["ok", toHexField (encodeVia v), toString v.length] ++
          v.map fun p => s!"{optHex (getParam p.params (str "branch"))} {kvList p.params}")
  | "route", [s] => match parseRoute (unhex s) with
      | none => "err"
      | some r => routeLike r
  | "rr", [s] => match parseRoute (unhex s) with
      | none => "err"
      | some r => routeLike r
  | "from", [s] => match parseFromTo (unhex s) with
      | none => "err"
      | some f => fromToFields f
  | "to", [s] => match parseFromTo (unhex s) with
      | none => "err"
      | some f => fromToFields f
  | "cseq", [s] => match parseCSeq (unhex s) with
      | none => "err"
      | some c => s!"ok {toHexField c.encode} {c.seq} {toHexField c.method}"
  | "nameaddr", [s] => match parseNameAddr (unhex s) with
      | none => "err"
      | some na => s!"ok {toHexField na.encode} {nameAddrFields na}"
  | _, _ => "bad-op"

/-- stream `cfg`: configuration handling (main.go `toKeepNextHopRoute`, `createPreConfigHostResolver`) -/
def execCfg (op : String) (a : List String) : String :=
  match op, a with
  | "keep", [w] => if Side.Config.toKeepNextHopRoute (unhex w) then "true" else "false"
  | "deftimeout", [cfgv, env] =>
    -- the dialog timeout a service gets: its own setting when positive, else DEFAULT_DIALOG_TIMEOUT (when set and numeric), else 1200
    toString (Side.Config.dialogTimeout (parseInt cfgv) (if env == "~" then none else some (unhex env)))
  | "hosts", _ :: name :: pairs =>
    -- the table is a map filled in order: the LAST entry for a name wins (the service's section comes after the global one)
    let rec toPairs : List String → List (Bytes × Bytes)
      | n :: ip :: rest => (unhex n, unhex ip) :: toPairs rest
      | _ => []
    match Side.Config.lookupHost (toPairs pairs) (unhex name) with
    | some ip => s!"ip {toHexField ip}"
    | none => "none"
  | _, _ => "bad-op"

def execMsg (op : String) (a : List String) : String :=
  match op, a with
  | "parse", [s] => match parseMessage cmap (unhex s) with
      | .error => "err"
      | .ok m _ => s!"ok {toHexField (m.bytes cmap)}"
  | "dialog", [s] => match parseMessage cmap (unhex s) with
      | .error => "err"
      | .ok m _ =>
        match getDialog cmap m with
        | (none, m') => s!"none {toHexField (m'.bytes cmap)}"
        | (some d, m') => s!"id {toHexField d} {toHexField (m'.bytes cmap)}"
  | "trans", [s] => match parseMessage cmap (unhex s) with
      | .error => "err"
      | .ok m _ =>
        match getClientTransaction cmap m with
        | (none, m') => s!"none {toHexField (m'.bytes cmap)}"
        | (some d, m') => s!"id {toHexField d} {toHexField (m'.bytes cmap)}"
  | "same", [x, y] => boolStr (isSameHeader cmap (unhex x) (unhex y))
  | "hostile", [s] => match parseMessage cmap (unhex s) with
      | .error => "rejected alloc=ok"
      | .ok _ _ => "accepted alloc=ok"
  | _, _ => "bad-op"

end Driver
