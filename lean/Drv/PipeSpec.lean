/- Drv.PipeSpec — specification oracles of stream `pipe`, evaluated on the IMPLEMENTATION's output
using only Spec.Wire (independent reader) and the expectation the generator derived from the
abstract case. -/
import Spec.Wire
import Drv.Util
open GoStd

namespace Driver

structure ObsOut where
  kind : String
  dest : String
  data : Bytes

/-- parse `n=<k> K dest hex … keys+=[…] keys-=[…]` -/
def parseOuts (impl : List String) : Option (List ObsOut) :=
  match impl with
  | n :: rest =>
    if !n.startsWith "n=" then none
    else
      let k := (n.drop 2).toString.toNat?.getD 0
      let toks := rest.takeWhile (fun t => !t.startsWith "keys+=")
      if toks.length != 3 * k then none
      else
        let rec go : Nat → List String → List ObsOut
          | 0, _ => []
          | f + 1, a :: b :: c :: r => { kind := a, dest := b, data := unhex c } :: go f r
          | _, _ => []
        some (go k toks)
  | [] => none

structure PipeSpecState where
  bases : List (String × List (String × String × Option (Bytes × List Bytes × List Bytes × List Bytes × List (Bytes × Bytes) × Bytes))) := []

def opField (toks : List String) (name : String) : String :=
  ((toks.find? (fun t => t.startsWith (name ++ "="))).map (fun t => (t.drop (name.length + 1)).toString)).getD ""

/-- one expectation segment against the parsed outputs -/
def specPipeSeg (st : PipeSpecState) (toks : List String) (seg : List String) (impl : List String) :
    PipeSpecState × List String :=
  match seg with
  | sp :: kind :: fields =>
    let id := (sp.splitOn "=").getD 1 "?"
    if kind == "robust" then
      -- C08: no panic, no stall, allocation in proportion to the bytes received
      (st, (if impl.head? == some "panic" then [s!"{id} panic-{impl.getD 1 "?"}"] else []) ++
           (if impl.head? == some "stalled" then [s!"{id} stalled"] else []) ++
           (if impl.any (fun t => t.startsWith "alloc=big") then [s!"{id} allocation-out-of-proportion-{impl.getLastD "?"}"] else []))
    else if kind == "eq" then
      -- the implementation's answer is a verdict of its own (a stage that checks what arrives while it arrives)
      (st, if impl == fields then [] else [s!"{id} expected-output-differs-{String.intercalate "-" (impl.take 3)}"])
    else
    match parseOuts impl with
    | none => (st, [s!"{id} unreadable-output-{impl.headD "empty"}"])
    | some outs =>
      let single : Option ObsOut := match outs with | [o] => some o | _ => none
      let stackCheck (isClass : Bytes → Bool) (what : String) : List String :=
        match single with
        | none => [s!"{id} {what}-expected-one-relayed-message-got-{outs.length}"]
        | some o =>
          match Spec.readMsg o.data false with
          | none => [s!"{id} relayed-message-unreadable"]
          | some w => if Spec.stack isClass w == fields.map unhex then [] else [s!"{id} {what}-stack-differs"]
      match kind with
      | "relay" =>
        (st, outs.flatMap fun o => (Spec.relayViolations (unhex (opField toks "msg")) o.data).map (fun v => s!"{id} {v}"))
      | "dest" =>
        match fields with
        | ["none"] => (st, if outs.isEmpty then [] else [s!"{id} sent-although-it-must-not-be"])
        | ["B", "any", set] =>
          (st, match single with
            | some o => if o.kind == "B" && (set.splitOn ",").contains o.dest then [] else [s!"{id} wrong-destination"]
            | none => [s!"{id} expected-exactly-one-destination-got-{outs.length}"])
        | [k, d] =>
          (st, match single with
            | some o => if o.kind == k && o.dest == d then [] else [s!"{id} wrong-destination"]
            | none => [s!"{id} expected-exactly-one-destination-got-{outs.length}"])
        | _ => (st, [s!"{id} bad-expectation"])
      | "atmostone" => (st, if outs.length ≤ 1 then [] else [s!"{id} sent-to-{outs.length}-destinations"])
      | "vias" => (st, stackCheck Spec.isViaName "via")
      | "routes" => (st, stackCheck Spec.isRouteName "route")
      | "rrs" => (st, stackCheck Spec.isRRName "record-route")
      | "base" =>
        let tag := fields.headD "?"
        let obs := outs.map fun o => (o.kind, o.dest, Spec.obsNormal o.data)
        ({ st with bases := (tag, obs) :: st.bases.take 6000 }, [])
      | "twin" =>
        let tag := fields.headD "?"
        match st.bases.find? (fun b => b.1 == tag) with
        | none => (st, [])      -- the base case was not run (its observation sockets could not be bound): nothing to compare with
        | some (_, base) =>
          let obs := outs.map fun o => (o.kind, o.dest, Spec.obsNormal o.data)
          (st, if obs == base then [] else [s!"{id} respelled-twin-behaves-differently"])
      | _ => (st, [s!"{id} unknown-oracle-{kind}"])
  | _ => (st, [])

end Driver
