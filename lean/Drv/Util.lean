/- Driver.Util — token helpers for the line protocol. -/
import GoStd.Bytes
open GoStd

namespace Driver

def hexList (parts : List Bytes) : String :=
  String.intercalate " " (toString parts.length :: parts.map toHexField)

def optHex : Option Bytes → String
  | some b => toHexField b
  | none => "~"

def optInt : Option Int → String
  | some i => toString i
  | none => "~"

/-- hex field to bytes; malformed fields become the empty string (ops are machine generated). -/
def unhex (s : String) : Bytes := if s == "~" then [] else (fromHex s).getD []

def boolStr (b : Bool) : String := if b then "1" else "0"

def words (s : String) : List String := (s.splitOn " ").filter (· ≠ "")

def parseInt (s : String) : Int := s.toInt?.getD 0
def parseNat (s : String) : Nat := s.toNat?.getD 0

end Driver
