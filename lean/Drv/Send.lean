/- Drv.Send — model side of stream `send` (C20), mirrors harness/send.go. -/
import Side.Failover
import Drv.Util
open GoStd Side.FO

namespace Driver

inductive SendTarget where
  | client (t : TcpClient)
  | backend (c : Option ConnId)
  | failover (f : FailOver)
  | none

structure SendState where
  target : SendTarget := .none
  writes : List (ConnId × List Bool) := []
  listenerUp : Bool := false
  listenerReset : Bool := false     -- the destination accepts and resets: every write on a dialed connection fails
  dialed : Nat := 0
  -- observer (specification side)
  working : Option String := none     -- where the last successful send was written

def parseScriptBits (s : String) : Option (List Bool) :=
  if s.startsWith "s:" then some ((s.drop 2).toString.toList.map (· == '1')) else none

def healthy : List Bool := List.replicate 16 true

def execSend (s : SendState) (op : String) (a : List String) : SendState × String :=
  match op, a with
  | "new", "client" :: reconn :: cached :: _ =>
    let sc := parseScriptBits cached
    ({ target := .client { reconnectable := reconn == "1", conn := sc.map (fun _ => 1) },
       writes := match sc with | some b => [(1, b)] | none => [] }, "ok")
  | "new", "backend" :: cached :: _ =>
    let sc := parseScriptBits cached
    ({ target := .backend (sc.map (fun _ => 1)), writes := match sc with | some b => [(1, b)] | none => [] }, "ok")
  | "new", "failover" :: p :: q :: _ =>
    let sp := parseScriptBits p
    let sq := parseScriptBits q
    let prim : Option TcpClient := if p == "none" then none else some { reconnectable := false, conn := sp.map (fun _ => 1) }
    let sec : Option TcpClient := if q == "none" then none else some { reconnectable := true, conn := sq.map (fun _ => 2) }
    ({ target := .failover { primary := prim, secondary := sec },
       writes := (match sp with | some b => [(1, b)] | none => []) ++ (match sq with | some b => [(2, b)] | none => []) }, "ok")
  | "listener", [x] => ({ s with listenerUp := x == "up" || x == "reset", listenerReset := x == "reset" }, "ok")
  | "end", _ => (s, "ok")
  | "sleep", _ => (s, "ok")         -- an idle period: nothing changes
  | "closelocal", _ =>
    -- every dialed connection is closed on this side: its next write fails
    ({ s with writes := s.writes.map (fun (c, b) => if c ≥ 100 && c < 100 + s.dialed then (c, []) else (c, b)) }, "ok")
  | "msg", [n] =>
    let m := parseNat n
    -- dial oracle for this send: the listener's state decides every dial of the send
    let dials : List Dial := if s.listenerUp then [.conn (100 + s.dialed), .conn (101 + s.dialed), .conn (102 + s.dialed)] else [.refuse, .refuse, .refuse]
    let script := if s.listenerReset then [] else healthy
    let ws := s.writes ++ (if s.listenerUp then [(100 + s.dialed, script), (101 + s.dialed, script), (102 + s.dialed, script)] else [])
    let w : World := { writes := ws, dials := dials }
    let (w', tgt', ok, log) : World × SendTarget × Bool × List LogEntry :=
      match s.target with
      | .client t => let (w', t', ok, log) := tcpClientSend w t m; (w', .client t', ok, log)
      | .backend c => let (w', c', ok, log) := tcpBackendSend w c m; (w', .backend c', ok, log)
      | .failover f => let (w', f', ok, log) := failOverSend w f m; (w', .failover f', ok, log)
      | .none => (w, .none, false, [])
    let used := if s.listenerUp then 3 - w'.dials.length else 0
    let script := (log.filter (fun e => e.conn < 100)).map (fun e => s!"c{e.conn}:{if e.ok then 1 else 0}")
    let dl := (log.filter (fun e => e.conn ≥ 100 && e.ok)).map (fun e => s!"d{e.conn - 100}:1")
    let s' := { s with target := tgt', writes := w'.writes, dialed := s.dialed + used }
    (s', String.intercalate " " ([if ok then "ok" else "err"] ++ script ++ dl ++ [s!"dials={s'.dialed}"]))
  | _, _ => (s, "bad-op")

/-- C20 oracle on the implementation's output of one `msg`:
success ⇒ the message was completely written exactly once; error ⇒ never; and the first write of a
send goes to the path that worked last time. -/
def specSend (s : SendState) (op : String) (impl : List String) : SendState × List String :=
  match op with
  | "new" => ({ s with working := none }, [])
  | "closelocal" => ({ s with working := none }, [])      -- the path that worked is gone: nothing to go straight to
  | "msg" =>
    match impl with
    | res :: rest =>
      let atts := rest.filter (fun t => !t.startsWith "dials=")
      let copies := (atts.filter (fun t => t.endsWith ":1")).length
      let multi := atts.any (fun t => t.startsWith "d" && !t.endsWith ":1")
      -- a path that can dial (a TCP backend, a reconnectable client, a fail-over with a secondary) and a destination
      -- that accepts: whatever the cached connections do, the send must succeed
      let canDial := match s.target with
        | .backend _ => true
        | .client t => t.reconnectable
        | .failover f => (f.secondary.map (·.reconnectable)).getD false
        | .none => false
      let errs :=
        (if res == "err" && canDial && s.listenerUp && !s.listenerReset then ["C20 healthy-destination-and-a-path-that-can-dial-but-the-send-failed"] else []) ++
        (if res == "ok" && copies != 1 then ["C20 success-but-not-written-exactly-once"] else []) ++
        (if res == "err" && copies != 0 then ["C20 error-reported-but-message-was-written"] else []) ++
        (if multi then ["C20 duplicate-on-one-connection"] else []) ++
        (if res != "ok" && res != "err" then ["C20 send-crashed-" ++ res] else []) ++
        (match s.working, atts.head? with
         | some wk, some first =>
           if (first.takeWhile (· != ':')).toString == wk then [] else ["C20 later-message-did-not-go-straight-to-the-working-path"]
         | _, _ => [])
      let working := if res == "ok" then (atts.find? (fun t => t.endsWith ":1")).map (fun t => (t.takeWhile (· != ':')).toString) else none
      ({ s with working := working }, errs)
    | [] => (s, ["C20 no-output"])
  | _ => (s, [])

end Driver
