/- Drv.Side — model side of streams rr, route, res, pins, pool (mirrors harness/side.go). -/
import Side.RoundRobin
import Side.StaticRoute
import Side.Resolver
import Side.Pins
import Side.Pool
import Side.Failover
import Spec.Side
import Drv.Util
open GoStd

namespace Driver

structure SideState where
  routeCfg : List String := []      -- observer: arguments of the last `route cfg`
  rr : Side.RR.St := {}
  rrIndex : List Bytes := []
  rrObs : Spec.RRObs := {}
  table : Side.SR.Table := []
  resPort : Bytes := []
  resEntries : List (Bytes × Side.Res.Entry) := []
  resPorts : List (Bytes × Bytes) := []        -- res2: port per host name
  resFailSeen : List (Bytes × Nat) := []
  pins : Side.Pins.St := { timeout := 0, entries := [], nextClean := 0 }
  now : Nat := 0
  pool : Side.Pool.St := { maxCap := 0, pool := [], fresh := 0 }
  -- observers (specification side), fed only with op arguments and implementation outputs
  resObs : List (Bytes × (List Bytes × Nat)) := []
  resObsPort : Bytes := []
  resObsPorts : List (Bytes × Bytes) := []
  routeSeen : List (String × List String) := []  -- C18: host ↦ first answer for the current table
  pinObs : List (Bytes × Bytes × Nat) := []     -- key, backend, expiry (never purged lazily)
  pinObsT : Nat := 0
  pinObsNow : Nat := 0

def sortBytes (l : List Bytes) : List Bytes :=
  (l.toArray.qsort (fun a b => decide (a < b))).toList

def hexJoin (l : List Bytes) : String :=
  if l.isEmpty then "[]" else "[" ++ String.intercalate "," (l.map toHexField) ++ "]"

def rrStateStr (s : SideState) : String :=
  s!"idx={s.rr.index} list={hexJoin s.rr.backends} keys={hexJoin (sortBytes s.rr.keys)} index={hexJoin (sortBytes s.rrIndex)}"

def millis : Nat := 1000000

def execSide (s : SideState) (stream op : String) (a : List String) : SideState × String :=
  match stream, op, a with
  | "rr", "new", _ => ({ s with rr := {}, rrIndex := [], rrObs := {} }, "ok")
  | "rr", "add", [x] =>
    let ad := unhex x
    ({ s with rr := Side.RR.add s.rr ad, rrIndex := if s.rrIndex.contains ad then s.rrIndex else s.rrIndex ++ [ad] }, "ok")
  | "rr", "rem", [x] =>
    let ad := unhex x
    let (rr', notified) := Side.RR.remove s.rr ad
    ({ s with rr := rr', rrIndex := if notified then s.rrIndex.erase ad else s.rrIndex }, "ok")
  | "rr", "disp", _ =>
    let (rr', t) := Side.RR.dispatch s.rr
    ({ s with rr := rr' }, match t with | some ad => s!"to {toHexField ad}" | none => "drop")
  | "rr", "state", _ => (s, rrStateStr s)
  | "rr", "race", _ => (s, "ok")
  | "route", "new", _ => ({ s with table := [] }, "ok")
  | "route", "add", [p, d, n] =>
    match Side.SR.newItem (unhex p) (unhex d) (unhex n) with
    | none => (s, "err")
    | some it => ({ s with table := Side.SR.insert s.table it }, "ok")
  | "route", "cfg", _ :: triples =>
    -- the YAML text (first field) is for the implementation; the same entries follow flattened as protocol/dest/next-hop
    let rec build (t : Side.SR.Table) : List String → Option Side.SR.Table
      | p :: d :: n :: rest =>
        match Side.SR.newItem (unhex p) (unhex d) (unhex n) with
        | none => build t rest          -- AddRouteItem's error is ignored by createPreConfigRoute
        | some it => build (Side.SR.insert t it) rest
      | _ => some t
    match build [] triples with
    | some t => ({ s with table := t }, "ok")
    | none => (s, "err")
  | "route", "find", [h] =>
    (s, match Side.SR.findRoute s.table (unhex h) with
      | none => "none"
      | some it => s!"{toHexField it.protocol} {toHexField it.host} {it.port}")
  | "route", "conc", _ => (s, "ok")      -- lookups from several goroutines at once: same answers as alone (no model of the scheduler)
  | "route", "item", [p, d, n] =>
    (s, match Side.SR.newItem (unhex p) (unhex d) (unhex n) with
      | none => "err"
      | some it => s!"{toHexField it.protocol} {toHexField it.dest} {toHexField it.host} {it.port}")
  | "res", "new", [_, port] => ({ s with rr := {}, rrIndex := [], resPort := port.toUTF8.toList, resEntries := [] }, "ok")
  | "res", "host", [h] => ({ s with resEntries := s.resEntries ++ [(unhex h, {})] }, "ok")
  | "res", "close", _ => (s, "ok")
  | "res", "disp", _ => (s, "recv=" ++ hexJoin (sortBytes s.rr.backends))
  | "res2", "disp", _ => (s, "recv=" ++ hexJoin (sortBytes s.rr.backends))
  | "res2", "join", _ => (s, rrStateStr s)      -- another rotation subscribes: nothing changes for this one
  | "res2", "new", _ :: _ :: hps =>
    let pairs := hps.filterMap fun hp => cutLast 58 (unhex hp)
    ({ s with rr := {}, rrIndex := [], resPorts := pairs, resEntries := pairs.map fun p => (p.1, {}) }, "ok")
  | "res2", kind, h :: addrs =>
    let host := unhex h
    match s.resEntries.find? (fun e => e.1 == host), s.resPorts.find? (fun e => e.1 == host) with
    | some (_, e), some (_, port) =>
      let o := if kind == "ok" then Side.Res.Outcome.ok (addrs.map unhex) else Side.Res.Outcome.fail
      let w : Side.Res.World := { entry := e, rot := { rr := s.rr, index := s.rrIndex } }
      let w' := Side.Res.worldStep port w o
      let s' := { s with rr := w'.rot.rr, rrIndex := w'.rot.index,
                         resEntries := s.resEntries.map (fun p => if p.1 == host then (p.1, w'.entry) else p) }
      (s', rrStateStr s')
    | _, _ => (s, rrStateStr s)
  | "res", kind, h :: addrs =>
    let host := unhex h
    match s.resEntries.find? (fun e => e.1 == host) with
    | none => (s, rrStateStr s)
    | some (_, e) =>
      let o := if kind == "ok" then Side.Res.Outcome.ok (addrs.map unhex) else Side.Res.Outcome.fail
      let w : Side.Res.World := { entry := e, rot := { rr := s.rr, index := s.rrIndex } }
      let w' := Side.Res.worldStep s.resPort w o
      let s' := { s with rr := w'.rot.rr, rrIndex := w'.rot.index,
                         resEntries := s.resEntries.map (fun p => if p.1 == host then (p.1, w'.entry) else p) }
      (s', rrStateStr s')
  | "pins", "new", [ms] =>
    ({ s with pins := Side.Pins.init (parseNat ms * millis) 0, now := 0 }, "ok")
  | "pins", "newsec", [sec] =>
    ({ s with pins := Side.Pins.init (parseNat sec * Side.Pins.second) 0, now := 0 }, "ok")
  | "pins", "add", [k, b, e] =>
    let p := Side.Pins.add s.pins (unhex k) (unhex b) (parseInt e) s.now
    ({ s with pins := p }, s!"ok size={p.entries.length}")
  | "pins", "get", [k] =>
    let (p, r) := Side.Pins.get s.pins (unhex k) s.now
    ({ s with pins := p }, match r with
      | some b => s!"some {toHexField b} size={p.entries.length}"
      | none => s!"none size={p.entries.length}")
  | "pins", "rem", [k] =>
    let p := Side.Pins.remove s.pins (unhex k)
    ({ s with pins := p }, s!"ok size={p.entries.length}")
  | "pins", "wait", [ms] => ({ s with now := s.now + parseNat ms * millis }, s!"ok size={s.pins.entries.length}")
  | "pins", "keys", _ => (s, hexJoin (sortBytes (s.pins.entries.map (·.key))))
  | "pool", "new", [mc] => ({ s with pool := { maxCap := parseNat mc, pool := [], fresh := 0 } }, "ok")
  | "pool", "alloc", _ =>
    let (p, b) := Side.Pool.alloc s.pool
    ({ s with pool := p }, s!"buf {b} size={p.pool.length}")
  | "pool", "free", [b] =>
    let p := Side.Pool.free s.pool (parseNat b)
    ({ s with pool := p }, s!"ok size={p.pool.length}")
  | _, _, _ => (s, "bad-op")

/-- Oracles of the stateful side streams, fed with the IMPLEMENTATION's outputs. Returns the
updated observer state and the failures as `<property> <what>`. -/
def specSide (s : SideState) (stream op : String) (a impl : List String) : SideState × List String :=
  match stream, op, a with
  | "pool", "alloc", _ =>
    -- exclusivity (C10): a buffer that a client still holds is never handed out again
    (s, match impl with
        | "double-alloc" :: _ => ["C10 buffer-handed-out-while-still-held"]
        | _ => [])
  | "rr", "new", _ => ({ s with rrObs := {} }, [])
  | "rr", "add", [x] => ({ s with rrObs := s.rrObs.add (unhex x) }, [])
  | "rr", "rem", [x] => ({ s with rrObs := s.rrObs.remove (unhex x) }, [])
  | "rr", "disp", _ =>
    let t : Option (Option Bytes) := match impl with
      | ["drop"] => some none
      | ["to", x] => some (some (unhex x))
      | _ => none
    match t with
    | none => (s, ["C05 dispatch-outcome-" ++ String.intercalate "_" impl])
    | some t =>
      let (o, errs) := s.rrObs.dispatch t
      ({ s with rrObs := o }, errs.map ("C05 " ++ ·))
  | "route", "new", _ => ({ s with routeSeen := [], routeCfg := [] }, [])
  | "route", "add", _ => ({ s with routeSeen := [] }, [])
  | "route", "cfg", args =>
    -- the same configuration text again: what was answered before must be answered again (the table is rebuilt the
    -- way the program builds it at every start)
    if s.routeCfg == args then (s, []) else ({ s with routeSeen := [], routeCfg := args }, [])
  | "route", "find", [h] =>
    -- the answer is the same every time the same host is looked up (whatever was looked up in between)
    let (s, stab) : SideState × List String := match s.routeSeen.find? (fun e => e.1 == h) with
      | some (_, prev) => (s, if prev == impl then [] else ["C18 answer-changed-between-lookups-of-the-same-host"])
      | none => ({ s with routeSeen := (h, impl) :: s.routeSeen }, [])
    let (s2, errs) : SideState × List String := (fun (s : SideState) =>
    let r : Option (Option Side.SR.Item) := match impl with
      | ["none"] => some none
      | [p, host, port] =>
        -- identify the table item the implementation returned
        some ((s.table.find? (fun it => it.protocol == unhex p && it.host == unhex host && toString it.port == port)))
      | _ => none
    match r with
    | none => (s, ["C18 lookup-unstable-or-malformed"])
    | some r =>
      let isNone := impl == ["none"]
      if !isNone && r.isNone then (s, ["C18 result-not-in-table"])
      else
        -- compare by next hop (several patterns may share one next hop)
        let allowed := (s.table.filter (fun it => Spec.routeAllowed s.table (unhex h) (some it))).map
                         (fun it => (it.protocol, it.host, it.port))
        match r with
        | none => (s, if Spec.routeAllowed s.table (unhex h) none then [] else ["C18 no-route-but-one-applies"])
        | some it => (s, if allowed.contains (it.protocol, it.host, it.port) then [] else ["C18 precedence"])) s
    (s2, stab ++ errs)
  | "res", "new", [_, port] => ({ s with resObs := [], resObsPort := port.toUTF8.toList }, [])
  | "res", "host", [h] => ({ s with resObs := s.resObs ++ [(unhex h, ([], 0))] }, [])
  | "res", "close", _ => (s, [])
  | "res", "disp", _ =>
    let expected := sortBytes ((s.resObs.flatMap fun e => e.2.1.map fun ip => Side.Res.hostPort ip s.resObsPort).eraseDups)
    (s, if impl == ["recv=" ++ hexJoin expected] then [] else ["C19 dispatches-do-not-reach-exactly-the-resolved-addresses"])
  | "res2", "join", _ => (s, [])
  | "res2", "disp", _ =>
    let portOf (hn : Bytes) : Bytes := ((s.resObsPorts.find? (fun p => p.1 == hn)).map (·.2)).getD []
    let expected := sortBytes ((s.resObs.flatMap fun e => e.2.1.map fun ip => Side.Res.hostPort ip (portOf e.1)).eraseDups)
    (s, if impl == ["recv=" ++ hexJoin expected] then [] else ["C19 dispatches-do-not-reach-exactly-the-resolved-addresses"])
  | "res2", "new", _ :: _ :: hps =>
    let pairs := hps.filterMap fun hp => cutLast 58 (unhex hp)
    ({ s with resObs := pairs.map fun p => (p.1, ([], 0)), resObsPorts := pairs }, [])
  | "res2", kind, h :: addrs =>
    let host := unhex h
    let obs := s.resObs.map fun e =>
      if e.1 != host then e
      else if kind == "ok" then (e.1, (addrs.map unhex, 0))
      else
        let f := e.2.2 + 1
        if f > 3 && !e.2.1.isEmpty then (e.1, ([], 0)) else (e.1, (e.2.1, f))
    let s' := { s with resObs := obs }
    let portOf (hn : Bytes) : Bytes := ((s.resObsPorts.find? (fun p => p.1 == hn)).map (·.2)).getD []
    let expected := sortBytes ((obs.flatMap fun e => e.2.1.map fun ip => Side.Res.hostPort ip (portOf e.1)).eraseDups)
    let field (name : String) : Option String :=
      (impl.find? (fun t => t.startsWith (name ++ "="))).map (fun t => (t.drop (name.length + 1)).toString)
    let want := hexJoin expected
    (s', (if field "keys" == some want then [] else ["C19 rotation-members-differ-from-resolution"]) ++
         (if field "index" == some want then [] else ["C19 proxy-address-index-differs"]))
  | "res", kind, h :: addrs =>
    let host := unhex h
    let obs := s.resObs.map fun e =>
      if e.1 != host then e
      else if kind == "ok" then (e.1, (addrs.map unhex, 0))
      else
        let f := e.2.2 + 1
        if f > 3 && !e.2.1.isEmpty then (e.1, ([], 0)) else (e.1, (e.2.1, f))
    let s' := { s with resObs := obs }
    let expected := sortBytes ((obs.flatMap fun e => e.2.1.map fun ip => Side.Res.hostPort ip s.resObsPort).eraseDups)
    let field (name : String) : Option String :=
      (impl.find? (fun t => t.startsWith (name ++ "="))).map (fun t => (t.drop (name.length + 1)).toString)
    let want := hexJoin expected
    let errs :=
      (if field "keys" == some want then [] else ["C19 rotation-members-differ-from-resolution"]) ++
      (if field "index" == some want then [] else ["C19 proxy-address-index-differs"]) ++
      (match field "list" with
       | some l =>
         let items := ((l.drop 1).dropEnd 1).toString.splitOn ","
         let items := if l == "[]" then [] else items
         if sortBytes (items.map unhex) == expected then [] else ["C19 rotation-list-differs"]
       | none => ["C19 no-state"])
    (s', errs)
  | "pins", "new", [ms] => ({ s with pinObs := [], pinObsT := parseNat ms * millis, pinObsNow := 0 }, [])
  | "pins", "newsec", [sec] => ({ s with pinObs := [], pinObsT := parseNat sec * Side.Pins.second, pinObsNow := 0 }, [])
  | "pins", "wait", [ms] => ({ s with pinObsNow := s.pinObsNow + parseNat ms * millis }, [])
  | "pins", "rem", [k] => ({ s with pinObs := s.pinObs.filter (fun e => e.1 != unhex k) }, [])
  | "pins", "add", [k, b, e] =>
    let es := parseInt e
    let life := if es > 0 ∧ es.toNat * Side.Pins.second > s.pinObsT then es.toNat * Side.Pins.second else s.pinObsT
    let obs := s.pinObs.filter (fun x => x.1 != unhex k) ++ [(unhex k, unhex b, s.pinObsNow + life)]
    -- C15 purge bound: an entry whose expiry lies more than one timeout before this add must be gone
    let allowed := (obs.filter (fun x => !(x.2.2 + s.pinObsT < s.pinObsNow))).length
    let size : Option Nat := (impl.find? (fun t => t.startsWith "size=")).bind (fun t => (t.drop 5).toString.toNat?)
    ({ s with pinObs := obs }, match size with
      | some n => if n ≤ allowed then [] else ["C15 expired-pins-not-purged"]
      | none => ["C15 no-size"])
  | "pins", "get", [k] =>
    match s.pinObs.find? (fun x => x.1 == unhex k) with
    | none => (s, if impl.head? == some "none" then [] else ["C15 lookup-of-unknown-pin-succeeds"])
    | some (_, b, exp) =>
      if s.pinObsNow < exp then
        (s, if impl.take 2 == ["some", toHexField b] then [] else ["C15 pin-not-honoured-within-lifetime"])
      else
        (s, if impl.head? == some "none" then [] else ["C15 pin-honoured-after-lifetime"])
  | _, _, _ => (s, [])

end Driver
