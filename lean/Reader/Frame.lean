/-
Reader.Frame — the two framing loops of transport.go on top of ParseMessage:
the per-connection TCP loop (`TCPServerTransport.receiveMessage`) and the UDP parse step
(`UDPServerTransport.startParseMessage`).

bufio.Reader is modelled at its contract: it delivers the logical byte stream (the concatenation
of whatever segments the connection produced); how many bytes each underlying Read returned is not
observable by ParseMessage except through ReadLine's fragmentation of over-long lines, which
`readLine` re-joins. The one hazard of that contract — a fragment returned by ReadLine is only
valid until the next reader call — is represented by `joinFragments` below together with the
regenerated fact F8 (Generated.Reader.readLineCopiesFirstFragment).
-/
import Sip.Message
open GoStd Sip

namespace Reader

/-- `readLine` over the fragments ReadLine delivers for one over-long line. `scribble` is what the
FIRST fragment (a view into bufio's buffer) reads as after the next ReadLine call has been made;
the later fragments are appended to an owned slice as soon as they are returned. -/
def joinFragments (copyFirst : Bool) (scribble : Bytes → Bytes) : List Bytes → Bytes
  | [] => []
  | [f] => f
  | f :: rest => (if copyFirst then f else scribble f) ++ rest.flatten

/-- the TCP per-connection loop: message after message until ParseMessage fails (the connection is
then closed). Fuel = stream length + 1 (every successful parse consumes at least one byte). -/
def connLoopAux (cm : List (Bytes × Bytes)) : Nat → Bytes → List Message
  | 0, _ => []
  | fuel + 1, s =>
    match parseMessage cm s with
    | .error => []
    | .ok m rest => if rest.length < s.length then m :: connLoopAux cm fuel rest else [m]

def connLoop (cm : List (Bytes × Bytes)) (stream : Bytes) : List Message := connLoopAux cm (stream.length + 1) stream

/-- the TCP loop over a segmented stream: bufio re-assembles the segments -/
def connLoopSegments (cm : List (Bytes × Bytes)) (segments : List Bytes) : List Message := connLoop cm segments.flatten

/-- the UDP parse step: the reader is built over the first `n` bytes of the pooled buffer -/
def udpParse (cm : List (Bytes × Bytes)) (buf : Bytes) (n : Nat) : Option Message :=
  match parseMessage cm (buf.take n) with
  | .ok m _ => some m
  | .error => none

end Reader
