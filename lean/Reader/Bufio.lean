/-
Reader.Bufio — an OPERATIONAL model of `bufio.Reader` as message.go uses it, and of the three
functions of message.go that sit directly on it: `readLine` (the join loop over `ReadLine`
fragments), `skipWhiteSpace` (`ReadByte` / `UnreadByte`) and `ParseMessage` (header loop, then
`io.CopyN` of the body).

`Reader.Frame` and `Sip.parseMessage` work on the LOGICAL byte stream and take bufio's contract
for granted ("the reader delivers the concatenation of the segments; an over-long line comes in
fragments that `readLine` re-joins"). Here the reader is modelled as the state machine it is:

* a buffer of capacity `N` (4096 for a TCP connection: `bufio.NewReader(conn)`; `max n 16` for a
  UDP datagram of `n` bytes: `bufio.NewReaderSize(.., n)`), holding the unread bytes `buf[r:w]`;
* an underlying connection that delivers what it has segment by segment - one `Read` returns (a
  prefix of) the next segment, never more than the free space it is offered; `[]` is end of stream;
* `fill` (one `Read` into the free space), `ReadSlice('\n')` (scan, fill, `ErrBufferFull` when `N`
  bytes hold no LF), `ReadLine` (strip LF / CR LF; a CR that ends a full buffer is PUT BACK so that
  a CR LF pair straddling two fragments is still recognised), `ReadByte`, `UnreadByte`, `Read`.

`Lemmas/Bufio.lean` proves that these agree with the logical-stream model for EVERY segmentation
and EVERY buffer size `N ≥ 2`, which turns the contract into a theorem (C11: "any split of those
bytes across packets", "header lines of any length"). The real `bufio.Reader` and the real
`readLine` / `skipWhiteSpace` / `ParseMessage` are run against this model by the `bufio` stream.
Core Lean only (linked into the driver).
-/
import Sip.Message
open GoStd Sip

namespace Reader.Bufio

/-- `bufio.Reader`: the unread part of its buffer and what the connection will still deliver,
Read by Read. -/
structure BR where
  buf : Bytes
  src : List Bytes
  deriving Repr, BEq

/-- the byte stream the reader stands for -/
def BR.logical (b : BR) : Bytes := b.buf ++ b.src.flatten

/-- outcome of `ReadSlice('\n')` -/
inductive Slice where
  | line (l : Bytes)   -- up to and including the LF
  | full (l : Bytes)   -- ErrBufferFull: the whole buffer, no LF in it
  | eof (l : Bytes)    -- the stream ended: whatever was left (possibly nothing)
  deriving Repr, BEq

/-- `ReadSlice('\n')`: scan the buffer; on a miss report the stream's end, or a full buffer, or
`fill` (one Read of at most the free space; what does not fit stays in the connection) and scan
again. Structural on the segments still to come. -/
def readSlice (N : Nat) : List Bytes → Bytes → Slice × BR
  | [], buf =>
    match cut 10 buf with
    | some (l, rest) => (.line (l ++ [10]), ⟨rest, []⟩)
    | none => if N ≤ buf.length then (.full buf, ⟨[], []⟩) else (.eof buf, ⟨[], []⟩)
  | seg :: more, buf =>
    match cut 10 buf with
    | some (l, rest) => (.line (l ++ [10]), ⟨rest, seg :: more⟩)
    | none =>
      if N ≤ buf.length then (.full buf, ⟨[], seg :: more⟩)
      else if seg.length ≤ N - buf.length then readSlice N more (buf ++ seg)
      else
        let k := N - buf.length
        let buf' := buf ++ seg.take k
        match cut 10 buf' with
        | some (l, rest) => (.line (l ++ [10]), ⟨rest, seg.drop k :: more⟩)
        | none => (.full buf', ⟨[], seg.drop k :: more⟩)

/-- the LF, and a CR directly before it, dropped -/
def stripEol (c : Bytes) : Bytes := if c.getLast? == some 13 then c.dropLast else c

/-- `ReadLine`: (fragment, isPrefix, reader afterwards); `none` = error (io.EOF) -/
def readLineFrag (N : Nat) (b : BR) : Option (Bytes × Bool × BR) :=
  match readSlice N b.src b.buf with
  | (.full l, b') =>
    if l.getLast? == some 13 then some (l.dropLast, true, ⟨13 :: b'.buf, b'.src⟩)   -- b.r--
    else some (l, true, b')
  | (.eof l, b') => if l.isEmpty then none else some (l, false, b')
  | (.line l, b') => some (stripEol l.dropLast, false, b')

/-- the loop of message.go's `readLine` after a first fragment -/
def joinLoop (N : Nat) : Nat → Bytes → BR → Option (Bytes × BR)
  | 0, _, _ => none
  | fuel + 1, acc, b =>
    match readLineFrag N b with
    | none => none
    | some (l, true, b') => joinLoop N fuel (acc ++ l) b'
    | some (l, false, b') => some (acc ++ l, b')

def BR.size (b : BR) : Nat := b.logical.length

/-- message.go `readLine`: one `ReadLine`; if it was only a prefix, copy it and append the
following fragments until one is final. An error anywhere loses the line. -/
def readLine (N : Nat) (b : BR) : Option (Bytes × BR) := joinLoop N (b.size + 2) [] b

/-- `ReadByte`: from the buffer, filling it first when it is empty -/
def readByte (N : Nat) : List Bytes → Bytes → Option (UInt8 × BR)
  | src, c :: buf => some (c, ⟨buf, src⟩)
  | [], [] => none
  | seg :: more, [] =>
    match seg.take N with
    | c :: rest => some (c, ⟨rest, seg.drop N :: more⟩)
    | [] => readByte N more []

/-- message.go `skipWhiteSpace`: `ReadByte` until a byte that is not white space, which is unread.
The error (end of stream) is ignored by `ParseMessage`. Fuel = bytes available + 1. -/
def skipWhiteSpace (N : Nat) : Nat → BR → BR
  | 0, b => b
  | fuel + 1, b =>
    match readByte N b.src b.buf with
    | none => ⟨[], []⟩
    | some (c, b') => if isWhiteSpace c then skipWhiteSpace N fuel b' else ⟨c :: b'.buf, b'.src⟩

/-- `io.CopyN(body, reader, n)` through `bufio.Reader.Read`: buffered bytes first, then Reads of
the connection; `none` when the stream ends before `n` bytes were delivered. -/
def copyN : List Bytes → Bytes → Nat → Option (Bytes × BR)
  | src, buf, 0 => some ([], ⟨buf, src⟩)
  | src, c :: buf, n + 1 =>
    if buf.length + 1 ≤ n + 1 then
      match copyN src [] (n - buf.length) with
      | none => none
      | some (out, b') => some (c :: buf ++ out, b')
    else some ((c :: buf).take (n + 1), ⟨(c :: buf).drop (n + 1), src⟩)
  | [], [], _ + 1 => none
  | seg :: more, [], n + 1 =>
    if seg.length ≤ n + 1 then
      match copyN more [] (n + 1 - seg.length) with
      | none => none
      | some (out, b') => some (seg ++ out, b')
    else some (seg.take (n + 1), ⟨[], seg.drop (n + 1) :: more⟩)
termination_by src buf _ => (src.length, buf.length)
decreasing_by
  all_goals simp_wf
  · exact Prod.Lex.right _ (by simp)
  · exact Prod.Lex.left _ _ (by simp)

/-- the header loop of `ParseMessage` -/
def parseHeaderLines (N : Nat) : Nat → BR → Option (List Header × BR)
  | 0, _ => none
  | fuel + 1, b =>
    match readLine N b with
    | none => none
    | some (line, b') =>
      if line.length = 0 then some ([], b')
      else
        match cut 58 line with
        | none => none
        | some (name, v) =>
          match parseHeaderLines N fuel b' with
          | none => none
          | some (hs, b'') => some ({ name := name, value := .raw (trimSpace v) } :: hs, b'')

/-- `ParseMessage(reader)` -/
def parseMessage (N : Nat) (cm : List (Bytes × Bytes)) (b : BR) : Option (Message × BR) :=
  let b0 := skipWhiteSpace N (b.size + 1) b
  match readLine N b0 with
  | none => none
  | some (first, b1) =>
    if first.length = 0 then none
    else
      match parseStartLine first with
      | none => none
      | some sl =>
        match parseHeaderLines N (b1.size + 1) b1 with
        | none => none
        | some (hs, b2) =>
          let m : Message := { start := sl, headers := hs, body := [] }
          match getHeaderInt cm m contentLengthName with
          | none => none
          | some cl =>
            if cl < 0 then none
            else
              match copyN b2.src b2.buf cl.toNat with
              | none => none
              | some (body, b3) => some ({ m with body := body }, b3)

/-- the per-connection loop of `TCPServerTransport.receiveMessage` over the operational reader -/
def connLoop (N : Nat) (cm : List (Bytes × Bytes)) : Nat → BR → List Message
  | 0, _ => []
  | fuel + 1, b =>
    match parseMessage N cm b with
    | none => []
    | some (m, b') => if b'.size < b.size then m :: connLoop N cm fuel b' else [m]

end Reader.Bufio
