/-
Proxy.Model — proxy.go: the per-message pipeline handleRawMessage → handleDialog → HandleMessage
as a pure transition on the proxy's state, plus the transport table of transport.go
(ClientTransportMgr). One definition per Go function, same order of effects, same laziness.
External oracles (parameters): the branch generator, the service-name regexp verdict, IP-literal
recognition (`isIP`, with DNS misses treated as failures: the sandbox has no resolver).
-/
import Sip.Message
import Side.RoundRobin
import Side.StaticRoute
import Side.Pins
open GoStd Sip

namespace Proxy

structure Listener where
  proto : Bytes          -- "UDP" / "TCP" (ServerTransport.GetProtocol)
  addr : Bytes
  port : Int
  deriving Repr, DecidableEq

structure Cfg where
  cm : List (Bytes × Bytes)                -- compact-name map (generated table F1)
  finalClasses : List Int                  -- F2
  supported : List Bytes                   -- F2, lower-case protocol names
  names : List Bytes                       -- service names (MyName.names)
  keepNextHopRoute : Bool
  mustRecordRoute : Bool
  hosts : List (Bytes × Bytes)             -- PreConfigHostResolver.hostIPs
  routes : Side.SR.Table                   -- PreConfigRoute
  transports0 : Option Listener            -- backendItem.transports[0] (none: no item with a backend)

/-- `rotation`: the RoundRobinBackend object itself was recorded (load-balanced request). -/
inductive BackendRef where
  | member (addr : Bytes)
  | rotation
  deriving Repr, DecidableEq

inductive Prim where
  | conn (c : Nat)                         -- inbound TCP connection (non-reconnectable)
  | udp (ip : Bytes) (port : Int)
  deriving Repr, DecidableEq

structure TransEntry where
  primary : Option Prim
  secondary : Option (Bytes × Int)         -- reconnectable TCP client towards ip:port
  deriving Repr, DecidableEq

structure PinEntry where
  key : Bytes
  backend : BackendRef
  expires : Int                            -- the Expires value it was stored with (lifetime = max(timeout, Expires))
  deriving Repr, DecidableEq

structure St where
  learned : List (Bytes × Listener) := []  -- SelfLearnRoute.route (shared by the listeners of a service)
  backends : List Bytes := []              -- keys of Proxy.backends (addr:port of registered backends)
  rr : Side.RR.St := {}
  pins : List PinEntry := []               -- DialogBasedBackend.backends (no expiry inside one case: see Side.Pins / C15)
  trans : List (Bytes × TransEntry) := []  -- ClientTransportMgr.transports
  deriving Repr, DecidableEq

inductive Out where
  | backend (addr : Bytes) (data : Bytes)
  | udp (ip : Bytes) (port : Int) (data : Bytes)
  | conn (c : Nat) (data : Bytes)
  | tcp (ip : Bytes) (port : Int) (data : Bytes)
  deriving Repr, DecidableEq

structure RawEv where
  peerAddr : Bytes
  peerPort : Int
  frm : Listener                           -- rawMessage.From
  receivedSupport : Bool
  tcpConn : Option Nat
  msg : Message
  rxMatch : Bool                           -- oracle: some service-name pattern matches the string the code tests
  branch : Bytes                           -- oracle: what CreateBranch returns for this message

/-! ### small helpers -/

def assocSet {β : Type} (l : List (Bytes × β)) (k : Bytes) (v : β) : List (Bytes × β) :=
  if l.any (fun e => e.1 == k) then l.map (fun e => if e.1 == k then (k, v) else e) else l ++ [(k, v)]

def assocGet {β : Type} (l : List (Bytes × β)) (k : Bytes) : Option β := (l.find? (fun e => e.1 == k)).map (·.2)

def assocDel {β : Type} (l : List (Bytes × β)) (k : Bytes) : List (Bytes × β) := l.filter (fun e => e.1 != k)

/-- dotted-decimal IPv4 literal as `net.ParseIP` accepts it (1-3 digits, ≤ 255, no leading zero) -/
def isIPv4Field (f : Bytes) : Bool :=
  !f.isEmpty && f.length ≤ 3 && f.all isDigit && digitsVal f ≤ 255 && (f.length == 1 || f.head? != some 48)

def isIP (s : Bytes) : Bool :=
  match split 46 s with
  | [a, b, c, d] => isIPv4Field a && isIPv4Field b && isIPv4Field c && isIPv4Field d
  | _ => false

/-- `PreConfigHostResolver.GetIp` (IP literal, table; a DNS lookup is a failure here). -/
def getIp (cfg : Cfg) (name : Bytes) : Option Bytes :=
  if isIP name then some name else assocGet cfg.hosts name

/-- `SelfLearnRoute.AddRoute`. -/
def addRoute (l : List (Bytes × Listener)) (ip : Bytes) (t : Listener) : List (Bytes × Listener) :=
  match assocGet l ip with
  | some old => if old == t then l else assocSet l ip t
  | none => assocSet l ip t

/-! ### transport table (transport.go ClientTransportMgr) -/

/-- `getFullAddr(protocol, host, port, transId)`. -/
def fullAddr (proto host : Bytes) (port : Int) (transId : Bytes) : Bytes :=
  let base := proto ++ str "://" ++ joinHostPort host port
  if proto == str "tcp" && !transId.isEmpty then base ++ [45] ++ transId else base

/-- `GetTransport(protocol, host, port, local, transId)`: key and entry, creating entries as the code
does (`none`: unsupported protocol, or a UDP destination that does not resolve). -/
def getTransport (cfg : Cfg) (tr : List (Bytes × TransEntry)) (protocol host : Bytes) (port : Int) (transId : Bytes) :
    Option (List (Bytes × TransEntry) × Bytes × TransEntry) :=
  let proto := toLower protocol
  if !cfg.supported.contains proto then none
  else
    let key := fullAddr proto host port transId
    match assocGet tr key with
    | some e => some (tr, key, e)
    | none =>
      if proto == str "udp" then
        if isIP host && 0 ≤ port && port ≤ 65535 then
          let e : TransEntry := { primary := some (.udp host port), secondary := none }
          some (assocSet tr key e, key, e)
        else none
      else if proto == str "tcp" then
        let shared := fullAddr proto host port []
        let (tr1, sec) : List (Bytes × TransEntry) × Option (Bytes × Int) :=
          match assocGet tr shared with
          | some se => (tr, se.secondary)
          | none => (assocSet tr shared { primary := none, secondary := some (host, port) }, some (host, port))
        let e : TransEntry := { primary := none, secondary := sec }
        some (assocSet tr1 key e, key, e)
      else none

/-- `RemoveTransport`. -/
def removeTransport (cfg : Cfg) (tr : List (Bytes × TransEntry)) (protocol host : Bytes) (port : Int) (transId : Bytes) :
    List (Bytes × TransEntry) :=
  let proto := toLower protocol
  if !cfg.supported.contains proto then tr else assocDel tr (fullAddr proto host port transId)

/-- `FailOverClientTransport.Send` with healthy connections (faults are C20's subject). -/
def entrySend (e : TransEntry) (data : Bytes) : List Out :=
  match e.primary with
  | some (.conn c) => [.conn c data]
  | some (.udp ip port) => [.udp ip port data]
  | none =>
    match e.secondary with
    | some (ip, port) => if isIP ip && 0 < port && port ≤ 65535 then [.tcp ip port data] else []
    | none => []

/-! ### hops -/

structure Hop where
  host : Bytes
  port : Int
  transport : Bytes
  deriving Repr, DecidableEq

/-- `getNextReponseHop`: received over sent-by host, numeric rport over sent-by port. -/
def getNextResponseHop (cfg : Cfg) (m : Message) : Option Hop × Message :=
  match getVia cfg.cm m with
  | none => (none, m)
  | some (v, m') =>
    match v with
    | [] => (none, m')
    | vp :: _ =>
      match getParam vp.params (str "received") with
      | some r =>
        let port := match (getParam vp.params (str "rport")).bind atoi with
          | some p => p
          | none => vp.getPort
        (some { host := r, port := port, transport := vp.transport }, m')
      | none => (some { host := vp.host, port := vp.getPort, transport := vp.transport }, m')

/-- `getNextRequestHopByRoute` (mutates: decodes Route; pops the next-hop entry unless kept). -/
def getNextRequestHopByRoute (cfg : Cfg) (m : Message) : Option Hop × Message :=
  match getRoute cfg.cm m with
  | none => (none, m)
  | some (r, m1) =>
    match r with
    | [] => (none, m1)
    | rp :: _ =>
      let m2 := if !cfg.keepNextHopRoute then (popRoute cfg.cm m1).getD m1 else m1
      match rp.nameAddr.addr with
      | .sip u => (some { host := u.host, port := u.getPort, transport := u.getTransport }, m2)
      | .abs _ => (none, m2)

/-- `To.GetHost`. -/
def toHost (t : FromTo) : Option Bytes :=
  match t.getAddrSpec with
  | some (.sip u) => some u.host
  | _ => none

def getNextRequestHopByConfig (cfg : Cfg) (m : Message) : Option Hop × Message :=
  match getTo cfg.cm m with
  | none => (none, m)
  | some (t, m1) =>
    match toHost t with
    | none => (none, m1)
    | some h =>
      match Side.SR.findRoute cfg.routes h with
      | none => (none, m1)
      | some it => (some { host := it.host, port := it.port, transport := it.protocol }, m1)

def getNextRequestHop (cfg : Cfg) (m : Message) : Option Hop × Message :=
  match getNextRequestHopByRoute cfg m with
  | (some h, m1) => (some h, m1)
  | (none, m1) => getNextRequestHopByConfig cfg m1

/-! ### own Via / Record-Route -/

def ownVia (t : Listener) (branch : Bytes) : ViaParam :=
  { protoName := str "SIP", protoVersion := str "2.0", transport := t.proto, host := t.addr, port := t.port,
    params := [{ key := str "branch", value := branch }] }

def ownRecordRoute (t : Listener) : RouteParam :=
  { nameAddr := { display := [], addr := .sip { scheme := str "sip", host := t.addr, port := t.port,
                                                params := [{ key := str "lr", value := [] }] } },
    params := [] }

/-- `addVia` then `addRecordRoute`. -/
def insertSelf (cfg : Cfg) (m : Message) (t : Listener) (branch : Bytes) : Message :=
  let m1 := addVia cfg.cm m (ownVia t branch)
  if (findHeader cfg.cm m1.headers recordRouteName).isNone && !cfg.mustRecordRoute then m1
  else addRecordRoute cfg.cm m1 (ownRecordRoute t)

/-! ### service matching -/

def matchSipName (user host : Bytes) (name : Bytes) : Bool :=
  match cut 64 name with
  | none => host == name
  | some (u, h) => host == h && user == u

/-- `MyName.isMyMessage`; `rx` is the regexp oracle for the string the code tests. -/
def isMyMessage (cfg : Cfg) (frm : Listener) (m : Message) (rx : Bool) : Bool :=
  match m.start with
  | .request _ (.abs s) _ => cfg.names.contains s || rx
  | .request _ (.sip u) _ =>
    (u.host == frm.addr && u.getPort == frm.port) || cfg.names.any (matchSipName u.user u.host) || rx
  | _ => false

/-! ### pins (no time inside one case) -/

def pinGet (ps : List PinEntry) (k : Bytes) : Option BackendRef := (ps.find? (fun e => e.key == k)).map (·.backend)
def pinAdd (ps : List PinEntry) (k : Bytes) (b : BackendRef) (e : Int) : List PinEntry :=
  ps.filter (fun x => x.key != k) ++ [{ key := k, backend := b, expires := e }]
def pinDel (ps : List PinEntry) (k : Bytes) : List PinEntry := ps.filter (fun x => x.key != k)

/-! ### the pipeline -/

/-- `sendMessage(host, port, transport, msg)`. -/
def sendMessage (cfg : Cfg) (st : St) (h : Hop) (m : Message) : St × List Out :=
  let ip := (getIp cfg h.host).getD h.host
  let (tid, m1) := getClientTransaction cfg.cm m
  let transId := tid.getD []
  match getTransport cfg st.trans h.transport ip h.port transId with
  | none => (st, [])
  | some (tr1, _, e) =>
    let tr2 := if isFinalResponse cfg.finalClasses m1 then removeTransport cfg tr1 h.transport ip h.port transId else tr1
    ({ st with trans := tr2 }, entrySend e (m1.bytes cfg.cm))

/-- strip one pair of brackets from an IPv6 reference -/
def stripBrackets (h : Bytes) : Bytes :=
  if h.length ≥ 2 && h.head? == some 91 && h.getLast? == some 93 then (h.drop 1).dropLast else h

/-- the address an inbound TCP connection is registered under: brackets stripped, then resolved the
way `sendMessage` resolves the response hop -/
def regHost (cfg : Cfg) (h : Bytes) : Bytes := (getIp cfg (stripBrackets h)).getD (stripBrackets h)

/-- `handleRawMessage`. -/
def handleRawMessage (cfg : Cfg) (st : St) (ev : RawEv) : St × Message :=
  let m0 := ev.msg
  let req := isRequest m0
  -- learn routes
  let (learned1, m1) :=
    if req && !st.backends.contains ev.peerAddr then
      let l1 := addRoute st.learned ev.peerAddr ev.frm
      let (hs, vias) := forEachViaHeaders cfg.cm m0.headers
      (vias.foldl (fun l vp => addRoute l vp.host ev.frm) l1, { m0 with headers := hs })
    else (st.learned, m0)
  -- stamp received / rport
  let m2 := if req && ev.receivedSupport then setReceived cfg.cm m1 ev.peerAddr ev.peerPort else m1
  -- remember the inbound TCP connection for the responses of this transaction
  let (trans1, m3) :=
    match req, ev.tcpConn with
    | true, some c =>
      match getNextResponseHop cfg m2 with
      | (none, m') => (st.trans, m')
      | (some hop, m') =>
        match getClientTransaction cfg.cm m' with
        | (none, m'') => (st.trans, m'')
        | (some tid, m'') =>
          -- registered under the address `sendMessage` will look it up with (`regHost`)
          match getTransport cfg st.trans (str "tcp") (regHost cfg hop.host) hop.port tid with
          | none => (st.trans, m'')
          | some (tr, key, e) => (assocSet tr key { e with primary := some (.conn c) }, m'')
    | _, _ => (st.trans, m2)
  -- consume an own top Route entry
  let m4 :=
    match getRoute cfg.cm m3 with
    | none => m3
    | some (r, m') =>
      match r with
      | [] => m'
      | rp :: _ =>
        match rp.nameAddr.addr with
        | .abs _ => m'
        | .sip u =>
          let same := u.host == ev.frm.addr ||
            (match getIp cfg u.host, getIp cfg ev.frm.addr with
             | some a, some b => a == b
             | _, _ => false)
          if u.getPort == ev.frm.port && same then (popRoute cfg.cm m').getD m' else m'
  ({ st with learned := learned1, trans := trans1 }, m4)

/-- `getBackendOfResponse` + `handleDialog`. -/
def handleDialog (cfg : Cfg) (st : St) (peerAddr : Bytes) (peerPort : Int) (m : Message) : St × Message :=
  if !isResponse m then (st, m)
  else
    let addr := joinHostPort peerAddr peerPort
    -- which backend answered
    let (backend, pins1, m1) : Option BackendRef × List PinEntry × Message :=
      if st.backends.contains addr then (some (.member addr), st.pins, m)
      else
        match getClientTransaction cfg.cm m with
        | (none, m') => (none, st.pins, m')
        | (some tid, m') =>
          let b := pinGet st.pins tid
          let ps := if isFinalResponse cfg.finalClasses m' then pinDel st.pins tid else st.pins
          (b, ps, m')
    match backend with
    | none => ({ st with pins := pins1 }, m1)
    | some b =>
      match getMethod cfg.cm m1 with
      | none => ({ st with pins := pins1 }, m1)
      | some (method, m2) =>
        if method == str "INVITE" then
          match getDialog cfg.cm m2 with
          | (some d, m3) =>
            if d.isEmpty then ({ st with pins := pins1 }, m3)
            else ({ st with pins := pinAdd pins1 d b (getExpires cfg.cm m3 0) }, m3)
          | (none, m3) => ({ st with pins := pins1 }, m3)
        else if method == str "BYE" then
          match getDialog cfg.cm m2 with
          | (some d, m3) => if d.isEmpty then ({ st with pins := pins1 }, m3) else ({ st with pins := pinDel pins1 d }, m3)
          | (none, m3) => ({ st with pins := pins1 }, m3)
        else ({ st with pins := pins1 }, m2)

/-- `findBackendByDialog`. Result: the pinned backend (if any) and the message/pins after the lookup. -/
def findBackendByDialog (cfg : Cfg) (st : St) (m : Message) : Option BackendRef × List PinEntry × Message :=
  match m.start with
  | .request method _ _ =>
    match getDialog cfg.cm m with
    | (none, m1) => (none, st.pins, m1)
    | (some d, m1) =>
      let b := pinGet st.pins d
      let ps :=
        if method == str "NOTIFY" && getRawHeader cfg.cm m1 subscriptionStateName == some (str "terminated")
        then pinDel st.pins d else st.pins
      (b, ps, m1)
  | _ => (none, st.pins, m)

/-- `sendToBackend`. -/
def sendToBackend (cfg : Cfg) (st : St) (m : Message) (branch : Bytes) : St × List Out :=
  match cfg.transports0 with
  | none => (st, [])
  | some t0 =>
    let (pinned, pins1, m1) := findBackendByDialog cfg st m
    let backend := pinned.getD .rotation
    let m2 := insertSelf cfg m1 t0 branch
    let data := m2.bytes cfg.cm
    -- backend.Send
    let (rr1, target) : Side.RR.St × Option Bytes :=
      match backend with
      | .member a => (st.rr, some a)
      | .rotation => Side.RR.dispatch st.rr
    match target with
    | none => ({ st with pins := pins1, rr := rr1 }, [])
    | some a =>
      -- record the client transaction against the backend object that was used
      let (tid, m3) := getClientTransaction cfg.cm m2
      let pins2 := match tid with
        | some k => pinAdd pins1 k backend (getExpires cfg.cm m3 0)
        | none => pins1
      ({ st with pins := pins2, rr := rr1 }, [.backend a data])

/-- `HandleMessage`. -/
def handleMessage (cfg : Cfg) (st : St) (ev : RawEv) (m : Message) : St × List Out :=
  if isRequest m then
    match getNextRequestHop cfg m with
    | (some hop, m1) =>
      let m2 := match assocGet st.learned hop.host with
        | some t => insertSelf cfg m1 t ev.branch
        | none => m1
      sendMessage cfg st hop m2
    | (none, m1) =>
      if isMyMessage cfg ev.frm m1 ev.rxMatch then sendToBackend cfg st m1 ev.branch
      else (st, [])
  else
    let m1 := (popVia cfg.cm m).getD m
    let (hop, m2) := getNextResponseHop cfg m1
    -- a SUBSCRIBE response travelling towards a backend pins the dialog to it
    let (st1, m3) : St × Message :=
      match getMethod cfg.cm m2 with
      | some (method, m') =>
        if method == str "SUBSCRIBE" then
          let addr := match hop with
            | some h => h.host ++ [58] ++ itoa h.port
            | none => [58, 48]
          if st.backends.contains addr then
            match getDialog cfg.cm m' with
            | (some d, m'') => ({ st with pins := pinAdd st.pins d (.member addr) (getExpires cfg.cm m'' 0) }, m'')
            | (none, m'') => (st, m'')
          else (st, m')
        else (st, m')
      | none => (st, m2)
    match hop with
    | none => (st1, [])
    | some h => sendMessage cfg st1 h m3

/-- one received message through the loop of `receiveAndProcessMessage` -/
def step (cfg : Cfg) (st : St) (ev : RawEv) : St × List Out :=
  let (st1, m1) := handleRawMessage cfg st ev
  let (st2, m2) := handleDialog cfg st1 ev.peerAddr ev.peerPort m1
  handleMessage cfg st2 ev m2

/-- backend membership events of the loop -/
def backendAdded (st : St) (addr : Bytes) : St :=
  { st with backends := if st.backends.contains addr then st.backends else st.backends ++ [addr], rr := Side.RR.add st.rr addr }

def backendRemoved (st : St) (addr : Bytes) : St :=
  let (rr', notified) := Side.RR.remove st.rr addr
  { st with backends := if notified then st.backends.erase addr else st.backends, rr := rr' }

end Proxy
