/-
Sip.Message — message.go: the header list with lazily decoded values, the typed getters
(which replace the raw string by the decoded value *in place*), Via/Route surgery,
ParseMessage over a complete byte string, and Bytes().
-/
import Sip.Codec
open GoStd

namespace Sip

inductive HVal where
  | raw (s : Bytes)
  | via (v : List ViaParam)
  | route (r : List RouteParam)
  | recordRoute (r : List RouteParam)
  | fromSpec (f : FromTo)
  | to (t : FromTo)
  | cseq (c : CSeq)
  deriving Repr, DecidableEq

/-- `%v` of a header value. -/
def HVal.encode : HVal → Bytes
  | .raw s => s
  | .via v => encodeVia v
  | .route r => encodeRoute r
  | .recordRoute r => encodeRoute r
  | .fromSpec f => f.encode
  | .to t => t.encode
  | .cseq c => c.encode

structure Header where
  name : Bytes
  value : HVal
  deriving Repr, DecidableEq

inductive StartLine where
  | request (method : Bytes) (uri : AddrSpec) (version : Bytes)
  | status (version : Bytes) (code : Int) (reason : Bytes)
  deriving Repr, DecidableEq

structure Message where
  start : StartLine
  headers : List Header
  body : Bytes
  deriving Repr, DecidableEq

/-! ### header-name classes (compact table is a parameter so that theorems hold for any table) -/

abbrev CompactTable := List (Bytes × Bytes)

/-- `compactHeaderNames.GetCompact` after all `AddCompact` calls: the map holds
`lower name ↦ lower compact` and `lower compact ↦ lower name`; later insertions overwrite. -/
def compactMapInsert (m : List (Bytes × Bytes)) (k v : Bytes) : List (Bytes × Bytes) :=
  (k, v) :: m.filter (fun e => e.1 != k)

def buildCompactMap (tbl : CompactTable) : List (Bytes × Bytes) :=
  tbl.foldl (fun m e =>
    let n := toLower e.1
    let c := toLower e.2
    compactMapInsert (compactMapInsert m n c) c n) []

def getCompact (cmap : List (Bytes × Bytes)) (name : Bytes) : Option Bytes :=
  (cmap.find? (fun e => e.1 == toLower name)).map (·.2)

/-- `Message.isSameHeader(name_1, name_2)`. -/
def isSameHeader (cmap : List (Bytes × Bytes)) (n1 n2 : Bytes) : Bool :=
  equalFold n1 n2 ||
  (match getCompact cmap n2 with
   | some c => equalFold n1 c
   | none => false)

section
variable (cm : List (Bytes × Bytes))

def findHeader (hs : List Header) (name : Bytes) : Option Header :=
  hs.find? (fun h => isSameHeader cm h.name name)

/-- index of the first header of the class, if any (`findHeaderPos`). -/
def findHeaderPos : List Header → Bytes → Option Nat
  | [], _ => none
  | h :: hs, name =>
    if isSameHeader cm h.name name then some 0
    else (findHeaderPos hs name).map (· + 1)

/-- `RemoveHeader`: drop the first header of the class. -/
def removeHeader : List Header → Bytes → List Header
  | [], _ => []
  | h :: hs, name =>
    if isSameHeader cm h.name name then hs else h :: removeHeader hs name

/-- replace the value of the first header of the class (in-place mutation through the pointer). -/
def setFirst : List Header → Bytes → HVal → List Header
  | [], _, _ => []
  | h :: hs, name, v =>
    if isSameHeader cm h.name name then { name := h.name, value := v } :: hs
    else h :: setFirst hs name v

def insertAt {α : Type} (l : List α) (pos : Nat) (x : α) : List α := l.take pos ++ x :: l.drop pos

/-! ### lazy typed getters: result plus the message with the value replaced -/

def viaName : Bytes := str "Via"
def routeName : Bytes := str "Route"
def recordRouteName : Bytes := str "Record-Route"
def fromName : Bytes := str "From"
def toName : Bytes := str "To"
def cseqName : Bytes := str "CSeq"
def callIdName : Bytes := str "Call-ID"
def contentLengthName : Bytes := str "Content-Length"
def maxForwardsName : Bytes := str "Max-Forwards"
def expiresName : Bytes := str "Expires"
def subscriptionStateName : Bytes := str "Subscription-State"

def getVia (m : Message) : Option (List ViaParam × Message) :=
  match findHeader cm m.headers viaName with
  | none => none
  | some h =>
    match h.value with
    | .via v => some (v, m)
    | .raw s =>
      match parseVia s with
      | none => none
      | some v => some (v, { m with headers := setFirst cm m.headers viaName (.via v) })
    | _ => none

def getRoute (m : Message) : Option (List RouteParam × Message) :=
  match findHeader cm m.headers routeName with
  | none => none
  | some h =>
    match h.value with
    | .route r => some (r, m)
    | .raw s =>
      match parseRoute s with
      | none => none
      | some r => some (r, { m with headers := setFirst cm m.headers routeName (.route r) })
    | _ => none

def getFrom (m : Message) : Option (FromTo × Message) :=
  match findHeader cm m.headers fromName with
  | none => none
  | some h =>
    match h.value with
    | .fromSpec f => some (f, m)
    | .raw s =>
      match parseFromTo s with
      | none => none
      | some f => some (f, { m with headers := setFirst cm m.headers fromName (.fromSpec f) })
    | _ => none

def getTo (m : Message) : Option (FromTo × Message) :=
  match findHeader cm m.headers toName with
  | none => none
  | some h =>
    match h.value with
    | .to f => some (f, m)
    | .raw s =>
      match parseFromTo s with
      | none => none
      | some f => some (f, { m with headers := setFirst cm m.headers toName (.to f) })
    | _ => none

def getCSeq (m : Message) : Option (CSeq × Message) :=
  match findHeader cm m.headers cseqName with
  | none => none
  | some h =>
    match h.value with
    | .cseq c => some (c, m)
    | .raw s =>
      match parseCSeq s with
      | none => none
      | some c => some (c, { m with headers := setFirst cm m.headers cseqName (.cseq c) })
    | _ => none

/-- `GetHeaderValue(name)` when the value is still a string. -/
def getRawHeader (m : Message) (name : Bytes) : Option Bytes :=
  match findHeader cm m.headers name with
  | some { value := .raw s, .. } => some s
  | _ => none

def getHeaderInt (m : Message) (name : Bytes) : Option Int :=
  match getRawHeader cm m name with
  | some s => atoi s
  | none => none

def getExpires (m : Message) (defValue : Int) : Int := (getHeaderInt cm m expiresName).getD defValue

def isRequest (m : Message) : Bool := match m.start with | .request .. => true | _ => false
def isResponse (m : Message) : Bool := !isRequest m

/-- `GetMethod`: request method, or the CSeq method of a response (decoding CSeq in place). -/
def getMethod (m : Message) : Option (Bytes × Message) :=
  match m.start with
  | .request method _ _ => some (method, m)
  | .status .. =>
    match getCSeq cm m with
    | none => none
    | some (c, m') => some (c.method, m')

/-- `PopVia`: drop the first via-param; drop the whole header when it held exactly one (or none). -/
def popVia (m : Message) : Option Message :=
  match getVia cm m with
  | none => none
  | some (v, m') =>
    if v.length > 1 then some { m' with headers := setFirst cm m'.headers viaName (.via v.tail) }
    else some { m' with headers := removeHeader cm m'.headers viaName }

/-- `PopRoute`. -/
def popRoute (m : Message) : Option Message :=
  match getRoute cm m with
  | none => none
  | some (r, m') =>
    if r.length > 1 then some { m' with headers := setFirst cm m'.headers routeName (.route r.tail) }
    else some { m' with headers := removeHeader cm m'.headers routeName }

/-- `AddVia`: new header named "Via" in front of the first Via-class header (position 0 if none). -/
def addVia (m : Message) (vp : ViaParam) : Message :=
  let pos := (findHeaderPos cm m.headers viaName).getD 0
  { m with headers := insertAt m.headers pos { name := viaName, value := .via [vp] } }

/-- `findRecordRoutePos`. -/
def findRecordRoutePos (hs : List Header) : Nat :=
  match findHeaderPos cm hs recordRouteName with
  | some p => p
  | none =>
    match findHeaderPos cm hs fromName, findHeaderPos cm hs maxForwardsName with
    | some p1, some p2 => if p1 < p2 then p1 else p2
    | some p1, none => p1
    | none, some p2 => p2
    | none, none => 0

def addRecordRoute (m : Message) (rr : RouteParam) : Message :=
  let pos := findRecordRoutePos cm m.headers
  { m with headers := insertAt m.headers pos { name := recordRouteName, value := .recordRoute [rr] } }

/-- `ForEachVia` with a collecting visitor: decodes every decodable Via-class header in place and
returns all via-params in order. -/
def forEachViaHeaders : List Header → List Header × List ViaParam
  | [] => ([], [])
  | h :: hs =>
    let (hs', vs) := forEachViaHeaders hs
    if !isSameHeader cm h.name viaName then (h :: hs', vs)
    else
      match h.value with
      | .via v => (h :: hs', v ++ vs)
      | .raw s =>
        match parseVia s with
        | none => (h :: hs', vs)
        | some v => ({ name := h.name, value := .via v } :: hs', v ++ vs)
      | _ => (h :: hs', vs)

/-- `SetReceived(peerAddr, peerPort)` on the first via-param of the first Via header. -/
def setReceived (m : Message) (peerAddr : Bytes) (peerPort : Int) : Message :=
  match getVia cm m with
  | none => m
  | some (v, m') =>
    match v with
    | [] => m'
    | vp :: rest =>
      let ps1 := setParam vp.params (str "received") peerAddr
      let ps2 := if hasParam ps1 (str "rport") then setParam ps1 (str "rport") (itoa peerPort) else ps1
      { m' with headers := setFirst cm m'.headers viaName (.via ({ vp with params := ps2 } :: rest)) }

def isFinalResponse (finalClasses : List Int) (m : Message) : Bool :=
  match m.start with
  | .status _ code _ => finalClasses.contains (code / 100)
  | _ => false

/-! ### dialog and transaction identifiers -/

def getDialogAddr : AddrSpec → Bytes
  | .sip u => u.write false false
  | .abs s => s

/-- `GetDialog`: Call-ID and the two (tag, address) halves; the halves are ordered by
(address, tag) and the five components are joined by a byte no component can contain. -/
def dialogSep : Bytes := [32]

def dialogId (callId tagF addrF tagT addrT : Bytes) : Bytes :=
  if addrF < addrT || (addrF == addrT && tagF < tagT) then
    callId ++ dialogSep ++ tagF ++ dialogSep ++ addrF ++ dialogSep ++ tagT ++ dialogSep ++ addrT
  else
    callId ++ dialogSep ++ tagT ++ dialogSep ++ addrT ++ dialogSep ++ tagF ++ dialogSep ++ addrF

def getDialog (m : Message) : Option Bytes × Message :=
  match getRawHeader cm m callIdName with
  | none => (none, m)
  | some callId =>
    match getFrom cm m with
    | none => (none, m)
    | some (f, m1) =>
      match f.getTag with
      | none => (none, m1)
      | some ftag =>
        match getTo cm m1 with
        | none => (none, m1)
        | some (t, m2) =>
          match t.getTag with
          | none => (none, m2)
          | some ttag =>
            match f.getAddrSpec, t.getAddrSpec with
            | some fa, some ta => (some (dialogId callId ftag (getDialogAddr fa) ttag (getDialogAddr ta)), m2)
            | _, _ => (none, m2)

/-- `GetClientTransaction`: CSeq method + " " + top Via branch. -/
def getClientTransaction (m : Message) : Option Bytes × Message :=
  match getCSeq cm m with
  | none => (none, m)
  | some (c, m1) =>
    match getVia cm m1 with
    | none => (none, m1)
    | some (v, m2) =>
      match v with
      | [] => (none, m2)
      | vp :: _ =>
        match getParam vp.params (str "branch") with
        | none => (none, m2)
        | some br => (some (c.method ++ [32] ++ br), m2)   -- one blank: the method is one word

/-! ### Bytes() -/

def crlf : Bytes := [13, 10]

def encodeFirstLine : StartLine → Bytes
  | .request method uri version => method ++ [32] ++ uri.encode ++ [32] ++ version ++ crlf
  | .status version code reason => version ++ [32] ++ itoa code ++ [32] ++ reason ++ crlf

def encodeHeaders : List Header → Bytes
  | [] => []
  | h :: hs =>
    (if isSameHeader cm h.name contentLengthName then []
     else h.name ++ [58, 32] ++ h.value.encode ++ crlf) ++ encodeHeaders hs

def Message.bytes (m : Message) : Bytes :=
  encodeFirstLine m.start ++ encodeHeaders cm m.headers
  ++ contentLengthName ++ [58, 32] ++ natToBytes m.body.length ++ crlf ++ crlf ++ m.body

end

/-! ### ParseMessage over a complete byte string (the reader's view is modelled in Reader/) -/

/-- `bufio.Reader.ReadLine` joined over its fragments (`readLine`): bytes up to the first LF, one CR
before it dropped; at end of input a non-empty unterminated rest is returned as a line (its CR kept);
`none` = io.EOF. Returns the line and the remaining input. -/
def readLine (s : Bytes) : Option (Bytes × Bytes) :=
  match s with
  | [] => none
  | _ =>
    match cut 10 s with
    | none => some (s, [])
    | some (l, rest) =>
      if l.getLast? == some 13 then some (l.dropLast, rest) else some (l, rest)

def isWhiteSpace (b : UInt8) : Bool := isAsciiSpace b

def skipWhiteSpace (s : Bytes) : Bytes := s.dropWhile isWhiteSpace

def parseRequestLine (line : Bytes) : Option StartLine :=
  match fields line with
  | [m, u, v] => (parseAddrSpec u).map fun a => .request m a v
  | _ => none

def parseStatusLine (line : Bytes) : Option StartLine :=
  match fields line with
  | v :: c :: rs => (atoi c).map fun code => .status v code (join [32] rs)   -- the reason phrase may be empty
  | _ => none

def parseStartLine (line : Bytes) : Option StartLine :=
  if !hasPrefix (str "SIP/") line then parseRequestLine line else parseStatusLine line

/-- header lines up to the empty line; `none` on EOF or a line without ':'. Fuel = input length. -/
def parseHeaderLines : Nat → Bytes → Option (List Header × Bytes)
  | 0, _ => none
  | fuel + 1, s =>
    match readLine s with
    | none => none
    | some (line, rest) =>
      if line.length = 0 then some ([], rest)
      else
        match cut 58 line with
        | none => none
        | some (name, v) =>
          match parseHeaderLines fuel rest with
          | none => none
          | some (hs, rest') => some ({ name := name, value := .raw (trimSpace v) } :: hs, rest')

inductive ParseResult where
  | ok (m : Message) (rest : Bytes)
  | error
  deriving Repr, BEq

/-- `ParseMessage`. `maxBody` is the body-size the reader can still deliver (bytes available). -/
def parseMessage (cm : List (Bytes × Bytes)) (input : Bytes) : ParseResult :=
  let s := skipWhiteSpace input
  match readLine s with
  | none => .error
  | some (first, rest) =>
    if first.length = 0 then .error   -- no start line ⇒ no Content-Length ⇒ error
    else
      match parseStartLine first with
      | none => .error
      | some sl =>
        match parseHeaderLines (rest.length + 1) rest with
        | none => .error
        | some (hs, rest') =>
          let m : Message := { start := sl, headers := hs, body := [] }
          match getHeaderInt cm m contentLengthName with
          | none => .error
          | some cl =>
            if cl < 0 then .error
            else if rest'.length < cl.toNat then .error
            else .ok { m with body := rest'.take cl.toNat } (rest'.drop cl.toNat)

end Sip
