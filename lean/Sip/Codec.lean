/-
Sip.Codec — typed header values, their parsers and encoders, mirroring
sip_uri.go, addr_spec.go, absolute_uri.go, name_addr.go, key_value.go, generic_param.go,
via.go, route.go, record_route.go, from_spec.go, to.go, cseq.go function by function.
Index arithmetic `pos := IndexByte(s,c); s[0:pos]; s[pos+1:]` is written as `cut c s`.
-/
import GoStd.Bytes
open GoStd

namespace Sip

structure KeyValue where
  key : Bytes
  value : Bytes
  deriving Repr, DecidableEq

/-- `KeyValue.Write`: key, then `=value` only when the value is non-empty. -/
def KeyValue.encode (kv : KeyValue) : Bytes :=
  if kv.value.length > 0 then kv.key ++ [61] ++ kv.value else kv.key

/-- `ParseGenericParam` (error on the empty string). Also the shape of Via parameters. -/
def parseKV (s : Bytes) : KeyValue :=
  match cut 61 s with
  | none => { key := s, value := [] }
  | some (k, v) => { key := k, value := v }

def parseGenericParam (s : Bytes) : Option KeyValue :=
  if s.length ≤ 0 then none else some (parseKV s)

def getParam (ps : List KeyValue) (name : Bytes) : Option Bytes :=
  match ps.find? (fun p => p.key == name) with
  | some p => some p.value
  | none => none

def hasParam (ps : List KeyValue) (name : Bytes) : Bool := ps.any (fun p => p.key == name)

/-- `SetParam`: replace the value of the first parameter with that key, else append. -/
def setParam : List KeyValue → Bytes → Bytes → List KeyValue
  | [], name, value => [{ key := name, value := value }]
  | p :: ps, name, value =>
    if p.key == name then { key := p.key, value := value } :: ps
    else p :: setParam ps name value

/-! ### SIP URI -/

structure SIPURI where
  scheme : Bytes
  user : Bytes := []
  password : Bytes := []
  host : Bytes := []
  port : Int := 0
  params : List KeyValue := []
  headers : List KeyValue := []
  deriving Repr, DecidableEq

/-- `parseUriParameters`: every `;`-separated piece is a parameter; a piece without `=` has the
empty value. -/
def parseUriParameters (s : Bytes) : List KeyValue := (split 59 s).map parseKV

/-- `parseUriHeader`: stops (error ignored by the caller) at the first piece without `=`. -/
def parseUriHeaderList : List Bytes → List KeyValue
  | [] => []
  | p :: ps =>
    match cut 61 p with
    | none => []
    | some (k, v) => { key := k, value := v } :: parseUriHeaderList ps

def parseUriHeader (s : Bytes) : List KeyValue := parseUriHeaderList (split 38 s)

/-- `parseHostPort`: the Atoi error is ignored (port 0). -/
def parseHostPort (s : Bytes) : Bytes × Int :=
  match cut 58 s with
  | none => (s, 0)
  | some (h, p) => (h, (atoi p).getD 0)

def parseUserInfo (s : Bytes) : Bytes × Bytes :=
  match cut 58 s with
  | none => (s, [])
  | some (u, p) => (u, p)

def sipPrefix : Bytes := str "sip:"
def sipsPrefix : Bytes := str "sips:"

def parseSipURI (uri : Bytes) : Option SIPURI :=
  let start : Option (Bytes × Bytes) :=
    if hasPrefix sipPrefix uri then some (str "sip", uri.drop 4)
    else if hasPrefix sipsPrefix uri then some (str "sips", uri.drop 5)
    else none
  match start with
  | none => none
  | some (scheme, s0) =>
    let (s1, headers) :=
      match cut 63 s0 with
      | none => (s0, [])
      | some (l, r) => (l, parseUriHeader r)
    let (s2, params) :=
      match cut 59 s1 with
      | none => (s1, [])
      | some (l, r) => (l, parseUriParameters r)
    match cut 64 s2 with
    | some (ui, hp) =>
      let (u, pw) := parseUserInfo ui
      let (h, p) := parseHostPort hp
      some { scheme := scheme, user := u, password := pw, host := h, port := p,
             params := params, headers := headers }
    | none =>
      let (h, p) := parseHostPort s2
      some { scheme := scheme, host := h, port := p, params := params, headers := headers }

def encodeUriParams : List KeyValue → Bytes
  | [] => []
  | p :: ps => [59] ++ p.encode ++ encodeUriParams ps

def encodeUriHeaders : Bool → List KeyValue → Bytes
  | _, [] => []
  | first, h :: hs =>
    (if first then [63] else [38]) ++ h.key ++ [61] ++ h.value ++ encodeUriHeaders false hs

/-- `SIPURI._Write(withParams, withHeaders)`. -/
def SIPURI.write (u : SIPURI) (withParams withHeaders : Bool) : Bytes :=
  u.scheme ++ [58]
  ++ (if u.user.length > 0 then
        (if u.password.length > 0 then u.user ++ [58] ++ u.password ++ [64] else u.user ++ [64])
      else [])
  ++ (if u.port != 0 then u.host ++ [58] ++ itoa u.port else u.host)
  ++ (if withParams then encodeUriParams u.params else [])
  ++ (if withHeaders then encodeUriHeaders true u.headers else [])

def SIPURI.encode (u : SIPURI) : Bytes := u.write true true

def SIPURI.getTransport (u : SIPURI) : Bytes := (getParam u.params (str "transport")).getD (str "udp")

def SIPURI.getPort (u : SIPURI) : Int :=
  if u.port != 0 then u.port
  else if u.getTransport == str "tls" then 5061 else 5060

/-! ### addr-spec, name-addr -/

inductive AddrSpec where
  | sip (u : SIPURI)
  | abs (s : Bytes)
  deriving Repr, DecidableEq

def parseAddrSpec (s : Bytes) : Option AddrSpec :=
  if hasPrefix sipPrefix s || hasPrefix sipsPrefix s then (parseSipURI s).map AddrSpec.sip
  else some (AddrSpec.abs s)

def AddrSpec.encode : AddrSpec → Bytes
  | .sip u => u.encode
  | .abs s => s

def AddrSpec.sipURI? : AddrSpec → Option SIPURI
  | .sip u => some u
  | .abs _ => none

structure NameAddr where
  display : Bytes
  addr : AddrSpec
  deriving Repr, DecidableEq

/-- `ParseNameAddr`: first `<`, first `>`, error unless both exist and `<` comes first. -/
def parseNameAddr (s : Bytes) : Option NameAddr :=
  match cut 60 s, cut 62 s with
  | some (disp, afterLt), some (beforeGt, _) =>
    -- pos2 < pos1  ⇔  the first '>' lies inside `disp`
    if beforeGt.length < disp.length then none
    else
      match cut 62 afterLt with
      | none => none
      | some (inner, _) => (parseAddrSpec inner).map fun a => { display := disp, addr := a }
  | _, _ => none

def NameAddr.encode (na : NameAddr) : Bytes := na.display ++ [60] ++ na.addr.encode ++ [62]

/-! ### Via -/

structure ViaParam where
  protoName : Bytes
  protoVersion : Bytes
  transport : Bytes
  host : Bytes
  port : Int
  params : List KeyValue
  deriving Repr, DecidableEq

def ViaParam.getPort (vp : ViaParam) : Int :=
  if vp.port != 0 then vp.port
  else if vp.transport == str "TLS" then 5061 else 5060

def encodeSemiParams : List KeyValue → Bytes
  | [] => []
  | p :: ps => [59] ++ p.encode ++ encodeSemiParams ps

/-- `ViaParam.String`: the port is printed only when one was given. -/
def ViaParam.encode (vp : ViaParam) : Bytes :=
  vp.protoName ++ [47] ++ vp.protoVersion ++ [47] ++ vp.transport ++ [32]
  ++ (if vp.port != 0 then vp.host ++ [58] ++ itoa vp.port else vp.host)
  ++ encodeSemiParams vp.params

def ViaParam.getSentBy (vp : ViaParam) : Bytes := vp.host ++ [58] ++ itoa vp.getPort

def parseViaParam (s : Bytes) : Option ViaParam :=
  match split 59 s with
  | [] => none
  | t0 :: ts =>
    match fields t0 with
    | [sp, sb] =>
      match split 47 sp with
      | [pn, pv, tr] =>
        let ps := ts.map parseKV
        match split 58 sb with
        | [h] => some { protoName := pn, protoVersion := pv, transport := tr, host := h, port := 0, params := ps }
        | [h, p] =>
          match atoi p with
          | none => none
          | some n => some { protoName := pn, protoVersion := pv, transport := tr, host := h, port := n, params := ps }
        | _ => none
      | _ => none
    | _ => none

def mapM? {α β : Type} (f : α → Option β) : List α → Option (List β)
  | [] => some []
  | a :: as =>
    match f a with
    | none => none
    | some b =>
      match mapM? f as with
      | none => none
      | some bs => some (b :: bs)

def parseVia (s : Bytes) : Option (List ViaParam) := mapM? parseViaParam (split 44 s)

def encodeCommaList {α : Type} (enc : α → Bytes) : List α → Bytes
  | [] => []
  | [a] => enc a
  | a :: b :: rest => enc a ++ [44] ++ encodeCommaList enc (b :: rest)

def encodeVia (v : List ViaParam) : Bytes := encodeCommaList ViaParam.encode v

/-! ### Route / Record-Route (same element syntax) -/

structure RouteParam where
  nameAddr : NameAddr
  params : List KeyValue
  deriving Repr, DecidableEq

/-- `parseRouteParam` / `ParseRecRoute`. -/
def parseRouteParam (s : Bytes) : Option RouteParam :=
  match cut 62 s with
  | none => none
  | some (before, after) =>
    match parseNameAddr (before ++ [62]) with
    | none => none
    | some na =>
      let rest := trimSpace after
      match rest with
      | [] => some { nameAddr := na, params := [] }
      | c :: ps =>
        if c != 59 then none
        else (mapM? parseGenericParam (split 59 ps)).map fun l => { nameAddr := na, params := l }

def parseRoute (s : Bytes) : Option (List RouteParam) := mapM? parseRouteParam (split 44 s)

def RouteParam.encode (r : RouteParam) : Bytes := r.nameAddr.encode ++ encodeSemiParams r.params

def encodeRoute (r : List RouteParam) : Bytes := encodeCommaList RouteParam.encode r

/-! ### From / To -/

structure FromTo where
  nameAddr : Option NameAddr
  addrSpec : Option AddrSpec
  params : List KeyValue
  /-- the value as received; written back literally (from_spec.go / to.go `text`; the proxy never modifies
  a decoded From or To) -/
  text : Bytes := []
  deriving Repr, DecidableEq

def parseFromToParams (params : Bytes) : Option (List KeyValue) :=
  if params.length = 0 then some [] else mapM? parseGenericParam (split 59 params)

/-- `ParseFromSpec` / `ParseTo`: the structure the text denotes. -/
def parseFromToCore (s : Bytes) : Option FromTo :=
  match cut 60 s with
  | some (disp, _) =>
    -- a '<' exists: need a '>' that is not before it
    match cut 62 s with
    | none => none
    | some (beforeGt, afterGt) =>
      if beforeGt.length < disp.length then none
      else
        match parseNameAddr (beforeGt ++ [62]) with
        | none => none
        | some na =>
          let params := match cut 59 afterGt with
            | none => []
            | some (_, p) => p
          (parseFromToParams params).map fun ps => { nameAddr := some na, addrSpec := none, params := ps }
  | none =>
    match cut 59 s with
    | none => (parseAddrSpec s).map fun a => { nameAddr := none, addrSpec := some a, params := [] }
    | some (a, params) =>
      match parseAddrSpec a with
      | none => none
      | some as => (parseFromToParams params).map fun ps => { nameAddr := none, addrSpec := some as, params := ps }

/-- `ParseFromSpec` / `ParseTo`: the decoded structure together with the text it was decoded from. -/
def parseFromTo (s : Bytes) : Option FromTo :=
  (parseFromToCore s).map fun f => { f with text := s }

/-- the structure printed: name-addr or addr-spec, then the parameters -/
def FromTo.encodeCore (f : FromTo) : Bytes :=
  (match f.nameAddr, f.addrSpec with
   | some na, _ => na.encode
   | none, some a => a.encode
   | none, none => [])
  ++ encodeSemiParams f.params

/-- `String()`: the received text when there is one -/
def FromTo.encode (f : FromTo) : Bytes :=
  if f.text ≠ [] then f.text else f.encodeCore

def FromTo.getAddrSpec (f : FromTo) : Option AddrSpec :=
  match f.nameAddr, f.addrSpec with
  | some na, _ => some na.addr
  | none, some a => some a
  | none, none => none

def FromTo.getTag (f : FromTo) : Option Bytes := getParam f.params (str "tag")

/-! ### CSeq -/

structure CSeq where
  seq : Int
  method : Bytes
  /-- the header value as received; re-encoded literally (cseq.go `text`) -/
  text : Bytes := []
  deriving Repr, DecidableEq

def parseCSeq (s : Bytes) : Option CSeq :=
  match fields s with
  | [n, m] => (atoi n).map fun i => { seq := i, method := m, text := s }
  | _ => none

def CSeq.encode (c : CSeq) : Bytes :=
  if c.text ≠ [] then c.text else itoa c.seq ++ [32] ++ c.method

end Sip
