/-
C11 — TCP framing depends on the bytes, not on how the stream is segmented.

"The sequence of messages the proxy extracts from a TCP byte stream depends only on the bytes, not
on their segmentation: for any concatenation of well-formed messages (bodies delimited by
Content-Length, optional blank-line keep-alives between messages, header lines of any length) and
any split of those bytes across packets, exactly those messages are processed, in order, each with
its exact headers and body."

Model: Reader.Frame (`connLoop`, `connLoopSegments`, `joinFragments`) over Sip.parseMessage.
"Well-formed message" is `Lemmas.WF` (Lemmas/Message.lean): start line parses, is non-empty, free
of CR/LF and does not begin with white space; header names free of ':' CR LF; header values free
of CR LF and trimmed; the FIRST Content-Length-class header declares exactly the body length
(≤ int64). Line ends are CRLF or bare LF, chosen per message. Header lines of any length: the
model's `readLine` is bufio.ReadLine joined over its fragments; that the join is the
concatenation of the fragments is `C11_fragments_joined` below and rests on the regenerated fact
F8 (the first fragment is copied before the next reader call), without which it is false
(`C11_fragments_uncopied_corrupt`).
-/
import Reader.Frame
import Lemmas.Message
import Lemmas.Frame
import Lemmas.Bufio
open GoStd Sip Reader Lemmas

namespace Props.C11

/-- one message as it stands in the stream: `keep` keep-alive CRLFs, then the rendered message -/
structure Wire where
  keep : Nat
  eol : Bytes
  start : Bytes
  sl : StartLine
  hs : List (Bytes × Bytes)
  body : Bytes

def Wire.bytes (w : Wire) : Bytes := keepAlives w.keep ++ render w.eol w.start w.hs w.body

/-- the message the proxy must process for `w`: exact start line, headers (values still strings,
in order) and body -/
def Wire.msg (w : Wire) : Message := ⟨w.sl, w.hs.map toHeader, w.body⟩

def Wire.OK (cm : List (Bytes × Bytes)) (w : Wire) : Prop :=
  EolOK w.eol ∧ WF cm w.start w.sl w.hs w.body

/-- the byte stream: the messages one after another, `trail` keep-alive CRLFs at the end -/
def stream (ws : List Wire) (trail : Nat) : Bytes := (ws.map Wire.bytes).flatten ++ keepAlives trail

/-- The loop processes a run of well-formed messages one by one and then continues on whatever
follows them (`tail` is arbitrary: more messages, garbage, nothing). -/
theorem C11_messages_then (cm : List (Bytes × Bytes)) (ws : List Wire) (hok : ∀ w ∈ ws, w.OK cm)
    (tail : Bytes) :
    connLoop cm ((ws.map Wire.bytes).flatten ++ tail) = ws.map Wire.msg ++ connLoop cm tail := by
  induction ws with
  | nil => simp
  | cons w ws ih =>
    obtain ⟨heol, hwf⟩ := hok w (by simp)
    have hshape : ((w :: ws).map Wire.bytes).flatten ++ tail
        = keepAlives w.keep ++ (render w.eol w.start w.hs w.body
            ++ ((ws.map Wire.bytes).flatten ++ tail)) := by
      simp [Wire.bytes, List.append_assoc]
    have hparse := parse_render_keepAlive cm w.eol w.start w.sl w.hs w.body heol hwf w.keep
      ((ws.map Wire.bytes).flatten ++ tail)
    rw [hshape, connLoop_ok cm _ _ _ hparse, ih (fun x hx => hok x (by simp [hx]))]
    rfl

/-- **Exactly those messages, in order.** For any list of well-formed messages, each preceded by
any number of keep-alive CRLFs (and any number after the last one), the connection loop processes
exactly their `Message` values, in order: each start line, each header with its exact value and
each body exactly as sent; nothing is skipped, merged, split or invented. (The fuel of
`connLoopAux` is discharged once and for all in `Lemmas.connLoop_ok`.) -/
theorem C11_exact_messages (cm : List (Bytes × Bytes)) (ws : List Wire) (hok : ∀ w ∈ ws, w.OK cm)
    (trail : Nat) : connLoop cm (stream ws trail) = ws.map Wire.msg := by
  rw [stream, C11_messages_then cm ws hok,
    connLoop_error cm _ (parseMessage_white cm _ (keepAlives_white trail)), List.append_nil]

/-- **Only the bytes matter.** Two segmentations of the same bytes yield the same messages. -/
theorem C11_segmentation_independent (cm : List (Bytes × Bytes)) (segs segs' : List Bytes)
    (h : segs.flatten = segs'.flatten) : connLoopSegments cm segs = connLoopSegments cm segs' := by
  simp only [connLoopSegments, h]

/-- the two together: however the stream of well-formed messages is cut into packets, exactly
those messages are processed, in order -/
theorem C11_any_split_exact (cm : List (Bytes × Bytes)) (ws : List Wire) (hok : ∀ w ∈ ws, w.OK cm)
    (trail : Nat) (segs : List Bytes) (h : segs.flatten = stream ws trail) :
    connLoopSegments cm segs = ws.map Wire.msg := by
  simp only [connLoopSegments, h, C11_exact_messages cm ws hok trail]

/-- Over-long lines: with the first fragment copied (F8) the joined line is the concatenation of
the fragments ReadLine delivered, whatever the reader does to its buffer afterwards. -/
theorem C11_fragments_joined (σ : Bytes → Bytes) (frags : List Bytes) :
    joinFragments true σ frags = frags.flatten := by
  match frags with
  | [] => rfl
  | [f] => simp [joinFragments]
  | f :: g :: rest => simp [joinFragments]

/-- Without the copy a two-fragment line IS corrupted by a reader that overwrites its buffer
(here: flips the low bit of every byte of the first fragment). -/
theorem C11_fragments_uncopied_corrupt :
    joinFragments false (fun f => f.map (· ^^^ 1)) [[86, 105], [97]] ≠ [[86, 105], [97]].flatten := by
  decide

/-- a line that fits one fragment is never affected -/
theorem C11_single_fragment (c : Bool) (σ : Bytes → Bytes) (f : Bytes) :
    joinFragments c σ [f] = f := rfl

/-! ### the same over the OPERATIONAL `bufio.Reader` (Reader/Bufio.lean)

`connLoopSegments` above is "bufio at its contract": the segments are concatenated by definition.
The theorems below discharge that contract. `Reader.Bufio` models the reader as the state machine
it is (buffer of capacity `N`, one Read of the connection per `fill`, `ReadSlice` / `ReadLine`
with `ErrBufferFull` fragments and the put-back of a trailing CR, `ReadByte` / `UnreadByte`,
`Read` under `io.CopyN`) and message.go's `readLine` join loop, `skipWhiteSpace` and
`ParseMessage` on top of it. For EVERY buffer size `N ≥ 2` (bufio's minimum is 16; the TCP
transport uses 4096) and EVERY way the connection cuts the stream into Reads, the messages
extracted are those of the logical stream. -/

/-- a fresh reader on a connection that will deliver `segs`, Read by Read -/
def fresh (segs : List Bytes) : Bufio.BR := ⟨[], segs⟩

/-- the real loop: the operational reader over a segmented stream, with the fuel the stream allows -/
def bufioLoop (N : Nat) (cm : List (Bytes × Bytes)) (segs : List Bytes) : List Message :=
  Bufio.connLoop N cm ((fresh segs).size + 1) (fresh segs)

/-- **The contract, proved**: the operational reader extracts what the logical model extracts from
the concatenation, for every segmentation and every buffer size. -/
theorem C11_bufio_refines (N : Nat) (hN : 2 ≤ N) (cm : List (Bytes × Bytes)) (segs : List Bytes) :
    bufioLoop N cm segs = connLoopSegments cm segs := by
  unfold bufioLoop connLoopSegments connLoop
  rw [Lemmas.Bufio.connLoop_spec N hN cm _ (fresh segs) (by simp [Lemmas.Bufio.Inv, fresh])]
  simp [fresh, Bufio.BR.size, Bufio.BR.logical]

/-- **Only the bytes matter**, now about the reader's real mechanics: two segmentations of the
same bytes, read through buffers of two (possibly different) sizes, yield the same messages. -/
theorem C11_bufio_segmentation_independent (N N' : Nat) (hN : 2 ≤ N) (hN' : 2 ≤ N')
    (cm : List (Bytes × Bytes)) (segs segs' : List Bytes) (h : segs.flatten = segs'.flatten) :
    bufioLoop N cm segs = bufioLoop N' cm segs' := by
  rw [C11_bufio_refines N hN, C11_bufio_refines N' hN', C11_segmentation_independent cm segs segs' h]

/-- **Exactly those messages, in order, however the stream is cut into packets and whatever the
size of the reader's buffer** - header lines longer than the buffer included (`Wire.OK` puts no
bound on any length). -/
theorem C11_bufio_any_split_exact (N : Nat) (hN : 2 ≤ N) (cm : List (Bytes × Bytes)) (ws : List Wire)
    (hok : ∀ w ∈ ws, w.OK cm) (trail : Nat) (segs : List Bytes) (h : segs.flatten = stream ws trail) :
    bufioLoop N cm segs = ws.map Wire.msg := by
  rw [C11_bufio_refines N hN, C11_any_split_exact cm ws hok trail segs h]

/-- **Header lines of any length**: message.go's `readLine` over the operational reader returns a
CR/LF-free line of ANY length exactly, whatever fragments `ReadLine` cut it into (line longer than
the buffer, CR LF straddling two fragments, segment boundaries anywhere), and leaves the reader
standing exactly behind the line end. -/
theorem C11_bufio_readLine_any_length (N : Nat) (hN : 2 ≤ N) (eol line more : Bytes) (heol : EolOK eol)
    (hcr : (13 : UInt8) ∉ line) (hlf : (10 : UInt8) ∉ line) (segs : List Bytes)
    (h : segs.flatten = line ++ eol ++ more) :
    ∃ b', Bufio.readLine N (fresh segs) = some (line, b') ∧ b'.logical = more := by
  have hlog : (fresh segs).logical = line ++ eol ++ more := by simp [fresh, Bufio.BR.logical, h]
  have hmem : (10 : UInt8) ∈ (fresh segs).logical := by
    rw [hlog]
    rcases heol with rfl | rfl <;> simp
  obtain ⟨l, b', hr, hfl, _⟩ := Lemmas.Bufio.readLine_lf N hN (fresh segs)
    (by simp [Lemmas.Bufio.Inv, fresh]) hmem
  rw [hlog, readLine_eol eol line more heol hcr hlf] at hfl
  simp only [Option.some.injEq, Prod.mk.injEq] at hfl
  obtain ⟨rfl, hm⟩ := hfl
  exact ⟨b', hr, hm.symm⟩

/-- the UDP parse step builds its reader over the datagram's `n` bytes with a buffer of `n` bytes
(bufio raises that to 16): same result as the logical model -/
theorem C11_bufio_udp (cm : List (Bytes × Bytes)) (buf : Bytes) (n : Nat) :
    (Bufio.parseMessage (max n 16) cm (fresh [buf.take n])).map (·.1) = udpParse cm buf n := by
  obtain ⟨h1, _⟩ := Lemmas.Bufio.parseMessage_spec (max n 16) (by omega) cm (fresh [buf.take n])
    (by simp [Lemmas.Bufio.Inv, fresh])
  have hlog : (fresh [buf.take n]).logical = buf.take n := by simp [fresh, Bufio.BR.logical]
  rw [hlog] at h1
  unfold udpParse
  cases hp : Bufio.parseMessage (max n 16) cm (fresh [buf.take n]) with
  | none =>
    rw [hp] at h1
    cases hf : Sip.parseMessage cm (buf.take n) with
    | error => rfl
    | ok m rest => rw [hf] at h1; simp [Lemmas.Bufio.flatResult] at h1
  | some r =>
    rw [hp] at h1
    cases hf : Sip.parseMessage cm (buf.take n) with
    | error => rw [hf] at h1; simp [Lemmas.Bufio.flatResult] at h1
    | ok m rest =>
      rw [hf] at h1
      simp only [Option.map_some, Lemmas.Bufio.flatResult, Option.some.injEq, Prod.mk.injEq] at h1
      simp [h1.1]

/-- non-vacuity of the operational model: a 16-byte reader, the stream cut into Reads of 1, 2 and
19 bytes, a 15-byte line whose CR is the buffer's 16th byte and whose LF comes with the next Read:
the CR is put back, the second fragment is the bare CR LF, one line comes out. -/
example :
    (Bufio.readLine 16 (fresh [[65], [66, 67], [68, 69, 70, 71, 72, 73, 74, 75, 76, 77, 78, 79, 13, 10, 88, 89, 90, 48, 49]])).map
      (fun x => (x.1, x.2.logical))
    = some ([65, 66, 67, 68, 69, 70, 71, 72, 73, 74, 75, 76, 77, 78, 79], [88, 89, 90, 48, 49]) := by
  decide

/-! ### non-vacuity -/

/-- a response with two keep-alives in front and CRLF line ends, for any compact table -/
def exampleWire : Wire :=
  { keep := 2, eol := [13, 10],
    start := [83, 73, 80, 47, 50, 46, 48, 32, 50, 48, 48, 32, 79, 75],
    sl := .status [83, 73, 80, 47, 50, 46, 48] 200 [79, 75],
    hs := [(contentLengthName, [50])], body := [104, 105] }

theorem exampleWire_ok (cm : List (Bytes × Bytes)) : exampleWire.OK cm :=
  ⟨Or.inl rfl, wf_example_status cm⟩

/-- the same message with bare-LF line ends and no keep-alive -/
def exampleWireLF : Wire := { exampleWire with keep := 0, eol := [10] }

theorem exampleWireLF_ok (cm : List (Bytes × Bytes)) : exampleWireLF.OK cm :=
  ⟨Or.inr rfl, wf_example_status cm⟩

example (cm : List (Bytes × Bytes)) :
    connLoop cm (stream [exampleWire, exampleWireLF, exampleWire] 1)
      = [exampleWire.msg, exampleWireLF.msg, exampleWire.msg] :=
  C11_exact_messages cm [exampleWire, exampleWireLF, exampleWire] (by
    intro w hw
    simp only [List.mem_cons, List.not_mem_nil, or_false] at hw
    rcases hw with rfl | rfl | rfl
    · exact exampleWire_ok cm
    · exact exampleWireLF_ok cm
    · exact exampleWire_ok cm) 1

/-- the bytes of that stream cut at two arbitrary places (inside a header line, inside a body) -/
example (cm : List (Bytes × Bytes)) :
    connLoopSegments cm
        [(stream [exampleWire, exampleWireLF] 0).take 9,
         ((stream [exampleWire, exampleWireLF] 0).drop 9).take 30,
         ((stream [exampleWire, exampleWireLF] 0).drop 9).drop 30]
      = [exampleWire.msg, exampleWireLF.msg] :=
  C11_any_split_exact cm [exampleWire, exampleWireLF] (by
    intro w hw
    simp only [List.mem_cons, List.not_mem_nil, or_false] at hw
    rcases hw with rfl | rfl
    · exact exampleWire_ok cm
    · exact exampleWireLF_ok cm) 0 _ (by
      simp only [List.flatten_cons, List.flatten_nil, List.append_nil, List.take_append_drop])

end Props.C11
