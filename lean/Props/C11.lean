import GoStd.Bytes
namespace Props.C11
end Props.C11
