/-
C18 — Static route lookup has fixed precedence and a stable answer.

"For a destination host the configured static routes are consulted with fixed precedence: an
entry whose pattern equals the host literally wins; otherwise an entry whose pattern matches when
'*' stands for any character sequence and '.' only for itself; otherwise the `default` entry;
otherwise the host is not statically routable. The answer is the same every time the same host
is looked up, and a next hop written `host:port` yields that port, or 5060 (5061 for tls) when
the port is omitted."

Model: Side.StaticRoute (preconfig_route.go). Stability: `findRoute` is a function of the table
in configuration order; that the code scans in that order and no longer ranges over a map is the
regenerated fact F7 (Expected.Facts.findRoute_no_map_range) plus the 50-fold repetition in stream
`route`. `glob` stands for Go's regexp on the escaped pattern (assumption, DESIGN section 8).
-/
import Side.StaticRoute
import Spec.Side
import Lemmas.Bytes
open GoStd Side.SR

namespace Props.C18

/-! ### what a pattern means -/

theorem mem_suffixes (h y : Bytes) : y ∈ suffixes h ↔ ∃ x, h = x ++ y := by
  induction h with
  | nil =>
    simp only [suffixes, List.mem_singleton]
    constructor
    · rintro rfl; exact ⟨[], rfl⟩
    · rintro ⟨x, hx⟩
      have := congrArg List.length hx
      simp at this
      exact List.eq_nil_of_length_eq_zero (by omega)
  | cons d ds ih =>
    simp only [suffixes, List.mem_cons, ih]
    constructor
    · rintro (rfl | ⟨x, hx⟩)
      · exact ⟨[], rfl⟩
      · exact ⟨d :: x, by simp [hx]⟩
    · rintro ⟨x, hx⟩
      cases x with
      | nil => left; simpa using hx.symm
      | cons e es =>
        right
        simp only [List.cons_append, List.cons.injEq] at hx
        exact ⟨es, hx.2⟩

/-- A pattern without '*' matches exactly itself ('.' included: every byte stands for itself). -/
theorem glob_literal (p h : Bytes) (hp : (42 : UInt8) ∉ p) : glob p h = true ↔ p = h := by
  induction p generalizing h with
  | nil => cases h <;> simp [glob]
  | cons c cs ih =>
    have hc : c ≠ 42 := fun e => hp (by simp [e])
    have hcs : (42 : UInt8) ∉ cs := fun m => hp (by simp [m])
    cases h with
    | nil => simp [glob, hc]
    | cons d ds =>
      simp only [glob, beq_iff_eq, hc, ↓reduceIte, Bool.and_eq_true, ih ds hcs, List.cons.injEq]

/-- '*' stands for any byte sequence: `* :: p` matches h iff some suffix of h matches p. -/
theorem glob_star (p h : Bytes) : glob (42 :: p) h = true ↔ ∃ x y, h = x ++ y ∧ glob p y = true := by
  simp only [glob, beq_self_eq_true, ↓reduceIte, List.any_eq_true, mem_suffixes]
  constructor
  · rintro ⟨y, ⟨x, hx⟩, hg⟩; exact ⟨x, y, hx, hg⟩
  · rintro ⟨x, y, hx, hg⟩; exact ⟨y, ⟨x, hx⟩, hg⟩

/-- A literal byte must be matched by itself. -/
theorem glob_cons (c : UInt8) (p h : Bytes) (hc : c ≠ 42) :
    glob (c :: p) h = true ↔ ∃ t, h = c :: t ∧ glob p t = true := by
  cases h with
  | nil => simp [glob, hc]
  | cons d ds =>
    simp only [glob, beq_iff_eq, hc, ↓reduceIte, Bool.and_eq_true, List.cons.injEq]
    constructor
    · rintro ⟨rfl, hg⟩; exact ⟨ds, ⟨rfl, rfl⟩, hg⟩
    · rintro ⟨t, ⟨rfl, rfl⟩, hg⟩; exact ⟨rfl, hg⟩

/-! ### precedence -/

/-- (1) An entry whose pattern equals the host literally wins. -/
theorem C18_literal_wins (t : Table) (host : Bytes) (it : Item)
    (h : t.find? (fun x => x.dest == host) = some it) : findRoute t host = some it := by
  simp [findRoute, lookupExact, h]

/-- (2) Otherwise the first entry, in configuration order, whose pattern matches. -/
theorem C18_wildcard_next (t : Table) (host : Bytes) (it : Item)
    (hno : t.find? (fun x => x.dest == host) = none)
    (h : t.find? (fun x => glob x.dest host) = some it) :
    findRoute t host = some it ∧ it ∈ t ∧ glob it.dest host = true := by
  refine ⟨by simp [findRoute, lookupExact, hno, h], List.mem_of_find?_eq_some h, ?_⟩
  simpa using List.find?_some h

/-- (3) Otherwise the `default` entry; (4) otherwise not routable. -/
theorem C18_default_last (t : Table) (host : Bytes)
    (hno : t.find? (fun x => x.dest == host) = none)
    (hnw : ∀ x ∈ t, glob x.dest host = false) :
    findRoute t host = t.find? (fun x => x.dest == str "default") := by
  have : t.find? (fun x => glob x.dest host) = none := by
    simp only [List.find?_eq_none]
    intro x hx; simp [hnw x hx]
  simp [findRoute, lookupExact, hno, this]

/-- The model satisfies the oracle that is evaluated on the implementation (Spec.routeAllowed is
written from the property text: literal, else any matching pattern, else default, else none). -/
theorem C18_precedence (t : Table) (host : Bytes) : Spec.routeAllowed t host (findRoute t host) = true := by
  unfold Spec.routeAllowed
  cases hlit : t.find? (fun x => x.dest == host) with
  | some it => simp [C18_literal_wins t host it hlit]
  | none =>
    simp only
    cases hw : t.find? (fun x => glob x.dest host) with
    | some it =>
      obtain ⟨h1, h2, h3⟩ := C18_wildcard_next t host it hlit hw
      have hmem : it ∈ t.filter (fun x => glob x.dest host) := List.mem_filter.mpr ⟨h2, h3⟩
      have hne : (t.filter (fun x => glob x.dest host)).isEmpty = false := by
        cases hf : t.filter (fun x => glob x.dest host) with
        | nil => rw [hf] at hmem; cases hmem
        | cons _ _ => rfl
      simp only [hne, Bool.not_false, ↓reduceIte, h1]
      simpa using hmem
    | none =>
      have hnw : ∀ x ∈ t, glob x.dest host = false := by
        intro x hx
        have := List.find?_eq_none.mp hw x hx
        simpa using this
      have hempty : t.filter (fun x => glob x.dest host) = [] := by
        simp only [List.filter_eq_nil_iff]
        intro x hx; simp [hnw x hx]
      rw [C18_default_last t host hlit hnw]
      simp only [hempty, List.isEmpty_nil, Bool.not_true, Bool.false_eq_true, ↓reduceIte]
      cases t.find? (fun x => x.dest == str "default") <;> simp

/-- The answer is the same every time: the lookup reads nothing but the table and the host. -/
theorem C18_deterministic (t : Table) (host : Bytes) (r₁ r₂ : Option Item)
    (h₁ : r₁ = findRoute t host) (h₂ : r₂ = findRoute t host) : r₁ = r₂ := by rw [h₁, h₂]

/-! ### next-hop strings -/

/-- `host:port` yields that port. -/
theorem C18_nexthop_with_port (proto dest h p : Bytes) (n : Int) (hp : (58 : UInt8) ∉ p) (ha : atoi p = some n) :
    newItem proto dest (h ++ 58 :: p) = some { protocol := proto, dest := dest, host := h, port := n } := by
  have hc : cutLast 58 (h ++ 58 :: p) = some (h, p) := by
    induction h with
    | nil =>
      have : cutLast 58 p = none := by
        clear ha
        induction p with
        | nil => rfl
        | cons b bs ih =>
          have hb : b ≠ 58 := fun e => hp (by simp [e])
          have := ih (fun m => hp (by simp [m]))
          simp [cutLast, this, hb]
      simp [cutLast, this]
    | cons b bs ih => simp [cutLast, ih]
  simp [newItem, hc, ha]

/-- Without a port: 5060, or 5061 when the protocol is tls (any letter case). -/
theorem C18_nexthop_default_port (proto dest h : Bytes) (hh : (58 : UInt8) ∉ h) :
    newItem proto dest h = some { protocol := proto, dest := dest, host := h,
                                  port := if equalFold (str "tls") proto then 5061 else 5060 } := by
  have : cutLast 58 h = none := by
    induction h with
    | nil => rfl
    | cons b bs ih =>
      have hb : b ≠ 58 := fun e => hh (by simp [e])
      have := ih (fun m => hh (by simp [m]))
      simp [cutLast, this, hb]
  simp [newItem, this]

/-! ### non-vacuity -/
example : glob [42, 46, 97] [120, 46, 97] = true ∧ glob [42, 46, 97] [120, 88, 97] = false := by decide

end Props.C18
