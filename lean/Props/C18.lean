import GoStd.Bytes
namespace Props.C18
end Props.C18
