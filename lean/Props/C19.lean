import GoStd.Bytes
namespace Props.C19
end Props.C19
