/-
C19 — The backend rotation follows name resolution, with bounded failure tolerance.

"For a backend given by host name the set of backends in rotation tracks name resolution: after
each successful resolution the rotation contains exactly the resolved addresses (new ones added,
vanished ones removed and closed); up to three consecutive resolution failures leave the set
untouched and the fourth empties it. Every addition and removal is also reflected in which source
addresses the proxy recognises as its backends when attributing responses."

Model: Side.Resolver (resolver.go addressResolved, backend.go hostIPChanged, proxy.go index
update), composed synchronously — the property grants quiescence between steps; the relative
order of notification goroutines without quiescence is not modelled (partial).
Domain: duplicate-free resolutions of ':'-free (IPv4) addresses, one host name per rotation.
-/
import Side.Resolver
import Props.C05
open GoStd Side.Res

namespace Props.C19

open Props.C05 (WF wf_add wf_remove)

theorem worldStep_fail (port : Bytes) (w : World) :
    worldStep port w .fail =
      if w.entry.failed + 1 > failLimit ∧ w.entry.addrs.length > 0
      then { entry := { addrs := [], failed := 0 }, rot := applyChange w.rot port [] w.entry.addrs }
      else { w with entry := { w.entry with failed := w.entry.failed + 1 } } := by
  unfold worldStep step
  by_cases hc : w.entry.failed + 1 > failLimit ∧ w.entry.addrs.length > 0
  · simp [hc.1, hc.2]
  · have : ¬ ((decide (w.entry.failed + 1 > failLimit) && decide (w.entry.addrs.length > 0)) = true) := by
      simpa using hc
    simp [this, hc]

theorem worldStep_ok (port : Bytes) (w : World) (S : List Addr) :
    worldStep port w (.ok S) =
      if (sub S w.entry.addrs).length > 0 ∨ (sub w.entry.addrs S).length > 0
      then { entry := { addrs := S, failed := 0 }, rot := applyChange w.rot port (sub S w.entry.addrs) (sub w.entry.addrs S) }
      else { w with entry := { addrs := S, failed := 0 } } := by
  unfold worldStep step
  by_cases hc : (sub S w.entry.addrs).length > 0 ∨ (sub w.entry.addrs S).length > 0
  · have : (decide ((sub S w.entry.addrs).length > 0) || decide ((sub w.entry.addrs S).length > 0)) = true := by
      simpa using hc
    simp [this, hc]
  · have : ¬ ((decide ((sub S w.entry.addrs).length > 0) || decide ((sub w.entry.addrs S).length > 0)) = true) := by
      simpa using hc
    simp [this, hc]

/-- rotation, list/map agreement and the proxy's index agree -/
def RotInv (r : Rot) : Prop :=
  WF r.rr ∧ r.index.Nodup ∧ ∀ a, a ∈ r.index ↔ a ∈ r.rr.backends

theorem rotInv_init : RotInv {} := by
  refine ⟨Props.C05.wf_init, by simp, by simp⟩

theorem rot_add_inv (r : Rot) (a : Addr) (h : RotInv r) (ha : a ∉ r.rr.backends) : RotInv (r.add a) := by
  obtain ⟨hwf, hnd, hix⟩ := h
  have hai : a ∉ r.index := fun m => ha ((hix a).mp m)
  have hc : r.index.contains a = false := by simpa using hai
  refine ⟨wf_add r.rr a hwf ha, ?_, ?_⟩
  · simp only [Rot.add, hc]
    exact List.nodup_append.mpr ⟨hnd, by simp, by intro x hx y hy; simp at hy; subst hy; exact fun e => hai (e ▸ hx)⟩
  · intro x
    simp only [Rot.add, hc, Side.RR.add, Bool.false_eq_true, ↓reduceIte, List.mem_append, List.mem_singleton, hix x]

theorem rot_add_mem (r : Rot) (a b : Addr) : b ∈ (r.add a).rr.backends ↔ b ∈ r.rr.backends ∨ b = a := by
  simp [Rot.add, Side.RR.add]

theorem rot_remove_inv (r : Rot) (a : Addr) (h : RotInv r) : RotInv (r.remove a) := by
  obtain ⟨hwf, hnd, hix⟩ := h
  refine ⟨wf_remove r.rr a hwf, ?_, ?_⟩
  · simp only [Rot.remove]; split
    · exact hnd.erase a
    · exact hnd
  · intro x
    by_cases hk : r.rr.keys.contains a = true
    · simp only [Rot.remove, Side.RR.remove, hk, ↓reduceIte]
      by_cases hx : x = a
      · subst hx
        exact ⟨fun m => absurd m hnd.not_mem_erase, fun m => absurd m hwf.1.not_mem_erase⟩
      · rw [List.mem_erase_of_ne hx, List.mem_erase_of_ne hx]; exact hix x
    · simp only [Rot.remove, Side.RR.remove, hk]
      simpa using hix x

theorem rot_remove_mem (r : Rot) (a b : Addr) (h : RotInv r) :
    b ∈ (r.remove a).rr.backends ↔ b ∈ r.rr.backends ∧ b ≠ a := by
  obtain ⟨hwf, _, _⟩ := h
  obtain ⟨hgone, hrest⟩ := Props.C05.C05_removed_gone r.rr a hwf
  simp only [Rot.remove]
  by_cases hb : b = a
  · subst hb; simp [hgone]
  · simp [hrest b hb, hb]

/-- adding a duplicate-free list of addresses none of which is registered -/
theorem foldl_add (l : List Addr) (r : Rot) (h : RotInv r) (hnd : l.Nodup) (hdis : ∀ a ∈ l, a ∉ r.rr.backends) :
    RotInv (l.foldl Rot.add r) ∧ ∀ b, b ∈ (l.foldl Rot.add r).rr.backends ↔ b ∈ r.rr.backends ∨ b ∈ l := by
  induction l generalizing r with
  | nil => simp [h]
  | cons a l ih =>
    simp only [List.foldl_cons]
    have hnd' := List.nodup_cons.mp hnd
    have hr' := rot_add_inv r a h (hdis a (by simp))
    have hdis' : ∀ x ∈ l, x ∉ (r.add a).rr.backends := by
      intro x hx hm
      rcases (rot_add_mem r a x).mp hm with hm | rfl
      · exact hdis x (by simp [hx]) hm
      · exact hnd'.1 hx
    obtain ⟨i1, i2⟩ := ih (r.add a) hr' hnd'.2 hdis'
    refine ⟨i1, ?_⟩
    intro b
    rw [i2 b, rot_add_mem]
    simp only [List.mem_cons]
    tauto

theorem foldl_remove (l : List Addr) (r : Rot) (h : RotInv r) :
    RotInv (l.foldl Rot.remove r) ∧ ∀ b, b ∈ (l.foldl Rot.remove r).rr.backends ↔ b ∈ r.rr.backends ∧ b ∉ l := by
  induction l generalizing r with
  | nil => simp [h]
  | cons a l ih =>
    simp only [List.foldl_cons]
    obtain ⟨i1, i2⟩ := ih (r.remove a) (rot_remove_inv r a h)
    refine ⟨i1, ?_⟩
    intro b
    rw [i2 b, rot_remove_mem r a b h]
    simp only [List.mem_cons, not_or]
    tauto

/-- `ip:port` for ':'-free addresses; injective in the address -/
theorem hostPort_v4 (ip port : Bytes) (h : (58 : UInt8) ∉ ip) : hostPort ip port = ip ++ 58 :: port := by
  have : contains 58 ip = false := by
    simp only [contains, List.any_eq_false, beq_iff_eq]
    intro x hx e; exact h (e ▸ hx)
  simp [hostPort, this]

theorem hostPort_inj (a b port : Bytes) (ha : (58 : UInt8) ∉ a) (hb : (58 : UInt8) ∉ b)
    (h : hostPort a port = hostPort b port) : a = b := by
  rw [hostPort_v4 a port ha, hostPort_v4 b port hb] at h
  exact List.append_cancel_right h

def V4 (l : List Addr) : Prop := ∀ ip ∈ l, (58 : UInt8) ∉ ip

/-- the world invariant: the rotation holds exactly the entry's addresses -/
def Sync (port : Bytes) (w : World) : Prop :=
  RotInv w.rot ∧ w.entry.addrs.Nodup ∧ V4 w.entry.addrs ∧
  ∀ a, a ∈ w.rot.rr.backends ↔ ∃ ip ∈ w.entry.addrs, a = hostPort ip port

theorem sync_init (port : Bytes) : Sync port {} := by
  refine ⟨rotInv_init, by simp, by simp [V4], by simp⟩

theorem mem_sub (a1 a2 : List Addr) (x : Addr) : x ∈ sub a1 a2 ↔ x ∈ a1 ∧ x ∉ a2 := by
  simp [sub]

/-- **Tracks.** After a successful resolution with a duplicate-free set S the rotation (and the
proxy's address index) contains exactly S's addresses; and the invariant is kept. -/
theorem C19_tracks (port : Bytes) (w : World) (S : List Addr) (h : Sync port w) (hS : S.Nodup) (hv : V4 S) :
    Sync port (worldStep port w (.ok S)) ∧ (worldStep port w (.ok S)).entry.addrs = S ∧
    (∀ a, a ∈ (worldStep port w (.ok S)).rot.rr.backends ↔ ∃ ip ∈ S, a = hostPort ip port) ∧
    (∀ a, a ∈ (worldStep port w (.ok S)).rot.index ↔ ∃ ip ∈ S, a = hostPort ip port) := by
  obtain ⟨hri, hnd, hv4, hmem⟩ := h
  -- membership after applying the change
  have hchange : RotInv (applyChange w.rot port (sub S w.entry.addrs) (sub w.entry.addrs S)) ∧
      ∀ a, a ∈ (applyChange w.rot port (sub S w.entry.addrs) (sub w.entry.addrs S)).rr.backends ↔ ∃ ip ∈ S, a = hostPort ip port := by
    have hnewnd : ((sub S w.entry.addrs).map (hostPort · port)).Nodup := by
      apply List.Nodup.map_on
      · intro x hx y hy hxy
        exact hostPort_inj x y port (hv x ((mem_sub _ _ _).mp hx).1) (hv y ((mem_sub _ _ _).mp hy).1) hxy
      · exact hS.sublist List.filter_sublist
    have hdis : ∀ a ∈ (sub S w.entry.addrs).map (hostPort · port), a ∉ w.rot.rr.backends := by
      intro a ha hm
      obtain ⟨ip, hip, rfl⟩ := List.mem_map.mp ha
      obtain ⟨ip', hip', he⟩ := (hmem _).mp hm
      have := hostPort_inj ip ip' port (hv ip ((mem_sub _ _ _).mp hip).1) (hv4 ip' hip') he
      subst this
      exact ((mem_sub _ _ _).mp hip).2 hip'
    obtain ⟨a1, a2⟩ := foldl_add _ w.rot hri hnewnd hdis
    obtain ⟨r1, r2⟩ := foldl_remove ((sub w.entry.addrs S).map (hostPort · port)) _ a1
    refine ⟨r1, ?_⟩
    intro a
    unfold applyChange
    rw [r2 a, a2 a, hmem a]
    constructor
    · rintro ⟨hin, hnot⟩
      rcases hin with ⟨ip, hip, rfl⟩ | hin
      · by_cases hs : ip ∈ S
        · exact ⟨ip, hs, rfl⟩
        · exact absurd (List.mem_map.mpr ⟨ip, (mem_sub _ _ _).mpr ⟨hip, hs⟩, rfl⟩) hnot
      · obtain ⟨ip, hip, rfl⟩ := List.mem_map.mp hin
        exact ⟨ip, ((mem_sub _ _ _).mp hip).1, rfl⟩
    · rintro ⟨ip, hip, rfl⟩
      refine ⟨?_, ?_⟩
      · by_cases ho : ip ∈ w.entry.addrs
        · left; exact ⟨ip, ho, rfl⟩
        · right; exact List.mem_map.mpr ⟨ip, (mem_sub _ _ _).mpr ⟨hip, ho⟩, rfl⟩
      · intro hm
        obtain ⟨ip', hip', he⟩ := List.mem_map.mp hm
        have hm' := (mem_sub _ _ _).mp hip'
        have := hostPort_inj ip' ip port (hv4 ip' hm'.1) (hv ip hip) he
        subst this
        exact hm'.2 hip
  have hstep := worldStep_ok port w S
  have hnochange : ¬ ((sub S w.entry.addrs).length > 0 ∨ (sub w.entry.addrs S).length > 0) →
      applyChange w.rot port (sub S w.entry.addrs) (sub w.entry.addrs S) = w.rot := by
    intro hc
    simp only [not_or, Nat.not_lt, Nat.le_zero, List.length_eq_zero_iff] at hc
    simp [applyChange, hc.1, hc.2]
  have hrot : (worldStep port w (.ok S)).rot = applyChange w.rot port (sub S w.entry.addrs) (sub w.entry.addrs S) := by
    rw [hstep]; split
    · rfl
    · rename_i hc; exact (hnochange hc).symm
  have hent : (worldStep port w (.ok S)).entry.addrs = S := by
    rw [hstep]; split <;> rfl
  refine ⟨⟨by rw [hrot]; exact hchange.1, by rw [hent]; exact hS, by rw [hent]; exact hv, ?_⟩, hent, ?_, ?_⟩
  · intro a; rw [hrot, hent]; exact hchange.2 a
  · intro a; rw [hrot]; exact hchange.2 a
  · intro a; rw [hrot, hchange.1.2.2 a]; exact hchange.2 a

/-- **Tolerance.** A failure that is at most the third in a row leaves rotation and index untouched. -/
theorem C19_tolerance (port : Bytes) (w : World) (h : w.entry.failed < 3) :
    (worldStep port w .fail).rot = w.rot ∧ (worldStep port w .fail).entry.addrs = w.entry.addrs ∧
    (worldStep port w .fail).entry.failed = w.entry.failed + 1 := by
  have : ¬ (w.entry.failed + 1 > failLimit ∧ w.entry.addrs.length > 0) := by simp [failLimit]; omega
  rw [worldStep_fail, if_neg this]
  exact ⟨rfl, rfl, rfl⟩

/-- **Fourth failure.** The fourth consecutive failure empties a non-empty set (rotation and index)
and restarts the count. -/
theorem C19_fourth_empties (port : Bytes) (w : World) (h : Sync port w) (hf : w.entry.failed = 3)
    (hne : w.entry.addrs ≠ []) :
    (worldStep port w .fail).rot.rr.backends = [] ∧ (worldStep port w .fail).rot.index = [] ∧
    (worldStep port w .fail).entry = { addrs := [], failed := 0 } ∧ Sync port (worldStep port w .fail) := by
  obtain ⟨hri, hnd, hv4, hmem⟩ := h
  have hlen : w.entry.addrs.length > 0 := List.length_pos_iff.mpr hne
  have hstep : worldStep port w .fail = { entry := { addrs := [], failed := 0 }, rot := applyChange w.rot port [] w.entry.addrs } := by
    rw [worldStep_fail, if_pos ⟨by simp [hf, failLimit], hlen⟩]
  obtain ⟨r1, r2⟩ := foldl_remove (w.entry.addrs.map (hostPort · port)) w.rot hri
  have hempty : (applyChange w.rot port [] w.entry.addrs).rr.backends = [] := by
    apply List.eq_nil_iff_forall_not_mem.mpr
    intro a ha
    simp only [applyChange, List.map_nil, List.foldl_nil] at ha
    obtain ⟨hin, hnot⟩ := (r2 a).mp ha
    obtain ⟨ip, hip, rfl⟩ := (hmem a).mp hin
    exact hnot (List.mem_map.mpr ⟨ip, hip, rfl⟩)
  have hinv : RotInv (applyChange w.rot port [] w.entry.addrs) := by
    simpa [applyChange] using r1
  have hidx : (applyChange w.rot port [] w.entry.addrs).index = [] := by
    apply List.eq_nil_iff_forall_not_mem.mpr
    intro a ha
    have := (hinv.2.2 a).mp ha
    rw [hempty] at this; cases this
  rw [hstep]
  refine ⟨hempty, hidx, rfl, ⟨hinv, by simp, by simp [V4], ?_⟩⟩
  intro a; simp [hempty]

/-- a failure always keeps the invariant -/
theorem sync_fail (port : Bytes) (w : World) (h : Sync port w) : Sync port (worldStep port w .fail) := by
  by_cases hc : w.entry.failed + 1 > failLimit ∧ w.entry.addrs.length > 0
  · have hne : w.entry.addrs ≠ [] := List.length_pos_iff.mp hc.2
    obtain ⟨hri, hnd, hv4, hmem⟩ := h
    have hstep : worldStep port w .fail = { entry := { addrs := [], failed := 0 }, rot := applyChange w.rot port [] w.entry.addrs } := by
      rw [worldStep_fail, if_pos hc]
    obtain ⟨r1, r2⟩ := foldl_remove (w.entry.addrs.map (hostPort · port)) w.rot hri
    have hinv : RotInv (applyChange w.rot port [] w.entry.addrs) := by simpa [applyChange] using r1
    rw [hstep]
    refine ⟨hinv, by simp, by simp [V4], ?_⟩
    intro a
    simp only [List.not_mem_nil, false_and, exists_false, iff_false]
    intro ha
    simp only [applyChange, List.map_nil, List.foldl_nil] at ha
    obtain ⟨hin, hnot⟩ := (r2 a).mp ha
    obtain ⟨ip, hip, rfl⟩ := (hmem a).mp hin
    exact hnot (List.mem_map.mpr ⟨ip, hip, rfl⟩)
  · rw [worldStep_fail, if_neg hc]; exact h

def Dom : List Outcome → Prop
  | [] => True
  | .ok S :: os => S.Nodup ∧ V4 S ∧ Dom os
  | .fail :: os => Dom os

/-- **History.** In every state reached by any history of duplicate-free IPv4 resolutions and
failures, rotation, address map and proxy index hold exactly the entry's current addresses. -/
theorem C19_history (port : Bytes) (os : List Outcome) (hd : Dom os) :
    Sync port (os.foldl (worldStep port) {}) := by
  have : ∀ (os : List Outcome) (w : World), Sync port w → Dom os → Sync port (os.foldl (worldStep port) w) := by
    intro os
    induction os with
    | nil => intro w hw _; exact hw
    | cons o os ih =>
      intro w hw hd
      simp only [List.foldl_cons]
      cases o with
      | ok S => exact ih _ (C19_tracks port w S hw hd.1 hd.2.1).1 hd.2.2
      | fail => exact ih _ (sync_fail port w hw) hd
  exact this os {} (sync_init port) hd

/-- F3: the failure limit in the code is 3 (`entry.failed > 3`). -/
theorem failLimit_is_three : failLimit = 3 := rfl

/-! ### non-vacuity -/
example : (worldStep [53] (worldStep [53] {} (.ok [[49], [50]])) (.ok [[50]])).rot.rr.backends = [[50, 58, 53]] := by decide

end Props.C19
