/-
C17 — Header-name spelling and the layout of multi-valued routing headers do not matter.

"The proxy's behaviour does not depend on how header names are spelled or how multi-valued routing
headers are laid out: replacing any header name by its compact form or by another letter case, or
splitting a comma-separated Via or Route header into several header lines (or joining them), changes
neither the destination nor the content of what is relayed, apart from those spellings and layouts
themselves."

Model: every header-list operation of `Sip.Message` looks at names only through
`isSameHeader cm <wire name> <constant of the code>`; `Proxy.step` is the per-message pipeline.

A. RE-SPELLING (complete, for `Proxy.step` and every function below it, for ANY compact map).
   `Lemmas.Respelled cm P h h'`: same value, and for every lookup key in `P` the two names are in the
   class of the key or both are not. `P` = `Lemmas.PipeClasses`, the eleven keys the pipeline uses.
   `C17_respell_step`: two receive events whose messages are re-spellings of one another (everything
   else equal) lead to EQUAL states and to outputs with the same destinations, whose payloads are the
   serialisations of re-spelled messages — equal byte strings up to the spelling of header names
   (`C17_respell_bytes`, `Lemmas.BytesRespelled`). `C17_respell_run`: the same for event sequences.
   Concrete spellings: another letter case is a re-spelling for every map (`C17_letter_case`); full
   name ↔ compact form is one provided the classes of the eleven keys are pairwise disjoint
   (`Lemmas.SaneFor`, `C17_compact_form`), which holds for the generated table (`C17_real_table`) and
   cannot be dropped (`C17_sanity_needed`).
   ASYMMETRY: `isSameHeader cm a b` looks up the compact form of `b` only, so it is not symmetric for
   arbitrary maps, nor for tables in which two names share a compact form
   (`C17_isSameHeader_asymmetric`); the code always passes the wire name first and its own constant
   second and all statements are about that usage. For the generated table the relation happens to be
   symmetric (`C17_isSameHeader_symmetric_real`).

B. RE-LAYOUT. `ParseVia`/`ParseRoute` distribute over comma-joining (`C17_parse_join`), hence the Via,
   Route and Record-Route stacks of a header list do not change when `name: a,b` is replaced by
   `name: a`, `name: b` (`C17_stack_split`) — PROVIDED both parts decode: otherwise the joined header
   is lost as a whole while the separate lines keep their decodable part (`C17_split_fail`, a real
   difference). The routing decisions are functions of the stacks as soon as every header of the class
   decodes (`Lemmas.ViaOK`, `Lemmas.RouteOK`): `C17_response_of_stack`, `C17_request_of_stack`; hence
   `C17_relayout_response` / `C17_relayout_request`: two messages with the same Via (Route) stack —
   in particular two layouts of the same entries — get the same hop and the same resulting stack
   from `getNextResponseHop ∘ popVia` resp. `getNextRequestHopByRoute`.
   THE WHOLE PIPELINE (`C17_relayout_step`, `C17_relayout_content`, `C17_relayout_run`): `Lemmas.LR cm m m'`
   = both messages well formed (`ViaOK`, `RouteOK`) with the same `Lemmas.lview` (start line, body, Via /
   Route / Record-Route stacks, and ALL headers outside these three classes with names, values and order:
   `Lemmas.restOf`). For a table with pairwise disjoint key classes (`Lemmas.AllDisj`, from `SaneFor`;
   true of the generated table) two events with `LR`-related messages give EQUAL states, the same
   destinations, and payloads that serialise `LR`-related messages: same start line, body, stacks and other
   headers.
   Splitting / joining one Via, Route or Record-Route header gives `LR`-related messages
   (`C17_split_is_relayout`). Both lifts (A3 and this one) are instances of one generic lift
   (`Lemmas.PipeRel`, `Lemmas.step_rel`).
-/
import Lemmas.Spell
import Lemmas.SpellPipe
import Lemmas.Layout
import Lemmas.PipeRel
import Lemmas.LayoutPipe
import Props.C02
import Props.C13
open GoStd Sip Proxy Lemmas

namespace Props.C17

/-! ## A. re-spelling -/

/-! ### A1. every header-list operation (selection; the full list is in `Lemmas.Spell`) -/

/-- The typed getters, `popVia`/`popRoute`, `addVia`, `addRecordRoute`, `setReceived`, the dialog and
transaction identifiers and `Expires` on re-spelled messages: equal results, re-spelled messages. -/
theorem C17_operations (cm : List (Bytes × Bytes)) (m m' : Message) (H : MsgRespelled cm PipeClasses m m') :
    GR cm PipeClasses (getVia cm m) (getVia cm m') ∧ GR cm PipeClasses (getRoute cm m) (getRoute cm m') ∧
    GR cm PipeClasses (getFrom cm m) (getFrom cm m') ∧ GR cm PipeClasses (getTo cm m) (getTo cm m') ∧
    GR cm PipeClasses (getCSeq cm m) (getCSeq cm m') ∧ GR cm PipeClasses (getMethod cm m) (getMethod cm m') ∧
    OR cm PipeClasses (popVia cm m) (popVia cm m') ∧ OR cm PipeClasses (popRoute cm m) (popRoute cm m') ∧
    (∀ vp, MsgRespelled cm PipeClasses (addVia cm m vp) (addVia cm m' vp)) ∧
    (∀ rr, MsgRespelled cm PipeClasses (addRecordRoute cm m rr) (addRecordRoute cm m' rr)) ∧
    (∀ ip port, MsgRespelled cm PipeClasses (setReceived cm m ip port) (setReceived cm m' ip port)) ∧
    PR cm PipeClasses (getDialog cm m) (getDialog cm m') ∧
    PR cm PipeClasses (getClientTransaction cm m) (getClientTransaction cm m') ∧
    (∀ d, getExpires cm m d = getExpires cm m' d) ∧
    findRecordRoutePos cm m.headers = findRecordRoutePos cm m'.headers ∧
    (forEachViaHeaders cm m.headers).2 = (forEachViaHeaders cm m'.headers).2 :=
  ⟨getVia_respelled cm _ H pc_via, getRoute_respelled cm _ H pc_route, getFrom_respelledMsg cm _ H pc_from,
   getTo_respelledMsg cm _ H pc_to, getCSeq_respelled cm _ H pc_cseq, getMethod_respelled cm _ H pc_cseq,
   popVia_respelled cm _ H pc_via, popRoute_respelled cm _ H pc_route,
   fun vp => addVia_respelled cm _ H pc_via vp,
   fun rr => addRecordRoute_respelled cm _ H pc_recordRoute pc_from pc_maxForwards rr,
   fun ip port => setReceived_respelled cm _ H pc_via ip port,
   getDialog_respelled cm _ H pc_callId pc_from pc_to,
   getClientTransaction_respelled cm _ H pc_cseq pc_via,
   fun d => getExpires_respelled cm _ H pc_expires d,
   findRecordRoutePos_respelled cm _ H.headers pc_recordRoute pc_from pc_maxForwards,
   (forEachViaHeaders_respelled cm _ H.headers pc_via).2⟩

/-- The value `ParseMessage` reads to frame the body (`getHeaderInt … "Content-Length"`) is the same,
however the Content-Length header is spelled (`l`, `CONTENT-LENGTH`, …). -/
theorem C17_framing (cm : List (Bytes × Bytes)) (m m' : Message) (H : MsgRespelled cm PipeClasses m m') :
    getHeaderInt cm m contentLengthName = getHeaderInt cm m' contentLengthName :=
  getHeaderInt_respelled cm _ H pc_contentLength

/-! ### A2. the serialiser -/

/-- `Message.bytes` of re-spelled messages: the same header positions are skipped as Content-Length,
the printed values are literally equal, the printed names are position-wise in the same classes, and
the byte strings are: a common prefix (start line), header lines that are re-spellings of one
another, a common suffix (generated Content-Length, blank line, body). -/
theorem C17_bytes (cm : List (Bytes × Bytes)) (m m' : Message) (H : MsgRespelled cm PipeClasses m m') :
    m.headers.map (fun h => isSameHeader cm h.name contentLengthName) =
      m'.headers.map (fun h => isSameHeader cm h.name contentLengthName) ∧
    (printed cm m.headers).map (fun h => h.value.encode) = (printed cm m'.headers).map (fun h => h.value.encode) ∧
    RespelledList cm PipeClasses (printed cm m.headers) (printed cm m'.headers) ∧
    BytesRespelled cm PipeClasses (m.bytes cm) (m'.bytes cm) :=
  ⟨skipped_respelled cm _ H.headers pc_contentLength, printed_values_eq cm _ H.headers pc_contentLength,
   printed_respelled cm _ H.headers pc_contentLength, bytes_respelled cm _ H pc_contentLength⟩

/-! ### A3. the pipeline -/

/-- One received message: events that differ only by a re-spelling of header names give EQUAL states,
the same destinations (constructor and address of every output, in order), and payloads that are
serialisations of re-spelled messages. -/
theorem C17_respell_step (cfg : Cfg) (st : St) (ev ev' : RawEv) (E : EvRespelled cfg ev ev') :
    (step cfg st ev).1 = (step cfg st ev').1 ∧
    (step cfg st ev).2.map Out.dest = (step cfg st ev').2.map Out.dest ∧
    OutsRel cfg (step cfg st ev).2 (step cfg st ev').2 :=
  let h := step_respelled cfg E st
  ⟨h.1, h.2.dest_eq, h.2⟩

/-- … and the payloads are equal up to the spelling of the header names: position by position, a
common prefix, re-spelled header lines, a common suffix. -/
theorem C17_respell_bytes (cfg : Cfg) (st : St) (ev ev' : RawEv) (E : EvRespelled cfg ev ev')
    (i : Nat) (o o' : Out) (ho : (step cfg st ev).2[i]? = some o) (ho' : (step cfg st ev').2[i]? = some o') :
    o.dest = o'.dest ∧ BytesRespelled cfg.cm PipeClasses o.data o'.data :=
  let h := (step_respelled cfg E st).2.get i o o' ho ho'
  ⟨h.1, dataRel_bytes h.2⟩

/-- the stages, for reference: each maps re-spelled inputs to equal states / hops and re-spelled messages -/
theorem C17_respell_stages (cfg : Cfg) (st : St) (ev ev' : RawEv) (E : EvRespelled cfg ev ev')
    (m m' : Message) (H : MR cfg m m') :
    TR cfg (handleRawMessage cfg st ev) (handleRawMessage cfg st ev') ∧
    TR cfg (handleDialog cfg st ev.peerAddr ev.peerPort m) (handleDialog cfg st ev.peerAddr ev.peerPort m') ∧
    TR cfg (getNextRequestHop cfg m) (getNextRequestHop cfg m') ∧
    TR cfg (getNextResponseHop cfg m) (getNextResponseHop cfg m') ∧
    (∀ br, SR cfg (sendToBackend cfg st m br) (sendToBackend cfg st m' br)) ∧
    (∀ h, SR cfg (sendMessage cfg st h m) (sendMessage cfg st h m')) ∧
    SR cfg (handleMessage cfg st ev m) (handleMessage cfg st ev' m') :=
  ⟨handleRawMessage_respelled cfg E st, handleDialog_respelled cfg H st _ _, getNextRequestHop_respelled cfg H,
   getNextResponseHop_respelled cfg H, fun br => sendToBackend_respelled cfg H st br,
   fun h => sendMessage_respelled cfg H st h, handleMessage_respelled cfg E H st⟩

/-- a sequence of received messages through the loop (membership events in between change the state
in the same way on both sides; `C17_respell_step` holds from every state) -/
def runSteps (cfg : Cfg) : St → List RawEv → St × List Out
  | st, [] => (st, [])
  | st, ev :: evs => ((runSteps cfg (step cfg st ev).1 evs).1, (step cfg st ev).2 ++ (runSteps cfg (step cfg st ev).1 evs).2)

inductive EvsRespelled (cfg : Cfg) : List RawEv → List RawEv → Prop where
  | nil : EvsRespelled cfg [] []
  | cons {e e' : RawEv} {l l' : List RawEv} : EvRespelled cfg e e' → EvsRespelled cfg l l' → EvsRespelled cfg (e :: l) (e' :: l')

theorem C17_respell_run (cfg : Cfg) (st : St) (evs evs' : List RawEv) (E : EvsRespelled cfg evs evs') :
    (runSteps cfg st evs).1 = (runSteps cfg st evs').1 ∧
    (runSteps cfg st evs).2.map Out.dest = (runSteps cfg st evs').2.map Out.dest ∧
    OutsRel cfg (runSteps cfg st evs).2 (runSteps cfg st evs').2 := by
  suffices h : SR cfg (runSteps cfg st evs) (runSteps cfg st evs') from ⟨h.1, h.2.dest_eq, h.2⟩
  induction E generalizing st with
  | nil => exact ⟨rfl, .nil⟩
  | @cons e e' l l' he _ ih =>
    obtain ⟨h1, h2⟩ := step_respelled cfg he st
    simp only [runSteps]
    rw [← h1]
    exact ⟨(ih (step cfg st e).1).1, h2.append (ih (step cfg st e).1).2⟩

/-! ### A4. concrete spellings -/

/-- Another letter case is a re-spelling, whatever the compact map. -/
theorem C17_letter_case (cm : List (Bytes × Bytes)) (n n' : Bytes) (v : HVal) (h : toLower n = toLower n') :
    Respelled cm PipeClasses { name := n, value := v } { name := n', value := v } :=
  respelled_of_toLower cm PipeClasses _ _ rfl h

/-- What "compact form" means to the code, in the direction it is used: a wire name that is (any
letter case of) the compact form the table has for the key is in the class of the key. -/
theorem C17_compact_is_same (cm : List (Bytes × Bytes)) (n key c : Bytes)
    (hc : getCompact cm key = some c) (h : equalFold n c = true) : isSameHeader cm n key = true :=
  isSameHeader_of_compact cm hc h

/-- Full name ↔ compact form (any letter case on either side) is a re-spelling for every table in
which the classes of the pipeline's keys are pairwise disjoint. -/
theorem C17_compact_form (cm : List (Bytes × Bytes)) (hs : SaneFor cm pipeKeys) (key c : Bytes) (hk : PipeClasses key)
    (hc : getCompact cm key = some c) (n n' : Bytes) (hn : equalFold n key = true) (hn' : equalFold n' c = true)
    (v : HVal) :
    Respelled cm PipeClasses { name := n, value := v } { name := n', value := v } ∧
    Respelled cm PipeClasses { name := n', value := v } { name := n, value := v } :=
  ⟨respelled_compact cm hs hk hc hn hn' v, (respelled_compact cm hs hk hc hn hn' v).symm⟩

/-- The generated table is such a table; its compact forms for the pipeline's keys are `v`, `f`, `t`,
`i`, `l`; any two wire names of one class are re-spellings of one another, and so are any two names
outside all eleven classes. -/
theorem C17_real_table :
    SaneFor realCm pipeKeys ∧
    getCompact realCm viaName = some (str "v") ∧ getCompact realCm fromName = some (str "f") ∧
    getCompact realCm toName = some (str "t") ∧ getCompact realCm callIdName = some (str "i") ∧
    getCompact realCm contentLengthName = some (str "l") ∧
    (∀ key n n' v, PipeClasses key → isSameHeader realCm n key = true → isSameHeader realCm n' key = true →
      Respelled realCm PipeClasses { name := n, value := v } { name := n', value := v }) ∧
    (∀ n n' v, (∀ key ∈ pipeKeys, isSameHeader realCm n key = false) →
      (∀ key ∈ pipeKeys, isSameHeader realCm n' key = false) →
      Respelled realCm PipeClasses { name := n, value := v } { name := n', value := v }) :=
  ⟨real_sane, real_compacts.1, real_compacts.2.1, real_compacts.2.2.1, real_compacts.2.2.2.1,
   real_compacts.2.2.2.2.1, fun _ _ _ v hk h h' => real_respelled hk h h' v,
   fun _ _ v h h' => respelled_of_noClass realCm h h' v⟩

/-- Disjointness cannot be dropped: with `v` the compact form of both Via and Expires, `Via` → `v` is
not a re-spelling, and `getExpires` tells the two messages apart. -/
theorem C17_sanity_needed :
    ¬ SaneFor clashCm pipeKeys ∧
    (∀ x, ¬ Respelled clashCm PipeClasses { name := str "Via", value := x } { name := str "v", value := x }) ∧
    (let m : Message := { start := .status [] 200 [], headers := [{ name := str "Via", value := .raw (str "7") }], body := [] }
     let m' : Message := { start := .status [] 200 [], headers := [{ name := str "v", value := .raw (str "7") }], body := [] }
     getExpires clashCm m 0 = 0 ∧ getExpires clashCm m' 0 = 7) :=
  ⟨clash_not_sane, clash_not_respelled, clash_observable⟩

/-- `isSameHeader` is not symmetric: the compact form is looked up for the second argument only. -/
theorem C17_isSameHeader_asymmetric :
    (isSameHeader [(str "via", str "v")] (str "v") (str "Via") = true ∧
     isSameHeader [(str "via", str "v")] (str "Via") (str "v") = false) ∧
    (isSameHeader clashCm (str "v") (str "Via") = true ∧ isSameHeader clashCm (str "Via") (str "v") = false) :=
  ⟨isSameHeader_asymm_map, isSameHeader_asymm_table⟩

/-- … but it is for the generated table. -/
theorem C17_isSameHeader_symmetric_real (a b : Bytes) : isSameHeader realCm a b = isSameHeader realCm b a := by
  cases h : isSameHeader realCm a b with
  | true => exact (real_isSameHeader_symm a b h).symm
  | false =>
    cases h' : isSameHeader realCm b a with
    | false => rfl
    | true => rw [real_isSameHeader_symm b a h'] at h; cases h

/-! ## B. re-layout -/

/-- B5. `ParseVia` / `ParseRoute` distribute over comma-joining; for Via also over `", "`. -/
theorem C17_parse_join (a b : Bytes) :
    parseVia (a ++ [44] ++ b) = (do let x ← parseVia a; let y ← parseVia b; pure (x ++ y)) ∧
    parseRoute (a ++ [44] ++ b) = (do let x ← parseRoute a; let y ← parseRoute b; pure (x ++ y)) ∧
    parseVia (a ++ [44, 32] ++ b) = (do let x ← parseVia a; let y ← parseVia b; pure (x ++ y)) :=
  ⟨parseVia_join a b, parseRoute_join a b, parseVia_join_blank a b⟩

/-- The three stacks do not see whether `name: a,b` is one header or two consecutive ones, provided
both parts decode (names: three of the class, any spelling). -/
theorem C17_stack_split (cm : List (Bytes × Bytes)) (pre post : List Header) (nm nm₁ nm₂ a b : Bytes) :
    (∀ x y, parseVia a = some x → parseVia b = some y →
      isSameHeader cm nm₁ viaName = isSameHeader cm nm viaName →
      isSameHeader cm nm₂ viaName = isSameHeader cm nm viaName →
      viaStack cm (pre ++ { name := nm, value := .raw (a ++ [44] ++ b) } :: post) =
        viaStack cm (pre ++ { name := nm₁, value := .raw a } :: { name := nm₂, value := .raw b } :: post)) ∧
    (∀ x y, parseRoute a = some x → parseRoute b = some y →
      isSameHeader cm nm₁ routeName = isSameHeader cm nm routeName →
      isSameHeader cm nm₂ routeName = isSameHeader cm nm routeName →
      routeStack cm (pre ++ { name := nm, value := .raw (a ++ [44] ++ b) } :: post) =
        routeStack cm (pre ++ { name := nm₁, value := .raw a } :: { name := nm₂, value := .raw b } :: post)) ∧
    (∀ x y, parseRoute a = some x → parseRoute b = some y →
      isSameHeader cm nm₁ recordRouteName = isSameHeader cm nm recordRouteName →
      isSameHeader cm nm₂ recordRouteName = isSameHeader cm nm recordRouteName →
      rrStack cm (pre ++ { name := nm, value := .raw (a ++ [44] ++ b) } :: post) =
        rrStack cm (pre ++ { name := nm₁, value := .raw a } :: { name := nm₂, value := .raw b } :: post)) :=
  ⟨fun _ _ ha hb c₁ c₂ => viaStack_split cm pre post nm nm₁ nm₂ a b ha hb c₁ c₂,
   fun _ _ ha hb c₁ c₂ => routeStack_split cm pre post nm nm₁ nm₂ a b ha hb c₁ c₂,
   fun _ _ ha hb c₁ c₂ => rrStack_split cm pre post nm nm₁ nm₂ a b ha hb c₁ c₂⟩

/-- Otherwise the layouts DO differ: the joined header does not decode at all and contributes nothing,
the separate lines contribute what decodes. Concretely `Via: <b>,junk` against `Via: <b>` / `Via: junk`:
empty stack and failing `getVia` against the entry `b`. -/
theorem C17_split_fail (cm : List (Bytes × Bytes)) (pre post : List Header) (nm nm₁ nm₂ a b : Bytes)
    (h : parseVia a = none ∨ parseVia b = none)
    (c : isSameHeader cm nm viaName = true) (c₁ : isSameHeader cm nm₁ viaName = true)
    (c₂ : isSameHeader cm nm₂ viaName = true) :
    viaStack cm (pre ++ { name := nm, value := .raw (a ++ [44] ++ b) } :: post) =
      viaStack cm pre ++ viaStack cm post ∧
    viaStack cm (pre ++ { name := nm₁, value := .raw a } :: { name := nm₂, value := .raw b } :: post) =
      viaStack cm pre ++ ((parseVia a).getD [] ++ ((parseVia b).getD [] ++ viaStack cm post)) :=
  viaStack_split_fail cm pre post nm nm₁ nm₂ a b h c c₁ c₂

theorem C17_split_fail_example :
    viaStack realCm [{ name := str "Via", value := .raw (exViaB ++ [44] ++ str "junk") }] = [] ∧
    (viaStack realCm [{ name := str "Via", value := .raw exViaB }, { name := str "Via", value := .raw (str "junk") }]).map
      (·.host) = [str "b"] :=
  split_fail_differs

/-! ### B6. the decisions read the stacks through their heads -/

open Props.C02 Props.C13

/-- the hop is that of the first entry `getVia` returns (`C02_hop`, `C02_hop_none`) -/
theorem response_hop_eq (cfg : Cfg) (m : Message) :
    (getNextResponseHop cfg m).1 = ((getVia cfg.cm m).bind (fun p => p.1.head?)).map responseHopOf := by
  cases hg : getVia cfg.cm m with
  | none =>
    rw [C02_hop_none cfg m (by intro vp rest m1 h; rw [hg] at h; cases h)]; rfl
  | some p =>
    obtain ⟨v, m1⟩ := p
    cases v with
    | nil => rw [C02_hop_none cfg m (by intro vp rest m1 h; rw [hg] at h; cases h)]; rfl
    | cons vp rest => rw [C02_hop cfg m m1 vp rest hg]; rfl

/-- where a Route entry points -/
def routeHopOf (rp : RouteParam) : Option Hop :=
  match rp.nameAddr.addr with
  | .sip u => some { host := u.host, port := u.getPort, transport := u.getTransport }
  | .abs _ => none

/-- the hop is that of the first entry `getRoute` returns (`C13_hop`, `C13_hop_abs`, `C13_hop_none`) -/
theorem request_hop_eq (cfg : Cfg) (m : Message) :
    (getNextRequestHopByRoute cfg m).1 = ((getRoute cfg.cm m).bind (fun p => p.1.head?)).bind routeHopOf := by
  cases hg : getRoute cfg.cm m with
  | none => rw [C13_hop_none cfg m hg]; rfl
  | some p =>
    obtain ⟨r, m1⟩ := p
    cases r with
    | nil => simp [getNextRequestHopByRoute, hg]
    | cons rp rest =>
      cases hu : rp.nameAddr.addr with
      | sip u => rw [(C13_hop cfg m m1 rp rest u hg hu).1]; simp [routeHopOf, hu]
      | abs s => rw [C13_hop_abs cfg m m1 rp rest s hg hu]; simp [routeHopOf, hu]

/-- A response whose Via headers all decode: after the pop the hop is that of the SECOND entry of the
Via stack and the stack has lost exactly its head — both are functions of the stack alone. -/
theorem C17_response_of_stack (cfg : Cfg) (m : Message) (hok : ViaOK cfg.cm m.headers) :
    (getNextResponseHop cfg ((popVia cfg.cm m).getD m)).1 =
      (viaStack cfg.cm m.headers).tail.head?.map responseHopOf ∧
    viaStack cfg.cm (getNextResponseHop cfg ((popVia cfg.cm m).getD m)).2.headers =
      (viaStack cfg.cm m.headers).tail := by
  cases hp : popVia cfg.cm m with
  | none =>
    have h0 := popVia_none_of_viaOK cfg.cm hok hp
    simp only [Option.getD_none]
    rw [response_hop_eq, getVia_head_of_viaOK cfg.cm hok, C02_hop_stack, h0]
    exact ⟨rfl, rfl⟩
  | some m1 =>
    obtain ⟨hok1, h1⟩ := popVia_of_viaOK cfg.cm hok hp
    simp only [Option.getD_some]
    rw [response_hop_eq, getVia_head_of_viaOK cfg.cm hok1, C02_hop_stack, h1]
    exact ⟨rfl, rfl⟩

/-- Two responses with the same Via stack — in particular the same entries laid out differently over
header lines — go to the same hop with the same remaining stack. -/
theorem C17_relayout_response (cfg : Cfg) (m m' : Message)
    (hok : ViaOK cfg.cm m.headers) (hok' : ViaOK cfg.cm m'.headers)
    (hst : viaStack cfg.cm m.headers = viaStack cfg.cm m'.headers) :
    (getNextResponseHop cfg ((popVia cfg.cm m).getD m)).1 = (getNextResponseHop cfg ((popVia cfg.cm m').getD m')).1 ∧
    viaStack cfg.cm (getNextResponseHop cfg ((popVia cfg.cm m).getD m)).2.headers =
      viaStack cfg.cm (getNextResponseHop cfg ((popVia cfg.cm m').getD m')).2.headers := by
  obtain ⟨a1, a2⟩ := C17_response_of_stack cfg m hok
  obtain ⟨b1, b2⟩ := C17_response_of_stack cfg m' hok'
  rw [a1, a2, b1, b2, hst]
  exact ⟨rfl, rfl⟩

/-- the split / join instance: `Via: a,b` against `Via: a`, `Via: b` -/
theorem C17_relayout_response_split (cfg : Cfg) (sl : StartLine) (body : Bytes) (pre post : List Header)
    (nm nm₁ nm₂ a b : Bytes) (x y : List ViaParam) (ha : parseVia a = some x) (hb : parseVia b = some y)
    (c : isSameHeader cfg.cm nm viaName = true) (c₁ : isSameHeader cfg.cm nm₁ viaName = true)
    (c₂ : isSameHeader cfg.cm nm₂ viaName = true)
    (hok : ViaOK cfg.cm (pre ++ post)) :
    let m : Message := { start := sl, body := body,
                         headers := pre ++ { name := nm, value := .raw (a ++ [44] ++ b) } :: post }
    let m' : Message := { start := sl, body := body,
                          headers := pre ++ { name := nm₁, value := .raw a } :: { name := nm₂, value := .raw b } :: post }
    (getNextResponseHop cfg ((popVia cfg.cm m).getD m)).1 = (getNextResponseHop cfg ((popVia cfg.cm m').getD m')).1 ∧
    viaStack cfg.cm (getNextResponseHop cfg ((popVia cfg.cm m).getD m)).2.headers =
      viaStack cfg.cm (getNextResponseHop cfg ((popVia cfg.cm m').getD m')).2.headers := by
  intro m m'
  have hokJ : ViaOK cfg.cm m.headers := by
    intro h hm hc
    simp only [m, List.mem_append, List.mem_cons] at hm
    rcases hm with hm | rfl | hm
    · exact hok h (by simp [hm]) hc
    · exact Or.inr ⟨_, _, rfl, parseVia_join_some ha hb⟩
    · exact hok h (by simp [hm]) hc
  exact C17_relayout_response cfg m m' hokJ (viaOK_split cfg.cm pre post nm nm₁ nm₂ a b ha hb hokJ)
    (viaStack_split cfg.cm pre post nm nm₁ nm₂ a b ha hb (by rw [c₁, c]) (by rw [c₂, c]))

/-- A request whose Route headers all decode: the hop is that of the head of the Route stack and the
stack is kept or loses exactly its head — functions of the stack (and the configuration) alone. -/
theorem C17_request_of_stack (cfg : Cfg) (m : Message) (hok : RouteOK cfg.cm m.headers) :
    (getNextRequestHopByRoute cfg m).1 = (routeStack cfg.cm m.headers).head?.bind routeHopOf ∧
    routeStack cfg.cm (getNextRequestHopByRoute cfg m).2.headers =
      if cfg.keepNextHopRoute then routeStack cfg.cm m.headers else (routeStack cfg.cm m.headers).tail := by
  refine ⟨by rw [request_hop_eq, getRoute_head_of_routeOK cfg.cm hok], ?_⟩
  cases hk : cfg.keepNextHopRoute with
  | true => simp only [↓reduceIte]; exact C13_keep cfg m hk
  | false =>
    simp only [Bool.false_eq_true, ↓reduceIte]
    rw [C13_strip cfg m hk]
    rcases getRoute_of_routeOK cfg.cm hok with ⟨h1, h2⟩ | ⟨rp, r, m1, rest, h1, _⟩
    · rw [h1, h2]; rfl
    · rw [h1]

/-- Two requests with the same Route stack — in particular the same entries laid out differently — get
the same next hop from their Route headers and the same remaining Route stack. -/
theorem C17_relayout_request (cfg : Cfg) (m m' : Message)
    (hok : RouteOK cfg.cm m.headers) (hok' : RouteOK cfg.cm m'.headers)
    (hst : routeStack cfg.cm m.headers = routeStack cfg.cm m'.headers) :
    (getNextRequestHopByRoute cfg m).1 = (getNextRequestHopByRoute cfg m').1 ∧
    routeStack cfg.cm (getNextRequestHopByRoute cfg m).2.headers =
      routeStack cfg.cm (getNextRequestHopByRoute cfg m').2.headers := by
  obtain ⟨a1, a2⟩ := C17_request_of_stack cfg m hok
  obtain ⟨b1, b2⟩ := C17_request_of_stack cfg m' hok'
  rw [a1, a2, b1, b2, hst]
  exact ⟨rfl, rfl⟩

theorem C17_relayout_request_split (cfg : Cfg) (sl : StartLine) (body : Bytes) (pre post : List Header)
    (nm nm₁ nm₂ a b : Bytes) (x y : List RouteParam) (ha : parseRoute a = some x) (hb : parseRoute b = some y)
    (c : isSameHeader cfg.cm nm routeName = true) (c₁ : isSameHeader cfg.cm nm₁ routeName = true)
    (c₂ : isSameHeader cfg.cm nm₂ routeName = true)
    (hok : RouteOK cfg.cm (pre ++ post)) :
    let m : Message := { start := sl, body := body,
                         headers := pre ++ { name := nm, value := .raw (a ++ [44] ++ b) } :: post }
    let m' : Message := { start := sl, body := body,
                          headers := pre ++ { name := nm₁, value := .raw a } :: { name := nm₂, value := .raw b } :: post }
    (getNextRequestHopByRoute cfg m).1 = (getNextRequestHopByRoute cfg m').1 ∧
    routeStack cfg.cm (getNextRequestHopByRoute cfg m).2.headers =
      routeStack cfg.cm (getNextRequestHopByRoute cfg m').2.headers := by
  intro m m'
  have hokJ : RouteOK cfg.cm m.headers := by
    intro h hm hc
    simp only [m, List.mem_append, List.mem_cons] at hm
    rcases hm with hm | rfl | hm
    · exact hok h (by simp [hm]) hc
    · exact Or.inr ⟨_, _, rfl, parseRoute_join_some ha hb⟩
    · exact hok h (by simp [hm]) hc
  exact C17_relayout_request cfg m m' hokJ (routeOK_split cfg.cm pre post nm nm₁ nm₂ a b ha hb hokJ)
    (routeStack_split cfg.cm pre post nm nm₁ nm₂ a b ha hb (by rw [c₁, c]) (by rw [c₂, c]))

/-- The routes a request teaches the proxy (stage 1 of `handleRawMessage`) are a function of the Via
stack too: `ForEachVia` collects exactly the stack. -/
theorem C17_relayout_learn (cfg : Cfg) (st : St) (ev : RawEv) (m' : Message)
    (hsl : ev.msg.start = m'.start) (hst : viaStack cfg.cm ev.msg.headers = viaStack cfg.cm m'.headers) :
    (rawLearn cfg st ev).1 = (rawLearn cfg st { ev with msg := m' }).1 := by
  unfold rawLearn
  have hr : isRequest ev.msg = isRequest m' := by unfold isRequest; rw [hsl]
  simp only [← hr]
  split
  · have h1 := forEachViaHeaders_vias cfg.cm ev.msg.headers
    have h2 := forEachViaHeaders_vias cfg.cm m'.headers
    revert h1 h2
    rcases forEachViaHeaders cfg.cm ev.msg.headers with ⟨hs, vs⟩
    rcases forEachViaHeaders cfg.cm m'.headers with ⟨hs', vs'⟩
    intro h1 h2
    simp only at h1 h2 ⊢
    rw [h1, h2, hst]
  · rfl

/-! ### B7. re-layout through the whole pipeline -/

/-- One received message in two layouts (`LR`: well formed, same `lview`), table with pairwise disjoint
key classes: EQUAL states, the same destinations in the same order, payloads that serialise `LR`-related
messages. -/
theorem C17_relayout_step (cfg : Cfg) (hD : AllDisj cfg.cm) (st : St) (ev ev' : RawEv)
    (E : EvRel (LR cfg.cm) ev ev') :
    (step cfg st ev).1 = (step cfg st ev').1 ∧
    (step cfg st ev).2.map Out.dest = (step cfg st ev').2.map Out.dest ∧
    OutsRelG (LR cfg.cm) cfg (step cfg st ev).2 (step cfg st ev').2 :=
  let h := step_layout cfg hD E st
  ⟨h.1, h.2.dest_eq, h.2⟩

/-- … what is relayed has the same content apart from the layout: the i-th packets go to the same place
and serialise messages with the same start line, body, Via stack, Route stack, Record-Route stack and the
same list of all other headers (`restOf`: every header outside the three routing classes — name, value,
order). Only the grouping of the routing entries into header lines, and where these lines stand among the
others, may differ. -/
theorem C17_relayout_content (cfg : Cfg) (hD : AllDisj cfg.cm) (st : St) (ev ev' : RawEv)
    (E : EvRel (LR cfg.cm) ev ev') (i : Nat) (o o' : Out)
    (ho : (step cfg st ev).2[i]? = some o) (ho' : (step cfg st ev').2[i]? = some o') :
    o.dest = o'.dest ∧ ∃ m m', o.data = m.bytes cfg.cm ∧ o'.data = m'.bytes cfg.cm ∧
      m.start = m'.start ∧ m.body = m'.body ∧
      viaStack cfg.cm m.headers = viaStack cfg.cm m'.headers ∧
      routeStack cfg.cm m.headers = routeStack cfg.cm m'.headers ∧
      rrStack cfg.cm m.headers = rrStack cfg.cm m'.headers ∧
      restOf cfg.cm m.headers = restOf cfg.cm m'.headers ∧ lview cfg.cm m = lview cfg.cm m' := by
  obtain ⟨hd, m, m', h1, h2, H⟩ := (step_layout cfg hD E st).2.get i o o' ho ho'
  exact ⟨hd, m, m', h1, h2, congrArg LView.start H.2.2, congrArg LView.body H.2.2, congrArg LView.via H.2.2,
    congrArg LView.route H.2.2, congrArg LView.rr H.2.2, congrArg LView.rest H.2.2, H.2.2⟩

inductive EvsRelayout (cm : List (Bytes × Bytes)) : List RawEv → List RawEv → Prop where
  | nil : EvsRelayout cm [] []
  | cons {e e' : RawEv} {l l' : List RawEv} : EvRel (LR cm) e e' → EvsRelayout cm l l' → EvsRelayout cm (e :: l) (e' :: l')

/-- … and the same for a sequence of received messages -/
theorem C17_relayout_run (cfg : Cfg) (hD : AllDisj cfg.cm) (st : St) (evs evs' : List RawEv)
    (E : EvsRelayout cfg.cm evs evs') :
    (runSteps cfg st evs).1 = (runSteps cfg st evs').1 ∧
    (runSteps cfg st evs).2.map Out.dest = (runSteps cfg st evs').2.map Out.dest := by
  suffices h : SRG (LR cfg.cm) cfg (runSteps cfg st evs) (runSteps cfg st evs') from ⟨h.1, h.2.dest_eq⟩
  induction E generalizing st with
  | nil => exact ⟨rfl, .nil⟩
  | @cons e e' l l' he _ ih =>
    obtain ⟨h1, h2⟩ := step_layout cfg hD he st
    simp only [runSteps]
    rw [← h1]
    exact ⟨(ih (step cfg st e).1).1, h2.append (ih (step cfg st e).1).2⟩

/-- Splitting `name: a,b` into `name: a`, `name: b` (or joining them) — for a Via, a Route or a
Record-Route header, any spellings of the class, both parts decodable, in a well-formed message — gives
`LR`-related messages; `LR` is symmetric and transitive, so any number of splits and joins does. -/
theorem C17_split_is_relayout (cm : List (Bytes × Bytes)) (hD : AllDisj cm) (sl : StartLine) (body : Bytes)
    (pre post : List Header) (nm nm₁ nm₂ a b : Bytes)
    (hok : LOK cm { start := sl, headers := pre ++ { name := nm, value := .raw (a ++ [44] ++ b) } :: post, body := body }) :
    let mJ : Message := { start := sl, headers := pre ++ { name := nm, value := .raw (a ++ [44] ++ b) } :: post, body := body }
    let mS : Message := { start := sl, body := body,
                          headers := pre ++ { name := nm₁, value := .raw a } :: { name := nm₂, value := .raw b } :: post }
    (∀ x y, parseVia a = some x → parseVia b = some y → isSameHeader cm nm viaName = true →
      isSameHeader cm nm₁ viaName = true → isSameHeader cm nm₂ viaName = true → LR cm mJ mS ∧ LR cm mS mJ) ∧
    (∀ x y, parseRoute a = some x → parseRoute b = some y → isSameHeader cm nm routeName = true →
      isSameHeader cm nm₁ routeName = true → isSameHeader cm nm₂ routeName = true → LR cm mJ mS ∧ LR cm mS mJ) ∧
    (∀ x y, parseRoute a = some x → parseRoute b = some y → isSameHeader cm nm recordRouteName = true →
      isSameHeader cm nm₁ recordRouteName = true → isSameHeader cm nm₂ recordRouteName = true →
      LR cm mJ mS ∧ LR cm mS mJ) := by
  intro mJ mS
  refine ⟨fun _ _ ha hb c c₁ c₂ => ?_, fun _ _ ha hb c c₁ c₂ => ?_, fun _ _ ha hb c c₁ c₂ => ?_⟩
  · have h := lr_split_via hD sl body pre post nm nm₁ nm₂ a b ha hb c c₁ c₂ hok
    exact ⟨h, h.symm⟩
  · have h := lr_split_route hD sl body pre post nm nm₁ nm₂ a b ha hb c c₁ c₂ hok
    exact ⟨h, h.symm⟩
  · have h := lr_split_rr hD sl body pre post nm nm₁ nm₂ a b ha hb c c₁ c₂ hok
    exact ⟨h, h.symm⟩

/-- the hypothesis on the table: from sanity; true of the generated table -/
theorem C17_allDisj : (∀ cm, SaneFor cm pipeKeys → AllDisj cm) ∧ AllDisj realCm :=
  ⟨allDisj_of_sane, real_allDisj⟩

/-! ## non-vacuity

Fixtures: `Lemmas.exMsg` / `Lemmas.exMsgSp` (a request and its re-spelling `To→t, v→Via, Route→ROUTE,
Record-Route→record-route, VIA→V, f→From, Call-ID→i, CSeq→cseq`), `Lemmas.exResp` / `Lemmas.exRespSp`
(a response), configuration `Lemmas.exCfg` with the generated table. -/

section Examples

/-- hypotheses of `C17_operations`, `C17_bytes` -/
example := C17_operations realCm exMsg exMsgSp exMsg_respelled
example := C17_bytes realCm exMsg exMsgSp exMsg_respelled
example := C17_framing realCm exMsg exMsgSp exMsg_respelled

/-- hypotheses of `C17_respell_step`, `C17_respell_stages`: a relayed request, a relayed response -/
example := C17_respell_step exCfg exSt _ _ exEv_respelled_req
example := C17_respell_step exCfg exSt _ _ exEv_respelled_resp
example := C17_respell_stages exCfg exSt _ _ exEv_respelled_req exResp exRespSp exResp_MR

/-- hypotheses of `C17_respell_bytes`: each event yields one packet; the two packets of
the request pair go to the same place and are different byte strings -/
example : ∃ o o', (step exCfg exSt (exEv exMsg)).2[0]? = some o ∧ (step exCfg exSt (exEv exMsgSp)).2[0]? = some o' ∧
    o.dest = o'.dest ∧ BytesRespelled exCfg.cm PipeClasses o.data o'.data ∧ o.data ≠ o'.data := by
  have hl : (step exCfg exSt (exEv exMsg)).2.length = 1 ∧ (step exCfg exSt (exEv exMsgSp)).2.length = 1 ∧
      (step exCfg exSt (exEv exMsg)).2.map Out.data ≠ (step exCfg exSt (exEv exMsgSp)).2.map Out.data := by
    decide +kernel
  obtain ⟨h1, h2, h3⟩ := hl
  cases ha : (step exCfg exSt (exEv exMsg)).2 with
  | nil => rw [ha] at h1; cases h1
  | cons o l =>
    cases hb : (step exCfg exSt (exEv exMsgSp)).2 with
    | nil => rw [hb] at h2; cases h2
    | cons o' l' =>
      have hr := C17_respell_bytes exCfg exSt _ _ exEv_respelled_req 0 o o' (by rw [ha]; rfl) (by rw [hb]; rfl)
      refine ⟨o, o', rfl, rfl, hr.1, hr.2, ?_⟩
      rw [ha, hb] at h3
      rw [hb] at h2
      cases l with
      | nil =>
        cases l' with
        | nil => intro e; exact h3 (by simp [e])
        | cons _ _ => simp at h2
      | cons _ _ => rw [ha] at h1; simp at h1

/-- hypothesis of `C17_respell_run`: the request followed by the response -/
example := C17_respell_run exCfg exSt [exEv exMsg, exEv exResp] [exEv exMsgSp, exEv exRespSp]
  (.cons exEv_respelled_req (.cons exEv_respelled_resp .nil))

example : (runSteps exCfg exSt [exEv exMsgSp, exEv exRespSp]).2.length = 2 := by decide +kernel

/-- hypotheses of `C17_letter_case`, `C17_compact_is_same`, `C17_compact_form` -/
example (v : HVal) := C17_letter_case realCm (str "VIA") (str "via") v (by decide +kernel)
example := C17_compact_is_same realCm (str "V") viaName (str "v") real_compacts.1 (by decide +kernel)
example (v : HVal) := C17_compact_form realCm real_sane fromName (str "f") pc_from real_compacts.2.1
  (str "FROM") (str "F") (by decide +kernel) (by decide +kernel) v

/-! re-layout: `exResp` has the Via headers `own` and `a, b`; against it the same response with three
Via lines `own`, `a`, `b` (any spelling of the name) -/

def viaOwn : Bytes := str "SIP/2.0/UDP 10.0.0.1:5060;branch=z9hG4bKabc"
def viaA : Bytes := str "SIP/2.0/UDP a:5070;received=10.0.0.7;rport=4444;branch=z1"
def viaB : Bytes := str "SIP/2.0/TCP b"
def exPre : List Header := [{ name := str "Via", value := .raw viaOwn }]
def exPost : List Header := [{ name := str "CSeq", value := .raw (str "1 INVITE") }]

theorem via_parts : ∃ x y, parseVia viaA = some x ∧ parseVia viaB = some y := by
  obtain ⟨x, hx⟩ := Option.isSome_iff_exists.mp (show (parseVia viaA).isSome = true by decide +kernel)
  obtain ⟨y, hy⟩ := Option.isSome_iff_exists.mp (show (parseVia viaB).isSome = true by decide +kernel)
  exact ⟨x, y, hx, hy⟩

theorem exPrePost_viaOK : ViaOK exCfg.cm (exPre ++ exPost) := by
  intro h hm hc
  simp only [exPre, exPost, List.cons_append, List.nil_append, List.mem_cons, List.not_mem_nil, or_false] at hm
  rcases hm with rfl | rfl
  · obtain ⟨v, hv⟩ := Option.isSome_iff_exists.mp (show (parseVia viaOwn).isSome = true by decide +kernel)
    exact Or.inr ⟨_, v, rfl, hv⟩
  · exfalso; revert hc; decide +kernel

/-- hypotheses of `C17_relayout_response_split` (hence of `C17_relayout_response`, `C17_response_of_stack`,
`C17_stack_split`): `v: a,b` against `Via: a`, `VIA: b` behind the proxy's own Via -/
example :=
  let ⟨x, y, hx, hy⟩ := via_parts
  C17_relayout_response_split exCfg (.status (str "SIP/2.0") 200 (str "OK")) [] exPre exPost
    (str "v") (str "Via") (str "VIA") viaA viaB x y hx hy (by decide +kernel) (by decide +kernel) (by decide +kernel)
    exPrePost_viaOK

/-- … and there the common hop exists: it is the `received`/`rport` address of entry `a` -/
example :
    (getNextResponseHop exCfg ((popVia exCfg.cm
      { start := .status (str "SIP/2.0") 200 (str "OK"), body := [],
        headers := exPre ++ { name := str "Via", value := .raw viaA } :: { name := str "VIA", value := .raw viaB } :: exPost }).getD
      exResp)).1 = some { host := str "10.0.0.7", port := 4444, transport := str "UDP" } := by decide +kernel

/-- the Route side: `Route: p1,p2` against `Route: p1`, `ROUTE: p2` in front of the example request -/
theorem route_parts : ∃ x y, parseRoute exRouteA = some x ∧ parseRoute exRouteB = some y := exRoute_parts

theorem exMsgNoRoute_routeOK : RouteOK exCfg.cm ([] ++ exMsgNoRoute.headers) := by
  intro h hm hc
  exfalso
  have : ∀ x ∈ exMsgNoRoute.headers, isSameHeader realCm x.name routeName = false := by decide +kernel
  have hc' : isSameHeader realCm h.name routeName = true := hc
  rw [this h (by simpa using hm)] at hc'
  cases hc'

/-- hypotheses of `C17_relayout_request_split` (hence of `C17_relayout_request`, `C17_request_of_stack`) -/
example :=
  let ⟨x, y, hx, hy⟩ := route_parts
  C17_relayout_request_split exCfg exMsg.start [] [] exMsgNoRoute.headers
    (str "Route") (str "Route") (str "ROUTE") exRouteA exRouteB x y hx hy
    (by decide +kernel) (by decide +kernel) (by decide +kernel) exMsgNoRoute_routeOK

/-- … the common hop is `p1` and one entry (`p2`) remains (keep-next-hop-route is off in `exCfg`) -/
example :
    let m : Message := { exMsg with headers := { name := str "Route", value := .raw exRouteA } ::
                                      { name := str "ROUTE", value := .raw exRouteB } :: exMsgNoRoute.headers }
    (getNextRequestHopByRoute exCfg m).1 = some { host := str "p1", port := 5060, transport := str "udp" } ∧
    (routeStack exCfg.cm (getNextRequestHopByRoute exCfg m).2.headers).length = 1 := by decide +kernel

/-- hypotheses of `C17_relayout_learn`: same start line, same Via stack (by `viaStack_split`) -/
example :=
  let ⟨x, y, hx, hy⟩ := via_parts
  C17_relayout_learn exCfg exSt
    (exEv { exMsg with headers := exPre ++ ({ name := str "v", value := .raw (viaA ++ [44] ++ viaB) } : Header) :: exPost })
    { exMsg with headers := exPre ++ ({ name := str "Via", value := .raw viaA } : Header) ::
                              ({ name := str "VIA", value := .raw viaB } : Header) :: exPost }
    rfl (viaStack_split exCfg.cm exPre exPost (str "v") (str "Via") (str "VIA") viaA viaB hx hy
      (by decide +kernel) (by decide +kernel))

/-- hypotheses of `C17_split_fail` -/
example := C17_split_fail realCm [] [] (str "Via") (str "Via") (str "Via") exViaB (str "junk")
  (Or.inr (by decide +kernel)) (by decide +kernel) (by decide +kernel) (by decide +kernel)

/-- hypotheses of `C17_relayout_step`, `C17_relayout_content`, `C17_relayout_run`, `C17_split_is_relayout`:
the response `own / a,b` against `own / a / b`, the request `Route: p1,p2` against `Route: p1 / ROUTE: p2`
(fixtures of `Lemmas.LayoutPipe`; both layouts are really relayed, one packet each, with different bytes) -/
theorem lyEv_resp : EvRel (LR exCfg.cm) (exEv lyRespJ) (exEv lyRespS) := EvRel.of_msg (exEv lyRespJ) lyResp_LR
theorem lyEv_req : EvRel (LR exCfg.cm) (exEv lyReqJ) (exEv lyReqS) := EvRel.of_msg (exEv lyReqJ) lyReq_LR

example := C17_relayout_step exCfg real_allDisj exSt _ _ lyEv_resp
example := C17_relayout_step exCfg real_allDisj exSt _ _ lyEv_req
example := C17_relayout_run exCfg real_allDisj exSt [exEv lyReqJ, exEv lyRespJ] [exEv lyReqS, exEv lyRespS]
  (.cons lyEv_req (.cons lyEv_resp .nil))

example : ∃ o o', (step exCfg exSt (exEv lyRespJ)).2[0]? = some o ∧ (step exCfg exSt (exEv lyRespS)).2[0]? = some o' ∧
    o ≠ o' := by
  have hl : (step exCfg exSt (exEv lyRespJ)).2.length = 1 ∧ (step exCfg exSt (exEv lyRespS)).2.length = 1 ∧
      (step exCfg exSt (exEv lyRespJ)).2[0]? ≠ (step exCfg exSt (exEv lyRespS)).2[0]? := by decide +kernel
  obtain ⟨h1, h2, h3⟩ := hl
  cases ha : (step exCfg exSt (exEv lyRespJ)).2[0]? with
  | none => rw [List.getElem?_eq_none_iff] at ha; omega
  | some o =>
    cases hb : (step exCfg exSt (exEv lyRespS)).2[0]? with
    | none => rw [List.getElem?_eq_none_iff] at hb; omega
    | some o' =>
      rw [ha, hb] at h3
      exact ⟨o, o', rfl, rfl, fun e => h3 (by rw [e])⟩

example := C17_split_is_relayout realCm real_allDisj (.status (str "SIP/2.0") 200 (str "OK")) [] lyPre lyPost
  (str "v") (str "Via") (str "VIA") lyA lyB
  ⟨viaOK_of_check realCm (by decide +kernel), routeOK_of_check realCm (by decide +kernel)⟩

end Examples

end Props.C17
