import GoStd.Bytes
namespace Props.C17
end Props.C17
