import GoStd.Bytes
namespace Props.C02
end Props.C02
