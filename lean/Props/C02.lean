/-
C02 — Responses travel back along the Via stack.

"A response … is relayed iff, after its topmost Via entry is discarded, another Via entry remains;
it is then sent over that entry's transport to the entry's sent-by host and port (default 5060) -
or, when the entry carries received, to that address and to its numeric rport if it has one (else
the sent-by port) - with all remaining Via entries intact and in order."

Model: the response branch of `Proxy.handleMessage` (`popVia`, then `getNextResponseHop`).
Abstraction: `Lemmas.viaStack`. "The topmost Via entry" is what `getVia` reads: the decoded list of
the FIRST Via-class header.
-/
import Proxy.Model
import Lemmas.Abs
import Lemmas.Pipe
import Lemmas.Codec
import Props.C07
open GoStd Sip Proxy Lemmas

namespace Props.C02

/-- where a response goes, as a function of the Via entry that is topmost after the pop -/
def responseHopOf (vp : ViaParam) : Hop :=
  match getParam vp.params (str "received") with
  | some r =>
    { host := r, port := ((getParam vp.params (str "rport")).bind atoi).getD vp.getPort, transport := vp.transport }
  | none => { host := vp.host, port := vp.getPort, transport := vp.transport }

/-- `getNextResponseHop` reads the hop from the first entry of the first Via-class header and only
decodes that header in place. -/
theorem C02_hop (cfg : Cfg) (m m1 : Message) (vp : ViaParam) (rest : List ViaParam)
    (hg : getVia cfg.cm m = some (vp :: rest, m1)) :
    getNextResponseHop cfg m = (some (responseHopOf vp), m1) := by
  unfold getNextResponseHop responseHopOf
  simp only [hg]
  cases getParam vp.params (str "received") with
  | none => rfl
  | some r =>
    simp only []
    cases (getParam vp.params (str "rport")).bind atoi <;> rfl

/-- no readable Via entry: no hop -/
theorem C02_hop_none (cfg : Cfg) (m : Message) :
    (∀ vp rest m1, getVia cfg.cm m ≠ some (vp :: rest, m1)) → (getNextResponseHop cfg m).1 = none := by
  intro h
  unfold getNextResponseHop
  cases hg : getVia cfg.cm m with
  | none => rfl
  | some p =>
    obtain ⟨v, m1⟩ := p
    cases v with
    | nil => rfl
    | cons vp rest => exact absurd hg (h vp rest m1)

/-- the message is only decoded in place: its Via stack is unchanged -/
theorem C02_hop_stack (cfg : Cfg) (m : Message) :
    viaStack cfg.cm (getNextResponseHop cfg m).2.headers = viaStack cfg.cm m.headers := by
  unfold getNextResponseHop
  cases hg : getVia cfg.cm m with
  | none => rfl
  | some p =>
    obtain ⟨v, m1⟩ := p
    have := (viaStack_getVia cfg.cm hg).1
    cases v with
    | nil => exact this
    | cons vp rest =>
      simp only []
      split
      · exact this
      · exact this

/-! ### the four cases of the property text -/

/-- no `received`: sent-by host and port over the entry's transport -/
theorem C02_sentby (vp : ViaParam) (h : getParam vp.params (str "received") = none) :
    responseHopOf vp = { host := vp.host, port := vp.getPort, transport := vp.transport } := by
  simp [responseHopOf, h]

/-- `received` and a numeric `rport`: that address and that port -/
theorem C02_received_rport (vp : ViaParam) (r p : Bytes) (n : Int)
    (h : getParam vp.params (str "received") = some r)
    (hp : getParam vp.params (str "rport") = some p) (hn : atoi p = some n) :
    responseHopOf vp = { host := r, port := n, transport := vp.transport } := by
  simp [responseHopOf, h, hp, hn]

/-- `received` and an `rport` that is not a number (e.g. the bare flag): sent-by port -/
theorem C02_received_badrport (vp : ViaParam) (r p : Bytes)
    (h : getParam vp.params (str "received") = some r)
    (hp : getParam vp.params (str "rport") = some p) (hn : atoi p = none) :
    responseHopOf vp = { host := r, port := vp.getPort, transport := vp.transport } := by
  simp [responseHopOf, h, hp, hn]

/-- `received` without `rport`: sent-by port -/
theorem C02_received_norport (vp : ViaParam) (r : Bytes)
    (h : getParam vp.params (str "received") = some r)
    (hp : getParam vp.params (str "rport") = none) :
    responseHopOf vp = { host := r, port := vp.getPort, transport := vp.transport } := by
  simp [responseHopOf, h, hp]

/-- sent-by port: the given one, else 5060 (5061 over TLS) -/
theorem C02_port (vp : ViaParam) :
    vp.getPort = if vp.port ≠ 0 then vp.port else if vp.transport = str "TLS" then 5061 else 5060 := by
  unfold ViaParam.getPort
  by_cases hp : vp.port = 0 <;> simp [hp]

/-! ### relayed iff an entry remains -/

/-- A response whose pop leaves no Via-class header is not relayed. -/
theorem C02_no_via_no_send (cfg : Cfg) (st : St) (ev : RawEv) (m : Message)
    (hresp : isRequest m = false)
    (hnone : findHeader cfg.cm ((popVia cfg.cm m).getD m).headers viaName = none) :
    (handleMessage cfg st ev m).2 = [] := by
  have hg : getVia cfg.cm ((popVia cfg.cm m).getD m) = none := getVia_none_of_find_none cfg.cm hnone
  unfold handleMessage
  simp only [hresp, Bool.false_eq_true, ↓reduceIte, getNextResponseHop, hg]

/-- more generally: no readable entry after the pop (none left, or the next Via-class header does
not decode), no relay. -/
theorem C02_no_hop_no_send (cfg : Cfg) (st : St) (ev : RawEv) (m : Message)
    (hresp : isRequest m = false)
    (hnone : (getNextResponseHop cfg ((popVia cfg.cm m).getD m)).1 = none) :
    (handleMessage cfg st ev m).2 = [] := by
  unfold handleMessage
  simp only [hresp, Bool.false_eq_true, ↓reduceIte]
  generalize getNextResponseHop cfg ((popVia cfg.cm m).getD m) = p at hnone
  obtain ⟨hop, m2⟩ := p
  simp only at hnone
  subst hnone
  rfl

/-- A response with a readable entry after the pop is passed to `sendMessage` for the hop that entry
determines. -/
theorem C02_relay (cfg : Cfg) (st : St) (ev : RawEv) (m m1 m2 : Message) (vp : ViaParam) (rest : List ViaParam)
    (hresp : isRequest m = false) (hpop : popVia cfg.cm m = some m1)
    (hg : getVia cfg.cm m1 = some (vp :: rest, m2)) :
    ∃ st1 m3, handleMessage cfg st ev m = sendMessage cfg st1 (responseHopOf vp) m3 := by
  unfold handleMessage
  simp only [hresp, Bool.false_eq_true, ↓reduceIte, hpop, Option.getD_some, C02_hop cfg m1 m2 vp rest hg]
  exact ⟨_, _, rfl⟩

/-- the remaining entries: the pop removes exactly the topmost one -/
theorem C02_remaining (cfg : Cfg) (m m1 : Message) (hpop : popVia cfg.cm m = some m1)
    (hne : ∀ hd, findHeader cfg.cm m.headers viaName = some hd → hd.value ≠ .via []) :
    viaStack cfg.cm m1.headers = (viaStack cfg.cm m.headers).tail :=
  viaStack_popVia cfg.cm hpop hne

/-! ### end to end: a response through `handleMessage` and through one `step`

`v` is the list `getVia` reads from the received response (the decoded first Via-class header),
`rest` everything below it; the relayed message carries `v.tail ++ rest`, i.e. the received stack
without its topmost entry (`v ≠ []` for every header that came off the wire, `parseVia_ne_nil`),
and is sent to the hop determined by the new topmost entry. -/

theorem C02_handleMessage_out (cfg : Cfg) (hc : ClassesOK cfg.cm) (st : St) (ev : RawEv) (m : Message)
    (hresp : isRequest m = false) (o : Out) (ho : o ∈ (handleMessage cfg st ev m).2) :
    ∃ (v rest : List ViaParam) (vp : ViaParam) (m' : Message),
      (getVia cfg.cm m).map Prod.fst = some v ∧ viaStack cfg.cm m.headers = v ++ rest ∧
      (v.tail ++ rest).head? = some vp ∧
      o.data = m'.bytes cfg.cm ∧ viaStack cfg.cm m'.headers = v.tail ++ rest ∧
      ∃ st1 m3, handleMessage cfg st ev m = sendMessage cfg st1 (responseHopOf vp) m3 := by
  cases hp : popVia cfg.cm m with
  | none =>
    have hg : getVia cfg.cm m = none := by
      have := popVia_isSome cfg.cm m
      rw [hp] at this
      cases hg : getVia cfg.cm m with
      | none => rfl
      | some p => rw [hg] at this; cases this
    have : (handleMessage cfg st ev m).2 = [] := by
      apply C02_no_hop_no_send cfg st ev m hresp
      simp [hp, getNextResponseHop, hg]
    rw [this] at ho; cases ho
  | some m1 =>
    obtain ⟨v, m0, rest, hg, h1, h2⟩ := viaStack_popVia_gen cfg.cm hp
    cases hg1 : getVia cfg.cm m1 with
    | none =>
      have : (handleMessage cfg st ev m).2 = [] := by
        apply C02_no_hop_no_send cfg st ev m hresp
        simp [hp, getNextResponseHop, hg1]
      rw [this] at ho; cases ho
    | some q =>
      obtain ⟨w, m2⟩ := q
      cases w with
      | nil =>
        have : (handleMessage cfg st ev m).2 = [] := by
          apply C02_no_hop_no_send cfg st ev m hresp
          simp [hp, getNextResponseHop, hg1]
        rw [this] at ho; cases ho
      | cons vp r =>
        have hhop := C02_hop cfg m1 m2 vp r hg1
        have heq := handleMessage_response cfg st ev m hresp
        simp only [hp, Option.getD_some, hhop] at heq
        rw [heq] at ho
        obtain ⟨hd, _⟩ := sendMessage_out cfg _ _ _ o ho
        have e1 := viaEquiv_respPin cfg hc st (some (responseHopOf vp)) m2
        have e2 := viaEquiv_getClientTransaction cfg.cm hc.cseq_via (respPin cfg st (some (responseHopOf vp)) m2).2
        have hs : viaStack cfg.cm m2.headers = viaStack cfg.cm m1.headers := (viaStack_getVia cfg.cm hg1).1
        refine ⟨v, rest, vp, _, by rw [hg]; rfl, h1, ?_, hd, ?_, _, _, heq⟩
        · rw [← h2]; exact viaStack_head_of_getVia cfg.cm hg1
        · rw [e2.1, e1.1, hs, h2]

/-- A response event through one `step`: every packet it produces serialises a message carrying the
received Via stack minus its topmost entry, all remaining entries intact and in order, and the
whole step is a `sendMessage` to the hop the new topmost entry determines. -/
theorem C02_step (cfg : Cfg) (hc : ClassesOK cfg.cm) (st : St) (ev : RawEv)
    (hresp : isRequest ev.msg = false) (o : Out) (ho : o ∈ (step cfg st ev).2) :
    ∃ (v rest : List ViaParam) (vp : ViaParam) (m' : Message),
      (getVia cfg.cm ev.msg).map Prod.fst = some v ∧ viaStack cfg.cm ev.msg.headers = v ++ rest ∧
      (v.tail ++ rest).head? = some vp ∧
      o.data = m'.bytes cfg.cm ∧ viaStack cfg.cm m'.headers = v.tail ++ rest ∧
      ∃ st1 m3, step cfg st ev = sendMessage cfg st1 (responseHopOf vp) m3 := by
  have he := viaEquiv_step_response cfg hc st ev hresp
  have hstep : step cfg st ev = handleMessage cfg
      (handleDialog cfg (handleRawMessage cfg st ev).1 ev.peerAddr ev.peerPort (handleRawMessage cfg st ev).2).1 ev
      (handleDialog cfg (handleRawMessage cfg st ev).1 ev.peerAddr ev.peerPort (handleRawMessage cfg st ev).2).2 := by
    unfold step
    rcases handleRawMessage cfg st ev with ⟨st1, m1⟩
    simp only []
  generalize (handleDialog cfg (handleRawMessage cfg st ev).1 ev.peerAddr ev.peerPort
    (handleRawMessage cfg st ev).2).1 = stD at hstep
  generalize (handleDialog cfg (handleRawMessage cfg st ev).1 ev.peerAddr ev.peerPort
    (handleRawMessage cfg st ev).2).2 = mD at hstep he
  have hrespD : isRequest mD = false := by
    unfold isRequest at hresp ⊢
    rw [he.2.2]; exact hresp
  rw [hstep] at ho ⊢
  obtain ⟨v, rest, vp, m', a1, a2, a3, a4, a5, a6⟩ := C02_handleMessage_out cfg hc stD ev mD hrespD o ho
  exact ⟨v, rest, vp, m', by rw [← he.2.1]; exact a1, by rw [← he.1]; exact a2, a3, a4, a5, a6⟩

/-- For a response that came off the wire (first Via-class header still raw) the relayed stack is
exactly the tail of the received one. -/
theorem C02_step_raw (cfg : Cfg) (hc : ClassesOK cfg.cm) (st : St) (ev : RawEv)
    (hresp : isRequest ev.msg = false)
    (hraw : ∀ hd, findHeader cfg.cm ev.msg.headers viaName = some hd → ∃ s, hd.value = .raw s)
    (o : Out) (ho : o ∈ (step cfg st ev).2) :
    ∃ m' : Message, o.data = m'.bytes cfg.cm ∧
      viaStack cfg.cm m'.headers = (viaStack cfg.cm ev.msg.headers).tail := by
  obtain ⟨v, rest, vp, m', a1, a2, _, a4, a5, _⟩ := C02_step cfg hc st ev hresp o ho
  refine ⟨m', a4, ?_⟩
  rw [a5, a2]
  cases hg : getVia cfg.cm ev.msg with
  | none => rw [hg] at a1; cases a1
  | some p =>
    obtain ⟨w, m1⟩ := p
    rw [hg] at a1
    simp only [Option.map_some, Option.some.injEq] at a1
    subst a1
    obtain ⟨hd, hf, hv, _⟩ := getVia_some cfg.cm hg
    have hne : w ≠ [] := by
      rcases hv with hv | ⟨s, _, hp⟩
      · obtain ⟨s, hs⟩ := hraw hd hf
        rw [hs] at hv; cases hv
      · exact parseVia_ne_nil s w hp
    cases w with
    | nil => exact absurd rfl hne
    | cons x xs => rfl

/-! ### non-vacuity (fixtures of `Lemmas.Pipe`)

The example response carries the proxy's own Via on top and, beneath it, an entry with
received=10.0.0.7;rport=4444: it is relayed there over UDP, with two Via entries left. -/

example : isRequest (exEv exResp).msg = false ∧
    (step exCfg exSt (exEv exResp)).2.map (fun o => match o with
      | .udp ip port _ => (ip, port) | _ => ([], 0)) = [(str "10.0.0.7", 4444)] := by decide +kernel

example : (viaStack exCfg.cm exResp.headers).length = 3 ∧ (popVia exCfg.cm exResp).isSome = true ∧
    ((popVia exCfg.cm exResp).bind (fun m1 => (getVia exCfg.cm m1).map (fun p => p.1.map responseHopOf))) =
      some [{ host := str "10.0.0.7", port := 4444, transport := str "UDP" },
            { host := str "b", port := 5060, transport := str "TCP" }] := by decide +kernel

/-- `C02_no_via_no_send` applies to a response with a single Via entry -/
example : isRequest { exResp with headers := exResp.headers.take 1 } = false ∧
    findHeader exCfg.cm ((popVia exCfg.cm { exResp with headers := exResp.headers.take 1 }).getD
      { exResp with headers := exResp.headers.take 1 }).headers viaName = none := by
  decide +kernel

/-- the four cases of `responseHopOf`, each on a concrete entry -/
def exVp (ps : List KeyValue) : ViaParam :=
  { protoName := str "SIP", protoVersion := str "2.0", transport := str "TLS", host := str "h", port := 0, params := ps }

example : getParam (exVp []).params (str "received") = none ∧
    responseHopOf (exVp []) = { host := str "h", port := 5061, transport := str "TLS" } := by decide +kernel
example : getParam (exVp [⟨str "received", str "r"⟩, ⟨str "rport", str "77"⟩]).params (str "received") = some (str "r") ∧
    getParam (exVp [⟨str "received", str "r"⟩, ⟨str "rport", str "77"⟩]).params (str "rport") = some (str "77") ∧
    atoi (str "77") = some 77 ∧
    responseHopOf (exVp [⟨str "received", str "r"⟩, ⟨str "rport", str "77"⟩]) =
      { host := str "r", port := 77, transport := str "TLS" } := by decide +kernel
example : getParam (exVp [⟨str "rport", []⟩, ⟨str "received", str "r"⟩]).params (str "rport") = some [] ∧
    atoi [] = none ∧
    responseHopOf (exVp [⟨str "rport", []⟩, ⟨str "received", str "r"⟩]) =
      { host := str "r", port := 5061, transport := str "TLS" } := by decide +kernel
example : getParam (exVp [⟨str "received", str "r"⟩]).params (str "rport") = none ∧
    responseHopOf (exVp [⟨str "received", str "r"⟩]) =
      { host := str "r", port := 5061, transport := str "TLS" } := by decide +kernel

/-- `C02_remaining`, `C02_step_raw`: the example response has a raw top Via -/
example : ∀ hd, findHeader exCfg.cm exResp.headers viaName = some hd → ∃ s, hd.value = .raw s := by
  intro hd h
  have : findHeader exCfg.cm exResp.headers viaName =
      some { name := str "Via", value := .raw (str "SIP/2.0/UDP 10.0.0.1:5060;branch=z9hG4bKabc") } := by
    decide +kernel
  rw [this] at h
  cases h
  exact ⟨_, rfl⟩

/-! ### the request / response pair -/

/-- THE PAIR, at the level of the sender's Via entry. The request's top Via entry `vp` is stamped with the true
source `(ip, port)` when the listener supports `received`; whatever the next hops do with the request, the
response they send back carries that stamped entry; after the proxy has popped its own entry the response hop is
computed from it (`C02_hop`). That hop is the true source address, and the true source port whenever the sender asked for
`rport` (with or without a value, even a forged one); otherwise it is the true source address and the sent-by port. -/
theorem C02_pair_rport (vp : ViaParam) (ip : Bytes) (port : Int)
    (hport : 0 ≤ port) (hsmall : port ≤ 9223372036854775807)
    (h : hasParam vp.params (str "rport") = true) :
    responseHopOf (stampReceived vp ip port) = { host := ip, port := port, transport := vp.transport } := by
  have h1 := Props.C07.C07_received vp ip port
  have h2 := Props.C07.C07_rport_present vp ip port h
  have h3 := (Props.C07.C07_other_fields vp ip port).2.2.1
  rw [C02_received_rport _ ip (itoa port) port h1 h2 (atoi_itoa hport hsmall), h3]

theorem C02_pair_no_rport (vp : ViaParam) (ip : Bytes) (port : Int)
    (h : hasParam vp.params (str "rport") = false) :
    responseHopOf (stampReceived vp ip port) = { host := ip, port := vp.getPort, transport := vp.transport } := by
  have h1 := Props.C07.C07_received vp ip port
  have h2 := Props.C07.C07_rport_absent vp ip port h
  obtain ⟨_, _, h3, h4, h5⟩ := Props.C07.C07_other_fields vp ip port
  have hgp : (stampReceived vp ip port).getPort = vp.getPort := by
    simp [ViaParam.getPort, h3, h5]
  simp [responseHopOf, h1, h2, hgp, h3]

/-- ... and so a response whose Via stack, after the proxy's own entry has been popped, starts with the entry the proxy
stamped on the way in, goes back to where the request really came from. -/
theorem C02_returns_to_true_source (cfg : Cfg) (m m1 : Message) (vp : ViaParam) (rest : List ViaParam)
    (ip : Bytes) (port : Int) (hport : 0 ≤ port) (hsmall : port ≤ 9223372036854775807)
    (hr : hasParam vp.params (str "rport") = true)
    (hg : getVia cfg.cm m = some (stampReceived vp ip port :: rest, m1)) :
    getNextResponseHop cfg m = (some { host := ip, port := port, transport := vp.transport }, m1) := by
  rw [C02_hop cfg m m1 _ rest hg, C02_pair_rport vp ip port hport hsmall hr]

/-- non-vacuity: a sender behind a NAT announces 10.0.0.1:5060 and asks for rport; the request really came from
192.0.2.7:40000 -/
def natVia : ViaParam :=
  { protoName := str "SIP", protoVersion := str "2.0", transport := str "UDP", host := str "10.0.0.1", port := 5060,
    params := [⟨str "branch", str "z9hG4bKx"⟩, ⟨str "rport", []⟩] }

example : responseHopOf (stampReceived natVia (str "192.0.2.7") 40000)
    = { host := str "192.0.2.7", port := 40000, transport := str "UDP" } :=
  C02_pair_rport natVia (str "192.0.2.7") 40000 (by decide) (by decide) (by decide +kernel)

end Props.C02
