import GoStd.Bytes
namespace Props.C03
end Props.C03
