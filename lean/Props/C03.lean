/-
C03 — One request, one destination, chosen by a fixed precedence.

"Every received request is sent to exactly one destination, chosen in this order: (1) the first
remaining Route entry; (2) the static route for the host of the To URI; (3) one backend of the
service if the Request-URI matches …. A request matching none of these is dropped; no request is
ever sent to two destinations."

Model: Proxy.Model (`step` = handleRawMessage → handleDialog → HandleMessage). The statements hold
for every configuration, state and event unless a hypothesis says otherwise ("at most one" is
unconditional; "exactly one" fails only where the chosen destination cannot be reached: no
transport for the hop, or an empty rotation — both visible in the closed forms below).
-/
import Lemmas.Relay
import Lemmas.RelaySample
import Props.C05
open GoStd Sip Proxy Lemmas

namespace Props.C03

/-! ### no message is ever sent to two destinations -/

theorem handleMessage_length (cfg : Cfg) (st : St) (ev : RawEv) (m : Message) :
    (handleMessage cfg st ev m).2.length ≤ 1 := by
  unfold handleMessage
  simp only []
  split
  · split
    · exact sendMessage_length _ _ _ _
    · split
      · exact sendToBackend_length _ _ _ _
      · simp
  · split
    · simp
    · exact sendMessage_length _ _ _ _

/-- For ALL configurations, states and events (requests and responses alike) one received message
produces at most one output. -/
theorem C03_at_most_one (cfg : Cfg) (st : St) (ev : RawEv) : (step cfg st ev).2.length ≤ 1 := by
  unfold step
  exact handleMessage_length _ _ _ _

/-! ### the order of precedence -/

/-- (1) before (2): when the Route yields a hop, the static-route table is not consulted. -/
theorem C03_route_first (cfg : Cfg) (m m1 : Message) (h : Hop)
    (hr : getNextRequestHopByRoute cfg m = (some h, m1)) : getNextRequestHop cfg m = (some h, m1) := by
  unfold getNextRequestHop
  rw [hr]

/-- (2) only after (1): without a usable Route entry the hop is the static route's verdict (on the
message as the Route lookup left it). -/
theorem C03_static_second (cfg : Cfg) (m m1 : Message)
    (hr : getNextRequestHopByRoute cfg m = (none, m1)) :
    getNextRequestHop cfg m = getNextRequestHopByConfig cfg m1 := by
  unfold getNextRequestHop
  rw [hr]

/-- the message a request leaves with when a hop was found: own Via (+ Record-Route) only towards a
host a listener was learned for -/
def hopMessage (cfg : Cfg) (st : St) (ev : RawEv) (hop : Hop) (m1 : Message) : Message :=
  match assocGet st.learned hop.host with
  | some t => insertSelf cfg m1 t ev.branch
  | none => m1

/-- (1)/(2) before (3): a request with a next hop goes to that hop and nowhere else; no backend is
involved (neither the pin list nor the rotation is read or written). -/
theorem C03_precedence_hop (cfg : Cfg) (st : St) (ev : RawEv) (m m1 : Message) (hop : Hop)
    (hreq : isRequest m = true) (hh : getNextRequestHop cfg m = (some hop, m1)) :
    handleMessage cfg st ev m = sendMessage cfg st hop (hopMessage cfg st ev hop m1) := by
  unfold handleMessage hopMessage
  rw [if_pos hreq, hh]
  rfl

/-- (3): a request without next hop that is addressed to the service goes to a backend. -/
theorem C03_precedence_backend (cfg : Cfg) (st : St) (ev : RawEv) (m m1 : Message)
    (hreq : isRequest m = true) (hh : getNextRequestHop cfg m = (none, m1))
    (hmy : isMyMessage cfg ev.frm m1 ev.rxMatch = true) :
    handleMessage cfg st ev m = sendToBackend cfg st m1 ev.branch := by
  unfold handleMessage
  rw [if_pos hreq, hh]
  simp only [hmy, ↓reduceIte]

/-- a request matching none of the three is dropped, the state untouched. -/
theorem C03_precedence_drop (cfg : Cfg) (st : St) (ev : RawEv) (m m1 : Message)
    (hreq : isRequest m = true) (hh : getNextRequestHop cfg m = (none, m1))
    (hmy : isMyMessage cfg ev.frm m1 ev.rxMatch = false) :
    handleMessage cfg st ev m = (st, []) := by
  unfold handleMessage
  rw [if_pos hreq, hh]
  simp only [hmy, Bool.false_eq_true, ↓reduceIte]

/-- The three cases in one statement, on the outputs. -/
theorem C03_precedence (cfg : Cfg) (st : St) (ev : RawEv) (m : Message) (hreq : isRequest m = true) :
    (handleMessage cfg st ev m).2 =
      match getNextRequestHop cfg m with
      | (some hop, m1) => (sendMessage cfg st hop (hopMessage cfg st ev hop m1)).2
      | (none, m1) =>
        if isMyMessage cfg ev.frm m1 ev.rxMatch then (sendToBackend cfg st m1 ev.branch).2 else [] := by
  split
  · rename_i hop m1 hh
    rw [C03_precedence_hop cfg st ev m m1 hop hreq hh]
  · rename_i m1 hh
    by_cases hmy : isMyMessage cfg ev.frm m1 ev.rxMatch = true
    · rw [C03_precedence_backend cfg st ev m m1 hreq hh hmy, if_pos hmy]
    · rw [C03_precedence_drop cfg st ev m m1 hreq hh (by simpa using hmy), if_neg hmy]

/-- Everything a hop-bound request emits goes through the ONE transport entry looked up for the
hop, and carries the same bytes. -/
theorem C03_hop_single_entry (cfg : Cfg) (st : St) (hop : Hop) (m : Message) :
    (sendMessage cfg st hop m).2 = [] ∨
    ∃ tr key e, sendLookup cfg st hop m = some (tr, key, e) ∧
      (sendMessage cfg st hop m).2 = entrySend e ((sentMessage cfg m).bytes cfg.cm) := by
  rw [sendMessage_out]
  cases h : sendLookup cfg st hop m with
  | none => left; rfl
  | some p =>
    obtain ⟨tr, key, e⟩ := p
    right; exact ⟨tr, key, e, rfl, rfl⟩

/-! ### the backend chosen in case (3) -/

/-- Whatever `sendToBackend` emits is addressed to a backend: the member the dialog is pinned to,
or else the rotation's pick, which is a current member of the rotation. -/
theorem C03_backend_is_member (cfg : Cfg) (st : St) (m : Message) (br : Bytes) (a d : Bytes)
    (h : (sendToBackend cfg st m br).2 = [.backend a d]) :
    (findBackendByDialog cfg st m).1 = some (.member a) ∨
    (((findBackendByDialog cfg st m).1 = none ∨ (findBackendByDialog cfg st m).1 = some .rotation) ∧
      (Side.RR.dispatch st.rr).2 = some a ∧ a ∈ st.rr.backends) := by
  cases h0 : cfg.transports0 with
  | none => rw [sendToBackend_none cfg st m br h0] at h; cases h
  | some t0 =>
    rw [sendToBackend_out cfg st m br t0 h0] at h
    unfold sbBackend at h
    have key : ∀ b, (findBackendByDialog cfg st m).1.getD .rotation = b →
        (b = .rotation → (findBackendByDialog cfg st m).1 = none ∨ (findBackendByDialog cfg st m).1 = some .rotation) ∧
        (∀ x, b = .member x → (findBackendByDialog cfg st m).1 = some (.member x)) := by
      intro b hb
      cases hf : (findBackendByDialog cfg st m).1 with
      | none => rw [hf] at hb; simp at hb; subst hb; simp
      | some y => rw [hf] at hb; simp at hb; subst hb; simp
    cases hb : (findBackendByDialog cfg st m).1.getD .rotation with
    | member x =>
      rw [hb] at h
      simp only [sbPick, List.cons.injEq, Out.backend.injEq, and_true] at h
      left
      rw [← h.1]
      exact (key _ hb).2 x rfl
    | rotation =>
      rw [hb] at h
      simp only [sbPick] at h
      right
      refine ⟨(key _ hb).1 rfl, ?_⟩
      cases hd : (Side.RR.dispatch st.rr).2 with
      | none => rw [hd] at h; cases h
      | some a' =>
        rw [hd] at h
        simp only [List.cons.injEq, Out.backend.injEq, and_true] at h
        have ha := h.1
        subst ha
        exact ⟨rfl, Props.C05.C05_member st.rr (Side.RR.dispatch st.rr).1 a' (by rw [← hd])⟩

/-- … and every output of `sendToBackend` is of that kind (never a raw transport send). -/
theorem C03_backend_only (cfg : Cfg) (st : St) (m : Message) (br : Bytes) :
    ∀ o ∈ (sendToBackend cfg st m br).2, ∃ a d, o = .backend a d := by
  intro o ho
  cases h0 : cfg.transports0 with
  | none => rw [sendToBackend_none cfg st m br h0] at ho; cases ho
  | some t0 =>
    rw [sendToBackend_out cfg st m br t0 h0] at ho
    split at ho
    · cases ho
    · simp only [List.mem_singleton] at ho
      exact ⟨_, _, ho⟩

/-! ### "exactly one" where the destination is reachable -/

/-- Case (3) emits exactly one message as soon as the service has a listener towards its backends
and the backend object can deliver: the dialog is pinned to a member, or the rotation is not empty. -/
theorem C03_backend_exactly_one (cfg : Cfg) (st : St) (m : Message) (br : Bytes) (t0 : Listener)
    (h0 : cfg.transports0 = some t0)
    (hb : (∃ a, (findBackendByDialog cfg st m).1 = some (.member a)) ∨ st.rr.backends ≠ []) :
    (sendToBackend cfg st m br).2.length = 1 := by
  rw [sendToBackend_out cfg st m br t0 h0]
  have : ∃ a, (sbPick st.rr (sbBackend cfg st m)).2 = some a := by
    cases hs : sbBackend cfg st m with
    | member a => exact ⟨a, rfl⟩
    | rotation =>
      rcases hb with ⟨a, ha⟩ | hne
      · simp [sbBackend, ha] at hs
      · exact Props.C05.C05_nonempty_sends st.rr hne
  obtain ⟨a, ha⟩ := this
  rw [ha]
  rfl

/-- With an empty rotation and no pin the request is dropped (C05's "dropped without disturbing
the proxy"), never sent elsewhere. -/
theorem C03_backend_none (cfg : Cfg) (st : St) (m : Message) (br : Bytes)
    (hp : (findBackendByDialog cfg st m).1 = none) (hb : st.rr.backends = []) :
    (sendToBackend cfg st m br).2 = [] := by
  cases h0 : cfg.transports0 with
  | none => rw [sendToBackend_none cfg st m br h0]
  | some t0 =>
    rw [sendToBackend_out cfg st m br t0 h0]
    have : sbBackend cfg st m = .rotation := by simp [sbBackend, hp]
    rw [this]
    simp only [sbPick, Props.C05.C05_empty_drops st.rr hb]

/-- Cases (1)/(2) emit exactly one message when the hop has a transport with a live primary. -/
theorem C03_hop_exactly_one (cfg : Cfg) (st : St) (hop : Hop) (m : Message)
    (tr : List (Bytes × TransEntry)) (key : Bytes) (e : TransEntry)
    (hl : sendLookup cfg st hop m = some (tr, key, e)) (hp : e.primary ≠ none) :
    (sendMessage cfg st hop m).2.length = 1 := by
  rw [sendMessage_out, hl]
  simp only [entrySend]
  split
  · rfl
  · rfl
  · rename_i h; exact absurd h hp

/-! ### non-vacuity: each case of the precedence occurs on the sample configuration -/

open Lemmas.Sample in
example : isRequest routed = true ∧ (getNextRequestHopByRoute cfg routed).1 =
    some { host := str "10.0.0.7", port := 5080, transport := str "udp" } := by decide +kernel
open Lemmas.Sample in
example : isRequest static = true ∧ (getNextRequestHopByRoute cfg static).1 = none ∧
    (getNextRequestHop cfg static).1 = some { host := str "10.0.0.9", port := 5070, transport := str "udp" } := by
  decide +kernel
open Lemmas.Sample in
example : isRequest invite = true ∧ (getNextRequestHop cfg invite).1 = none ∧
    isMyMessage cfg (ev invite).frm (getNextRequestHop cfg invite).2 (ev invite).rxMatch = true := by decide +kernel
open Lemmas.Sample in
example : isRequest stray = true ∧ (getNextRequestHop cfg stray).1 = none ∧
    isMyMessage cfg (ev stray).frm (getNextRequestHop cfg stray).2 (ev stray).rxMatch = false ∧
    (step cfg st (ev stray)).2 = [] := by decide +kernel
open Lemmas.Sample in
/-- a hop with a fresh UDP transport: exactly one datagram -/
example : (sendLookup cfg st { host := str "10.0.0.7", port := 5080, transport := str "udp" } routed).map
    (fun p => p.2.2.primary.isSome) = some true := by decide +kernel
open Lemmas.Sample in
example : cfg.transports0 = some lsn ∧ st.rr.backends ≠ [] ∧ (findBackendByDialog cfg st invite).1 = none ∧
    (findBackendByDialog cfg st bye).1 = some (.member b1) := by decide +kernel
open Lemmas.Sample in
/-- unpinned: the rotation's pick, a current member -/
example : ∃ d, (sendToBackend cfg st invite (str "z9hG4bKown")).2 = [.backend b2 d] :=
  ⟨(sbMessage cfg st invite lsn (str "z9hG4bKown")).bytes cfg.cm, by decide +kernel⟩
open Lemmas.Sample in
/-- pinned: the pinned member -/
example : ∃ d, (sendToBackend cfg st bye (str "z9hG4bKown")).2 = [.backend b1 d] :=
  ⟨(sbMessage cfg st bye lsn (str "z9hG4bKown")).bytes cfg.cm, by decide +kernel⟩

end Props.C03
