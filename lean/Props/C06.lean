/-
C06 — The proxy inserts itself into the Via and Record-Route stacks of what it forwards.

"Whenever the proxy hands a request to a backend, or relays it to a next hop it has learned to
reach through one of its listeners, it pushes exactly one new topmost Via naming that listener's
transport, address and port with a freshly generated branch that starts with z9hG4bK; every Via
entry already present stays beneath it in its original order. In the same cases, if the request
already carries a Record-Route or the listener is configured to always record, it also places one
entry <sip:listener-address:port;lr> ahead of all existing Record-Route entries, and otherwise
adds none."

Model: Proxy.Model (`insertSelf`, `sendToBackend`, `handleMessage`), abstraction Lemmas.Abs
(`viaStack`, `rrStack`). The branch is an oracle of the model (`RawEv.branch`, what CreateBranch
returned); its z9hG4bK prefix is checked on the real code by the correspondence streams. The
`insertSelf` theorems hold for every compact-name map (the Record-Route one needs that "Via" is not
a Record-Route name); the end-to-end theorems need the name classes involved to be pairwise
disjoint (`Lemmas.ClassesOK`, proved for the generated table by `Lemmas.real_classesOK`).
-/
import Proxy.Model
import Lemmas.Abs
import Lemmas.Pipe
open GoStd Sip Proxy Lemmas

namespace Props.C06

/-! ### the stacks after `insertSelf` -/

/-- exactly one new topmost Via, everything else beneath it in order (any compact map) -/
theorem C06_insertSelf_via (cfg : Cfg) (m : Message) (t : Listener) (br : Bytes) :
    viaStack cfg.cm (insertSelf cfg m t br).headers = ownVia t br :: viaStack cfg.cm m.headers :=
  viaStack_insertSelf cfg m t br

/-- One own Record-Route entry ahead of all others iff the request carries a Record-Route-class
header or the listener always records; none otherwise. `insertSelf` tests for a Record-Route header
AFTER `addVia`, so the new header named "Via" must not itself count as a Record-Route header: `hV`
(true for the generated table: `Lemmas.real_via_rr`). -/
theorem C06_insertSelf_rr (cfg : Cfg) (hV : isSameHeader cfg.cm viaName recordRouteName = false)
    (m : Message) (t : Listener) (br : Bytes) :
    rrStack cfg.cm (insertSelf cfg m t br).headers =
      (if (findHeader cfg.cm m.headers recordRouteName).isSome ∨ cfg.mustRecordRoute = true
       then [ownRecordRoute t] else []) ++ rrStack cfg.cm m.headers :=
  rrStack_insertSelf cfg hV m t br

/-- `hV` holds for the generated table -/
theorem real_hV : isSameHeader realCm viaName recordRouteName = false :=
  real_via_rr _ (isSameHeader_refl _ _)

/-- ... and cannot be dropped: with a table that makes "via" the compact form of Record-Route the
proxy records although the request had no Record-Route and always-record is off. -/
example :
    let cfg : Cfg := { cm := buildCompactMap [(str "Record-Route", str "via")], finalClasses := [], supported := [],
                       names := [], keepNextHopRoute := false, mustRecordRoute := false, hosts := [],
                       routes := [], transports0 := none }
    let m : Message := { start := .request [] (.abs []) [], headers := [], body := [] }
    isSameHeader cfg.cm viaName recordRouteName = true ∧
    (rrStack cfg.cm (insertSelf cfg m ⟨[], [], 1⟩ []).headers).length = 1 ∧
    (rrStack cfg.cm m.headers).length = 0 := by
  decide +kernel

/-- `insertSelf` touches neither the start line nor the body -/
theorem insertSelf_start_body (cfg : Cfg) (m : Message) (t : Listener) (br : Bytes) :
    (insertSelf cfg m t br).start = m.start ∧ (insertSelf cfg m t br).body = m.body := by
  unfold insertSelf
  simp only []
  split <;> simp [addVia, addRecordRoute]

/-- the Route stack is not touched either -/
theorem C06_insertSelf_route (cfg : Cfg) (m : Message) (t : Listener) (br : Bytes) :
    routeStack cfg.cm (insertSelf cfg m t br).headers = routeStack cfg.cm m.headers :=
  routeStack_insertSelf cfg m t br

/-! ### what the two entries look like on the wire -/

theorem str_sip20 : str "SIP/2.0/" = str "SIP" ++ [47] ++ str "2.0" ++ [47] := by decide +kernel
theorem str_branch : str ";branch=" = [59] ++ str "branch" ++ [61] := by decide +kernel
theorem str_branch0 : str ";branch" = [59] ++ str "branch" := by decide +kernel
theorem str_ltsip : str "<sip:" = [] ++ [60] ++ (str "sip" ++ [58]) := by decide +kernel
theorem str_lr : str ";lr>" = [59] ++ str "lr" ++ [62] := by decide +kernel

/-- `SIP/2.0/<proto> <addr>:<port>;branch=<branch>`.

`_partial`: the statement asked for (`t.port ≠ 0` only) is false for the empty branch, because
`KeyValue.Write` prints `=value` only for a non-empty value (`C06_ownVia_shape_empty` below); the
extra hypothesis `br ≠ []` holds for every branch CreateBranch generates (z9hG4bK prefix:
`C06_ownVia_shape_magic`). -/
theorem C06_ownVia_shape_partial (t : Listener) (br : Bytes) (hp : t.port ≠ 0) (hb : br ≠ []) :
    (ownVia t br).encode =
      str "SIP/2.0/" ++ t.proto ++ [32] ++ t.addr ++ [58] ++ itoa t.port ++ str ";branch=" ++ br := by
  have hl : br.length > 0 := by cases br <;> simp_all
  simp [ownVia, ViaParam.encode, encodeSemiParams, KeyValue.encode, hp, hl, str_sip20, str_branch]

/-- the missing case: an empty branch is printed as a bare `;branch` -/
theorem C06_ownVia_shape_empty (t : Listener) (hp : t.port ≠ 0) :
    (ownVia t []).encode =
      str "SIP/2.0/" ++ t.proto ++ [32] ++ t.addr ++ [58] ++ itoa t.port ++ str ";branch" := by
  simp [ownVia, ViaParam.encode, encodeSemiParams, KeyValue.encode, hp, str_sip20, str_branch0]

/-- a branch with the magic cookie is not empty -/
theorem C06_ownVia_shape_magic (t : Listener) (br : Bytes) (hp : t.port ≠ 0)
    (hm : hasPrefix (str "z9hG4bK") br = true) :
    (ownVia t br).encode =
      str "SIP/2.0/" ++ t.proto ++ [32] ++ t.addr ++ [58] ++ itoa t.port ++ str ";branch=" ++ br := by
  apply C06_ownVia_shape_partial t br hp
  rintro rfl
  have : hasPrefix (str "z9hG4bK") [] = false := by decide +kernel
  rw [this] at hm; cases hm

/-- a listener on port 0 (never configured) would be printed without a port -/
theorem C06_ownVia_shape_port0 (t : Listener) (br : Bytes) (hp : t.port = 0) (hb : br ≠ []) :
    (ownVia t br).encode = str "SIP/2.0/" ++ t.proto ++ [32] ++ t.addr ++ str ";branch=" ++ br := by
  have hl : br.length > 0 := by cases br <;> simp_all
  simp [ownVia, ViaParam.encode, encodeSemiParams, KeyValue.encode, hp, hl, str_sip20, str_branch]

/-- the top Via names the listener and carries the branch, whatever the port -/
theorem C06_ownVia_fields (t : Listener) (br : Bytes) :
    (ownVia t br).transport = t.proto ∧ (ownVia t br).host = t.addr ∧ (ownVia t br).port = t.port ∧
    getParam (ownVia t br).params (str "branch") = some br := by
  simp [ownVia, getParam]

/-- `<sip:<addr>:<port>;lr>` -/
theorem C06_ownRecordRoute_shape (t : Listener) (hp : t.port ≠ 0) :
    (ownRecordRoute t).encode = str "<sip:" ++ t.addr ++ [58] ++ itoa t.port ++ str ";lr>" := by
  simp [ownRecordRoute, RouteParam.encode, NameAddr.encode, AddrSpec.encode, SIPURI.encode, SIPURI.write,
    encodeUriParams, encodeUriHeaders, encodeSemiParams, KeyValue.encode, hp, str_ltsip, str_lr]

/-! ### where `insertSelf` is applied -/

/-- Handing a request to a backend: the bytes sent are those of the message with the proxy's own
entries inserted for the first listener of the backend item. -/
theorem C06_sendToBackend (cfg : Cfg) (st : St) (m : Message) (br a data : Bytes)
    (h : (sendToBackend cfg st m br).2 = [.backend a data]) :
    ∃ t0, cfg.transports0 = some t0 ∧
      data = (insertSelf cfg (findBackendByDialog cfg st m).2.2 t0 br).bytes cfg.cm := by
  unfold sendToBackend at h
  cases ht : cfg.transports0 with
  | none => simp [ht] at h
  | some t0 =>
    refine ⟨t0, rfl, ?_⟩
    simp only [ht] at h
    split at h
    · simp at h
    · simp only [List.cons.injEq, Out.backend.injEq, and_true] at h
      exact h.2.symm

/-- `sendToBackend` emits nothing else: at most one packet, and it goes to a backend. -/
theorem C06_sendToBackend_only (cfg : Cfg) (st : St) (m : Message) (br : Bytes) :
    (sendToBackend cfg st m br).2 = [] ∨ ∃ a data, (sendToBackend cfg st m br).2 = [.backend a data] := by
  unfold sendToBackend
  cases cfg.transports0 with
  | none => left; rfl
  | some t0 =>
    simp only []
    split
    · left; rfl
    · right; exact ⟨_, _, rfl⟩

/-- Relaying a request to a next hop reached through a learned listener `t`: what is passed to
`sendMessage` is the routed request with the proxy's own entries for `t` inserted. -/
theorem C06_relay_learned (cfg : Cfg) (st : St) (ev : RawEv) (m m1 : Message) (hop : Hop) (t : Listener)
    (hreq : isRequest m = true) (hh : getNextRequestHop cfg m = (some hop, m1))
    (hl : assocGet st.learned hop.host = some t) :
    handleMessage cfg st ev m = sendMessage cfg st hop (insertSelf cfg m1 t ev.branch) := by
  simp [handleMessage, hreq, hh, hl]

/-- ... and to a hop with no learned listener the request is passed on without them. -/
theorem C06_relay_unlearned (cfg : Cfg) (st : St) (ev : RawEv) (m m1 : Message) (hop : Hop)
    (hreq : isRequest m = true) (hh : getNextRequestHop cfg m = (some hop, m1))
    (hl : assocGet st.learned hop.host = none) :
    handleMessage cfg st ev m = sendMessage cfg st hop m1 := by
  simp [handleMessage, hreq, hh, hl]

/-- A request with no next hop that is addressed to the service goes to `sendToBackend`. -/
theorem C06_to_backend (cfg : Cfg) (st : St) (ev : RawEv) (m m1 : Message)
    (hreq : isRequest m = true) (hh : getNextRequestHop cfg m = (none, m1)) :
    handleMessage cfg st ev m =
      if isMyMessage cfg ev.frm m1 ev.rxMatch then sendToBackend cfg st m1 ev.branch else (st, []) := by
  simp [handleMessage, hreq, hh]

/-! ### end to end: a request event through one `step` of the receive loop

`Lemmas.ClassesOK cm` collects the pairwise disjointness of the header-name classes involved
(Via, Route, Record-Route against each other and against CSeq, From, To, whose headers the pipeline
decodes in place on the way); `Lemmas.real_classesOK` proves it for the generated table. -/

/-- Handing a request to a backend: the packet is the serialisation of a message with exactly one
new topmost Via (for the backend item's first listener, carrying the generated branch) above the
Via stack as it stands after `handleRawMessage` (see C07 for that stack), and with one own
Record-Route entry ahead of the received ones iff the request carried a Record-Route header or the
listener always records. -/
theorem C06_step_backend (cfg : Cfg) (hc : ClassesOK cfg.cm) (st : St) (ev : RawEv)
    (hreq : isRequest ev.msg = true) (a data : Bytes) (ho : Out.backend a data ∈ (step cfg st ev).2) :
    ∃ (t0 : Listener) (m' : Message), cfg.transports0 = some t0 ∧ data = m'.bytes cfg.cm ∧
      viaStack cfg.cm m'.headers =
        ownVia t0 ev.branch :: viaStack cfg.cm (handleRawMessage cfg st ev).2.headers ∧
      rrStack cfg.cm m'.headers =
        (if (findHeader cfg.cm ev.msg.headers recordRouteName).isSome ∨ cfg.mustRecordRoute = true
         then [ownRecordRoute t0] else []) ++ rrStack cfg.cm ev.msg.headers := by
  obtain ⟨m', self, hd, hv, hr, _, hs⟩ := step_request_out cfg hc st ev hreq _ ho
  simp only [Out.isBackend, ↓reduceIte] at hs
  obtain ⟨_, hself, hsome⟩ := hs
  cases self with
  | none => cases hsome
  | some t0 => exact ⟨t0, m', hself.symm, hd, hv, hr⟩

/-- Relaying a request: with a listener `t` learned for the next hop's host the packet carries
the proxy's own Via for `t` on top (and its Record-Route entry under the same condition as above);
without one nothing is added. Everything received stays beneath, in order. -/
theorem C06_step_relay (cfg : Cfg) (hc : ClassesOK cfg.cm) (st : St) (ev : RawEv)
    (hreq : isRequest ev.msg = true) (o : Out) (ho : o ∈ (step cfg st ev).2) (hb : o.isBackend = false) :
    ∃ (hop : Hop) (m' : Message), (getNextRequestHop cfg (handleRawMessage cfg st ev).2).1 = some hop ∧
      o.data = m'.bytes cfg.cm ∧
      match assocGet (handleRawMessage cfg st ev).1.learned hop.host with
      | some t =>
        viaStack cfg.cm m'.headers =
          ownVia t ev.branch :: viaStack cfg.cm (handleRawMessage cfg st ev).2.headers ∧
        rrStack cfg.cm m'.headers =
          (if (findHeader cfg.cm ev.msg.headers recordRouteName).isSome ∨ cfg.mustRecordRoute = true
           then [ownRecordRoute t] else []) ++ rrStack cfg.cm ev.msg.headers
      | none =>
        viaStack cfg.cm m'.headers = viaStack cfg.cm (handleRawMessage cfg st ev).2.headers ∧
        rrStack cfg.cm m'.headers = rrStack cfg.cm ev.msg.headers := by
  obtain ⟨m', self, hd, hv, hr, _, hs⟩ := step_request_out cfg hc st ev hreq _ ho
  simp only [hb, Bool.false_eq_true, ↓reduceIte] at hs
  obtain ⟨hop, hhop, hself⟩ := hs
  refine ⟨hop, m', hhop, hd, ?_⟩
  rw [← hself]
  cases self with
  | none => exact ⟨by simpa using hv, by simpa using hr⟩
  | some t => exact ⟨hv, hr⟩

/-- a packet to a backend is only ever produced by `sendToBackend`, a relayed one never goes there:
the two theorems above cover every output of a request event -/
theorem C06_step_cover (o : Out) : (∃ a data, o = .backend a data) ∨ o.isBackend = false := by
  cases o <;> simp [Out.isBackend]

/-! ### non-vacuity

Fixtures of `Lemmas.Pipe`: a configuration with the generated table, one backend, a learned
listener for host `p1`; the example request of `Lemmas.Abs` (Route: p1, p2) is relayed to p1 with
the own Via on top; the same request without its Route header goes to the backend. -/

example : isRequest exMsg = true ∧ isRequest exMsgNoRoute = true := by decide +kernel

/-- relayed over UDP to the resolved next hop: `C06_step_relay` applies, with a learned listener -/
example : ((step exCfg exSt (exEv exMsg)).2.map (fun o => (o.isBackend, match o with
    | .udp ip port _ => (ip, port) | _ => ([], 0)))) = [(false, (str "10.0.0.9", 5060))] ∧
    (getNextRequestHop exCfg (handleRawMessage exCfg exSt (exEv exMsg)).2).1 =
      some { host := str "p1", port := 5060, transport := str "udp" } ∧
    assocGet (handleRawMessage exCfg exSt (exEv exMsg)).1.learned (str "p1") = some exListener := by
  decide +kernel

/-- handed to the backend: `C06_step_backend` / `C06_sendToBackend` apply -/
example : (step exCfg exSt (exEv exMsgNoRoute)).2.map (fun o => match o with
    | .backend a _ => some a | _ => none) = [some (str "10.0.0.5:5060")] := by
  decide +kernel

example : ((sendToBackend exCfg exSt exMsgNoRoute (str "z9hG4bKabc")).2.map Out.isBackend) = [true] := by
  decide +kernel

/-- the hypotheses of `C06_relay_learned` hold for the example -/
example : getNextRequestHop exCfg exMsg =
    (some { host := str "p1", port := 5060, transport := str "udp" }, (getNextRequestHop exCfg exMsg).2) ∧
    assocGet exSt.learned (str "p1") = some exListener := by
  decide +kernel

/-- the two shapes, on the example listener -/
example : (ownVia exListener (str "z9hG4bKabc")).encode = str "SIP/2.0/UDP 10.0.0.1:5060;branch=z9hG4bKabc" := by
  decide +kernel
example : (ownRecordRoute exListener).encode = str "<sip:10.0.0.1:5060;lr>" := by decide +kernel

/-- the class hypotheses hold for the generated table -/
example : ClassesOK exCfg.cm := real_classesOK

end Props.C06
