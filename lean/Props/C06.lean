import GoStd.Bytes
namespace Props.C06
end Props.C06
