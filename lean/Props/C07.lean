/-
C07 — received / rport stamping.

"On a listener with received-support enabled every request leaves the proxy with
received=<actual source IP> on the sender's Via entry, and with rport=<actual source port> when
that entry carried an rport parameter, overriding any values the sender supplied; all other Via
entries and parameters are untouched … With received-support disabled the sender's Via is relayed
as sent."

Model: `Sip.setReceived` (message.go SetReceived), called from `Proxy.handleRawMessage`.
Abstraction: `Lemmas.viaStack`; the stamped entry is `Lemmas.stampReceived vp ip port`.
-/
import Proxy.Model
import Lemmas.Abs
import Lemmas.Param
import Lemmas.Pipe
open GoStd Sip Proxy Lemmas

namespace Props.C07

theorem received_ne_rport : str "received" ≠ str "rport" := by decide +kernel

/-! ### the stamped entry -/

/-- `received` reads back the actual source address, whatever the sender supplied -/
theorem C07_received (vp : ViaParam) (ip : Bytes) (port : Int) :
    getParam (stampReceived vp ip port).params (str "received") = some ip := by
  simp only [stampReceived]
  split
  · rw [getParam_setParam_other _ _ _ _ received_ne_rport, getParam_setParam_same]
  · exact getParam_setParam_same ..

/-- an `rport` the sender's entry carried (with or without a value) reads back the actual source port -/
theorem C07_rport_present (vp : ViaParam) (ip : Bytes) (port : Int)
    (h : hasParam vp.params (str "rport") = true) :
    getParam (stampReceived vp ip port).params (str "rport") = some (itoa port) := by
  simp only [stampReceived]
  rw [hasParam_setParam_other _ _ _ _ (Ne.symm received_ne_rport), h]
  simp [getParam_setParam_same]

/-- an entry without `rport` gets none -/
theorem C07_rport_absent (vp : ViaParam) (ip : Bytes) (port : Int)
    (h : hasParam vp.params (str "rport") = false) :
    getParam (stampReceived vp ip port).params (str "rport") = none := by
  simp only [stampReceived]
  rw [hasParam_setParam_other _ _ _ _ (Ne.symm received_ne_rport), h]
  simp only [Bool.false_eq_true, ↓reduceIte]
  rw [getParam_setParam_other _ _ _ _ (Ne.symm received_ne_rport)]
  exact (hasParam_false_iff _ _).mp h

/-- every other parameter reads back unchanged -/
theorem C07_other_param (vp : ViaParam) (ip : Bytes) (port : Int) (k : Bytes)
    (h1 : k ≠ str "received") (h2 : k ≠ str "rport") :
    getParam (stampReceived vp ip port).params k = getParam vp.params k := by
  simp only [stampReceived]
  split
  · rw [getParam_setParam_other _ _ _ _ h2, getParam_setParam_other _ _ _ _ h1]
  · rw [getParam_setParam_other _ _ _ _ h1]

/-- all parameters other than the first `received` / `rport` are untouched and keep their order
(stated on the entries whose key is neither) -/
theorem C07_other_params_order (vp : ViaParam) (ip : Bytes) (port : Int) :
    (stampReceived vp ip port).params.filter (fun p => p.key != str "received" && p.key != str "rport") =
      vp.params.filter (fun p => p.key != str "received" && p.key != str "rport") := by
  have hsplit : ∀ ps : List KeyValue,
      ps.filter (fun p => p.key != str "received" && p.key != str "rport") =
        (ps.filter (fun p => p.key != str "received")).filter (fun p => p.key != str "rport") := by
    intro ps; simp [List.filter_filter, Bool.and_comm]
  have hsplit' : ∀ ps : List KeyValue,
      ps.filter (fun p => p.key != str "received" && p.key != str "rport") =
        (ps.filter (fun p => p.key != str "rport")).filter (fun p => p.key != str "received") := by
    intro ps; simp [List.filter_filter]
  simp only [stampReceived]
  split
  · rw [hsplit', setParam_filter_ne, ← hsplit', hsplit, setParam_filter_ne, ← hsplit]
  · rw [hsplit, setParam_filter_ne, ← hsplit]

/-- the key sequence: `rport` never moves or appears; `received` keeps its place or is appended -/
theorem C07_keys (vp : ViaParam) (ip : Bytes) (port : Int) :
    (stampReceived vp ip port).params.map (·.key) =
      if hasParam vp.params (str "received") then vp.params.map (·.key)
      else vp.params.map (·.key) ++ [str "received"] := by
  simp only [stampReceived]
  split
  · rename_i h
    rw [setParam_keys, h]
    simp only [↓reduceIte]
    exact setParam_keys ..
  · exact setParam_keys ..

/-- at most one parameter is added -/
theorem C07_length (vp : ViaParam) (ip : Bytes) (port : Int) :
    (stampReceived vp ip port).params.length ≤ vp.params.length + 1 := by
  have := congrArg List.length (C07_keys vp ip port)
  simp only [List.length_map] at this
  rw [this]
  split <;> simp

/-- nothing but the parameter list of the entry changes -/
theorem C07_other_fields (vp : ViaParam) (ip : Bytes) (port : Int) :
    (stampReceived vp ip port).protoName = vp.protoName ∧
    (stampReceived vp ip port).protoVersion = vp.protoVersion ∧
    (stampReceived vp ip port).transport = vp.transport ∧
    (stampReceived vp ip port).host = vp.host ∧
    (stampReceived vp ip port).port = vp.port := by
  simp [stampReceived]

/-! ### the stack -/

/-- Received-support on: the sender's (topmost) Via entry is replaced by its stamped version, all
other Via entries are untouched and in order; with no decodable top Via nothing changes. -/
theorem C07_stack (cm : List (Bytes × Bytes)) (m : Message) (ip : Bytes) (port : Int) :
    viaStack cm (setReceived cm m ip port).headers =
      match getVia cm m with
      | some (vp :: _, _) => stampReceived vp ip port :: (viaStack cm m.headers).tail
      | _ => viaStack cm m.headers :=
  viaStack_setReceived cm m ip port

/-- the entry that is stamped is the head of the stack -/
theorem C07_stack_head (cm : List (Bytes × Bytes)) (m m1 : Message) (vp : ViaParam) (rest : List ViaParam)
    (ip : Bytes) (port : Int) (h : getVia cm m = some (vp :: rest, m1)) :
    ∃ tl, viaStack cm m.headers = vp :: tl ∧
      viaStack cm (setReceived cm m ip port).headers = stampReceived vp ip port :: tl := by
  have h1 := C07_stack cm m ip port
  rw [h] at h1
  obtain ⟨r, hr⟩ := (viaStack_getVia cm h).2
  refine ⟨rest ++ r, by simpa using hr, ?_⟩
  rw [h1, hr]; rfl

/-- `SetReceived` changes nothing but header values: start line, body, header names and count stay -/
theorem C07_frame (cm : List (Bytes × Bytes)) (m : Message) (ip : Bytes) (port : Int) :
    (setReceived cm m ip port).start = m.start ∧ (setReceived cm m ip port).body = m.body := by
  cases hg : getVia cm m with
  | none => rw [setReceived_of_none cm ip port hg]; exact ⟨rfl, rfl⟩
  | some p =>
    obtain ⟨v, m1⟩ := p
    cases v with
    | nil =>
      rw [setReceived_of_nil cm ip port hg]
      obtain ⟨_, _, _, rfl⟩ := getVia_some cm hg
      exact ⟨rfl, rfl⟩
    | cons vp rest => rw [setReceived_of_cons cm ip port hg]; exact ⟨rfl, rfl⟩

/-! ### in the pipeline

`handleRawMessage` stamps (stage 2) after the route-learning pass has decoded the Via headers in
place and before the connection bookkeeping and the Route check; none of these other stages
changes the Via stack. `Lemmas.ClassesOK` = the header-name classes involved are pairwise
disjoint (`Lemmas.real_classesOK` for the generated table). -/

/-- The Via stack with which a message leaves `handleRawMessage`: for a request on a listener with
received-support, the received stack with its top entry stamped; in every other case the received
stack as it was. -/
theorem C07_handleRawMessage (cfg : Cfg) (hc : ClassesOK cfg.cm) (st : St) (ev : RawEv) :
    viaStack cfg.cm (handleRawMessage cfg st ev).2.headers =
      if isRequest ev.msg && ev.receivedSupport then
        match (getVia cfg.cm ev.msg).map Prod.fst with
        | some (vp :: _) => stampReceived vp ev.peerAddr ev.peerPort :: (viaStack cfg.cm ev.msg.headers).tail
        | _ => viaStack cfg.cm ev.msg.headers
      else viaStack cfg.cm ev.msg.headers :=
  viaStack_handleRawMessage cfg hc.via_route hc.cseq_via st ev

/-- Received-support enabled: every packet a request event produces serialises a message whose Via
stack is the received one with the sender's (top) entry stamped — beneath at most one entry the
proxy pushed itself (C06). -/
theorem C07_step_enabled (cfg : Cfg) (hc : ClassesOK cfg.cm) (st : St) (ev : RawEv)
    (hreq : isRequest ev.msg = true) (hrs : ev.receivedSupport = true) (o : Out) (ho : o ∈ (step cfg st ev).2) :
    ∃ (m' : Message) (pre : List ViaParam), o.data = m'.bytes cfg.cm ∧ pre.length ≤ 1 ∧
      viaStack cfg.cm m'.headers = pre ++
        match (getVia cfg.cm ev.msg).map Prod.fst with
        | some (vp :: _) => stampReceived vp ev.peerAddr ev.peerPort :: (viaStack cfg.cm ev.msg.headers).tail
        | _ => viaStack cfg.cm ev.msg.headers := by
  obtain ⟨m', self, hd, hv, _, _, _⟩ := step_request_out cfg hc st ev hreq o ho
  rw [C07_handleRawMessage cfg hc, hreq, hrs] at hv
  refine ⟨m', _, hd, ?_, hv⟩
  cases self <;> simp

/-- Received-support disabled: the sender's Via — the whole received stack — is relayed as sent. -/
theorem C07_step_disabled (cfg : Cfg) (hc : ClassesOK cfg.cm) (st : St) (ev : RawEv)
    (hreq : isRequest ev.msg = true) (hrs : ev.receivedSupport = false) (o : Out) (ho : o ∈ (step cfg st ev).2) :
    ∃ (m' : Message) (pre : List ViaParam), o.data = m'.bytes cfg.cm ∧ pre.length ≤ 1 ∧
      viaStack cfg.cm m'.headers = pre ++ viaStack cfg.cm ev.msg.headers := by
  obtain ⟨m', self, hd, hv, _, _, _⟩ := step_request_out cfg hc st ev hreq o ho
  rw [C07_handleRawMessage cfg hc, hreq, hrs] at hv
  refine ⟨m', _, hd, ?_, hv⟩
  cases self <;> simp

/-- non-vacuity of `C07_stack_head` / `C07_rport_present`: the example message of `Lemmas.Abs`
has a decodable two-entry top Via whose first entry carries `rport` -/
example : (getVia realCm exMsg).map (fun p => p.1.map (fun vp => hasParam vp.params (str "rport"))) =
    some [true, false] := by decide +kernel

example : ((viaStack realCm (setReceived realCm exMsg (str "9.9.9.9") 777).headers).map
    (fun vp => (getParam vp.params (str "received"), getParam vp.params (str "rport")))) =
    [(some (str "9.9.9.9"), some (str "777")), (none, none), (none, none)] := by decide +kernel

def exVpNoRport : ViaParam :=
  { protoName := str "SIP", protoVersion := str "2.0", transport := str "TCP", host := str "b", port := 0,
    params := [⟨str "branch", str "z2"⟩] }

/-- `C07_other_param`: e.g. the branch parameter -/
example : str "branch" ≠ str "received" ∧ str "branch" ≠ str "rport" := by decide +kernel

/-- `C07_rport_absent`: the second entry of the example top Via has no rport -/
example : hasParam (exVpNoRport).params (str "rport") = false := by decide +kernel

/-- non-vacuity of the step-level theorems: the example request event (received-support on) is
relayed; the same event with received-support off is relayed too -/
example : isRequest (exEv exMsg).msg = true ∧ (exEv exMsg).receivedSupport = true ∧
    (step exCfg exSt (exEv exMsg)).2.length = 1 ∧
    (step exCfg exSt { exEv exMsg with receivedSupport := false }).2.length = 1 := by decide +kernel

example : ClassesOK exCfg.cm := real_classesOK

end Props.C07
