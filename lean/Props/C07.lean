import GoStd.Bytes
namespace Props.C07
end Props.C07
