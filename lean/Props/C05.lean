/-
C05 — Unpinned requests rotate evenly over the backends registered right now.

"Requests not pinned to a dialog are spread over the service's current backends in strict
rotation: between two changes of the backend set any k consecutive dispatches over k backends
reach each backend exactly once, so after N dispatches every backend has received floor(N/k) or
ceil(N/k). A dispatch always goes to a backend registered at that moment, a removed backend
receives nothing further, an added one joins the rotation, and with no backend registered the
request is dropped without disturbing the proxy."

Model: Side.RoundRobin (backend.go RoundRobinBackend). All statements are for every state
(any cursor value, any list), not only reachable ones, unless a hypothesis says otherwise.
-/
import Side.RoundRobin
import Spec.Side
import Mathlib.Data.List.Rotate
import Lemmas.RRObs
open GoStd Side.RR

namespace Props.C05

/-- closed form of one dispatch on a non-empty list -/
theorem dispatch_eq (s : St) (h : s.backends ≠ []) :
    dispatch s = ({ s with index := (s.index + 1) % s.backends.length },
                  s.backends[(s.index + 1) % s.backends.length]?) := by
  have hn : s.backends.length ≠ 0 := by simpa [List.length_eq_zero_iff] using h
  simp [dispatch, nextIndex, getBackend, hn]

/-- **Two consecutive dispatches over two or more backends never reach the same backend** (no change
of the backend set in between). This is what makes the `destdiffers` oracle of the pipeline and wire
stages sound: requests that are bound to no backend are load-balanced, so two of them in a row go to
two different backends; the same destination twice means a binding is being honoured. -/
theorem C05_consecutive_distinct (s : St) (hnd : s.backends.Nodup) (h2 : 2 ≤ s.backends.length) :
    (dispatch s).2 ≠ (dispatch (dispatch s).1).2 := by
  have hne : s.backends ≠ [] := by intro e; rw [e] at h2; simp at h2
  rw [dispatch_eq s hne]
  have hne' : ({ s with index := (s.index + 1) % s.backends.length } : St).backends ≠ [] := hne
  rw [dispatch_eq _ hne']
  simp only
  have hlt1 : (s.index + 1) % s.backends.length < s.backends.length := Nat.mod_lt _ (by omega)
  have hlt2 : ((s.index + 1) % s.backends.length + 1) % s.backends.length < s.backends.length :=
    Nat.mod_lt _ (by omega)
  rw [List.getElem?_eq_getElem hlt1, List.getElem?_eq_getElem hlt2]
  intro he
  simp only [Option.some.injEq] at he
  have hidx := (List.Nodup.getElem_inj_iff hnd).mp he
  clear he
  -- i and (i + 1) % n differ when n ≥ 2
  have key : ∀ i n : Nat, 2 ≤ n → i < n → i ≠ (i + 1) % n := by
    intro i n hn hi
    by_cases h1 : i + 1 < n
    · rw [Nat.mod_eq_of_lt h1]; omega
    · have : i + 1 = n := by omega
      rw [this, Nat.mod_self]; omega
  exact key _ _ h2 hlt1 hidx

/-- A dispatch always goes to a backend registered at that moment. -/
theorem C05_member (s s' : St) (a : Addr) (h : dispatch s = (s', some a)) : a ∈ s.backends := by
  by_cases hb : s.backends = []
  · simp [dispatch, nextIndex, hb] at h
  · rw [dispatch_eq s hb] at h
    simp only [Prod.mk.injEq] at h
    exact List.mem_of_getElem? h.2

/-- With no backend registered the request is dropped and the state is untouched. -/
theorem C05_empty_drops (s : St) (h : s.backends = []) : dispatch s = (s, none) := by
  simp [dispatch, nextIndex, h]

/-- With at least one backend registered the request is never dropped. -/
theorem C05_nonempty_sends (s : St) (h : s.backends ≠ []) : ∃ a, (dispatch s).2 = some a := by
  rw [dispatch_eq s h]
  have hn : 0 < s.backends.length := List.length_pos_iff.mpr h
  exact ⟨s.backends[(s.index + 1) % s.backends.length]'(Nat.mod_lt _ hn), by simp [Nat.mod_lt _ hn]⟩

/-- dispatching never changes membership -/
theorem dispatch_backends (s : St) : (dispatch s).1.backends = s.backends ∧ (dispatch s).1.keys = s.keys := by
  by_cases hb : s.backends = []
  · simp [C05_empty_drops s hb]
  · simp [dispatch_eq s hb]

/-- closed form of n consecutive dispatches: the j-th target is `backends[(index+1+j) % k]`. -/
theorem dispatchN_targets (n : Nat) (s : St) (h : s.backends ≠ []) :
    (dispatchN n s).2 = (List.range n).map (fun j => s.backends[(s.index + 1 + j) % s.backends.length]?) ∧
    (dispatchN n s).1.backends = s.backends := by
  induction n generalizing s with
  | zero => simp [dispatchN]
  | succ n ih =>
    simp only [dispatchN]
    rw [dispatch_eq s h]
    have h' : ({ s with index := (s.index + 1) % s.backends.length } : St).backends ≠ [] := h
    obtain ⟨ih1, ih2⟩ := ih _ h'
    refine ⟨?_, ?_⟩
    · simp only [ih1, List.range_succ_eq_map, List.map_cons, List.map_map]
      congr 1
      apply List.map_congr_left
      intro j _
      simp only [Function.comp]
      congr 1
      rw [Nat.add_assoc, Nat.add_assoc, Nat.mod_add_mod]
      congr 1
      omega
    · simpa using ih2

/-- Between two changes of the backend set any k consecutive dispatches over k (distinct)
backends reach each backend exactly once — from ANY cursor position. -/
theorem targets_eq_rotate (b : List Addr) (i : Nat) (hne : b ≠ []) :
    (List.range b.length).map (fun j => b[(i + 1 + j) % b.length]?) = (b.rotate (i + 1)).map some := by
  have hk : 0 < b.length := List.length_pos_iff.mpr hne
  apply List.ext_getElem
  · simp
  · intro j h1 h2
    simp only [List.length_map, List.length_range] at h1
    have hm : (i + 1 + j) % b.length < b.length := Nat.mod_lt _ hk
    simp only [List.getElem_map, List.getElem_range, List.getElem_rotate, List.getElem?_eq_getElem hm]
    congr 2
    rw [Nat.add_comm (i + 1) j]

theorem C05_window_perm (s : St) (hne : s.backends ≠ []) :
    ((dispatchN s.backends.length s).2.filterMap id).Perm s.backends := by
  obtain ⟨ht, _⟩ := dispatchN_targets s.backends.length s hne
  rw [ht, targets_eq_rotate s.backends s.index hne]
  simp only [List.filterMap_map, Function.comp_def, id, List.filterMap_some]
  exact List.rotate_perm _ _

/-! ### counts: after N dispatches every backend received ⌊N/k⌋ or ⌈N/k⌉ -/

def targetsN (n : Nat) (s : St) : List Addr := (dispatchN n s).2.filterMap id

theorem dispatchN_add (m n : Nat) (s : St) :
    dispatchN (m + n) s = ((dispatchN n (dispatchN m s).1).1, (dispatchN m s).2 ++ (dispatchN n (dispatchN m s).1).2) := by
  induction m generalizing s with
  | zero => simp [dispatchN]
  | succ m ih =>
    have : m + 1 + n = (m + n) + 1 := by omega
    rw [this]
    simp only [dispatchN]
    rw [ih]
    simp

theorem dispatchN_backends (n : Nat) (s : St) : (dispatchN n s).1.backends = s.backends := by
  induction n generalizing s with
  | zero => simp [dispatchN]
  | succ n ih =>
    simp only [dispatchN]
    rw [ih]
    exact (dispatch_backends s).1

theorem targetsN_add (m n : Nat) (s : St) :
    targetsN (m + n) s = targetsN m s ++ targetsN n (dispatchN m s).1 := by
  simp [targetsN, dispatchN_add, List.filterMap_append]

/-- a full window: every (distinct) backend exactly once -/
theorem count_window (s : St) (hnd : s.backends.Nodup) (a : Addr) (ha : a ∈ s.backends) :
    (targetsN s.backends.length s).count a = 1 := by
  have hne : s.backends ≠ [] := List.ne_nil_of_mem ha
  have hp := C05_window_perm s hne
  unfold targetsN
  rw [hp.count_eq]
  exact List.count_eq_one_of_mem hnd ha

/-- fewer than k dispatches: every backend at most once -/
theorem count_partial (s : St) (hnd : s.backends.Nodup) (a : Addr) (r : Nat) (hr : r ≤ s.backends.length) :
    (targetsN r s).count a ≤ 1 := by
  by_cases hne : s.backends = []
  · have : r = 0 := by simp [hne] at hr; exact hr
    subst this
    simp [targetsN, dispatchN]
  · have h1 := (dispatchN_targets r s hne).1
    have h2 := (dispatchN_targets s.backends.length s hne).1
    have hsub : (targetsN r s).Sublist (targetsN s.backends.length s) := by
      unfold targetsN
      rw [h1, h2]
      apply List.Sublist.filterMap
      apply List.Sublist.map
      exact List.range_sublist.mpr hr
    have hnd' : (targetsN s.backends.length s).Nodup := (C05_window_perm s hne).nodup_iff.mpr hnd
    exact List.nodup_iff_count_le_one.mp (hsub.nodup hnd') a

theorem count_blocks (q : Nat) (s : St) (hnd : s.backends.Nodup) (a : Addr) (ha : a ∈ s.backends) :
    (targetsN (q * s.backends.length) s).count a = q := by
  induction q generalizing s with
  | zero => simp [targetsN, dispatchN]
  | succ q ih =>
    have : (q + 1) * s.backends.length = s.backends.length + q * s.backends.length := by
      rw [Nat.add_mul]; omega
    rw [this, targetsN_add, List.count_append, count_window s hnd a ha]
    have hb := dispatchN_backends s.backends.length s
    have := ih (dispatchN s.backends.length s).1 (by rw [hb]; exact hnd) (by rw [hb]; exact ha)
    rw [hb] at this
    rw [this]; omega

/-- After N dispatches (no membership change in between) over k distinct backends every backend
has received ⌊N/k⌋ or ⌊N/k⌋+1 (= ⌈N/k⌉ when k ∤ N) requests. -/
theorem C05_counts (N : Nat) (s : St) (hnd : s.backends.Nodup) (a : Addr) (ha : a ∈ s.backends) :
    (targetsN N s).count a = N / s.backends.length ∨ (targetsN N s).count a = N / s.backends.length + 1 := by
  have hk : 0 < s.backends.length := List.length_pos_of_mem ha
  have hN : N = (N / s.backends.length) * s.backends.length + N % s.backends.length := by
    rw [Nat.mul_comm]; exact (Nat.div_add_mod N s.backends.length).symm
  have hb := dispatchN_backends ((N / s.backends.length) * s.backends.length) s
  have hpart := count_partial (dispatchN ((N / s.backends.length) * s.backends.length) s).1 (by rw [hb]; exact hnd) a
      (N % s.backends.length) (by rw [hb]; exact Nat.le_of_lt (Nat.mod_lt _ hk))
  have hcnt : (targetsN N s).count a = N / s.backends.length +
      (targetsN (N % s.backends.length) (dispatchN ((N / s.backends.length) * s.backends.length) s).1).count a := by
    conv => lhs; rw [hN]
    rw [targetsN_add, List.count_append, count_blocks _ s hnd a ha]
  omega

/-! ### membership: well-formed histories keep list and map in step -/

/-- list and map agree and the list has no duplicates (true of every state reached by histories
that never add an address already present). -/
def WF (s : St) : Prop := s.backends.Nodup ∧ s.keys.Nodup ∧ ∀ a, a ∈ s.keys ↔ a ∈ s.backends

theorem wf_init : WF {} := by simp [WF]

theorem wf_add (s : St) (a : Addr) (h : WF s) (ha : a ∉ s.backends) : WF (add s a) := by
  obtain ⟨hnd, hndk, hk⟩ := h
  have hak : a ∉ s.keys := fun m => ha ((hk a).mp m)
  have hc : s.keys.contains a = false := by simpa using hak
  refine ⟨?_, ?_, ?_⟩
  · simp only [add]
    exact List.nodup_append.mpr ⟨hnd, by simp, by intro x hx y hy; simp at hy; subst hy; exact fun e => ha (e ▸ hx)⟩
  · simp only [add, hc]
    exact List.nodup_append.mpr ⟨hndk, by simp, by intro x hx y hy; simp at hy; subst hy; exact fun e => hak (e ▸ hx)⟩
  · intro x
    simp only [add, hc, Bool.false_eq_true, ↓reduceIte, List.mem_append, List.mem_singleton, hk x]

theorem wf_remove (s : St) (a : Addr) (h : WF s) : WF (remove s a).1 := by
  obtain ⟨hnd, hndk, hk⟩ := h
  unfold remove
  split
  · refine ⟨hnd.erase a, hndk.erase a, ?_⟩
    intro x
    simp only
    by_cases hx : x = a
    · subst hx
      exact ⟨fun hm => absurd hm hndk.not_mem_erase, fun hm => absurd hm hnd.not_mem_erase⟩
    · rw [List.mem_erase_of_ne hx, List.mem_erase_of_ne hx]; exact hk x
  · exact ⟨hnd, hndk, hk⟩

theorem wf_dispatch (s : St) (h : WF s) : WF (dispatch s).1 := by
  obtain ⟨h1, h2⟩ := dispatch_backends s
  unfold WF
  rw [h1, h2]
  exact h

/-- A removed backend is no longer in the list (so, by `C05_member`, receives nothing further
until it is added again); every other member stays. -/
theorem C05_removed_gone (s : St) (a : Addr) (h : WF s) :
    a ∉ (remove s a).1.backends ∧ ∀ b, b ≠ a → (b ∈ (remove s a).1.backends ↔ b ∈ s.backends) := by
  obtain ⟨hnd, hndk, hk⟩ := h
  unfold remove
  split
  · exact ⟨hnd.not_mem_erase, fun b hb => by simp [List.mem_erase_of_ne hb]⟩
  · rename_i hc
    have : a ∉ s.backends := fun m => hc (by simpa using (hk a).mpr m)
    exact ⟨this, fun b _ => Iff.rfl⟩

/-- An added backend joins the rotation (and nothing else changes). -/
theorem C05_added_joins (s : St) (a : Addr) : ∀ b, b ∈ (add s a).backends ↔ (b ∈ s.backends ∨ b = a) := by
  intro b; simp [add]

/-- Well-formed operations (never add an address that is present). -/
def opOk (s : St) : Op → Prop
  | .add a => a ∉ s.backends
  | _ => True

def opsOk : St → List Op → Prop
  | _, [] => True
  | s, op :: ops => opOk s op ∧ opsOk (step s op).1 ops

theorem wf_step (s : St) (op : Op) (h : WF s) (hop : opOk s op) : WF (step s op).1 := by
  cases op with
  | add a => exact wf_add s a h hop
  | remove a => exact wf_remove s a h
  | dispatch => exact wf_dispatch s h

/-- Every state reached by a well-formed history keeps list and map in step, without duplicates. -/
theorem wf_run (s : St) (ops : List Op) (h : WF s) (hops : opsOk s ops) : WF (run s ops).1 := by
  induction ops generalizing s with
  | nil => simpa [run] using h
  | cons op ops ih =>
    simp only [run]
    exact ih _ (wf_step s op h hops.1) hops.2

/-- Every target of every well-formed history is a backend registered at that moment:
stated on the whole run by pairing each output with the state it was produced from. -/
theorem C05_run_member (s : St) (ops : List Op) (i : Nat) (a : Addr)
    (h : (run s ops).2[i]? = some (some a)) :
    ∃ pre op, ops.take i = pre ∧ ops[i]? = some op ∧ a ∈ (run s pre).1.backends := by
  induction ops generalizing s i with
  | nil => simp [run] at h
  | cons op ops ih =>
    simp only [run] at h
    cases i with
    | zero =>
      simp only [List.getElem?_cons_zero, Option.some.injEq] at h
      refine ⟨[], op, by simp, by simp, ?_⟩
      simp only [run]
      cases op with
      | add x => simp [step] at h
      | remove x => simp [step] at h
      | dispatch =>
        simp only [step] at h
        exact C05_member s (dispatch s).1 a (by rw [← h])
    | succ i =>
      simp only [List.getElem?_cons_succ] at h
      obtain ⟨pre, op', h1, h2, h3⟩ := ih (step s op).1 i h
      refine ⟨op :: pre, op', by simp [h1], by simpa using h2, ?_⟩
      simpa [run] using h3

/-! ### dispatches racing with membership changes (the three locked steps of Send) -/

/-- Whatever membership changes other threads make between `getNextBackendIndex`, `getBackendCount`
and `getBackend`, the backend finally picked (step 3, under the lock) is a member of the list as it
is AT THAT MOMENT, and nothing is picked only when the list is empty at that moment. -/
theorem C05_racing (s3 : St) (i : Nat) :
    (getBackend s3 i = none ∧ s3.backends = []) ∨ (∃ a, getBackend s3 i = some a ∧ a ∈ s3.backends) := by
  unfold getBackend
  by_cases hb : s3.backends = []
  · left; simp [hb]
  · right
    have hk : 0 < s3.backends.length := List.length_pos_iff.mpr hb
    have hn : s3.backends.length ≠ 0 := by omega
    refine ⟨s3.backends[i % s3.backends.length]'(Nat.mod_lt _ hk), ?_, List.getElem_mem _⟩
    simp [hn, Nat.mod_lt _ hk]

/-! ### non-vacuity: concrete non-trivial states meeting the hypotheses -/

example : WF { index := 2, backends := [[97], [98], [99]], keys := [[99], [97], [98]] } := by
  refine ⟨by decide, by decide, ?_⟩
  intro a; simp; tauto
example : targetsN 3 { index := 7, backends := [[97], [98], [99]], keys := [] } = [[99], [97], [98]] := by
  decide

/-! ### oracle soundness: the observer `Spec.RRObs` never raises an alarm on the model

The driver feeds `Spec.RRObs` with the add/remove operations and with the dispatch targets observed
on the IMPLEMENTATION. Here the same observer is fed with the targets of the MODEL
(`Lemmas.RRObs.observe`, one entry per operation, paired with the model's output): on every
well-formed history (`opsOk`: an address is added only when it is not currently a member) it
reports nothing. Together with the differential test (implementation = model on the tested
histories) this says an alarm of the observer on the implementation is never a false alarm caused
by the observer being stricter than the model. -/

open Lemmas.RRObs in
/-- General form: from ANY well-formed state `s` (any cursor value) and any observer state coupled
with it, a well-formed history produces no report, and the final states are coupled again. -/
theorem oracle_sound_from (s : St) (o : Spec.RRObs) (ops : List Op)
    (hwf : WF s) (hc : Coupled s o) (hops : opsOk s ops) :
    observe o (ops.zip (run s ops).2) = [] ∧
    Coupled (run s ops).1 (observeSt o (ops.zip (run s ops).2)).1 := by
  induction ops generalizing s o with
  | nil => exact ⟨rfl, hc⟩
  | cons op ops ih =>
    have hwf' := wf_step s op hwf hops.1
    cases op with
    | add a =>
      have := ih (add s a) (o.add a) hwf' (add_step s o a hc) hops.2
      simpa [run, step, observeSt, obsStep] using this
    | remove a =>
      have := ih (remove s a).1 (o.remove a) hwf' (remove_step s o a hwf.2.2 hc) hops.2
      simpa [run, step, observeSt, obsStep] using this
    | dispatch =>
      obtain ⟨h1, h2⟩ := dispatch_step s o hwf.1 hc
      have := ih (dispatch s).1 (o.dispatch (dispatch s).2).1 hwf' h2 hops.2
      simpa [run, step, observeSt, obsStep, h1] using this

open Lemmas.RRObs in
/-- ORACLE SOUNDNESS. The observer, started empty and fed with a well-formed history of the model
started empty (each operation paired with the model's output for it), reports nothing. -/
theorem C05_oracle_sound (ops : List Op) (hdom : opsOk {} ops) :
    observe {} (ops.zip (run {} ops).2) = [] :=
  (oracle_sound_from {} {} ops wf_init coupled_init hdom).1

open Lemmas.RRObs in
/-- The same from any well-formed state (any cursor), the observer being told the state's list. -/
theorem C05_oracle_sound_from (s : St) (ops : List Op) (hwf : WF s) (hdom : opsOk s ops) :
    observe { members := s.backends, recent := [] } (ops.zip (run s ops).2) = [] :=
  (oracle_sound_from s _ ops hwf (coupled_fresh s) hdom).1

open Lemmas.RRObs in
/-- Along a well-formed history the observer's member list IS the model's backend list. -/
theorem oracle_members (ops : List Op) (hdom : opsOk {} ops) :
    (observeSt {} (ops.zip (run {} ops).2)).1.members = (run {} ops).1.backends :=
  (oracle_sound_from {} {} ops wf_init coupled_init hdom).2.members

instance (s : St) : (op : Op) → Decidable (opOk s op)
  | .add a => inferInstanceAs (Decidable (a ∉ s.backends))
  | .remove _ => isTrue trivial
  | .dispatch => isTrue trivial

instance opsOkDec : (s : St) → (ops : List Op) → Decidable (opsOk s ops)
  | _, [] => isTrue trivial
  | s, op :: ops => @instDecidableAnd _ _ _ (opsOkDec (step s op).1 ops)

/-- non-vacuity of `hdom`: a history with adds, a re-add after removal, removal of a stranger,
dispatches across membership changes and a drop is well-formed ... -/
example : opsOk {} [.dispatch, .add [97], .add [98], .dispatch, .add [99], .dispatch, .dispatch, .dispatch,
    .dispatch, .remove [100], .dispatch, .remove [98], .dispatch, .dispatch, .add [98], .dispatch,
    .remove [97], .remove [98], .remove [99], .dispatch] := by decide
/-- ... and its model outputs are these (so the theorem speaks about real rotations) -/
example : (run {} [.dispatch, .add [97], .add [98], .dispatch, .add [99], .dispatch, .dispatch, .dispatch,
    .dispatch, .remove [100], .dispatch, .remove [98], .dispatch, .dispatch, .add [98], .dispatch,
    .remove [97], .remove [98], .remove [99], .dispatch]).2 =
    [none, none, none, some [98], none, some [99], some [97], some [98],
     some [99], none, some [97], none, some [99], some [97], none, some [99],
     none, none, none, none] := by decide

open Lemmas.RRObs in
/-- `hdom` cannot be dropped: adding a present address twice makes the MODEL itself hand two
consecutive requests to the same address although the observer counts two members ... -/
example : observe {} ([Op.add [97], .add [97], .dispatch, .dispatch].zip
    (run {} [.add [97], .add [97], .dispatch, .dispatch]).2) = ["window-repeats-target"] := by decide
open Lemmas.RRObs in
/-- ... and after add a, add a, remove a, remove a the model still has `a` in its list (the map
entry went with the first removal, so the second is ignored) while the observer has none. -/
example : observe {} ([Op.add [97], .add [97], .remove [97], .remove [97], .dispatch].zip
    (run {} [.add [97], .add [97], .remove [97], .remove [97], .dispatch]).2) = ["target-not-member"] := by decide

/-- corner of the model: across a removal the SAME backend can be hit twice in a row (the cursor is
not adjusted when the list shrinks); the observer stays silent only because it restarts its window
at every membership change -- that restart is needed for soundness, not just convenient. -/
example : (run {} [.add [97], .add [98], .add [99], .dispatch, .dispatch, .remove [97], .dispatch]).2 =
    [none, none, none, some [98], some [99], none, some [99]] := by decide

end Props.C05
