import GoStd.Bytes
namespace Props.C15
end Props.C15
