/-
C15 — Dialog pins live exactly as long as promised and are forgotten on termination.

"A dialog's backend pin is honoured for at least the configured dialog timeout - or the Expires
value of the response that established it, if larger - and never after that lifetime has elapsed.
It is dissolved early when the backend answers a BYE for the dialog or a NOTIFY with
Subscription-State `terminated` passes through, after which requests bearing that dialog's
identifiers are load-balanced like new ones. Expired pins are purged as traffic continues - none
survives more than one further dialog-timeout period of ongoing traffic, whatever Expires values
messages carry - so the table of remembered pins cannot grow without bound."

Model: Side.Pins (backend.go DialogBasedBackend) with explicit time. Histories are arbitrary
sequences of add / get / remove at non-decreasing instants. (That BYE responses and
NOTIFY-terminated call `remove`, and that an unpinned dialog is load-balanced, is C04's pipeline
model; here: the table.) Wall-clock behaviour is not modelled (partial): the virtual-clock stream
`pins` and margins are the tie.
-/
import Side.Pins
import Side.Config
open GoStd Side.Pins

namespace Props.C15

inductive Op where
  | add (k : Key) (b : Backend) (expires : Int)
  | get (k : Key)
  | remove (k : Key)
  deriving Repr, DecidableEq

def step (s : St) (now : Nat) : Op → St
  | .add k b e => add s k b e now
  | .get k => (Side.Pins.get s k now).1
  | .remove k => remove s k

/-- a history: operations with their instants -/
def run : St → List (Nat × Op) → St
  | s, [] => s
  | s, (t, op) :: h => run (step s t op) h

/-- instants are non-decreasing, start at `from` and stay ≤ `upto` -/
def Timed (frm upto : Nat) : List (Nat × Op) → Prop
  | [] => frm ≤ upto
  | (t, _) :: h => frm ≤ t ∧ Timed t upto h

/-- the operation leaves the pin of key `k` alone (lookups are allowed) -/
def Avoids (k : Key) : Op → Prop
  | .add k' _ _ => k' ≠ k
  | .remove k' => k' ≠ k
  | .get _ => True

/-- the history never touches the pin of key `k` except by looking it up -/
def Untouched (k : Key) (h : List (Nat × Op)) : Prop := ∀ p ∈ h, Avoids k p.2

def KeysNodup (s : St) : Prop := (s.entries.map (·.key)).Nodup

theorem eraseKey_sublist (es : List Entry) (k : Key) : (eraseKey es k).Sublist es := List.filter_sublist

theorem keysNodup_eraseKey (es : List Entry) (k : Key) (h : (es.map (·.key)).Nodup) :
    ((eraseKey es k).map (·.key)).Nodup := ((eraseKey_sublist es k).map _).nodup h

theorem not_mem_keys_eraseKey (es : List Entry) (k : Key) : k ∉ (eraseKey es k).map (·.key) := by
  simp [eraseKey]

theorem keysNodup_add (s : St) (k : Key) (b : Backend) (e : Int) (now : Nat) (h : KeysNodup s) :
    KeysNodup (add s k b e now) := by
  have hbase : ((eraseKey s.entries k ++ [({ key := k, backend := b, expire := now + lifetime s.timeout e } : Entry)]).map (·.key)).Nodup := by
    rw [List.map_append]
    refine List.nodup_append.mpr ⟨keysNodup_eraseKey _ _ h, by simp, ?_⟩
    intro x hx y hy
    simp at hy; subst hy
    exact fun e' => not_mem_keys_eraseKey s.entries y (e' ▸ hx)
  unfold add KeysNodup
  simp only
  split
  · exact ((List.filter_sublist (l := _)).map _).nodup hbase
  · exact hbase

theorem keysNodup_get (s : St) (k : Key) (now : Nat) (h : KeysNodup s) : KeysNodup (Side.Pins.get s k now).1 := by
  unfold Side.Pins.get
  split
  · exact h
  · split
    · exact h
    · exact keysNodup_eraseKey _ _ h

theorem keysNodup_step (s : St) (now : Nat) (op : Op) (h : KeysNodup s) : KeysNodup (step s now op) := by
  cases op with
  | add k b e => exact keysNodup_add s k b e now h
  | get k => exact keysNodup_get s k now h
  | remove k => exact keysNodup_eraseKey _ _ h

/-- with distinct keys, membership determines the lookup -/
theorem find_of_mem (es : List Entry) (x : Entry) (hnd : (es.map (·.key)).Nodup) (hx : x ∈ es) :
    es.find? (fun e => e.key == x.key) = some x := by
  induction es with
  | nil => cases hx
  | cons y ys ih =>
    simp only [List.map_cons, List.nodup_cons] at hnd
    rcases List.mem_cons.mp hx with rfl | hm
    · simp
    · have hne : y.key ≠ x.key := fun e => hnd.1 (e ▸ List.mem_map_of_mem hm)
      simp [List.find?_cons, hne, ih hnd.2 hm]

/-- the step of a history that leaves key `k` alone keeps k's entry, as long as it has not expired -/
theorem step_keeps (s : St) (now : Nat) (op : Op) (x : Entry) (hx : x ∈ s.entries) (hnd : KeysNodup s)
    (hlive : now < x.expire)
    (hop : Avoids x.key op) :
    x ∈ (step s now op).entries := by
  cases op with
  | add k b e =>
    have hk : x.key ≠ k := fun h => hop h.symm
    have hmem : x ∈ eraseKey s.entries k ++ [{ key := k, backend := b, expire := now + lifetime s.timeout e }] :=
      List.mem_append_left _ (List.mem_filter.mpr ⟨hx, by simpa using hk⟩)
    simp only [step, add]
    split
    · exact List.mem_filter.mpr ⟨hmem, by simp; omega⟩
    · exact hmem
  | remove k =>
    have hk : x.key ≠ k := fun h => hop h.symm
    exact List.mem_filter.mpr ⟨hx, by simpa using hk⟩
  | get k =>
    simp only [step, Side.Pins.get]
    split
    · exact hx
    · rename_i e he
      split
      · exact hx
      · rename_i hexp
        have hk : x.key ≠ k := by
          intro hkk
          have := find_of_mem s.entries x hnd hx
          rw [hkk] at this
          rw [this] at he
          cases he
          omega
        exact List.mem_filter.mpr ⟨hx, by simpa using hk⟩

/-- **Honoured.** A pin added at `t0` with lifetime L = max(timeout, Expires) is returned by every
lookup strictly before `t0 + L`, whatever other pins are added, looked up, removed or swept in
between. -/
theorem C15_honoured (s : St) (k : Key) (b : Backend) (E : Int) (t0 t : Nat) (h : List (Nat × Op))
    (hnd : KeysNodup s) (ht : Timed t0 t h) (hu : Untouched k h)
    (hlt : t < t0 + lifetime s.timeout E) :
    (Side.Pins.get (run (add s k b E t0) h) k t).2 = some b := by
  -- the entry and the invariant it satisfies along the history
  let x : Entry := { key := k, backend := b, expire := t0 + lifetime s.timeout E }
  have hx0 : x ∈ (add s k b E t0).entries := by
    have hmem : x ∈ eraseKey s.entries k ++ [x] := by simp
    simp only [add]
    split
    · exact List.mem_filter.mpr ⟨hmem, by simp [x]⟩
    · exact hmem
  have hnd0 := keysNodup_add s k b E t0 hnd
  have key : ∀ (h : List (Nat × Op)) (s' : St) (t1 : Nat), x ∈ s'.entries → KeysNodup s' → Timed t1 t h → Untouched k h →
      x ∈ (run s' h).entries ∧ KeysNodup (run s' h) := by
    intro h
    induction h with
    | nil => intro s' _ hx hn _ _; exact ⟨hx, hn⟩
    | cons p h ih =>
      obtain ⟨tp, op⟩ := p
      intro s' t1 hx hn htm hun
      simp only [run]
      have htp : tp ≤ t := by
        have : ∀ (l : List (Nat × Op)) (a : Nat), Timed a t l → a ≤ t := by
          intro l
          induction l with
          | nil => intro a ha; exact ha
          | cons q l ihl => intro a ha; obtain ⟨q1, q2⟩ := q; exact Nat.le_trans ha.1 (ihl q1 ha.2)
        exact this h tp htm.2
      have hop : Avoids x.key op := hun (tp, op) (by simp)
      have hun' : Untouched k h := fun q hq => hun q (by simp [hq])
      exact ih _ tp (step_keeps s' tp op x hx hn (by simp [x]; omega) hop) (keysNodup_step s' tp op hn) htm.2 hun'
  obtain ⟨hxe, hne⟩ := key h _ t0 hx0 hnd0 ht hu
  have hf := find_of_mem _ x hne hxe
  simp only [Side.Pins.get]
  have : (fun e : Entry => e.key == k) = (fun e : Entry => e.key == x.key) := rfl
  rw [this, hf]
  have hgt : x.expire > t := by simp [x]; omega
  simp [hgt, x]

/-- every entry of key `k` carries the expiry `e0` -/
def AllExpire (s : St) (k : Key) (e0 : Nat) : Prop := ∀ y ∈ s.entries, y.key = k → y.expire = e0

theorem allExpire_step (s : St) (now : Nat) (op : Op) (k : Key) (e0 : Nat) (h : AllExpire s k e0)
    (hop : match op with | .add k' _ _ => k' ≠ k | _ => True) : AllExpire (step s now op) k e0 := by
  intro y hy hk
  cases op with
  | add k' b e =>
    simp only [step, add] at hy
    have hne : k' ≠ k := hop
    have hy' : y ∈ eraseKey s.entries k' ++ [{ key := k', backend := b, expire := now + lifetime s.timeout e }] := by
      split at hy
      · exact (List.mem_filter.mp hy).1
      · exact hy
    rcases List.mem_append.mp hy' with hm | hm
    · exact h y (List.mem_filter.mp hm).1 hk
    · simp at hm; subst hm; exact absurd hk hne
  | get k' =>
    simp only [step, Side.Pins.get] at hy
    split at hy
    · exact h y hy hk
    · split at hy
      · exact h y hy hk
      · exact h y (List.mem_filter.mp hy).1 hk
  | remove k' => exact h y (List.mem_filter.mp hy).1 hk

/-- **Not after.** Once the lifetime has elapsed the pin is never honoured again (unless the
dialog is pinned anew): every lookup at `t ≥ t0 + L` fails. -/
theorem C15_not_after (s : St) (k : Key) (b : Backend) (E : Int) (t0 t : Nat) (h : List (Nat × Op))
    (hu : ∀ p ∈ h, ∀ k' b' e', p.2 = Op.add k' b' e' → k' ≠ k)
    (hge : t0 + lifetime s.timeout E ≤ t) :
    (Side.Pins.get (run (add s k b E t0) h) k t).2 = none := by
  have h0 : AllExpire (add s k b E t0) k (t0 + lifetime s.timeout E) := by
    intro y hy hk
    simp only [add] at hy
    have hy' : y ∈ eraseKey s.entries k ++ [{ key := k, backend := b, expire := t0 + lifetime s.timeout E }] := by
      split at hy
      · exact (List.mem_filter.mp hy).1
      · exact hy
    rcases List.mem_append.mp hy' with hm | hm
    · have := (List.mem_filter.mp hm).2; simp [hk] at this
    · simp at hm; subst hm; rfl
  have key : ∀ (h : List (Nat × Op)) (s' : St), AllExpire s' k (t0 + lifetime s.timeout E) →
      (∀ p ∈ h, ∀ k' b' e', p.2 = Op.add k' b' e' → k' ≠ k) → AllExpire (run s' h) k (t0 + lifetime s.timeout E) := by
    intro h
    induction h with
    | nil => intro s' ha _; exact ha
    | cons p h ih =>
      intro s' ha hu
      obtain ⟨tp, op⟩ := p
      simp only [run]
      apply ih
      · apply allExpire_step _ _ _ _ _ ha
        cases op with
        | add k' b' e' => exact hu (tp, .add k' b' e') (by simp) k' b' e' rfl
        | get _ => trivial
        | remove _ => trivial
      · intro q hq; exact hu q (by simp [hq])
  have hall := key h _ h0 hu
  simp only [Side.Pins.get]
  split
  · rfl
  · rename_i e he
    have hmem := List.mem_of_find?_eq_some he
    have hkey : e.key = k := by simpa using List.find?_some he
    have := hall e hmem hkey
    split
    · omega
    · rfl

/-- **Terminated.** After `remove` (BYE answered / NOTIFY terminated) the pin is gone: lookups fail
until the dialog is pinned anew, whatever else happens. -/
theorem C15_terminated (s : St) (k : Key) (t : Nat) (h : List (Nat × Op))
    (hu : ∀ p ∈ h, ∀ k' b' e', p.2 = Op.add k' b' e' → k' ≠ k) :
    (Side.Pins.get (run (remove s k) h) k t).2 = none := by
  have h0 : ∀ y ∈ (remove s k).entries, y.key ≠ k := by
    intro y hy; simpa [remove, eraseKey] using (List.mem_filter.mp hy).2
  have key : ∀ (h : List (Nat × Op)) (s' : St), (∀ y ∈ s'.entries, y.key ≠ k) →
      (∀ p ∈ h, ∀ k' b' e', p.2 = Op.add k' b' e' → k' ≠ k) → ∀ y ∈ (run s' h).entries, y.key ≠ k := by
    intro h
    induction h with
    | nil => intro s' ha _; exact ha
    | cons p h ih =>
      intro s' ha hu
      obtain ⟨tp, op⟩ := p
      simp only [run]
      apply ih
      · intro y hy
        cases op with
        | add k' b' e' =>
          have hne : k' ≠ k := hu (tp, .add k' b' e') (by simp) k' b' e' rfl
          simp only [step, add] at hy
          have hy' : y ∈ eraseKey s'.entries k' ++ [{ key := k', backend := b', expire := tp + lifetime s'.timeout e' }] := by
            split at hy
            · exact (List.mem_filter.mp hy).1
            · exact hy
          rcases List.mem_append.mp hy' with hm | hm
          · exact ha y (List.mem_filter.mp hm).1
          · simp at hm; subst hm; exact hne
        | get k' =>
          simp only [step, Side.Pins.get] at hy
          split at hy
          · exact ha y hy
          · split at hy
            · exact ha y hy
            · exact ha y (List.mem_filter.mp hy).1
        | remove k' => exact ha y (List.mem_filter.mp hy).1
      · intro q hq; exact hu q (by simp [hq])
  have hall := key h _ h0 hu
  simp only [Side.Pins.get]
  split
  · rfl
  · rename_i e he
    exact absurd (by simpa using List.find?_some he) (hall e (List.mem_of_find?_eq_some he))

/-! ### purging: the table cannot grow without bound -/

/-- sweep bookkeeping invariant at instant `now` (the time of the latest operation):
the next sweep is at most one timeout away, and no stored pin expired more than one timeout
before the next sweep. -/
def SweepInv (s : St) (now : Nat) : Prop :=
  s.nextClean ≤ now + s.timeout ∧ ∀ x ∈ s.entries, s.nextClean ≤ x.expire + s.timeout

theorem sweepInv_init (timeout now : Nat) : SweepInv (init timeout now) now := by
  simp [SweepInv, init]

theorem timeout_step (s : St) (now : Nat) (op : Op) : (step s now op).timeout = s.timeout := by
  cases op with
  | add k b e => simp only [step, add]; split <;> rfl
  | get k =>
    simp only [step, Side.Pins.get]
    split
    · rfl
    · split <;> rfl
  | remove k => rfl

theorem lifetime_ge (T : Nat) (E : Int) : T ≤ lifetime T E := by
  unfold lifetime; split <;> omega

theorem sweepInv_step (s : St) (now t : Nat) (op : Op) (h : SweepInv s now) (ht : now ≤ t) :
    SweepInv (step s t op) t := by
  obtain ⟨h1, h2⟩ := h
  cases op with
  | add k b e =>
    have hl := lifetime_ge s.timeout e
    simp only [step, add]
    split
    · refine ⟨Nat.le_refl _, ?_⟩
      intro x hx
      have := (List.mem_filter.mp hx).2
      simp at this
      simp only; omega
    · refine ⟨by simp only; omega, ?_⟩
      intro x hx
      rcases List.mem_append.mp hx with hm | hm
      · exact h2 x (List.mem_filter.mp hm).1
      · simp at hm; subst hm; simp only; omega
  | get k =>
    simp only [step, Side.Pins.get]
    split
    · exact ⟨by simp only; omega, h2⟩
    · split
      · exact ⟨by simp only; omega, h2⟩
      · exact ⟨by simp only; omega, fun x hx => h2 x (List.mem_filter.mp hx).1⟩
  | remove k => exact ⟨by simp only [step, remove]; omega, fun x hx => h2 x (List.mem_filter.mp hx).1⟩

/-- the invariant holds in every state reached from a fresh table by a timed history -/
theorem sweepInv_run (s : St) (now : Nat) (h : List (Nat × Op)) (upto : Nat) (hi : SweepInv s now) (ht : Timed now upto h) :
    ∃ last, SweepInv (run s h) last ∧ last ≤ upto := by
  induction h generalizing s now with
  | nil => exact ⟨now, hi, ht⟩
  | cons p h ih =>
    obtain ⟨tp, op⟩ := p
    exact ih _ tp (sweepInv_step s now tp op hi ht.1) ht.2

/-- **Purged.** After any pin is added at instant `t`, no pin whose lifetime ended more than one
dialog timeout before `t` is left in the table - whatever Expires values any message carried. -/
theorem C15_purged (s : St) (now t : Nat) (k : Key) (b : Backend) (E : Int) (h : SweepInv s now) (ht : now ≤ t) :
    ∀ x ∈ (add s k b E t).entries, ¬ (x.expire + s.timeout < t) := by
  obtain ⟨h1, h2⟩ := h
  have hl := lifetime_ge s.timeout E
  intro x hx
  simp only [add] at hx
  split at hx
  · have := (List.mem_filter.mp hx).2
    simp at this; omega
  · rename_i hns
    rcases List.mem_append.mp hx with hm | hm
    · have := h2 x (List.mem_filter.mp hm).1; omega
    · simp at hm; subst hm; simp only; omega

/-- the lifetime is the larger of the configured timeout and the Expires value -/
theorem C15_lifetime (T : Nat) (E : Int) :
    lifetime T E = max T (E.toNat * second) := by
  unfold lifetime
  split
  · rename_i h; omega
  · rename_i h
    by_cases hE : E > 0
    · have : ¬ (E.toNat * second > T) := fun hh => h ⟨hE, hh⟩
      omega
    · have : E.toNat = 0 := by omega
      simp [this]

/-! ### non-vacuity -/
example : KeysNodup (init 5 0) ∧ SweepInv (init 5 0) 0 := by
  exact ⟨by simp [KeysNodup, init], sweepInv_init 5 0⟩
example : (Side.Pins.get (add (init 5 0) [1] [2] 0 3) [1] 7).2 = some [2] ∧ (Side.Pins.get (add (init 5 0) [1] [2] 0 3) [1] 8).2 = none := by
  decide

/-! ### "the configured dialog timeout": which number that is (main.go start-up, Side.Config)

The `timeout` of the table above is fixed once, at start-up. Stream `cfg deftimeout` runs the real
`getDefaultDialogTimeout` against `Side.Config.defaultDialogTimeout`; `Expected.K15` pins the two lines
of `startProxy` that apply it; the `wire` stage starts whole configurations (two services, a service
setting against the environment). -/

/-- A service that configures a positive `dialogTimeout` gets exactly that, whatever the environment says. -/
theorem C15_configured_timeout_wins (configured : Int) (h : 0 < configured) (env : Option Bytes) :
    Side.Config.dialogTimeout configured env = configured := by
  unfold Side.Config.dialogTimeout
  have : ¬ configured ≤ 0 := by omega
  simp [this]

/-- Without a setting of its own and without the environment variable a service gets 1200 s. -/
theorem C15_default_timeout (configured : Int) (h : configured ≤ 0) :
    Side.Config.dialogTimeout configured none = 1200 := by
  simp [Side.Config.dialogTimeout, h, Side.Config.defaultDialogTimeout]

/-- The environment fills in only for a service without a setting: then the value `strconv.Atoi` reads from it,
and 1200 when it is not a number. -/
theorem C15_environment_fills_in (configured : Int) (h : configured ≤ 0) (v : Bytes) :
    Side.Config.dialogTimeout configured (some v) = (atoi v).getD 1200 := by
  simp [Side.Config.dialogTimeout, h, Side.Config.defaultDialogTimeout]

/-- The timeout of one service is a function of that service's setting and the environment alone: whatever was
resolved for the service listed before it plays no part (there is no state to carry it). -/
theorem C15_timeout_per_service (c1 c2 : Int) (env : Option Bytes) (h : 0 < c2) :
    (Side.Config.dialogTimeout c1 env, Side.Config.dialogTimeout c2 env).2 = c2 :=
  C15_configured_timeout_wins c2 h env

example : Side.Config.dialogTimeout 1 (some [54, 48, 48]) = 1 := by decide                -- yaml 1, env "600"
example : Side.Config.dialogTimeout 0 (some [54, 48, 48]) = 600 := by decide +kernel      -- no setting, env "600"
example : Side.Config.dialogTimeout 0 (some [49, 50, 115]) = 1200 := by decide +kernel    -- no setting, env "12s"

end Props.C15
