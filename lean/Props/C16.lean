/-
C16 — Dialog identity is direction-independent and discriminating.

"Dialog identity is direction-independent and discriminating: two messages are attributed to the
same dialog whenever they agree on Call-ID and on the two (tag, URI) endpoint pairs - SIP URIs
compared without their parameters and headers - irrespective of which endpoint appears in From and
which in To; display names, SIP-URI parameters, header parameters other than tag, and header-name
spelling do not affect the attribution. Changing the Call-ID, either tag, or the user, host or port
of either URI yields a different dialog, and a message lacking either tag belongs to no dialog."

Model: Sip.Message `getDialog` / `dialogId` / `getDialogAddr` (message.go GetDialog). The identifier
is Call-ID and the two (tag, address) halves, the halves ordered by (address, tag), joined by a
blank. `getDialog` reads exactly: the raw Call-ID value, `getTag` and `getAddrSpec` of the decoded
From and To (`C16_getDialog_eq`, `C16_getDialog_some`); nothing else of the message enters.

Domain of the discrimination theorems: components free of the blank (byte 32). SIP's grammar allows
no blank inside a Call-ID, a tag or a URI, but the model's parsers do not reject one (a raw header
value is only trimmed at its ends); `C16_blank_inside_collides` shows that the restriction is needed.
-/
import Lemmas.Dialog
import Lemmas.Headers
import Lemmas.Str
open GoStd Sip

namespace Props.C16

/-! ### 1. direction independence -/

/-- Swapping the two (tag, address) halves does not change the identifier — for all byte strings. -/
theorem C16_symmetric (c t₁ a₁ t₂ a₂ : Bytes) :
    dialogId c t₁ a₁ t₂ a₂ = dialogId c t₂ a₂ t₁ a₁ := by
  unfold dialogId
  rcases Std.lt_trichotomy a₁ a₂ with h | h | h
  · have h' : ¬ a₂ < a₁ := List.lt_asymm h
    have hne : a₂ ≠ a₁ := fun e => List.lt_irrefl a₁ (e ▸ h)
    simp [h, h', hne]
  · subst h
    have hi : ¬ a₁ < a₁ := List.lt_irrefl a₁
    rcases Std.lt_trichotomy t₁ t₂ with ht | ht | ht
    · have ht' : ¬ t₂ < t₁ := List.lt_asymm ht
      simp [hi, ht, ht']
    · subst ht
      simp
    · have ht' : ¬ t₁ < t₂ := List.lt_asymm ht
      simp [hi, ht, ht']
  · have h' : ¬ a₁ < a₂ := List.lt_asymm h
    have hne : a₁ ≠ a₂ := fun e => List.lt_irrefl a₂ (e ▸ h)
    simp [h, h', hne]

section
variable (cm : List (Bytes × Bytes))

/-- What `getDialog` reads: Call-ID, and tag and addr-spec of From and To. -/
theorem C16_getDialog_eq (m m1 m2 : Message) (callId ftag ttag : Bytes) (f t : FromTo) (fa ta : AddrSpec)
    (hc : getRawHeader cm m callIdName = some callId) (hf : getFrom cm m = some (f, m1)) (hft : f.getTag = some ftag)
    (hto : getTo cm m1 = some (t, m2)) (htt : t.getTag = some ttag)
    (hfa : f.getAddrSpec = some fa) (hta : t.getAddrSpec = some ta) :
    getDialog cm m = (some (dialogId callId ftag (getDialogAddr fa) ttag (getDialogAddr ta)), m2) := by
  unfold getDialog
  simp [hc, hf, hft, hto, htt, hfa, hta]

/-- … and a dialog is only ever answered in that way. -/
theorem C16_getDialog_some (m : Message) (d : Bytes) (h : (getDialog cm m).1 = some d) :
    ∃ callId f m1 ftag t m2 ttag fa ta,
      getRawHeader cm m callIdName = some callId ∧ getFrom cm m = some (f, m1) ∧ f.getTag = some ftag ∧
      getTo cm m1 = some (t, m2) ∧ t.getTag = some ttag ∧ f.getAddrSpec = some fa ∧ t.getAddrSpec = some ta ∧
      d = dialogId callId ftag (getDialogAddr fa) ttag (getDialogAddr ta) := by
  unfold getDialog at h
  split at h
  · cases h
  · rename_i callId hc
    split at h
    · cases h
    · rename_i f m1 hf
      split at h
      · cases h
      · rename_i ftag hft
        split at h
        · cases h
        · rename_i t m2 hto
          split at h
          · cases h
          · rename_i ttag htt
            split at h
            · rename_i fa ta hfa hta
              simp only [Option.some.injEq] at h
              exact ⟨callId, f, m1, ftag, t, m2, ttag, fa, ta, hc, hf, hft, hto, htt, hfa, hta, h.symm⟩
            · cases h

/-- Two messages that agree on Call-ID and on the two (tag, dialog address) pairs, the second with
From and To exchanged (a request in the other direction), are attributed to the same dialog. -/
theorem C16_direction_independent (m m1 m2 m' m1' m2' : Message) (callId tag₁ tag₂ : Bytes)
    (f t f' t' : FromTo) (fa ta fa' ta' : AddrSpec)
    (hc : getRawHeader cm m callIdName = some callId) (hf : getFrom cm m = some (f, m1)) (hft : f.getTag = some tag₁)
    (hto : getTo cm m1 = some (t, m2)) (htt : t.getTag = some tag₂)
    (hfa : f.getAddrSpec = some fa) (hta : t.getAddrSpec = some ta)
    (hc' : getRawHeader cm m' callIdName = some callId) (hf' : getFrom cm m' = some (f', m1'))
    (hft' : f'.getTag = some tag₂) (hto' : getTo cm m1' = some (t', m2')) (htt' : t'.getTag = some tag₁)
    (hfa' : f'.getAddrSpec = some fa') (hta' : t'.getAddrSpec = some ta')
    (h₁ : getDialogAddr fa' = getDialogAddr ta) (h₂ : getDialogAddr ta' = getDialogAddr fa) :
    (getDialog cm m).1 = (getDialog cm m').1 := by
  rw [C16_getDialog_eq cm m m1 m2 callId tag₁ tag₂ f t fa ta hc hf hft hto htt hfa hta,
      C16_getDialog_eq cm m' m1' m2' callId tag₂ tag₁ f' t' fa' ta' hc' hf' hft' hto' htt' hfa' hta', h₁, h₂]
  simp only
  rw [C16_symmetric]

end

/-! ### 2. what does not matter -/

/-- SIP-URI parameters and headers do not enter the dialog address. -/
theorem C16_decorations (u u' : SIPURI) (hs : u.scheme = u'.scheme) (hu : u.user = u'.user)
    (hpw : u.password = u'.password) (hh : u.host = u'.host) (hp : u.port = u'.port) :
    getDialogAddr (.sip u) = getDialogAddr (.sip u') := by
  simp [getDialogAddr, SIPURI.write, hs, hu, hpw, hh, hp]

theorem C16_decorations_set (u : SIPURI) (ps hs : List KeyValue) :
    getDialogAddr (.sip { u with params := ps, headers := hs }) = getDialogAddr (.sip u) :=
  C16_decorations _ _ rfl rfl rfl rfl rfl

/-- The display name does not enter: `getAddrSpec` of a name-addr is its addr-spec. -/
theorem C16_display_name (f : FromTo) (na : NameAddr) (d : Bytes) (h : f.nameAddr = some na) :
    FromTo.getAddrSpec { f with nameAddr := some { na with display := d } } = f.getAddrSpec := by
  simp [FromTo.getAddrSpec, h]

/-- Header parameters other than `tag` do not enter: `getTag` looks at the first `tag` parameter only
(parameters with other keys in front of it, and anything behind it, are skipped). -/
theorem C16_other_params (pre post : List KeyValue) (v : Bytes) (nm : Option NameAddr) (a : Option AddrSpec)
    (hpre : ∀ p ∈ pre, p.key ≠ str "tag") :
    FromTo.getTag { nameAddr := nm, addrSpec := a, params := pre ++ { key := str "tag", value := v } :: post } = some v := by
  unfold FromTo.getTag getParam
  induction pre with
  | nil => simp
  | cons p ps ih =>
    have hp : (p.key == str "tag") = false := by simpa using hpre p (by simp)
    have := ih (fun q hq => hpre q (by simp [hq]))
    simp only [List.cons_append, List.find?_cons, hp] at this ⊢
    exact this

/-- the header classes `getDialog` looks for -/
def DialogClasses (n : Bytes) : Prop := n = callIdName ∨ n = fromName ∨ n = toName

/-- Header-name spelling does not enter: re-spelling any header name so that it stays in (or out of) the
classes Call-ID, From, To — another letter case, the compact form — leaves the attribution unchanged.
(`Lemmas.respelled_of_toLower`: a change of letter case is always such a re-spelling.) -/
theorem C16_header_spelling (cm : List (Bytes × Bytes)) (m m' : Message)
    (H : Lemmas.RespelledList cm DialogClasses m.headers m'.headers) :
    (getDialog cm m).1 = (getDialog cm m').1 := by
  unfold getDialog
  rw [Lemmas.getRawHeader_respelled cm DialogClasses m m' H callIdName (Or.inl rfl)]
  cases getRawHeader cm m' callIdName with
  | none => rfl
  | some callId =>
    simp only
    have hF := Lemmas.getFrom_respelled cm DialogClasses m m' H (Or.inr (Or.inl rfl))
    unfold Lemmas.GetterRel at hF
    cases h1 : getFrom cm m with
    | none =>
      cases h2 : getFrom cm m' with
      | none => rfl
      | some r' => rw [h1, h2] at hF; exact absurd hF id
    | some r =>
      cases h2 : getFrom cm m' with
      | none => rw [h1, h2] at hF; exact absurd hF id
      | some r' =>
        obtain ⟨f, m1⟩ := r
        obtain ⟨f', m1'⟩ := r'
        rw [h1, h2] at hF
        obtain ⟨rfl, H1⟩ := hF
        simp only
        cases f.getTag with
        | none => rfl
        | some ftag =>
          simp only
          have hT := Lemmas.getTo_respelled cm DialogClasses m1 m1' H1 (Or.inr (Or.inr rfl))
          unfold Lemmas.GetterRel at hT
          cases h3 : getTo cm m1 with
          | none =>
            cases h4 : getTo cm m1' with
            | none => rfl
            | some r' => rw [h3, h4] at hT; exact absurd hT id
          | some r =>
            cases h4 : getTo cm m1' with
            | none => rw [h3, h4] at hT; exact absurd hT id
            | some r' =>
              obtain ⟨t, m2⟩ := r
              obtain ⟨t', m2'⟩ := r'
              rw [h3, h4] at hT
              obtain ⟨rfl, -⟩ := hT
              simp only
              cases t.getTag with
              | none => rfl
              | some ttag =>
                simp only
                cases f.getAddrSpec <;> cases t.getAddrSpec <;> rfl

/-! ### 3. a message lacking either tag belongs to no dialog -/

section
variable (cm : List (Bytes × Bytes))

theorem C16_no_from_tag (m m1 : Message) (f : FromTo)
    (hf : getFrom cm m = some (f, m1)) (ht : f.getTag = none) : (getDialog cm m).1 = none := by
  unfold getDialog
  cases getRawHeader cm m callIdName with
  | none => rfl
  | some callId => simp [hf, ht]

theorem C16_no_to_tag (m m1 m2 : Message) (f t : FromTo)
    (hf : getFrom cm m = some (f, m1)) (hto : getTo cm m1 = some (t, m2)) (ht : t.getTag = none) :
    (getDialog cm m).1 = none := by
  unfold getDialog
  cases getRawHeader cm m callIdName with
  | none => rfl
  | some callId =>
    simp only [hf]
    cases f.getTag with
    | none => rfl
    | some ftag => simp [hto, ht]

/-- Both at once, from the characterisation: a dialog implies both tags. -/
theorem C16_dialog_has_tags (m : Message) (d : Bytes) (h : (getDialog cm m).1 = some d) :
    ∃ f m1 t m2, getFrom cm m = some (f, m1) ∧ getTo cm m1 = some (t, m2) ∧
      f.getTag.isSome = true ∧ t.getTag.isSome = true := by
  obtain ⟨_, f, m1, ftag, t, m2, ttag, _, _, _, hf, hft, hto, htt, _⟩ := C16_getDialog_some cm m d h
  exact ⟨f, m1, t, m2, hf, hto, by simp [hft], by simp [htt]⟩

end

/-! ### 4. discrimination -/

/-- Equal identifiers of blank-free components: equal Call-ID and the same unordered pair of
(tag, address) halves. Hence changing the Call-ID, a tag or an address changes the dialog. -/
theorem C16_injective (c t₁ a₁ t₂ a₂ c' t₁' a₁' t₂' a₂' : Bytes)
    (hc : (32 : UInt8) ∉ c) (ht₁ : (32 : UInt8) ∉ t₁) (ha₁ : (32 : UInt8) ∉ a₁)
    (ht₂ : (32 : UInt8) ∉ t₂) (ha₂ : (32 : UInt8) ∉ a₂)
    (hc' : (32 : UInt8) ∉ c') (ht₁' : (32 : UInt8) ∉ t₁') (ha₁' : (32 : UInt8) ∉ a₁')
    (ht₂' : (32 : UInt8) ∉ t₂') (ha₂' : (32 : UInt8) ∉ a₂')
    (h : dialogId c t₁ a₁ t₂ a₂ = dialogId c' t₁' a₁' t₂' a₂') :
    c = c' ∧ ((t₁ = t₁' ∧ a₁ = a₁' ∧ t₂ = t₂' ∧ a₂ = a₂') ∨
              (t₁ = t₂' ∧ a₁ = a₂' ∧ t₂ = t₁' ∧ a₂ = a₁')) := by
  rcases Lemmas.dialogId_eq_join c t₁ a₁ t₂ a₂ with e | e <;>
  rcases Lemmas.dialogId_eq_join c' t₁' a₁' t₂' a₂' with e' | e' <;>
  rw [e, e'] at h
  · obtain ⟨h0, h1, h2, h3, h4⟩ := Lemmas.join5_injective _ _ _ _ _ _ _ _ _ _ hc ht₁ ha₁ ht₂ ha₂ hc' ht₁' ha₁' ht₂' ha₂' h
    exact ⟨h0, Or.inl ⟨h1, h2, h3, h4⟩⟩
  · obtain ⟨h0, h1, h2, h3, h4⟩ := Lemmas.join5_injective _ _ _ _ _ _ _ _ _ _ hc ht₁ ha₁ ht₂ ha₂ hc' ht₂' ha₂' ht₁' ha₁' h
    exact ⟨h0, Or.inr ⟨h1, h2, h3, h4⟩⟩
  · obtain ⟨h0, h1, h2, h3, h4⟩ := Lemmas.join5_injective _ _ _ _ _ _ _ _ _ _ hc ht₂ ha₂ ht₁ ha₁ hc' ht₁' ha₁' ht₂' ha₂' h
    exact ⟨h0, Or.inr ⟨h3, h4, h1, h2⟩⟩
  · obtain ⟨h0, h1, h2, h3, h4⟩ := Lemmas.join5_injective _ _ _ _ _ _ _ _ _ _ hc ht₂ ha₂ ht₁ ha₁ hc' ht₂' ha₂' ht₁' ha₁' h
    exact ⟨h0, Or.inl ⟨h3, h4, h1, h2⟩⟩

/-- Same dialog ⇔ same Call-ID and same unordered pair of halves (blank-free components). -/
theorem C16_same_dialog_iff (c t₁ a₁ t₂ a₂ c' t₁' a₁' t₂' a₂' : Bytes)
    (hc : (32 : UInt8) ∉ c) (ht₁ : (32 : UInt8) ∉ t₁) (ha₁ : (32 : UInt8) ∉ a₁)
    (ht₂ : (32 : UInt8) ∉ t₂) (ha₂ : (32 : UInt8) ∉ a₂)
    (hc' : (32 : UInt8) ∉ c') (ht₁' : (32 : UInt8) ∉ t₁') (ha₁' : (32 : UInt8) ∉ a₁')
    (ht₂' : (32 : UInt8) ∉ t₂') (ha₂' : (32 : UInt8) ∉ a₂') :
    dialogId c t₁ a₁ t₂ a₂ = dialogId c' t₁' a₁' t₂' a₂' ↔
    c = c' ∧ ((t₁ = t₁' ∧ a₁ = a₁' ∧ t₂ = t₂' ∧ a₂ = a₂') ∨
              (t₁ = t₂' ∧ a₁ = a₂' ∧ t₂ = t₁' ∧ a₂ = a₁')) := by
  constructor
  · exact C16_injective c t₁ a₁ t₂ a₂ c' t₁' a₁' t₂' a₂' hc ht₁ ha₁ ht₂ ha₂ hc' ht₁' ha₁' ht₂' ha₂'
  · rintro ⟨rfl, ⟨rfl, rfl, rfl, rfl⟩ | ⟨rfl, rfl, rfl, rfl⟩⟩
    · rfl
    · exact C16_symmetric _ _ _ _ _

/-- Why a blank inside a component is outside the domain: Call-ID `c` with tag `x y` and Call-ID `c x`
with tag `y` collide. -/
theorem C16_blank_inside_collides :
    dialogId [99] [120, 32, 121] [97] [116] [98] = dialogId [99, 32, 120] [121] [97] [116] [98]
    ∧ ([99] : Bytes) ≠ [99, 32, 120] := by decide

/-! ### 5. why the separator is a blank and not '-' -/

/-- `dialogId` with '-' (a byte that hosts, users and tags may contain) as the separator. -/
def dialogIdDash (callId tagF addrF tagT addrT : Bytes) : Bytes :=
  if addrF < addrT || (addrF == addrT && tagF < tagT) then
    callId ++ [45] ++ tagF ++ [45] ++ addrF ++ [45] ++ tagT ++ [45] ++ addrT
  else
    callId ++ [45] ++ tagT ++ [45] ++ addrT ++ [45] ++ tagF ++ [45] ++ addrF

/-- `sip:q@h-x-sip:5` -/
def uriA : SIPURI := { scheme := [115, 105, 112], user := [113], host := [104, 45, 120, 45, 115, 105, 112], port := 5 }
/-- `sip:5-x-sip:q@h` -/
def uriB : SIPURI := { scheme := [115, 105, 112], user := [53, 45, 120, 45, 115, 105, 112], password := [113], host := [104] }
/-- `sip:5-x-sip:q@h-x-sip:5` -/
def uriT : SIPURI := { scheme := [115, 105, 112], user := [53, 45, 120, 45, 115, 105, 112], password := [113],
                       host := [104, 45, 120, 45, 115, 105, 112], port := 5 }

theorem uriA_addr : getDialogAddr (.sip uriA) = [115, 105, 112, 58, 113, 64, 104, 45, 120, 45, 115, 105, 112, 58, 53] := by
  decide
theorem uriB_addr : getDialogAddr (.sip uriB) = [115, 105, 112, 58, 53, 45, 120, 45, 115, 105, 112, 58, 113, 64, 104] := by
  decide
theorem uriT_addr : getDialogAddr (.sip uriT) =
    [115, 105, 112, 58, 53, 45, 120, 45, 115, 105, 112, 58, 113, 64, 104, 45, 120, 45, 115, 105, 112, 58, 53] := by
  decide

/-- With '-' two different From URIs (same To, same tags `x`, same Call-ID `c`) get one identifier … -/
theorem C16_dash_collides :
    dialogIdDash [99] [120] (getDialogAddr (.sip uriA)) [120] (getDialogAddr (.sip uriT)) =
      dialogIdDash [99] [120] (getDialogAddr (.sip uriB)) [120] (getDialogAddr (.sip uriT))
    ∧ getDialogAddr (.sip uriA) ≠ getDialogAddr (.sip uriB) := by
  rw [uriA_addr, uriB_addr, uriT_addr]; decide

/-- … with the blank they do not. -/
theorem C16_blank_separates :
    dialogId [99] [120] (getDialogAddr (.sip uriA)) [120] (getDialogAddr (.sip uriT)) ≠
      dialogId [99] [120] (getDialogAddr (.sip uriB)) [120] (getDialogAddr (.sip uriT)) := by
  rw [uriA_addr, uriB_addr, uriT_addr]; decide

/-! ### 6. the URI core discriminates -/

/-- In the domain "scheme, user, host free of ':'; user, password, host free of '@'" the dialog address
determines scheme, user, host and port, and the password whenever there is a user.
Partial with respect to the password: `SIPURI._Write` prints the password only behind a non-empty
user, so two URIs with an empty user and different passwords have the same dialog address
(`C16_password_without_user_ignored`; the parser produces such URIs from `sip::pw@host`). The
property text claims discrimination for user, host and port only. -/
theorem C16_core_discriminates_partial (u u' : SIPURI)
    (hs : (58 : UInt8) ∉ u.scheme) (hs' : (58 : UInt8) ∉ u'.scheme)
    (hu : (58 : UInt8) ∉ u.user ∧ (64 : UInt8) ∉ u.user) (hu' : (58 : UInt8) ∉ u'.user ∧ (64 : UInt8) ∉ u'.user)
    (hp : (64 : UInt8) ∉ u.password) (hp' : (64 : UInt8) ∉ u'.password)
    (hh : (58 : UInt8) ∉ u.host ∧ (64 : UInt8) ∉ u.host) (hh' : (58 : UInt8) ∉ u'.host ∧ (64 : UInt8) ∉ u'.host)
    (h : u.write false false = u'.write false false) :
    u.scheme = u'.scheme ∧ u.user = u'.user ∧ (u.user ≠ [] → u.password = u'.password) ∧
    u.host = u'.host ∧ u.port = u'.port := by
  rw [Lemmas.write_core, Lemmas.write_core] at h
  -- scheme
  obtain ⟨hscheme, hrest⟩ := Lemmas.append_cons_injective 58 _ _ _ _ hs hs' h
  -- both parts around '@' are free of '@'
  have hHP : ∀ (v : SIPURI), (64 : UInt8) ∉ v.host →
      (64 : UInt8) ∉ (if v.port ≠ 0 then v.host ++ 58 :: itoa v.port else v.host) := by
    intro v hv
    split
    · simp only [List.mem_append, List.mem_cons, not_or]
      exact ⟨hv, by decide, Lemmas.itoa_no_at _⟩
    · exact hv
  have hUI : ∀ (v : SIPURI), (64 : UInt8) ∉ v.user → (64 : UInt8) ∉ v.password →
      (64 : UInt8) ∉ (if v.password.length > 0 then v.user ++ 58 :: v.password else v.user) := by
    intro v hv hw
    split
    · simp only [List.mem_append, List.mem_cons, not_or]
      exact ⟨hv, by decide, hw⟩
    · exact hv
  obtain ⟨hQ, hhp, hui⟩ := Lemmas.opt_prefix_injective 64 _ _ _ _ (hUI u hu.2 hp) (hUI u' hu'.2 hp')
    (hHP u hh.2) (hHP u' hh'.2) _ _ hrest
  -- host and port
  obtain ⟨hhost, hP, hport⟩ := Lemmas.opt_suffix_injective 58 _ _ _ _ hh.1 hh'.1 _ _ hhp
  have hportEq : u.port = u'.port := by
    by_cases h0 : u.port = 0
    · have : ¬ (u'.port ≠ 0) := fun hx => (hP.mpr hx) h0
      rw [h0]; exact (Decidable.not_not.mp this).symm
    · exact Lemmas.itoa_injective _ _ (hport h0)
  -- user and password
  have hnil : ∀ (l : Bytes), ¬ l.length > 0 → l = [] := by
    intro l hl; cases l with
    | nil => rfl
    | cons _ _ => simp at hl
  by_cases hne : u.user.length > 0
  · obtain ⟨huser, hPw, hpw⟩ := Lemmas.opt_suffix_injective 58 _ _ _ _ hu.1 hu'.1 _ _ (hui hne)
    refine ⟨hscheme, huser, fun _ => ?_, hhost, hportEq⟩
    by_cases hpl : u.password.length > 0
    · exact hpw hpl
    · have hpl' : ¬ u'.password.length > 0 := fun hx => hpl (hPw.mpr hx)
      rw [hnil _ hpl, hnil _ hpl']
  · have hne' : ¬ u'.user.length > 0 := fun hx => hne (hQ.mpr hx)
    exact ⟨hscheme, by rw [hnil _ hne, hnil _ hne'], fun hx => absurd (hnil _ hne) hx, hhost, hportEq⟩

/-- The corner the partial statement leaves out: without a user the password is not printed. -/
theorem C16_password_without_user_ignored :
    getDialogAddr (.sip { scheme := [115, 105, 112], password := [97], host := [104] }) =
      getDialogAddr (.sip { scheme := [115, 105, 112], password := [98], host := [104] }) := by decide

/-- Why ':' must not occur in the host (bracket-less IPv6 literals are outside the domain):
host `a:1` without a port and host `a` with port 1 have the same dialog address. -/
theorem C16_colon_in_host_collides :
    getDialogAddr (.sip { scheme := [115, 105, 112], host := [97, 58, 49] }) =
      getDialogAddr (.sip { scheme := [115, 105, 112], host := [97], port := 1 }) := by decide

/-- The two layers together. For SIP URIs of the domain whose fields are also blank-free, and blank-free
Call-IDs and tags: the same dialog identifier forces the same Call-ID and, up to exchanging the two
ends, the same tags and the same scheme, user, host and port at each end. -/
structure InDomain (u : SIPURI) : Prop where
  scheme : (58 : UInt8) ∉ u.scheme ∧ (32 : UInt8) ∉ u.scheme
  user : (58 : UInt8) ∉ u.user ∧ (64 : UInt8) ∉ u.user ∧ (32 : UInt8) ∉ u.user
  password : (64 : UInt8) ∉ u.password ∧ (32 : UInt8) ∉ u.password
  host : (58 : UInt8) ∉ u.host ∧ (64 : UInt8) ∉ u.host ∧ (32 : UInt8) ∉ u.host

/-- agreement on everything the dialog address shows -/
def SameCore (u u' : SIPURI) : Prop :=
  u.scheme = u'.scheme ∧ u.user = u'.user ∧ (u.user ≠ [] → u.password = u'.password) ∧
  u.host = u'.host ∧ u.port = u'.port

theorem sameCore_of_addr (u u' : SIPURI) (d : InDomain u) (d' : InDomain u')
    (h : getDialogAddr (.sip u) = getDialogAddr (.sip u')) : SameCore u u' :=
  C16_core_discriminates_partial u u' d.scheme.1 d'.scheme.1 ⟨d.user.1, d.user.2.1⟩ ⟨d'.user.1, d'.user.2.1⟩
    d.password.1 d'.password.1 ⟨d.host.1, d.host.2.1⟩ ⟨d'.host.1, d'.host.2.1⟩ h

theorem addr_no_blank (u : SIPURI) (d : InDomain u) : (32 : UInt8) ∉ getDialogAddr (.sip u) :=
  Lemmas.write_core_no_blank u d.scheme.2 d.user.2.2 d.password.2 d.host.2.2

theorem C16_discriminating (c t₁ t₂ c' t₁' t₂' : Bytes) (u₁ u₂ u₁' u₂' : SIPURI)
    (hc : (32 : UInt8) ∉ c) (ht₁ : (32 : UInt8) ∉ t₁) (ht₂ : (32 : UInt8) ∉ t₂)
    (hc' : (32 : UInt8) ∉ c') (ht₁' : (32 : UInt8) ∉ t₁') (ht₂' : (32 : UInt8) ∉ t₂')
    (d₁ : InDomain u₁) (d₂ : InDomain u₂) (d₁' : InDomain u₁') (d₂' : InDomain u₂')
    (h : dialogId c t₁ (getDialogAddr (.sip u₁)) t₂ (getDialogAddr (.sip u₂)) =
         dialogId c' t₁' (getDialogAddr (.sip u₁')) t₂' (getDialogAddr (.sip u₂'))) :
    c = c' ∧ ((t₁ = t₁' ∧ SameCore u₁ u₁' ∧ t₂ = t₂' ∧ SameCore u₂ u₂') ∨
              (t₁ = t₂' ∧ SameCore u₁ u₂' ∧ t₂ = t₁' ∧ SameCore u₂ u₁')) := by
  obtain ⟨h0, hm⟩ := C16_injective _ _ _ _ _ _ _ _ _ _ hc ht₁ (addr_no_blank u₁ d₁) ht₂ (addr_no_blank u₂ d₂)
    hc' ht₁' (addr_no_blank u₁' d₁') ht₂' (addr_no_blank u₂' d₂') h
  refine ⟨h0, ?_⟩
  rcases hm with ⟨a, b, c, d⟩ | ⟨a, b, c, d⟩
  · exact Or.inl ⟨a, sameCore_of_addr _ _ d₁ d₁' b, c, sameCore_of_addr _ _ d₂ d₂' d⟩
  · exact Or.inr ⟨a, sameCore_of_addr _ _ d₁ d₂' b, c, sameCore_of_addr _ _ d₂ d₁' d⟩

/-! ### non-vacuity -/

/-- `sip:alice@a.example:5070` is in the domain -/
def alice : SIPURI :=
  { scheme := [115, 105, 112], user := [97, 108, 105, 99, 101], host := [97, 46, 101, 120, 97, 109, 112, 108, 101],
    port := 5070, params := [{ key := [108, 114], value := [] }] }
/-- `sip:bob@b.example` -/
def bob : SIPURI := { scheme := [115, 105, 112], user := [98, 111, 98], host := [98, 46, 101, 120, 97, 109, 112, 108, 101] }

theorem alice_inDomain : InDomain alice := ⟨by decide, by decide, by decide, by decide⟩
theorem bob_inDomain : InDomain bob := ⟨by decide, by decide, by decide, by decide⟩

/-- hypotheses of `C16_injective` / `C16_discriminating`: Call-ID `c1`, tags `ta`, `tb`, both directions -/
example := C16_discriminating [99, 49] [116, 97] [116, 98] [99, 49] [116, 98] [116, 97] alice bob bob alice
  (by decide) (by decide) (by decide) (by decide) (by decide) (by decide)
  alice_inDomain bob_inDomain bob_inDomain alice_inDomain (C16_symmetric _ _ _ _ _)

/-- hypotheses of `C16_decorations`: alice with and without her `lr` parameter -/
example : getDialogAddr (.sip alice) = getDialogAddr (.sip { alice with params := [] }) :=
  C16_decorations _ _ rfl rfl rfl rfl rfl

/-- hypotheses of `C16_core_discriminates_partial` for two different URIs: the conclusion's contrapositive -/
example : getDialogAddr (.sip alice) ≠ getDialogAddr (.sip bob) := by
  intro h
  have := (sameCore_of_addr _ _ alice_inDomain bob_inDomain h).2.1
  exact absurd this (by decide)

/-- hypotheses of `C16_other_params`: `;x=1;tag=ta;tag=zz` -/
example := C16_other_params [{ key := [120], value := [49] }] [{ key := str "tag", value := [122, 122] }] [116, 97]
  none none (by
    intro p hp
    simp only [List.mem_singleton] at hp
    subst hp
    rw [Lemmas.str_tag]; decide)

/-! a concrete message: `call-id: c1`, `FROM` and `to` already decoded (odd spellings on purpose) -/

def msg (f t : FromTo) : Message :=
  { start := .status [83] 200 [79, 75],
    headers := [{ name := [99, 97, 108, 108, 45, 105, 100], value := .raw [99, 49] },
                { name := [70, 82, 79, 77], value := .fromSpec f },
                { name := [116, 111], value := .to t }],
    body := [] }

theorem msg_callId (f t : FromTo) : getRawHeader [] (msg f t) callIdName = some [99, 49] := by
  have a : isSameHeader [] [99, 97, 108, 108, 45, 105, 100] [67, 97, 108, 108, 45, 73, 68] = true := by decide
  unfold getRawHeader findHeader callIdName
  rw [Lemmas.str_callId]
  simp [msg, a]

theorem msg_from (f t : FromTo) : getFrom [] (msg f t) = some (f, msg f t) := by
  have a : isSameHeader [] [99, 97, 108, 108, 45, 105, 100] [70, 114, 111, 109] = false := by decide
  have b : isSameHeader [] [70, 82, 79, 77] [70, 114, 111, 109] = true := by decide
  unfold getFrom findHeader fromName
  rw [Lemmas.str_from]
  simp [msg, a, b]

theorem msg_to (f t : FromTo) : getTo [] (msg f t) = some (t, msg f t) := by
  have a : isSameHeader [] [99, 97, 108, 108, 45, 105, 100] [84, 111] = false := by decide
  have b : isSameHeader [] [70, 82, 79, 77] [84, 111] = false := by decide
  have c : isSameHeader [] [116, 111] [84, 111] = true := by decide
  unfold getTo findHeader toName
  rw [Lemmas.str_to]
  simp [msg, a, b, c]

/-- `"A" <sip:alice@a.example:5070;lr>;tag=ta` -/
def fAlice : FromTo := { nameAddr := some { display := [34, 65, 34, 32], addr := .sip alice }, addrSpec := none,
                         params := [{ key := [116, 97, 103], value := [116, 97] }] }
/-- `sip:alice@a.example:5070;x=1;tag=ta` (addr-spec form, no display name, no URI parameter, an extra header parameter) -/
def fAlice' : FromTo := { nameAddr := none, addrSpec := some (.sip { alice with params := [] }),
                          params := [{ key := [120], value := [49] }, { key := [116, 97, 103], value := [116, 97] }] }
/-- `sip:bob@b.example;tag=tb` -/
def tBob : FromTo := { nameAddr := none, addrSpec := some (.sip bob), params := [{ key := [116, 97, 103], value := [116, 98] }] }
def tBobNoTag : FromTo := { nameAddr := none, addrSpec := some (.sip bob), params := [] }

theorem fAlice_tag : fAlice.getTag = some [116, 97] := by unfold FromTo.getTag; rw [Lemmas.str_tag]; decide
theorem fAlice'_tag : fAlice'.getTag = some [116, 97] := by unfold FromTo.getTag; rw [Lemmas.str_tag]; decide
theorem tBob_tag : tBob.getTag = some [116, 98] := by unfold FromTo.getTag; rw [Lemmas.str_tag]; decide
theorem tBobNoTag_tag : tBobNoTag.getTag = none := by unfold FromTo.getTag; rw [Lemmas.str_tag]; decide

/-- hypotheses of `C16_getDialog_eq` and `C16_direction_independent`: alice→bob and bob→alice, the
second with alice written differently -/
example : (getDialog [] (msg fAlice tBob)).1 = (getDialog [] (msg tBob fAlice')).1 :=
  C16_direction_independent [] _ _ _ _ _ _ [99, 49] [116, 97] [116, 98] fAlice tBob tBob fAlice'
    (.sip alice) (.sip bob) (.sip bob) (.sip { alice with params := [] })
    (msg_callId _ _) (msg_from _ _) fAlice_tag (msg_to _ _) tBob_tag rfl rfl
    (msg_callId _ _) (msg_from _ _) tBob_tag (msg_to _ _) fAlice'_tag rfl rfl rfl
    (C16_decorations _ _ rfl rfl rfl rfl rfl)

/-- … and that dialog exists (hypothesis of `C16_getDialog_some`, `C16_dialog_has_tags`) -/
example : ((getDialog [] (msg fAlice tBob)).1).isSome = true := by
  rw [C16_getDialog_eq [] _ _ _ [99, 49] [116, 97] [116, 98] fAlice tBob (.sip alice) (.sip bob)
    (msg_callId _ _) (msg_from _ _) fAlice_tag (msg_to _ _) tBob_tag rfl rfl]
  rfl

/-- hypotheses of `C16_no_to_tag` / `C16_no_from_tag`: a To (a From) without tag -/
example : (getDialog [] (msg fAlice tBobNoTag)).1 = none :=
  C16_no_to_tag [] _ _ _ fAlice tBobNoTag (msg_from _ _) (msg_to _ _) tBobNoTag_tag
example : (getDialog [] (msg tBobNoTag fAlice)).1 = none :=
  C16_no_from_tag [] _ _ tBobNoTag (msg_from _ _) tBobNoTag_tag

/-- hypothesis of `C16_display_name` -/
example : FromTo.getAddrSpec { fAlice with nameAddr := some { display := [], addr := .sip alice } } = fAlice.getAddrSpec :=
  C16_display_name fAlice _ [] rfl

/-- hypothesis of `C16_header_spelling`: `call-id`/`FROM`/`to` against `Call-ID`/`f`/`T`, with the
compact forms `i`, `f`, `t` in the table -/
def cm0 : List (Bytes × Bytes) :=
  buildCompactMap [([67, 97, 108, 108, 45, 73, 68], [105]), ([70, 114, 111, 109], [102]), ([84, 111], [116])]

def msgSpelled (f t : FromTo) : Message :=
  { start := .status [83] 200 [79, 75],
    headers := [{ name := [67, 97, 108, 108, 45, 73, 68], value := .raw [99, 49] },
                { name := [102], value := .fromSpec f },
                { name := [84], value := .to t }],
    body := [] }

theorem classes_cases (Q : Bytes → Prop) (h1 : Q [67, 97, 108, 108, 45, 73, 68]) (h2 : Q [70, 114, 111, 109]) (h3 : Q [84, 111]) :
    ∀ name, DialogClasses name → Q name := by
  intro name hn
  rcases hn with rfl | rfl | rfl
  · unfold callIdName; rw [Lemmas.str_callId]; exact h1
  · unfold fromName; rw [Lemmas.str_from]; exact h2
  · unfold toName; rw [Lemmas.str_to]; exact h3

example (f t : FromTo) : (getDialog cm0 (msg f t)).1 = (getDialog cm0 (msgSpelled f t)).1 :=
  C16_header_spelling cm0 _ _
    (.cons (Lemmas.respelled_of_toLower _ _ _ _ rfl (by decide))
      (.cons ⟨rfl, classes_cases (fun n => isSameHeader cm0 [70, 82, 79, 77] n = isSameHeader cm0 [102] n)
                (by decide) (by decide) (by decide)⟩
        (.cons ⟨rfl, classes_cases (fun n => isSameHeader cm0 [116, 111] n = isSameHeader cm0 [84] n)
                  (by decide) (by decide) (by decide)⟩ .nil)))

end Props.C16
