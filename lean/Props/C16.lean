import GoStd.Bytes
namespace Props.C16
end Props.C16
