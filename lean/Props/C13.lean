import GoStd.Bytes
namespace Props.C13
end Props.C13
