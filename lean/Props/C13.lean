/-
C13 — Route handling.

"If the first Route entry designates the receiving listener exactly that one entry is consumed
before routing; a first entry designating anything else is never consumed on that ground. The
entry naming the next hop is relayed or stripped according to keep-next-hop-route, and all further
Route entries are relayed unchanged and in their original order."

Model: `Proxy.getNextRequestHopByRoute` (next-hop entry), the last step of
`Proxy.handleRawMessage` (own entry). Abstraction: `Lemmas.routeStack`.
"The first Route entry" is what `getRoute` reads: the decoded list of the FIRST Route-class header
(an undecodable first Route header makes `getRoute` fail even if a later one would decode; the
statements below are therefore phrased on `getRoute`, and `routeStack_head_of_getRoute` says that
the entry read is the head of the stack).
-/
import Proxy.Model
import Lemmas.Abs
import Lemmas.Pipe
import Side.Config
open GoStd Sip Proxy Lemmas

namespace Props.C13

/-! ### the next-hop entry -/

/-- keep-next-hop-route: every Route entry is relayed, in order -/
theorem C13_keep (cfg : Cfg) (m : Message) (hk : cfg.keepNextHopRoute = true) :
    routeStack cfg.cm (getNextRequestHopByRoute cfg m).2.headers = routeStack cfg.cm m.headers := by
  unfold getNextRequestHopByRoute
  cases hg : getRoute cfg.cm m with
  | none => rfl
  | some p =>
    obtain ⟨r, m1⟩ := p
    have h1 := (routeStack_getRoute cfg.cm hg).1
    cases r with
    | nil => exact h1
    | cons rp rest =>
      simp only [hk, Bool.not_true, Bool.false_eq_true, ↓reduceIte]
      split <;> exact h1

/-- otherwise exactly the entry that names the next hop (the head) is stripped; all further
entries are relayed unchanged and in order. Nothing is stripped when no first entry can be read. -/
theorem C13_strip (cfg : Cfg) (m : Message) (hk : cfg.keepNextHopRoute = false) :
    routeStack cfg.cm (getNextRequestHopByRoute cfg m).2.headers =
      match getRoute cfg.cm m with
      | some (_ :: _, _) => (routeStack cfg.cm m.headers).tail
      | _ => routeStack cfg.cm m.headers := by
  unfold getNextRequestHopByRoute
  cases hg : getRoute cfg.cm m with
  | none => rfl
  | some p =>
    obtain ⟨r, m1⟩ := p
    cases r with
    | nil => exact (routeStack_getRoute cfg.cm hg).1
    | cons rp rest =>
      obtain ⟨m2, hp, hs⟩ := routeStack_popRoute_after_get cfg.cm hg
      simp only [hk, Bool.not_false, ↓reduceIte, hp, Option.getD_some]
      split <;> exact hs

/-- the hop is read from the head entry of the Route stack: host, port (default 5060, 5061 for
transport=tls) and transport parameter (default udp) of its SIP URI -/
theorem C13_hop (cfg : Cfg) (m m1 : Message) (rp : RouteParam) (rest : List RouteParam) (u : SIPURI)
    (hg : getRoute cfg.cm m = some (rp :: rest, m1)) (hu : rp.nameAddr.addr = .sip u) :
    (getNextRequestHopByRoute cfg m).1 = some { host := u.host, port := u.getPort, transport := u.getTransport } ∧
    (routeStack cfg.cm m.headers).head? = some rp := by
  refine ⟨?_, routeStack_head_of_getRoute cfg.cm hg⟩
  simp [getNextRequestHopByRoute, hg, hu]

/-- a head entry that is not a SIP URI names no hop (routing falls back to the static table) -/
theorem C13_hop_abs (cfg : Cfg) (m m1 : Message) (rp : RouteParam) (rest : List RouteParam) (s : Bytes)
    (hg : getRoute cfg.cm m = some (rp :: rest, m1)) (hu : rp.nameAddr.addr = .abs s) :
    (getNextRequestHopByRoute cfg m).1 = none := by
  simp [getNextRequestHopByRoute, hg, hu]

/-- no readable first Route entry: no hop, message untouched -/
theorem C13_hop_none (cfg : Cfg) (m : Message) (hg : getRoute cfg.cm m = none) :
    getNextRequestHopByRoute cfg m = (none, m) := by
  simp [getNextRequestHopByRoute, hg]

theorem C13_port (u : SIPURI) :
    u.getPort = if u.port ≠ 0 then u.port
      else if getParam u.params (str "transport") = some (str "tls") then 5061 else 5060 := by
  unfold SIPURI.getPort SIPURI.getTransport
  by_cases hp : u.port = 0
  · simp only [hp, bne_self_eq_false, Bool.false_eq_true, ↓reduceIte, ne_eq, not_true_eq_false]
    cases hq : getParam u.params (str "transport") with
    | none =>
      have : (str "udp" == str "tls") = false := by decide +kernel
      simp [this]
    | some t => simp
  · simp [hp]

/-- Via and Record-Route stacks are not touched by route processing -/
theorem C13_other_stacks (cfg : Cfg)
    (hVR : ∀ x, isSameHeader cfg.cm x viaName = true → isSameHeader cfg.cm x routeName = false)
    (hRRR : ∀ x, isSameHeader cfg.cm x routeName = true → isSameHeader cfg.cm x recordRouteName = false)
    (m : Message) :
    viaStack cfg.cm (getNextRequestHopByRoute cfg m).2.headers = viaStack cfg.cm m.headers ∧
    rrStack cfg.cm (getNextRequestHopByRoute cfg m).2.headers = rrStack cfg.cm m.headers := by
  unfold getNextRequestHopByRoute
  cases hg : getRoute cfg.cm m with
  | none => exact ⟨rfl, rfl⟩
  | some p =>
    obtain ⟨r, m1⟩ := p
    have h1 := viaStack_getRoute cfg.cm hVR hg
    have h2 := rrStack_getRoute cfg.cm hRRR hg
    cases r with
    | nil => exact ⟨h1, h2⟩
    | cons rp rest =>
      have h3 : viaStack cfg.cm ((popRoute cfg.cm m1).getD m1).headers = viaStack cfg.cm m1.headers ∧
          rrStack cfg.cm ((popRoute cfg.cm m1).getD m1).headers = rrStack cfg.cm m1.headers := by
        cases hp : popRoute cfg.cm m1 with
        | none => exact ⟨rfl, rfl⟩
        | some m2 => exact ⟨viaStack_popRoute cfg.cm hVR hp, rrStack_popRoute cfg.cm hRRR hp⟩
      simp only []
      cases cfg.keepNextHopRoute <;> split <;> simp only [Bool.not_false, Bool.not_true, ↓reduceIte, Bool.false_eq_true]
      all_goals first | exact ⟨h3.1.trans h1, h3.2.trans h2⟩ | exact ⟨h1, h2⟩

/-! ### the own entry (last stage of `handleRawMessage`)

`Lemmas.designatesListener cfg frm u`: the SIP URI has the listener's port (default 5060, 5061 for
tls) and its host equals the listener's address literally or after resolution. -/

/-- If the first Route entry designates the receiving listener exactly that entry is consumed; a
first entry designating anything else (another host or port, a non-SIP URI) is not consumed, nor is
anything when no first entry can be read. All further entries stay, in order. -/
theorem C13_own_route (cfg : Cfg) (hc : ClassesOK cfg.cm) (st : St) (ev : RawEv) :
    routeStack cfg.cm (handleRawMessage cfg st ev).2.headers =
      match (getRoute cfg.cm ev.msg).map Prod.fst with
      | some (rp :: _) =>
        match rp.nameAddr.addr with
        | .sip u => if designatesListener cfg ev.frm u then (routeStack cfg.cm ev.msg.headers).tail
                    else routeStack cfg.cm ev.msg.headers
        | .abs _ => routeStack cfg.cm ev.msg.headers
      | _ => routeStack cfg.cm ev.msg.headers :=
  routeStack_handleRawMessage cfg hc.via_route hc.cseq_route st ev

/-- the entry in question is the head of the received Route stack -/
theorem C13_own_route_head (cm : List (Bytes × Bytes)) (m : Message) (rp : RouteParam) (rest : List RouteParam)
    (h : (getRoute cm m).map Prod.fst = some (rp :: rest)) : (routeStack cm m.headers).head? = some rp := by
  cases hg : getRoute cm m with
  | none => rw [hg] at h; cases h
  | some p =>
    obtain ⟨r, m1⟩ := p
    rw [hg] at h
    simp only [Option.map_some, Option.some.injEq] at h
    subst h
    exact routeStack_head_of_getRoute cm hg

theorem C13_designates (cfg : Cfg) (frm : Listener) (u : SIPURI) :
    designatesListener cfg frm u = true ↔
      u.getPort = frm.port ∧
        (u.host = frm.addr ∨ ∃ a b, getIp cfg u.host = some a ∧ getIp cfg frm.addr = some b ∧ a = b) := by
  unfold designatesListener
  simp only [Bool.and_eq_true, Bool.or_eq_true, beq_iff_eq]
  constructor
  · rintro ⟨h1, h2⟩
    refine ⟨h1, ?_⟩
    rcases h2 with h2 | h2
    · exact Or.inl h2
    · right
      split at h2
      · rename_i a b ha hb; exact ⟨a, b, ha, hb, by simpa using h2⟩
      · cases h2
  · rintro ⟨h1, h2⟩
    refine ⟨h1, ?_⟩
    rcases h2 with h2 | ⟨a, b, ha, hb, hab⟩
    · exact Or.inl h2
    · right; rw [ha, hb]; simpa using hab

/-! ### end to end: the Route stack of every packet a request event produces -/

/-- The message serialised has the Route stack that `getNextRequestHopByRoute` leaves when applied
to the message coming out of `handleRawMessage` — i.e. `C13_own_route` followed by
`C13_keep` / `C13_strip`; no later stage (static routing, dialog lookup, own Via/Record-Route,
transaction lookup) touches a Route entry. -/
theorem C13_step (cfg : Cfg) (hc : ClassesOK cfg.cm) (st : St) (ev : RawEv)
    (hreq : isRequest ev.msg = true) (o : Out) (ho : o ∈ (step cfg st ev).2) :
    ∃ m' : Message, o.data = m'.bytes cfg.cm ∧
      routeStack cfg.cm m'.headers =
        if cfg.keepNextHopRoute then routeStack cfg.cm (handleRawMessage cfg st ev).2.headers
        else
          match getRoute cfg.cm (handleRawMessage cfg st ev).2 with
          | some (_ :: _, _) => (routeStack cfg.cm (handleRawMessage cfg st ev).2.headers).tail
          | _ => routeStack cfg.cm (handleRawMessage cfg st ev).2.headers := by
  obtain ⟨m', _, hd, _, _, hr, _⟩ := step_request_out cfg hc st ev hreq o ho
  refine ⟨m', hd, ?_⟩
  rw [hr]
  cases hk : cfg.keepNextHopRoute with
  | true => simpa using C13_keep cfg _ hk
  | false => simpa using C13_strip cfg _ hk

/-! non-vacuity: the example event (`Lemmas.Pipe`): first Route entry `<sip:p1;lr>` does not
designate the listener 10.0.0.1:5060 and is not consumed; it names the next hop and is stripped
(keep-next-hop-route off). A Route entry naming the listener is consumed. -/

example : (step exCfg exSt (exEv exMsg)).2.length = 1 ∧ isRequest (exEv exMsg).msg = true ∧
    exCfg.keepNextHopRoute = false := by decide +kernel

example : (routeStack exCfg.cm (handleRawMessage exCfg exSt (exEv exMsg)).2.headers).length = 2 := by
  decide +kernel

def exMsgOwnRoute : Message :=
  { exMsg with headers := { name := str "Route", value := .raw (str "<sip:10.0.0.1;lr>") } :: exMsg.headers }

example : (routeStack exCfg.cm exMsgOwnRoute.headers).length = 3 ∧
    (routeStack exCfg.cm (handleRawMessage exCfg exSt (exEv exMsgOwnRoute)).2.headers).length = 2 := by
  decide +kernel

example : designatesListener exCfg exListener
    { scheme := str "sip", host := str "10.0.0.1", params := [⟨str "lr", []⟩] } = true := by decide +kernel

/-! non-vacuity: on the example message of `Lemmas.Abs` the first Route entry is a SIP URI -/

example : (getRoute realCm exMsg).map (fun p => p.1.map (fun rp => rp.nameAddr.addr.sipURI?.map (·.host))) =
    some [some (str "p1"), some (str "p2")] := by decide +kernel

/-- `C13_keep` / `C13_strip`: both settings occur -/
example : ({ exCfg with keepNextHopRoute := true }).keepNextHopRoute = true ∧ exCfg.keepNextHopRoute = false :=
  ⟨rfl, rfl⟩

/-- `C13_hop_abs`: a first Route entry that is not a SIP URI -/
example : (getRoute realCm { exMsg with headers := [{ name := routeName, value := .raw (str "<tel:123>") }] }).map
    (fun p => p.1.map (fun rp => rp.nameAddr.addr)) = some [.abs (str "tel:123")] := by decide +kernel

/-- `C13_hop_none`: no Route header -/
example : getRoute realCm exMsgNoRoute = none := by decide +kernel

/-! ### the two start-up decisions C13 depends on (main.go, Side.Config; tied by stream `cfg`)

"... according to the service's keep-next-hop-route setting" and "an alias that resolves to it": how the setting's
text becomes a boolean, and which address an alias has when the global `hosts:` section and the service's own both
define it. -/

/-- a fold over a host list that meets no entry for the name leaves its accumulator alone -/
theorem lookup_fold_skip (name : Bytes) (l : List (Bytes × Bytes)) (a : Option Bytes)
    (h : ∀ p ∈ l, ¬ (p.1 == name)) :
    l.foldl (fun acc p => if p.1 == name then some p.2 else acc) a = a := by
  induction l generalizing a with
  | nil => rfl
  | cons x xs ih =>
    simp only [List.foldl_cons]
    have hx : ¬ (x.1 == name) := h x (by simp)
    simp only [hx, Bool.false_eq_true, ↓reduceIte]
    exact ih a (fun p hp => h p (by simp [hp]))

/-- a fold that meets an entry for the name forgets where it started -/
theorem lookup_fold_forgets (name : Bytes) (l : List (Bytes × Bytes)) (a b : Option Bytes)
    (hex : ∃ p ∈ l, p.1 == name) :
    l.foldl (fun acc p => if p.1 == name then some p.2 else acc) a
      = l.foldl (fun acc p => if p.1 == name then some p.2 else acc) b := by
  induction l generalizing a b with
  | nil => obtain ⟨p, hp, _⟩ := hex; cases hp
  | cons x xs ih =>
    simp only [List.foldl_cons]
    by_cases hx : x.1 == name
    · simp only [hx, ↓reduceIte]
    · simp only [hx, Bool.false_eq_true, ↓reduceIte]
      refine ih a b ?_
      obtain ⟨p, hp, hpn⟩ := hex
      rcases List.mem_cons.mp hp with rfl | hp'
      · exact absurd hpn hx
      · exact ⟨p, hp', hpn⟩

/-- the service's own entry for a name overrides the global one -/
theorem C13_service_alias_overrides_global (glob service : List (Bytes × Bytes)) (name ip : Bytes)
    (h : Side.Config.lookupHost service name = some ip) :
    Side.Config.lookupHost (Side.Config.hostTable glob service) name = some ip := by
  unfold Side.Config.hostTable Side.Config.lookupHost at *
  rw [List.foldl_append]
  have hex : ∃ p ∈ service, p.1 == name := by
    apply Classical.byContradiction
    intro hno
    rw [lookup_fold_skip name service none (fun p hp hpn => hno ⟨p, hp, hpn⟩)] at h
    cases h
  rw [lookup_fold_forgets name service _ none hex]
  exact h

/-- a name only the global section defines keeps its global address -/
theorem C13_global_alias_kept (glob service : List (Bytes × Bytes)) (name : Bytes)
    (h : ∀ p ∈ service, ¬ (p.1 == name)) :
    Side.Config.lookupHost (Side.Config.hostTable glob service) name = Side.Config.lookupHost glob name := by
  unfold Side.Config.hostTable Side.Config.lookupHost
  rw [List.foldl_append]
  exact lookup_fold_skip name service _ h

end Props.C13
