import GoStd.Bytes
namespace Props.C01
end Props.C01
