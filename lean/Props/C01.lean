/-
C01 — The proxy touches nothing it does not own.

"Whenever the proxy relays a request or a response, the start line, every header field other than
the routing headers it manages (Via, Route, Record-Route) - with its name, its value (modulo
surrounding blanks), its multiplicity and its relative order - and the body bytes reach the next
hop unchanged. The relayed message carries exactly one Content-Length field and its value equals
the number of body bytes sent. Nothing else is added, dropped, reordered or rewritten."

Model: Proxy.Model (`step`) over Sip.Message. "What the proxy does not own" is
`Lemmas.others cm hs`: the (name, printed value) pairs of the headers outside the three owned
classes, in message order with multiplicity (Lemmas/Others.lean). The compact-name table `cm` is
arbitrary: no fact about it is needed (class disjointness is never used, because a replaced value
either belongs to an owned class or prints like the value it replaces).

No hypothesis on the message: the proxy decodes From / To / CSeq in place and prints the DECODED
value, and since those three value types keep the text they were decoded from and print it
(`Lemmas.Literal`: `parseFromTo_encode`, `parseCSeq_encode`), decode-then-encode gives back the
received string for EVERY text (`Lemmas.roundTrips_all`). Before the repairs recorded as D6 / D25 in
DESIGN.md this was a genuine restriction (`RoundTrips`), with counterexamples `007 INVITE` and
`<sip:a@b> ;tag=1`. Via / Route values are owned and never needed it.
-/
import Lemmas.RelayRel
import Lemmas.RelaySample
import Lemmas.Num
import Lemmas.Message
open GoStd Sip Proxy Lemmas

namespace Props.C01

/-- the conclusion shape of this file: same start line, same body, same not-owned headers -/
def Untouched (cm : List (Bytes × Bytes)) (m m' : Message) : Prop :=
  m'.start = m.start ∧ m'.body = m.body ∧ others cm m'.headers = others cm m.headers

theorem untouched_of_rel {cm : List (Bytes × Bytes)} {m m' : Message} (h : Rel cm m m') : Untouched cm m m' :=
  ⟨h.start, h.body, h.others⟩

/-! ### the stages of the pipeline -/

/-- Adding the own Via and Record-Route changes nothing else (no hypothesis at all). -/
theorem C01_insertSelf (cfg : Cfg) (m : Message) (t : Listener) (branch : Bytes) :
    Untouched cfg.cm m (insertSelf cfg m t branch) :=
  untouched_of_rel (insertSelf_rel cfg m t branch)

/-- Route learning (decodes every Via), received/rport stamping, remembering the inbound
connection (decodes CSeq and Via) and consuming the own top Route entry change nothing else. -/
theorem C01_handleRawMessage (cfg : Cfg) (st : St) (ev : RawEv) :
    Untouched cfg.cm ev.msg (handleRawMessage cfg st ev).2 :=
  untouched_of_rel (handleRawMessage_rel cfg st ev (roundTrips_all _ _))

/-- Dialog bookkeeping on responses (decodes CSeq, Via, From, To) changes nothing else. -/
theorem C01_handleDialog (cfg : Cfg) (st : St) (peerAddr : Bytes) (peerPort : Int) (m : Message) :
    Untouched cfg.cm m (handleDialog cfg st peerAddr peerPort m).2 :=
  untouched_of_rel (handleDialog_rel cfg st peerAddr peerPort m (roundTrips_all _ _))

/-- Choosing the next hop (decodes and pops Route; decodes To for the static route) changes nothing
else. -/
theorem C01_getNextRequestHop (cfg : Cfg) (m : Message) :
    Untouched cfg.cm m (getNextRequestHop cfg m).2 :=
  untouched_of_rel (getNextRequestHop_rel cfg m (roundTrips_all _ _))

/-- The Route part alone needs no hypothesis. -/
theorem C01_getNextRequestHopByRoute (cfg : Cfg) (m : Message) :
    Untouched cfg.cm m (getNextRequestHopByRoute cfg m).2 :=
  untouched_of_rel (getNextRequestHopByRoute_rel cfg m)

/-- Popping the own Via of a response and reading the next one changes nothing else. -/
theorem C01_responseHop (cfg : Cfg) (m : Message) :
    Untouched cfg.cm m (getNextResponseHop cfg ((popVia cfg.cm m).getD m)).2 :=
  untouched_of_rel ((popVia_getD_rel cfg.cm m).trans cfg.cm (getNextResponseHop_rel cfg _))

/-! ### the full composition -/

/-- EVERY output of one step of the proxy — request or response, towards a Route hop, a static
route, a backend (pinned or rotated) or back along the Via chain — carries the printed form of a
message with the start line, the body and the not-owned headers of the message received. -/
theorem C01_step (cfg : Cfg) (st : St) (ev : RawEv) :
    ∀ o ∈ (step cfg st ev).2, ∃ m', outData o = m'.bytes cfg.cm ∧ Untouched cfg.cm ev.msg m' := by
  intro o ho
  obtain ⟨m', h1, h2⟩ := step_carries cfg st ev (roundTrips_all _ _) o ho
  exact ⟨m', h2, untouched_of_rel h1⟩

/-- the same for `HandleMessage` alone (any message, e.g. the one the earlier stages produced) -/
theorem C01_handleMessage (cfg : Cfg) (st : St) (ev : RawEv) (m : Message) :
    ∀ o ∈ (handleMessage cfg st ev m).2, ∃ m', outData o = m'.bytes cfg.cm ∧ Untouched cfg.cm m m' := by
  intro o ho
  obtain ⟨m', h1, h2⟩ := handleMessage_carries cfg st ev m (roundTrips_all _ _) o ho
  exact ⟨m', h2, untouched_of_rel h1⟩

/-! ### exactly one Content-Length, equal to the number of body bytes -/

/-- one printed header line -/
def headerLine (h : Header) : Bytes := h.name ++ [58, 32] ++ h.value.encode ++ crlf

/-- the Content-Length class -/
def isCL (cm : List (Bytes × Bytes)) (n : Bytes) : Bool := isSameHeader cm n contentLengthName

/-- `encodeHeaders` prints, in order, exactly the headers NOT in the Content-Length class. -/
theorem encodeHeaders_eq (cm : List (Bytes × Bytes)) (hs : List Header) :
    encodeHeaders cm hs = ((hs.filter (fun h => !isCL cm h.name)).map headerLine).flatten := by
  induction hs with
  | nil => rfl
  | cons h hs ih =>
    by_cases hc : isSameHeader cm h.name contentLengthName = true
    · simp [encodeHeaders, isCL, hc, ih]
    · simp [encodeHeaders, isCL, hc, ih, headerLine]

theorem contentLength_prefix : contentLengthName ++ [58, 32] = str "Content-Length: " := by decide +kernel

/-- `Message.bytes`: first line, the header lines outside the Content-Length class, then exactly
one `Content-Length: <number of body bytes>`, the empty line, the body. -/
theorem C01_one_content_length (cm : List (Bytes × Bytes)) (m : Message) :
    m.bytes cm =
      encodeFirstLine m.start
      ++ ((m.headers.filter (fun h => !isCL cm h.name)).map headerLine).flatten
      ++ str "Content-Length: " ++ natToBytes m.body.length ++ crlf ++ crlf ++ m.body := by
  unfold Message.bytes
  rw [encodeHeaders_eq, ← contentLength_prefix]
  simp only [List.append_assoc]

/-- the printed number reads back as the number of body bytes (inside int64) -/
theorem C01_content_length_value (m : Message) (h : m.body.length ≤ 9223372036854775807) :
    atoi (natToBytes m.body.length) = some (Int.ofNat m.body.length) :=
  Lemmas.atoi_natToBytes _ h

/-- No line printed from the header list belongs to the Content-Length class. -/
theorem C01_no_listed_content_length (cm : List (Bytes × Bytes)) (hs : List Header) :
    ∀ h ∈ hs.filter (fun h => !isCL cm h.name), isCL cm h.name = false := by
  intro h hm
  simpa using (List.mem_filter.mp hm).2

/-- The printed lines of the not-owned headers are a function of `others`: equal `others` means the
same lines (name, ": ", value, CRLF), same multiplicity, same order. -/
theorem C01_printed_others (cm : List (Bytes × Bytes)) (hs : List Header) :
    (hs.filter (fun h => !owned cm h.name && !isCL cm h.name)).map headerLine =
      ((others cm hs).filter (fun p => !isCL cm p.1)).map (fun p => p.1 ++ [58, 32] ++ p.2 ++ crlf) := by
  induction hs with
  | nil => rfl
  | cons h hs ih =>
    rw [others_cons]
    by_cases ho : owned cm h.name = true
    · simp [ho, ih]
    · by_cases hc : isCL cm h.name = true
      · simp [ho, hc, ih]
      · simp [ho, hc, ih, headerLine]

/-- The bytes on the wire, start to end: everything except the owned header lines is determined by
the message RECEIVED. -/
theorem C01_wire (cfg : Cfg) (st : St) (ev : RawEv) :
    ∀ o ∈ (step cfg st ev).2, ∃ hs' : List Header,
      outData o =
        encodeFirstLine ev.msg.start
        ++ ((hs'.filter (fun h => !isCL cfg.cm h.name)).map headerLine).flatten
        ++ str "Content-Length: " ++ natToBytes ev.msg.body.length ++ crlf ++ crlf ++ ev.msg.body ∧
      (hs'.filter (fun h => !owned cfg.cm h.name && !isCL cfg.cm h.name)).map headerLine =
        (ev.msg.headers.filter (fun h => !owned cfg.cm h.name && !isCL cfg.cm h.name)).map headerLine := by
  intro o ho
  obtain ⟨m', hd, hs, hb, hothers⟩ := C01_step cfg st ev o ho
  refine ⟨m'.headers, ?_, ?_⟩
  · rw [hd, C01_one_content_length, hs, hb]
  · rw [C01_printed_others, C01_printed_others, hothers]

/-! ### wire to wire -/

/-- a received header line as the proxy prints it again: `name: value` CRLF -/
def wireLine (h : Bytes × Bytes) : Bytes := h.1 ++ [58, 32] ++ h.2 ++ crlf

theorem filter_map_toHeader (p : Bytes → Bool) (hs : List (Bytes × Bytes)) :
    ((hs.map toHeader).filter (fun h => p h.name)).map headerLine = (hs.filter (fun h => p h.1)).map wireLine := by
  induction hs with
  | nil => rfl
  | cons h t ih =>
    simp only [List.map_cons, List.filter_cons]
    have : (toHeader h).name = h.1 := rfl
    rw [this]
    cases p h.1
    · simpa using ih
    · simp only [↓reduceIte, List.map_cons, ih]
      rfl

/-- WIRE TO WIRE. The bytes received are a well-formed message `start / hs / body` (either line ending,
any blanks after the colon, values trimmed: `WF` and `parse_render`), `ev.msg` is what the reader
extracted from them, and the start line is one the codec prints back as it reads it (`hstart`: C14's
subject; it fails only on the inputs tracked as known findings). Then EVERY output of the step is,
byte for byte: the received start line, CRLF, header lines, exactly one Content-Length equal to the
number of body bytes, a blank line, the received body; and the lines outside the Via / Route /
Record-Route / Content-Length classes are exactly the received (name, value) pairs, in order, with
multiplicity. -/
theorem C01_wire_to_wire (cfg : Cfg) (st : St) (ev : RawEv) (eol start : Bytes) (sl : StartLine)
    (hs : List (Bytes × Bytes)) (body rest : Bytes) (heol : EolOK eol) (hwf : WF cfg.cm start sl hs body)
    (hrecv : parseMessage cfg.cm (render eol start hs body ++ rest) = .ok ev.msg rest)
    (hstart : startLineBytes sl = start) :
    ∀ o ∈ (step cfg st ev).2, ∃ hs' : List Header,
      outData o =
        start ++ crlf
        ++ ((hs'.filter (fun h => !isCL cfg.cm h.name)).map headerLine).flatten
        ++ str "Content-Length: " ++ natToBytes body.length ++ crlf ++ crlf ++ body ∧
      (hs'.filter (fun h => !owned cfg.cm h.name && !isCL cfg.cm h.name)).map headerLine =
        (hs.filter (fun h => !owned cfg.cm h.1 && !isCL cfg.cm h.1)).map wireLine := by
  have hm : ev.msg = ⟨sl, hs.map toHeader, body⟩ := by
    rw [parse_render cfg.cm eol start sl hs body heol hwf rest] at hrecv
    injection hrecv with h1 _
    exact h1.symm
  intro o ho
  obtain ⟨hs', h1, h2⟩ := C01_wire cfg st ev o ho
  refine ⟨hs', ?_, ?_⟩
  · rw [h1, hm, encodeFirstLine_eq, hstart]
  · rw [h2, hm]
    exact filter_map_toHeader (fun n => !owned cfg.cm n && !isCL cfg.cm n) hs

/-- the hypotheses of `C01_wire_to_wire` are satisfiable: `SIP/2.0 200 OK` / `Content-Length: 2` / `hi`
received with bare-LF line ends and three bytes of the next message behind it, any configuration -/
example (cfg : Cfg) (st : St) (ev : RawEv)
    (hev : ev.msg = ⟨.status [83, 73, 80, 47, 50, 46, 48] 200 [79, 75], [⟨contentLengthName, .raw [50]⟩], [104, 105]⟩) :=
  C01_wire_to_wire cfg st ev [10] _ _ _ _ [73, 78, 86] (Or.inr rfl) (wf_example_status cfg.cm)
    (by rw [hev]; exact parse_render cfg.cm _ _ _ _ _ (Or.inr rfl) (wf_example_status cfg.cm) _) (by decide)

/-! ### non-vacuity on the sample configuration -/

open Lemmas.Sample in
open Lemmas.Sample in
/-- they do produce an output (backend, Route hop, Via chain), and `others` is far from empty:
for `invite` it lists Max-Forwards, X-Foo, f, To, Call-ID, CSeq, X-Foo, Content-Length -/
example : (step cfg st (ev invite)).2.length = 1 ∧ (step cfg st (ev routed)).2.length = 1 ∧
    (step cfg st (ev resp)).2.length = 1 ∧
    (others cfg.cm invite.headers).map (·.1) =
      [str "Max-Forwards", str "X-Foo", str "f", str "To", str "Call-ID", str "CSeq", str "X-Foo",
       str "Content-Length"] := by decide +kernel
open Lemmas.Sample in
/-- a blank before the From parameters, a tab inside CSeq: decoded in place (dialog bookkeeping), and the
not-owned headers still print as received -/
example :
    let m : Message := { invite with headers := [raw "From" "<sip:alice@a.example> ;tag=1", raw "To" "<sip:b@c>;tag=2",
                                                 raw "Call-ID" "x", raw "CSeq" "007\tINVITE"] }
    (getDialog cfg.cm m).2.headers ≠ m.headers ∧
    others cfg.cm (getDialog cfg.cm m).2.headers = others cfg.cm m.headers := by decide +kernel

end Props.C01
