import GoStd.Bytes
namespace Props.C04
end Props.C04
