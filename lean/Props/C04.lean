/-
C04 — Requests inside an established dialog stick to the backend that answered.

"Once a backend has answered an INVITE with a response carrying both dialog tags … every later
request that belongs to that dialog and is addressed to the proxy's service … is delivered to that
same backend and to no other, no matter how many unrelated requests have advanced the rotation in
between. Requests that belong to no known dialog are load-balanced."

Model: Proxy.Model — the pin list (`pinGet` / `pinAdd` / `pinDel`, DialogBasedBackend without time:
expiry is C15's subject), `findBackendByDialog`, `sendToBackend`, and `handleDialog` for the moment
the pin is created. Statements hold for every state (any rotation cursor, any pin list).
-/
import Lemmas.Relay
import Lemmas.RelaySample
open GoStd Sip Proxy Lemmas

namespace Props.C04

/-! ### the pin list is a map -/

theorem C04_get_add_same (ps : List PinEntry) (k : Bytes) (b : BackendRef) (e : Int) :
    pinGet (pinAdd ps k b e) k = some b := pinGet_pinAdd_same ps k b e

theorem C04_get_add_other (ps : List PinEntry) (k k' : Bytes) (b : BackendRef) (e : Int) (hne : k' ≠ k) :
    pinGet (pinAdd ps k' b e) k = pinGet ps k := pinGet_pinAdd_other ps k k' b e hne

theorem C04_get_del_same (ps : List PinEntry) (k : Bytes) : pinGet (pinDel ps k) k = none :=
  pinGet_pinDel_same ps k

theorem C04_get_del_other (ps : List PinEntry) (k k' : Bytes) (hne : k' ≠ k) :
    pinGet (pinDel ps k') k = pinGet ps k := pinGet_pinDel_other ps k k' hne

/-! ### the pin is created by the backend's INVITE answer -/

/-- A response from a registered backend (`peerAddr:peerPort ∈ st.backends`) whose method is INVITE
and which carries a (non-empty) dialog identifier — both tags present — pins that dialog to that
backend. -/
theorem C04_pin_established (cfg : Cfg) (st : St) (peerAddr : Bytes) (peerPort : Int) (m m2 m3 : Message)
    (method d : Bytes)
    (hresp : isResponse m = true)
    (hback : st.backends.contains (joinHostPort peerAddr peerPort) = true)
    (hmeth : getMethod cfg.cm m = some (method, m2)) (hinv : method = str "INVITE")
    (hdlg : getDialog cfg.cm m2 = (some d, m3)) (hne : d ≠ []) :
    pinGet (handleDialog cfg st peerAddr peerPort m).1.pins d = some (.member (joinHostPort peerAddr peerPort)) := by
  unfold handleDialog
  simp only [hresp, Bool.not_true, Bool.false_eq_true, ↓reduceIte, hback, hmeth, hinv, beq_self_eq_true, hdlg]
  have : d.isEmpty = false := by cases d <;> simp_all
  simp only [this, Bool.false_eq_true, ↓reduceIte]
  exact pinGet_pinAdd_same _ _ _ _

/-! ### sticky delivery -/

/-- A request of a dialog pinned to member `a` is handed to `a` and to nothing else, whatever the
rotation looks like; the rotation is neither consulted nor advanced. -/
theorem C04_sticky_step (cfg : Cfg) (st : St) (m m1 : Message) (br d a : Bytes) (t0 : Listener)
    (hd : getDialog cfg.cm m = (some d, m1)) (hp : pinGet st.pins d = some (.member a))
    (hreq : isRequest m = true) (h0 : cfg.transports0 = some t0) :
    (sendToBackend cfg st m br).2 = [.backend a ((insertSelf cfg m1 t0 br).bytes cfg.cm)] ∧
    (sendToBackend cfg st m br).1.rr = st.rr := by
  obtain ⟨hf1, hf2⟩ := findBackendByDialog_request cfg st m hreq
  rw [hd] at hf1 hf2
  simp only [hp] at hf1
  have hb : sbBackend cfg st m = .member a := by simp [sbBackend, hf1]
  refine ⟨?_, ?_⟩
  · rw [sendToBackend_out cfg st m br t0 h0, hb]
    simp only [sbPick, sbMessage, hf2]
  · rw [sendToBackend_rr cfg st m br t0 h0, hb]
    rfl

/-- … in particular the target does not depend on the rotation state at all. -/
theorem C04_sticky_any_rotation (cfg : Cfg) (st : St) (rr' : Side.RR.St) (m m1 : Message) (br d a : Bytes)
    (t0 : Listener)
    (hd : getDialog cfg.cm m = (some d, m1)) (hp : pinGet st.pins d = some (.member a))
    (hreq : isRequest m = true) (h0 : cfg.transports0 = some t0) :
    (sendToBackend cfg { st with rr := rr' } m br).2 = (sendToBackend cfg st m br).2 := by
  rw [(C04_sticky_step cfg st m m1 br d a t0 hd hp hreq h0).1,
      (C04_sticky_step cfg { st with rr := rr' } m m1 br d a t0 hd hp hreq h0).1]

/-- Requests that belong to no known dialog are load-balanced: the target is the rotation's pick
and the rotation advances. -/
theorem C04_unpinned_balanced (cfg : Cfg) (st : St) (m : Message) (br : Bytes) (t0 : Listener)
    (hreq : isRequest m = true) (h0 : cfg.transports0 = some t0)
    (hun : (getDialog cfg.cm m).1 = none ∨ ∃ d, (getDialog cfg.cm m).1 = some d ∧ pinGet st.pins d = none) :
    (sendToBackend cfg st m br).2 =
      (match (Side.RR.dispatch st.rr).2 with
       | none => []
       | some a => [.backend a ((insertSelf cfg (getDialog cfg.cm m).2 t0 br).bytes cfg.cm)]) ∧
    (sendToBackend cfg st m br).1.rr = (Side.RR.dispatch st.rr).1 := by
  obtain ⟨hf1, hf2⟩ := findBackendByDialog_request cfg st m hreq
  have hnone : (findBackendByDialog cfg st m).1 = none := by
    rcases hun with h | ⟨d, h, hp⟩
    · rw [hf1, h]
    · rw [hf1, h]; exact hp
  have hb : sbBackend cfg st m = .rotation := by simp [sbBackend, hnone]
  refine ⟨?_, ?_⟩
  · rw [sendToBackend_out cfg st m br t0 h0, hb]
    simp only [sbPick, sbMessage, hf2]
    rfl
  · rw [sendToBackend_rr cfg st m br t0 h0, hb]
    rfl

/-! ### the pin survives other traffic -/

/-- `findBackendByDialog` keeps the pin of `d` unless the message is a terminating NOTIFY of `d`. -/
theorem findBackendByDialog_keeps (cfg : Cfg) (st : St) (m : Message) (d : Bytes)
    (hother : (getDialog cfg.cm m).1 = some d → terminates cfg m = false) :
    pinGet (findBackendByDialog cfg st m).2.1 d = pinGet st.pins d := by
  rw [findBackendByDialog_pins]
  split
  · rename_i d' hd'
    by_cases ht : terminates cfg m = true
    · have hne : d' ≠ d := by
        intro e
        subst e
        rw [hother hd'] at ht
        cases ht
      simp only [ht, ↓reduceIte]
      exact pinGet_pinDel_other _ _ _ hne
    · simp [ht]
  · rfl

/-- Handing ANY message to a backend keeps `d` pinned to `a`, provided the message is not a
terminating NOTIFY of `d` itself (`hother`) and the transaction key recorded for it is not the byte
string `d` (`hkey`: a key is `method-branch`, a dialog identifier contains four blanks). -/
theorem C04_pin_survives_other_traffic (cfg : Cfg) (st : St) (m : Message) (br d : Bytes) (b : BackendRef)
    (t0 : Listener) (h0 : cfg.transports0 = some t0)
    (hp : pinGet st.pins d = some b)
    (hother : (getDialog cfg.cm m).1 = some d → terminates cfg m = false)
    (hkey : (getClientTransaction cfg.cm (sbMessage cfg st m t0 br)).1 ≠ some d) :
    pinGet (sendToBackend cfg st m br).1.pins d = some b := by
  have hk := findBackendByDialog_keeps cfg st m d hother
  rw [sendToBackend_pins cfg st m br t0 h0]
  split
  · rw [hk, hp]
  · split
    · rename_i k hkk
      have hne : k ≠ d := fun e => hkey (by rw [hkk, e])
      rw [pinGet_pinAdd_other _ _ _ _ _ hne, hk, hp]
    · rw [hk, hp]

/-- the special case named in the property: a message of another dialog, or of none -/
theorem C04_pin_survives_other_dialog (cfg : Cfg) (st : St) (m : Message) (br d a : Bytes)
    (t0 : Listener) (h0 : cfg.transports0 = some t0)
    (hp : pinGet st.pins d = some (.member a))
    (hother : (getDialog cfg.cm m).1 ≠ some d)
    (hkey : (getClientTransaction cfg.cm (sbMessage cfg st m t0 br)).1 ≠ some d) :
    pinGet (sendToBackend cfg st m br).1.pins d = some (.member a) :=
  C04_pin_survives_other_traffic cfg st m br d _ t0 h0 hp (fun h => absurd h hother) hkey

/-! ### "no matter how many unrelated requests have advanced the rotation in between" -/

/-- a run of `sendToBackend` calls (each with its own branch) -/
def runBackend (cfg : Cfg) : St → List (Message × Bytes) → St
  | st, [] => st
  | st, (m, br) :: rest => runBackend cfg (sendToBackend cfg st m br).1 rest

/-- each message of the run leaves the pin of `d` alone (in the state it meets) -/
def Unrelated (cfg : Cfg) (t0 : Listener) (d : Bytes) : St → List (Message × Bytes) → Prop
  | _, [] => True
  | st, (m, br) :: rest =>
    ((getDialog cfg.cm m).1 = some d → terminates cfg m = false) ∧
    (getClientTransaction cfg.cm (sbMessage cfg st m t0 br)).1 ≠ some d ∧
    Unrelated cfg t0 d (sendToBackend cfg st m br).1 rest

theorem runBackend_keeps (cfg : Cfg) (t0 : Listener) (h0 : cfg.transports0 = some t0) (d : Bytes) (b : BackendRef)
    (st : St) (ms : List (Message × Bytes)) (hp : pinGet st.pins d = some b) (hu : Unrelated cfg t0 d st ms) :
    pinGet (runBackend cfg st ms).pins d = some b := by
  induction ms generalizing st with
  | nil => exact hp
  | cons x rest ih =>
    obtain ⟨m, br⟩ := x
    obtain ⟨h1, h2, h3⟩ := hu
    exact ih _ (C04_pin_survives_other_traffic cfg st m br d b t0 h0 hp h1 h2) h3

/-- After ANY number of unrelated requests (which advance the rotation as they please) the next
request of the pinned dialog still goes to the pinned backend, and to it alone. -/
theorem C04_sticky (cfg : Cfg) (t0 : Listener) (h0 : cfg.transports0 = some t0) (d a : Bytes)
    (st : St) (ms : List (Message × Bytes)) (hp : pinGet st.pins d = some (.member a))
    (hu : Unrelated cfg t0 d st ms)
    (m m1 : Message) (br : Bytes) (hreq : isRequest m = true) (hd : getDialog cfg.cm m = (some d, m1)) :
    (sendToBackend cfg (runBackend cfg st ms) m br).2 = [.backend a ((insertSelf cfg m1 t0 br).bytes cfg.cm)] :=
  (C04_sticky_step cfg _ m m1 br d a t0 hd (runBackend_keeps cfg t0 h0 d _ st ms hp hu) hreq h0).1

/-! ### non-vacuity on the sample configuration (two backends, `dlg` pinned to the first) -/

open Lemmas.Sample in
/-- `bye` belongs to the pinned dialog; the rotation alone would have picked `b2`. -/
example : isRequest bye = true ∧ (getDialog cfg.cm bye).1 = some dlg ∧ dlg ≠ [] ∧
    pinGet st.pins dlg = some (.member b1) ∧ cfg.transports0 = some lsn ∧
    (Side.RR.dispatch st.rr).2 = some b2 := by decide +kernel
open Lemmas.Sample in
/-- `invite` has no dialog (no To tag): load-balanced. -/
example : isRequest invite = true ∧ (getDialog cfg.cm invite).1 = none := by decide +kernel
open Lemmas.Sample in
/-- two unrelated requests (another dialog; no dialog) satisfy `Unrelated` and do advance the rotation -/
example : Unrelated cfg lsn dlg st [(bye2, str "z9hG4bKx1"), (invite, str "z9hG4bKx2"), (static, str "z9hG4bKx3")] ∧
    (runBackend cfg st [(bye2, str "z9hG4bKx1"), (invite, str "z9hG4bKx2"), (static, str "z9hG4bKx3")]).rr.index
      ≠ st.rr.index := by
  refine ⟨⟨?_, ?_, ?_, ?_, ?_, ?_, trivial⟩, ?_⟩ <;> decide +kernel
open Lemmas.Sample in
/-- the answer that creates a pin: a 200 to INVITE from backend 10.0.0.5:5060 -/
example : isResponse resp = true ∧
    ({ st with pins := [] } : St).backends.contains (joinHostPort (str "10.0.0.5") 5060) = true ∧
    (getMethod cfg.cm resp).map (fun p => (p.1, (getDialog cfg.cm p.2).1)) = some (str "INVITE", some dlg) := by
  decide +kernel

end Props.C04
