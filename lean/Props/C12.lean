import GoStd.Bytes
namespace Props.C12
end Props.C12
