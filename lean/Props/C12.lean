/-
C12 — Responses to TCP requests return on the connection the request used.

"Responses to TCP requests return on the connection the request used … even when several
connections are open from the same address or announce the same Via sent-by, and however their
transactions interleave; for provisional responses and for the first final response of each
transaction."

Model: the transport table of Proxy.Model (transport.go ClientTransportMgr). A request that arrives
on inbound TCP connection `c` is registered by `handleRawMessage`: `GetTransport("tcp", host, port,
tid)` followed by storing `primary := conn c` under the returned key, where `tid` is
`GetClientTransaction` = CSeq method ++ "-" ++ top Via branch. A response is sent by `sendMessage`:
`GetTransport` with the same four arguments, `entrySend` on the answered entry, and
`RemoveTransport` afterwards when the response is final.

What is proved here:
 * the key is injective in (method, branch) for a fixed host:port (`C12_key_injective`), so two
   transactions of the same address never share an entry; a '-' inside the method would break this
   (`C12_key_collision_with_dash`);
 * the registered entry is found again, with the same connection, on every table reached by any
   interleaving of lookups (of any key), registrations of other keys and removals of other keys
   (`C12_registered_lookup`); the shared un-keyed entry that lookups of other transactions of the same
   host:port create is never the registered one (`C12_shared_ne_keyed`);
 * such an entry sends on that connection and nowhere else (`C12_send_on_conn`,
   `C12_sendMessage_on_conn`: provisional and final responses alike, the removal comes after the
   lookup);
 * `RemoveTransport` deletes exactly the given key (`C12_remove_exact`), so the final response of one
   transaction does not disturb another.
-/
import Lemmas.Transport
import Lemmas.Literal
open GoStd Sip Proxy

namespace Props.C12

abbrev Table := List (Bytes × TransEntry)

/-! ### 1. keys -/

/-- The transaction id is `method ++ " " ++ branch`, never empty. -/
theorem C12_transaction_id_shape (cm : List (Bytes × Bytes)) (m : Message) (tid : Bytes)
    (h : (getClientTransaction cm m).1 = some tid) : ∃ method br, tid = method ++ [32] ++ br ∧ tid ≠ [] := by
  unfold getClientTransaction at h
  split at h
  · cases h
  · split at h
    · cases h
    · split at h
      · cases h
      · split at h
        · cases h
        · simp only [Option.some.injEq] at h
          exact ⟨_, _, h.symm, by rw [← h]; simp⟩

/-- For one host:port, keys of transactions whose methods hold no blank coincide only when method and
branch coincide. (A CSeq method never holds a blank: `Lemmas.parseCSeq_method_no_blank`.) -/
theorem C12_key_injective (h : Bytes) (p : Int) (m₁ b₁ m₂ b₂ : Bytes)
    (h₁ : (32 : UInt8) ∉ m₁) (h₂ : (32 : UInt8) ∉ m₂)
    (hk : fullAddr (str "tcp") h p (m₁ ++ [32] ++ b₁) = fullAddr (str "tcp") h p (m₂ ++ [32] ++ b₂)) :
    m₁ = m₂ ∧ b₁ = b₂ := by
  have := Lemmas.fullAddr_tcp_tid_injective h p _ _ (by simp) (by simp) hk
  exact Lemmas.append_sep_injective 32 _ _ _ _ h₁ h₂ this

/-- Whatever the method looks like, for one host:port the key determines the whole transaction id. -/
theorem C12_key_tid_injective (h : Bytes) (p : Int) (tid₁ tid₂ : Bytes) (h₁ : tid₁ ≠ []) (h₂ : tid₂ ≠ [])
    (e : fullAddr (str "tcp") h p tid₁ = fullAddr (str "tcp") h p tid₂) : tid₁ = tid₂ :=
  Lemmas.fullAddr_tcp_tid_injective h p tid₁ tid₂ h₁ h₂ e

/-- Why the separator is not '-' (it was, before the repair recorded as D18b in DESIGN.md): method `A-B`
with branch `C` and method `A` with branch `B-C` would get the same key. -/
theorem C12_key_collision_with_dash (h : Bytes) (p : Int) :
    fullAddr (str "tcp") h p (([65, 45, 66] : Bytes) ++ [45] ++ [67]) =
      fullAddr (str "tcp") h p (([65] : Bytes) ++ [45] ++ [66, 45, 67])
    ∧ ([65, 45, 66] : Bytes) ≠ [65] ∧ ([67] : Bytes) ≠ [66, 45, 67] := by
  refine ⟨rfl, by decide, by decide⟩

/-- The shared un-keyed entry of a host:port (written by the lookups of other transactions of that
host:port) is not the entry of any transaction. -/
theorem C12_shared_ne_keyed (h : Bytes) (p : Int) (tid : Bytes) (hne : tid ≠ []) :
    fullAddr (str "tcp") h p [] ≠ fullAddr (str "tcp") h p tid :=
  Lemmas.fullAddr_shared_ne_keyed h p tid hne

/-! ### 2. registration, then lookup after any interleaving -/

/-- One operation on the table that neither re-registers nor removes the key `k`:
a registration under another key, a `GetTransport` with any arguments (the same key included: that
is a response of the same transaction being routed), a `RemoveTransport` of another key. -/
inductive Op (cfg : Cfg) (k : Bytes) : Table → Table → Prop where
  | store (tr : Table) (k' : Bytes) (v : TransEntry) (hne : k' ≠ k) : Op cfg k tr (assocSet tr k' v)
  | lookup (tr : Table) (proto h : Bytes) (p : Int) (tid : Bytes) (tr' : Table) (key' : Bytes) (e' : TransEntry)
      (hg : getTransport cfg tr proto h p tid = some (tr', key', e')) : Op cfg k tr tr'
  | delete (tr : Table) (k' : Bytes) (hne : k' ≠ k) : Op cfg k tr (assocDel tr k')
  | remove (tr : Table) (proto h : Bytes) (p : Int) (tid : Bytes)
      (hne : fullAddr (toLower proto) h p tid ≠ k) : Op cfg k tr (removeTransport cfg tr proto h p tid)

/-- Any finite interleaving of such operations. -/
inductive Reach (cfg : Cfg) (k : Bytes) : Table → Table → Prop where
  | refl (tr : Table) : Reach cfg k tr tr
  | step {tr₁ tr₂ tr₃ : Table} : Reach cfg k tr₁ tr₂ → Op cfg k tr₂ tr₃ → Reach cfg k tr₁ tr₃

/-- The invariant "key `k` holds entry `e`" is preserved by every single operation … -/
theorem C12_invariant_step (cfg : Cfg) (k : Bytes) (e : TransEntry) (tr tr' : Table)
    (hop : Op cfg k tr tr') (hinv : assocGet tr k = some e) : assocGet tr' k = some e := by
  cases hop with
  | store k' v hne => rw [Lemmas.assocGet_assocSet_ne _ _ _ _ hne]; exact hinv
  | lookup _ _ _ _ _ _ _ hg => exact Lemmas.getTransport_preserves cfg tr tr' _ _ _ _ _ _ k e hinv hg
  | delete k' hne => rw [Lemmas.assocGet_assocDel_ne _ _ _ hne]; exact hinv
  | remove proto h p tid hne =>
    unfold removeTransport
    simp only
    split
    · exact hinv
    · rw [Lemmas.assocGet_assocDel_ne _ _ _ hne]; exact hinv

/-- … hence by every interleaving. -/
theorem C12_invariant (cfg : Cfg) (k : Bytes) (e : TransEntry) (tr tr' : Table)
    (hr : Reach cfg k tr tr') (hinv : assocGet tr k = some e) : assocGet tr' k = some e := by
  induction hr with
  | refl => exact hinv
  | step _ hop ih => exact C12_invariant_step cfg k e _ _ hop ih

/-- Registration, then lookup. A TCP request of transaction `tid` from `h:p` is registered on
connection `c`; after any interleaving of other transactions (lookups, registrations, removals under
other keys — other connections of the same address, other transactions with the same sent-by) the
lookup with the same `(tcp, h, p, tid)` answers with the entry whose primary is connection `c`,
leaves the table unchanged, and sending through that entry writes on `c` and nowhere else. -/
theorem C12_registered_lookup (cfg : Cfg) (hs : cfg.supported.contains (str "tcp") = true)
    (tr tr' : Table) (h : Bytes) (p : Int) (tid key : Bytes) (e : TransEntry) (c : Nat)
    (hreg : getTransport cfg tr (str "tcp") h p tid = some (tr', key, e))
    (tr₂ : Table) (hreach : Reach cfg key (assocSet tr' key { e with primary := some (.conn c) }) tr₂) :
    getTransport cfg tr₂ (str "tcp") h p tid = some (tr₂, key, { e with primary := some (.conn c) })
    ∧ ∀ data, entrySend { e with primary := some (.conn c) } data = [.conn c data] := by
  have hkey := Lemmas.getTransport_key cfg tr tr' _ h p tid key e hreg
  have hinv := C12_invariant cfg key _ _ tr₂ hreach (Lemmas.assocGet_assocSet_same tr' key _)
  refine ⟨?_, fun data => by simp [entrySend]⟩
  rw [hkey] at hinv ⊢
  exact Lemmas.getTransport_hit cfg tr₂ _ h p tid _ (by rw [Lemmas.toLower_tcp]; exact hs) hinv

/-- Another transaction of the same host:port is an "other key", whatever connection it came on. -/
theorem C12_other_transaction_other_key (h : Bytes) (p : Int) (m₁ b₁ m₂ b₂ : Bytes)
    (h₁ : (32 : UInt8) ∉ m₁) (h₂ : (32 : UInt8) ∉ m₂) (hne : m₁ ≠ m₂ ∨ b₁ ≠ b₂) :
    fullAddr (str "tcp") h p (m₁ ++ [32] ++ b₁) ≠ fullAddr (str "tcp") h p (m₂ ++ [32] ++ b₂) := by
  intro e
  obtain ⟨rfl, rfl⟩ := C12_key_injective h p m₁ b₁ m₂ b₂ h₁ h₂ e
  rcases hne with hne | hne <;> exact hne rfl

/-- The scenario of the property text: two connections `c₁`, `c₂` from the same address announce the
same sent-by `h:p`; their requests (different transactions `m₁-b₁`, `m₂-b₂`) are registered one after
the other on any table; afterwards each transaction's lookup answers with its own connection and
changes nothing, so responses may be routed in any order and any number of times. -/
theorem C12_two_connections_same_address (cfg : Cfg) (hs : cfg.supported.contains (str "tcp") = true)
    (tr : Table) (h : Bytes) (p : Int) (m₁ b₁ m₂ b₂ : Bytes) (c₁ c₂ : Nat)
    (h₁ : (32 : UInt8) ∉ m₁) (h₂ : (32 : UInt8) ∉ m₂) (hne : m₁ ≠ m₂ ∨ b₁ ≠ b₂) :
    ∃ trA keyA eA trB keyB eB,
      getTransport cfg tr (str "tcp") h p (m₁ ++ [32] ++ b₁) = some (trA, keyA, eA) ∧
      getTransport cfg (assocSet trA keyA { eA with primary := some (.conn c₁) }) (str "tcp") h p (m₂ ++ [32] ++ b₂)
        = some (trB, keyB, eB) ∧
      (∃ e, getTransport cfg (assocSet trB keyB { eB with primary := some (.conn c₂) }) (str "tcp") h p (m₁ ++ [32] ++ b₁)
              = some (assocSet trB keyB { eB with primary := some (.conn c₂) }, keyA, e)
            ∧ ∀ d, entrySend e d = [.conn c₁ d]) ∧
      (∃ e, getTransport cfg (assocSet trB keyB { eB with primary := some (.conn c₂) }) (str "tcp") h p (m₂ ++ [32] ++ b₂)
              = some (assocSet trB keyB { eB with primary := some (.conn c₂) }, keyB, e)
            ∧ ∀ d, entrySend e d = [.conn c₂ d]) := by
  obtain ⟨trA, eA, hA⟩ := Lemmas.getTransport_tcp_some cfg tr h p (m₁ ++ [32] ++ b₁) hs
  obtain ⟨trB, eB, hB⟩ := Lemmas.getTransport_tcp_some cfg
    (assocSet trA (fullAddr (str "tcp") h p (m₁ ++ [32] ++ b₁)) { eA with primary := some (.conn c₁) })
    h p (m₂ ++ [32] ++ b₂) hs
  have hkeys := C12_other_transaction_other_key h p m₂ b₂ m₁ b₁ h₂ h₁
    (by rcases hne with e | e; exact Or.inl (Ne.symm e); exact Or.inr (Ne.symm e))
  refine ⟨trA, _, eA, trB, _, eB, hA, hB, ?_, ?_⟩
  · have hr := C12_registered_lookup cfg hs tr trA h p _ _ eA c₁ hA
      (assocSet trB (fullAddr (str "tcp") h p (m₂ ++ [32] ++ b₂)) { eB with primary := some (.conn c₂) })
      (Reach.step (Reach.step (Reach.refl _) (Op.lookup _ _ _ _ _ _ _ _ hB)) (Op.store _ _ _ hkeys))
    exact ⟨_, hr.1, hr.2⟩
  · have hr := C12_registered_lookup cfg hs _ trB h p _ _ eB c₂ hB _ (Reach.refl _)
    exact ⟨_, hr.1, hr.2⟩

/-! ### 3. sending -/

/-- An entry whose primary is connection `c` writes on `c` and nowhere else. -/
theorem C12_send_on_conn (e : TransEntry) (c : Nat) (data : Bytes) (hp : e.primary = some (.conn c)) :
    entrySend e data = [.conn c data] := by
  simp [entrySend, hp]

/-- `sendMessage` for a response whose (protocol, resolved host, port, transaction) key holds an entry
with primary connection `c`: the message is written on `c` only — for provisional and final
responses alike, because the removal at a final response happens after the lookup. -/
theorem C12_sendMessage_on_conn (cfg : Cfg) (st : St) (hop : Hop) (m : Message) (e : TransEntry) (c : Nat)
    (hs : cfg.supported.contains (toLower hop.transport) = true)
    (hget : assocGet st.trans (fullAddr (toLower hop.transport) ((getIp cfg hop.host).getD hop.host) hop.port
              ((getClientTransaction cfg.cm m).1.getD [])) = some e)
    (hp : e.primary = some (.conn c)) :
    (sendMessage cfg st hop m).2 = [.conn c ((getClientTransaction cfg.cm m).2.bytes cfg.cm)] := by
  unfold sendMessage
  simp only
  rw [Lemmas.getTransport_hit cfg st.trans hop.transport _ hop.port _ e hs hget]
  simp [entrySend, hp]

/-- What `sendMessage` does to the table when the entry exists: nothing for a provisional response;
for a final response it deletes exactly the key that was looked up (built from the resolved host). -/
theorem C12_sendMessage_table (cfg : Cfg) (st : St) (hop : Hop) (m : Message) (e : TransEntry)
    (hs : cfg.supported.contains (toLower hop.transport) = true)
    (hget : assocGet st.trans (fullAddr (toLower hop.transport) ((getIp cfg hop.host).getD hop.host) hop.port
              ((getClientTransaction cfg.cm m).1.getD [])) = some e) :
    (sendMessage cfg st hop m).1.trans =
      if isFinalResponse cfg.finalClasses (getClientTransaction cfg.cm m).2 then
        assocDel st.trans (fullAddr (toLower hop.transport) ((getIp cfg hop.host).getD hop.host) hop.port ((getClientTransaction cfg.cm m).1.getD []))
      else st.trans := by
  unfold sendMessage
  simp only
  rw [Lemmas.getTransport_hit cfg st.trans hop.transport _ hop.port _ e hs hget]
  simp only
  split
  · unfold removeTransport
    simp only [hs, Bool.not_true, Bool.false_eq_true, ↓reduceIte]
  · rfl

/-! ### 4. removal -/

/-- `RemoveTransport` deletes exactly the given key: that key is gone, every other lookup is unchanged. -/
theorem C12_remove_exact (cfg : Cfg) (tr : Table) (proto h : Bytes) (p : Int) (tid k : Bytes)
    (hs : cfg.supported.contains (toLower proto) = true) :
    assocGet (removeTransport cfg tr proto h p tid) k =
      if fullAddr (toLower proto) h p tid = k then none else assocGet tr k := by
  unfold removeTransport
  simp only [hs, Bool.not_true, Bool.false_eq_true, ↓reduceIte]
  exact Lemmas.assocGet_assocDel tr _ k

/-- An unsupported protocol removes nothing. -/
theorem C12_remove_unsupported (cfg : Cfg) (tr : Table) (proto h : Bytes) (p : Int) (tid : Bytes)
    (hs : cfg.supported.contains (toLower proto) = false) :
    removeTransport cfg tr proto h p tid = tr := by
  unfold removeTransport
  simp only [hs, Bool.not_false, ↓reduceIte]

/-- After the first final response the entry is gone: the next lookup with the same arguments creates
a fresh entry without a primary connection (so the guarantee is for the first final response only). -/
theorem C12_after_remove_fresh (cfg : Cfg) (hs : cfg.supported.contains (str "tcp") = true)
    (tr : Table) (h : Bytes) (p : Int) (tid : Bytes) (tr' : Table) (key : Bytes) (e : TransEntry)
    (hg : getTransport cfg (removeTransport cfg tr (str "tcp") h p tid) (str "tcp") h p tid = some (tr', key, e)) :
    e.primary = none := by
  have hs' : cfg.supported.contains (toLower (str "tcp")) = true := by rw [Lemmas.toLower_tcp]; exact hs
  have hgone := C12_remove_exact cfg tr (str "tcp") h p tid (fullAddr (toLower (str "tcp")) h p tid) hs'
  simp only [↓reduceIte] at hgone
  unfold getTransport at hg
  simp only [hs', Bool.not_true, Bool.false_eq_true, ↓reduceIte, hgone] at hg
  rw [Lemmas.toLower_tcp] at hg
  have hnu : (str "tcp" == str "udp") = false := by rw [Lemmas.str_tcp, Lemmas.str_udp]; decide
  simp only [hnu, Bool.false_eq_true, ↓reduceIte, beq_self_eq_true] at hg
  simp only [Option.some.injEq, Prod.mk.injEq] at hg
  rw [← hg.2.2]

/-! ### 5. the pipeline: registration by `handleRawMessage`, response through `sendMessage` -/

/-- A request received on TCP connection `c`, with a response hop and a transaction id, is registered:
afterwards the key of (tcp, hop host without brackets and resolved - `regHost` -, hop port, transaction) holds an entry whose
primary is `c`, and every entry that existed under another key is still there, unchanged.
(`Lemmas.stamped` is the request after Via decoding and `received`/`rport` stamping, exactly as
`handleRawMessage` computes it: `Lemmas.handleRawMessage_trans`.) -/
theorem C12_request_registers (cfg : Cfg) (hs : cfg.supported.contains (str "tcp") = true)
    (st : St) (ev : RawEv) (c : Nat) (hop : Hop) (m' m'' : Message) (tid : Bytes)
    (hreq : isRequest ev.msg = true) (hc : ev.tcpConn = some c)
    (hhop : getNextResponseHop cfg (Lemmas.stamped cfg st ev) = (some hop, m'))
    (htid : getClientTransaction cfg.cm m' = (some tid, m'')) :
    (∃ e, assocGet (handleRawMessage cfg st ev).1.trans (fullAddr (str "tcp") (regHost cfg hop.host) hop.port tid) = some e
          ∧ e.primary = some (.conn c)) ∧
    (∀ k e₀, k ≠ fullAddr (str "tcp") (regHost cfg hop.host) hop.port tid → assocGet st.trans k = some e₀ →
          assocGet (handleRawMessage cfg st ev).1.trans k = some e₀) := by
  obtain ⟨tr', e, hg⟩ := Lemmas.getTransport_tcp_some cfg st.trans (regHost cfg hop.host) hop.port tid hs
  have htr : (handleRawMessage cfg st ev).1.trans =
      assocSet tr' (fullAddr (str "tcp") (regHost cfg hop.host) hop.port tid) { e with primary := some (.conn c) } := by
    rw [Lemmas.handleRawMessage_trans, hreq, hc]
    simp only [Lemmas.registerStep, hhop, htid, hg]
  rw [htr]
  refine ⟨⟨_, Lemmas.assocGet_assocSet_same _ _ _, rfl⟩, ?_⟩
  intro k e₀ hk h0
  rw [Lemmas.assocGet_assocSet_ne _ _ _ _ (Ne.symm hk)]
  exact Lemmas.getTransport_preserves cfg st.trans tr' _ _ _ _ _ e k e₀ h0 hg

/-- A message that is not a request, or that did not come over TCP, registers nothing. -/
theorem C12_no_registration (cfg : Cfg) (st : St) (ev : RawEv)
    (h : isRequest ev.msg = false ∨ ev.tcpConn = none) : (handleRawMessage cfg st ev).1.trans = st.trans := by
  rw [Lemmas.handleRawMessage_trans]
  rcases h with h | h <;> rw [h] <;> unfold Lemmas.registerStep
  · rfl
  · cases isRequest ev.msg <;> rfl

/-- End to end on the table: the request is registered by `handleRawMessage`; the table then goes through
any interleaving of operations that neither re-register nor remove that key; a response whose
(protocol, resolved host, port, transaction) produce the registered key is written by `sendMessage`
on connection `c` and nowhere else. -/
theorem C12_response_on_request_connection (cfg : Cfg) (hs : cfg.supported.contains (str "tcp") = true)
    (st : St) (ev : RawEv) (c : Nat) (hop : Hop) (m' m'' : Message) (tid : Bytes)
    (hreq : isRequest ev.msg = true) (hc : ev.tcpConn = some c)
    (hhop : getNextResponseHop cfg (Lemmas.stamped cfg st ev) = (some hop, m'))
    (htid : getClientTransaction cfg.cm m' = (some tid, m''))
    (st₂ : St)
    (hreach : Reach cfg (fullAddr (str "tcp") (regHost cfg hop.host) hop.port tid) (handleRawMessage cfg st ev).1.trans st₂.trans)
    (rhop : Hop) (rm : Message)
    (hsr : cfg.supported.contains (toLower rhop.transport) = true)
    (hkey : fullAddr (toLower rhop.transport) ((getIp cfg rhop.host).getD rhop.host) rhop.port
              ((getClientTransaction cfg.cm rm).1.getD []) = fullAddr (str "tcp") (regHost cfg hop.host) hop.port tid) :
    (sendMessage cfg st₂ rhop rm).2 = [.conn c ((getClientTransaction cfg.cm rm).2.bytes cfg.cm)] := by
  obtain ⟨⟨e, he, hp⟩, -⟩ := C12_request_registers cfg hs st ev c hop m' m'' tid hreq hc hhop htid
  have hinv := C12_invariant cfg _ e _ _ hreach he
  exact C12_sendMessage_on_conn cfg st₂ rhop rm e c hsr (by rw [hkey]; exact hinv) hp

/-- The registration key and the lookup key agree for EVERY hop host, literal or name: the connection is
registered under the address `sendMessage` resolves the response hop to. (Before the repair recorded as
D17 in DESIGN.md the registration used the host as written, and a sent-by host name known to the host
table made the response leave on a new connection.) -/
theorem C12_registration_key_is_lookup_key (cfg : Cfg) (h : Bytes) (hb : stripBrackets h = h) :
    regHost cfg h = (getIp cfg h).getD h := by
  simp [regHost, hb]

/-- ... and so the response whose hop is the request's response hop (same host text, port, protocol tcp,
same transaction) is written on the request's connection: `hkey` of the theorem above is discharged. -/
theorem C12_same_hop_same_connection (cfg : Cfg) (hs : cfg.supported.contains (str "tcp") = true)
    (st : St) (ev : RawEv) (c : Nat) (hop : Hop) (m' m'' : Message) (tid : Bytes)
    (hreq : isRequest ev.msg = true) (hc : ev.tcpConn = some c)
    (hhop : getNextResponseHop cfg (Lemmas.stamped cfg st ev) = (some hop, m'))
    (htid : getClientTransaction cfg.cm m' = (some tid, m''))
    (hb : stripBrackets hop.host = hop.host)
    (st₂ : St)
    (hreach : Reach cfg (fullAddr (str "tcp") (regHost cfg hop.host) hop.port tid) (handleRawMessage cfg st ev).1.trans st₂.trans)
    (rm : Message) (htr : toLower hop.transport = str "tcp")
    (hrt : (getClientTransaction cfg.cm rm).1 = some tid) :
    (sendMessage cfg st₂ hop rm).2 = [.conn c ((getClientTransaction cfg.cm rm).2.bytes cfg.cm)] := by
  refine C12_response_on_request_connection cfg hs st ev c hop m' m'' tid hreq hc hhop htid st₂ hreach hop rm
    (by rw [htr]; exact hs) ?_
  rw [htr, hrt, C12_registration_key_is_lookup_key cfg hop.host hb]
  rfl

/-! ### 6. transaction ids of received messages -/

/-- every header still carries the text it was received with (as after `parseMessage`) -/
def AllRaw (m : Message) : Prop := ∀ h ∈ m.headers, ∃ s, h.value = .raw s

theorem findHeader_mem {cm : List (Bytes × Bytes)} {hs : List Header} {n : Bytes} {h : Header}
    (hf : findHeader cm hs n = some h) : h ∈ hs := by
  unfold findHeader at hf
  exact List.mem_of_find?_eq_some hf

/-- The method part of a transaction id computed from a received message holds no blank, so the id
splits into (method, branch) in one way only: no hypothesis on the method is left. -/
theorem C12_tid_method_no_blank (cm : List (Bytes × Bytes)) (m : Message) (tid : Bytes) (hraw : AllRaw m)
    (h : (getClientTransaction cm m).1 = some tid) :
    ∃ method br, tid = method ++ [32] ++ br ∧ (32 : UInt8) ∉ method := by
  unfold getClientTransaction at h
  split at h
  · cases h
  · rename_i c m1 hc
    have hm : (32 : UInt8) ∉ c.method := by
      unfold getCSeq at hc
      split at hc
      · cases hc
      · rename_i hd hf
        obtain ⟨s, hs⟩ := hraw hd (findHeader_mem hf)
        rw [hs] at hc
        simp only at hc
        split at hc
        · cases hc
        · rename_i c' hp
          simp only [Option.some.injEq, Prod.mk.injEq] at hc
          rw [← hc.1]
          exact Lemmas.parseCSeq_method_no_blank hp
    split at h
    · cases h
    · split at h
      · cases h
      · split at h
        · cases h
        · simp only [Option.some.injEq] at h
          exact ⟨_, _, h.symm, hm⟩

/-- Two received messages whose transaction ids give the same key for one host:port have the same CSeq
method and the same branch: distinct transactions never share a key. -/
theorem C12_distinct_transactions_distinct_keys (cm : List (Bytes × Bytes)) (h : Bytes) (p : Int)
    (ma mb : Message) (ta tb : Bytes) (hra : AllRaw ma) (hrb : AllRaw mb)
    (ha : (getClientTransaction cm ma).1 = some ta) (hb : (getClientTransaction cm mb).1 = some tb)
    (hk : fullAddr (str "tcp") h p ta = fullAddr (str "tcp") h p tb) : ta = tb := by
  obtain ⟨m₁, b₁, rfl, h₁⟩ := C12_tid_method_no_blank cm ma ta hra ha
  obtain ⟨m₂, b₂, rfl, h₂⟩ := C12_tid_method_no_blank cm mb tb hrb hb
  obtain ⟨rfl, rfl⟩ := C12_key_injective h p m₁ b₁ m₂ b₂ h₁ h₂ hk
  rfl

/-! ### non-vacuity -/

/-- a configuration that supports tcp -/
def cfg0 : Cfg :=
  { cm := [], finalClasses := [2, 3, 4, 5, 6], supported := [[117, 100, 112], [116, 99, 112]], names := [],
    keepNextHopRoute := false, mustRecordRoute := false, hosts := [], routes := [], transports0 := none }

theorem cfg0_tcp : cfg0.supported.contains (str "tcp") = true := by rw [Lemmas.str_tcp]; decide

/-- INVITE z9a on connection 1 and INVITE z9b on connection 2, both from 10.0.0.1:5060. -/
example := C12_two_connections_same_address cfg0 cfg0_tcp [] [49, 48, 46, 48, 46, 48, 46, 49] 5060
  [73, 78, 86, 73, 84, 69] [122, 57, 97] [73, 78, 86, 73, 84, 69] [122, 57, 98] 1 2
  (by decide) (by decide) (Or.inr (by decide))

/-- the hypotheses of `C12_key_injective` hold for INVITE z9a = INVITE z9a -/
example := C12_key_injective [49, 48, 46, 48, 46, 48, 46, 49] 5060
  [73, 78, 86, 73, 84, 69] [122, 57, 97] [73, 78, 86, 73, 84, 69] [122, 57, 97] (by decide) (by decide) rfl

/-- a table on which the invariant holds and an operation sequence that is not empty -/
example : ∃ tr', Reach cfg0 [1] [([1], { primary := some (.conn 3), secondary := none })] tr' ∧
    assocGet tr' [1] = some { primary := some (.conn 3), secondary := none } ∧ tr'.length = 1 + 1 :=
  ⟨_, Reach.step (Reach.step (Reach.refl _) (Op.store _ [2] { primary := none, secondary := none } (by decide)))
        (Op.delete _ [3] (by decide)), by decide, by decide⟩

example : entrySend { primary := some (.conn 3), secondary := some ([49], 5060) } [120] = [.conn 3 [120]] :=
  C12_send_on_conn _ 3 _ rfl

/-! a concrete request on connection 7 and its 180 -/

def vp0 : ViaParam :=
  { protoName := [83, 73, 80], protoVersion := [50, 46, 48], transport := [84, 67, 80],
    host := [49, 48, 46, 48, 46, 48, 46, 49], port := 5060,
    params := [{ key := [98, 114, 97, 110, 99, 104], value := [122, 57, 97] }] }

def req0 : Message :=
  { start := .request [73, 78, 86, 73, 84, 69] (.abs [120]) [83, 73, 80, 47, 50, 46, 48],
    headers := [{ name := [86, 105, 97], value := .via [vp0] },
                { name := [67, 83, 101, 113], value := .cseq { seq := 1, method := [73, 78, 86, 73, 84, 69] } }],
    body := [] }

def ev0 : RawEv :=
  { peerAddr := [49, 48, 46, 48, 46, 48, 46, 49], peerPort := 40000,
    frm := { proto := [84, 67, 80], addr := [49, 48, 46, 48, 46, 48, 46, 50], port := 5060 },
    receivedSupport := false, tcpConn := some 7, msg := req0, rxMatch := false, branch := [98] }

theorem stamped0 : Lemmas.stamped cfg0 {} ev0 = req0 := by
  simp only [Lemmas.stamped, ev0, req0, forEachViaHeaders, viaName, Lemmas.str_via]
  decide

theorem hop0 : getNextResponseHop cfg0 req0 =
    (some { host := [49, 48, 46, 48, 46, 48, 46, 49], port := 5060, transport := [84, 67, 80] }, req0) := by
  simp only [getNextResponseHop, getVia, findHeader, viaName, Lemmas.str_via, Lemmas.str_received]
  decide

theorem tid0 : getClientTransaction cfg0.cm req0 = (some [73, 78, 86, 73, 84, 69, 32, 122, 57, 97], req0) := by
  simp only [getClientTransaction, getCSeq, getVia, findHeader, viaName, cseqName, Lemmas.str_via, Lemmas.str_cseq, Lemmas.str_branch]
  decide

/-- hypotheses of `C12_request_registers` -/
example := C12_request_registers cfg0 cfg0_tcp {} ev0 7 _ _ _ _ (by decide) rfl (by rw [stamped0]; exact hop0) tid0

def rsp0 : Message := { req0 with start := .status [83, 73, 80, 47, 50, 46, 48] 180 [82] }
def hopR : Hop := { host := [49, 48, 46, 48, 46, 48, 46, 49], port := 5060, transport := [84, 67, 80] }

theorem tidR : getClientTransaction cfg0.cm rsp0 = (some [73, 78, 86, 73, 84, 69, 32, 122, 57, 97], rsp0) := by
  simp only [getClientTransaction, getCSeq, getVia, findHeader, viaName, cseqName, Lemmas.str_via, Lemmas.str_cseq, Lemmas.str_branch]
  decide

theorem key0 : fullAddr (str "tcp") (regHost cfg0 hopR.host) hopR.port [73, 78, 86, 73, 84, 69, 32, 122, 57, 97] =
    [116, 99, 112, 58, 47, 47, 49, 48, 46, 48, 46, 48, 46, 49, 58, 53, 48, 54, 48, 45, 73, 78, 86, 73, 84, 69, 32, 122, 57, 97] := by
  simp only [fullAddr, Lemmas.str_tcp, Lemmas.str_schemeSep]
  decide

theorem keyR : fullAddr (toLower hopR.transport) ((getIp cfg0 hopR.host).getD hopR.host) hopR.port
      ((getClientTransaction cfg0.cm rsp0).1.getD []) =
    fullAddr (str "tcp") (regHost cfg0 hopR.host) hopR.port [73, 78, 86, 73, 84, 69, 32, 122, 57, 97] := by
  rw [tidR, key0]
  simp only [fullAddr, Lemmas.str_tcp, Lemmas.str_schemeSep]
  decide

/-- hypotheses of `C12_response_on_request_connection` (and of `C12_sendMessage_on_conn`, `C12_invariant`):
the 180 to INVITE z9a goes out on connection 7 after another key was written in between -/
example : (sendMessage cfg0 { trans := assocSet (handleRawMessage cfg0 {} ev0).1.trans [1] { primary := none, secondary := none } }
            hopR rsp0).2 = [.conn 7 (rsp0.bytes cfg0.cm)] := by
  have := C12_response_on_request_connection cfg0 cfg0_tcp {} ev0 7 hopR req0 req0 _ (by decide) rfl
    (by rw [stamped0]; exact hop0) tid0
    { trans := assocSet (handleRawMessage cfg0 {} ev0).1.trans [1] { primary := none, secondary := none } }
    (Reach.step (Reach.refl _) (Op.store _ [1] _ (by rw [key0]; decide)))
    hopR rsp0 (by decide) keyR
  rw [this, tidR]

/-- hypothesis of `C12_transaction_id_shape` -/
example := C12_transaction_id_shape cfg0.cm req0 _ (by rw [tid0])

/-- hypothesis of `C12_no_registration`: the response registers nothing -/
example : (handleRawMessage cfg0 {} { ev0 with msg := rsp0 }).1.trans = [] :=
  C12_no_registration cfg0 {} _ (Or.inl (by decide))

/-- hypotheses of `C12_key_tid_injective`, `C12_shared_ne_keyed`, `C12_other_transaction_other_key` -/
example := C12_key_tid_injective [49] 5060 [65, 45, 122] [65, 45, 122] (by decide) (by decide) rfl
example := C12_shared_ne_keyed [49] 5060 [65, 45, 122] (by decide)
example := C12_other_transaction_other_key [49] 5060 [65] [122] [66] [122] (by decide) (by decide) (Or.inl (by decide))

/-- hypotheses of `C12_remove_exact`, `C12_after_remove_fresh` (with `Lemmas.getTransport_tcp_some` for
the existence of the lookup's answer) -/
example := C12_remove_exact cfg0 [([1], { primary := none, secondary := none })] [84, 67, 80] [49] 5060 [65, 45, 122] [1]
  (by decide)
example : ∃ tr' key e, getTransport cfg0 (removeTransport cfg0 (handleRawMessage cfg0 {} ev0).1.trans (str "tcp")
            hopR.host 5060 [73, 78, 86, 73, 84, 69, 32, 122, 57, 97]) (str "tcp") hopR.host 5060
            [73, 78, 86, 73, 84, 69, 32, 122, 57, 97] = some (tr', key, e) ∧ e.primary = none := by
  obtain ⟨tr', e, h⟩ := Lemmas.getTransport_tcp_some cfg0 (removeTransport cfg0 (handleRawMessage cfg0 {} ev0).1.trans (str "tcp")
            hopR.host 5060 [73, 78, 86, 73, 84, 69, 32, 122, 57, 97]) hopR.host 5060 [73, 78, 86, 73, 84, 69, 32, 122, 57, 97] cfg0_tcp
  exact ⟨tr', _, e, h, C12_after_remove_fresh cfg0 cfg0_tcp _ _ _ _ _ _ _ h⟩

/-- hypotheses of `C12_sendMessage_on_conn` / `C12_sendMessage_table`, for every message: a table that
holds connection 7 under the message's key -/
example (m : Message) :
    let k := fullAddr (toLower hopR.transport) ((getIp cfg0 hopR.host).getD hopR.host) hopR.port
               ((getClientTransaction cfg0.cm m).1.getD [])
    let st : St := { trans := [(k, { primary := some (.conn 7), secondary := none })] }
    (sendMessage cfg0 st hopR m).2 = [.conn 7 ((getClientTransaction cfg0.cm m).2.bytes cfg0.cm)] ∧
    (sendMessage cfg0 st hopR m).1.trans =
      if isFinalResponse cfg0.finalClasses (getClientTransaction cfg0.cm m).2 then
        assocDel st.trans (fullAddr (toLower hopR.transport) hopR.host hopR.port ((getClientTransaction cfg0.cm m).1.getD []))
      else st.trans := by
  intro k st
  have hget : assocGet st.trans k = some { primary := some (.conn 7), secondary := none } := by
    simp [st, assocGet]
  exact ⟨C12_sendMessage_on_conn cfg0 st hopR m _ 7 (by decide) hget rfl,
         C12_sendMessage_table cfg0 st hopR m _ (by decide) hget⟩

/-- hypotheses of `C12_tid_method_no_blank`: a received request (all values raw) with an extension method
that contains '-' -/
def reqRaw : Message :=
  { start := .request (str "PING-x") (.abs [120]) (str "SIP/2.0"),
    headers := [{ name := str "Via", value := .raw (str "SIP/2.0/TCP 10.0.0.1:5060;branch=z9a") },
                { name := str "CSeq", value := .raw (str "1 PING-x") }],
    body := [] }
example : AllRaw reqRaw := by
  intro h hm
  simp only [reqRaw, List.mem_cons, List.mem_nil_iff, or_false] at hm
  rcases hm with rfl | rfl <;> exact ⟨_, rfl⟩
example : (getClientTransaction cfg0.cm reqRaw).1 = some (str "PING-x z9a") := by decide +kernel

end Props.C12
