/-
C14 — Decoded headers are re-encoded without loss or distortion.

"Headers the proxy decodes are re-encoded without loss or distortion: every list element, display
name, URI component (scheme, user, password, host, port, each URI parameter with or without value,
URI headers) and every header parameter reappears, in order, with byte-identical values -
including values containing '%' and tel:/urn: URIs. Decoding extracts exactly the components the
text denotes (host, port, transport, tag, branch, received, rport)."

Model: Sip.Codec (sip_uri.go, addr_spec.go, absolute_uri.go, name_addr.go, key_value.go,
generic_param.go, via.go, route.go, record_route.go, from_spec.go, to.go, cseq.go).

Shape of every result. For an ABSTRACT value `x` in an explicit domain `Dom x` (a conjunction of
"this component does not contain that delimiter" facts, all decidable):
  (a) `parse (encode x) = some x`         decoding the text of `x` yields exactly the components of
                                          `x` (nothing lost, nothing invented, order kept); the
                                          accessor statements are read off from this;
  (b) `(parse (encode x)).map encode = some (encode x)`   re-encoding is byte-identical.
No domain predicate restricts '%' or any other byte that is not a delimiter of the production in
question, and absolute (tel:, urn:, …) URIs are carried as opaque byte strings (`C14_abs_uri`).
The domains are what the text can denote unambiguously; outside of them the Go code normalises
(e.g. `x=` is re-encoded as `x`: `C14_kv_bare_equals_dropped`).
-/
import Sip.Codec
import Lemmas.Bytes
import Lemmas.Num
import Lemmas.Codec
open GoStd Sip Lemmas

namespace Props.C14

/-! ## 1. parameters -/

/-- One `key[=value]` parameter. Only the key is restricted ('=' would end it). The value may be
empty (flag parameter) and may contain any byte, '=' and '%' included. -/
theorem C14_kv_decode_encode (kv : KeyValue) (hk : (61 : UInt8) ∉ kv.key) :
    parseKV kv.encode = kv := parseKV_encode kv hk

theorem C14_kv_reencode (kv : KeyValue) (hk : (61 : UInt8) ∉ kv.key) :
    (parseKV kv.encode).encode = kv.encode := by rw [parseKV_encode kv hk]

/-- non-vacuity: `lr` (flag) and `maddr=%41=b` (value with '%' and '='). -/
example : parseKV (KeyValue.encode { key := [108, 114], value := [] }) = { key := [108, 114], value := [] } ∧
    parseKV (KeyValue.encode { key := [109], value := [37, 52, 49, 61, 98] })
      = { key := [109], value := [37, 52, 49, 61, 98] } := by decide

/-- Arbitrary input: what was decoded is stable under encode/decode (no drift on repeated
forwarding). -/
theorem C14_kv_stable (s : Bytes) : parseKV (parseKV s).encode = parseKV s := parseKV_encode_parseKV s

/-- Arbitrary input: a parameter is re-encoded byte-identically, except that a bare trailing '='
(`k=`, empty value) is dropped. -/
theorem C14_kv_reencode_any (s : Bytes) :
    (parseKV s).encode = s ∨ ∃ k, (61 : UInt8) ∉ k ∧ s = k ++ [61] ∧ (parseKV s).encode = k :=
  encode_parseKV s

/-- The exception is real: "a=" is re-encoded as "a". -/
theorem C14_kv_bare_equals_dropped : (parseKV [97, 61]).encode = [97] := by decide

/-- Domain of a ';'-separated parameter: the key contains neither '=' nor ';', the value no ';'. -/
def ParamOK (p : KeyValue) : Prop := (61 : UInt8) ∉ p.key ∧ (59 : UInt8) ∉ p.key ∧ (59 : UInt8) ∉ p.value

instance (p : KeyValue) : Decidable (ParamOK p) := by unfold ParamOK; infer_instance

theorem ParamOK.no_semi {p : KeyValue} (h : ParamOK p) : (59 : UInt8) ∉ p.encode :=
  not_mem_kv_encode (by decide) h.2.1 h.2.2

/-- URI parameters: the text after the first ';' decodes to exactly the list, in order. -/
theorem C14_uri_params (ps : List KeyValue) (hne : ps ≠ []) (h : ∀ p ∈ ps, ParamOK p) :
    parseUriParameters ((encodeUriParams ps).drop 1) = ps := by
  rw [encodeUriParams_eq_join ps hne, List.drop_succ_cons, List.drop_zero, parseUriParameters,
    split_join 59 _ (by simpa using hne)]
  · exact map_parseKV_encode ps (fun p hp => (h p hp).1)
  · intro x hx
    simp only [List.mem_map] at hx
    obtain ⟨p, hp, rfl⟩ := hx
    exact (h p hp).no_semi

theorem C14_uri_params_reencode (ps : List KeyValue) (hne : ps ≠ []) (h : ∀ p ∈ ps, ParamOK p) :
    encodeUriParams (parseUriParameters ((encodeUriParams ps).drop 1)) = encodeUriParams ps := by
  rw [C14_uri_params ps hne h]

/-- ARBITRARY input `s` (no domain at all): the decoded parameter list is a fixed point of
encode-then-decode, so repeated forwarding cannot drift. -/
theorem C14_uri_params_stable (s : Bytes) :
    parseUriParameters (join [59] ((parseUriParameters s).map KeyValue.encode)) = parseUriParameters s :=
  parseUriParameters_stable s

/-- Via-style parameters (`parseKV` on every piece; empty keys allowed). -/
theorem C14_semi_params_kv (ps : List KeyValue) (hne : ps ≠ []) (h : ∀ p ∈ ps, ParamOK p) :
    (split 59 ((encodeSemiParams ps).drop 1)).map parseKV = ps := by
  have := C14_uri_params ps hne h
  rwa [encodeUriParams_eq_semi] at this

/-- Generic header parameters (`ParseGenericParam` rejects the empty piece, so keys are non-empty). -/
theorem C14_semi_params_generic (ps : List KeyValue) (hne : ps ≠ [])
    (h : ∀ p ∈ ps, ParamOK p ∧ p.key ≠ []) :
    mapM? parseGenericParam (split 59 ((encodeSemiParams ps).drop 1)) = some ps := by
  rw [encodeSemiParams_eq_join ps hne, List.drop_succ_cons, List.drop_zero,
    split_join 59 _ (by simpa using hne)]
  · exact mapM?_map _ _ ps (fun p hp => parseGenericParam_encode p (h p hp).1.1 (h p hp).2)
  · intro x hx
    simp only [List.mem_map] at hx
    obtain ⟨p, hp, rfl⟩ := hx
    exact (h p hp).1.no_semi

/-- non-vacuity: `;t=tcp;lr` as a two-element list (second element without value). -/
def exampleParams : List KeyValue := [⟨[116], [116, 99, 112]⟩, ⟨[108, 114], []⟩]

example : ∀ p ∈ exampleParams, ParamOK p ∧ p.key ≠ [] := by decide
example : encodeUriParams exampleParams = [59, 116, 61, 116, 99, 112, 59, 108, 114] := by decide
example : parseUriParameters ((encodeUriParams exampleParams).drop 1) = exampleParams :=
  C14_uri_params exampleParams (by decide) (by decide)
example : mapM? parseGenericParam (split 59 ((encodeSemiParams exampleParams).drop 1)) = some exampleParams :=
  C14_semi_params_generic exampleParams (by decide) (by decide)

/-! ## 2. SIP URI, addr-spec -/

/-- Domain of a sip:/sips: URI value. `NoneOf cs s`: `s` contains none of the bytes `cs`
('@' 64, ':' 58, ';' 59, '?' 63, '=' 61, '&' 38). No component is otherwise restricted ('%', '+',
'-', '.', … are all fine, the host may even be empty). A password requires a user (`_Write` prints
user-info only when the user is non-empty). Port 0 means "absent". Note that ':' ∉ host excludes
IPv6 references such as `[2001:db8::1]`: `parseHostPort` cuts at the FIRST ':' (see the last
section for what happens to them). -/
structure UriDom (u : SIPURI) : Prop where
  scheme : u.scheme = str "sip" ∨ u.scheme = str "sips"
  user : NoneOf [64, 58, 59, 63] u.user
  password : NoneOf [64, 59, 63] u.password
  pw_user : u.password ≠ [] → u.user ≠ []
  host : NoneOf [64, 58, 59, 63] u.host
  port : 0 ≤ u.port ∧ u.port ≤ 65535
  params : ∀ p ∈ u.params, ParamOK p ∧ (63 : UInt8) ∉ p.key ∧ (63 : UInt8) ∉ p.value
  headers : ∀ h ∈ u.headers, NoneOf [61, 38] h.key ∧ (38 : UInt8) ∉ h.value

/-- Decoding the text of a SIP URI yields exactly its components: scheme, user, password, host,
port, every parameter (with or without value) and every header, in order, byte-identical. -/
theorem C14_sip_uri (u : SIPURI) (h : UriDom u) : parseSipURI u.encode = some u := by
  have e := sipuri_encode_eq u
  obtain ⟨hsc, hus, hpw, hpu, hho, ⟨hp0, hp1⟩, hps, hhd⟩ := h
  obtain ⟨sc, us, pw, ho, po, ps, hd⟩ := u
  simp only at e hsc hus hpw hpu hho hp0 hp1 hps hhd
  have h59 : (59 : UInt8) ∉ userInfoText us pw ++ hostPortText ho po := by
    simp only [List.mem_append, not_or]
    exact ⟨not_mem_userInfoText 59 (hus.get 59) (hpw.get 59) (by decide) (by decide),
      not_mem_hostPortText hp0 59 (hho.get 59) (by decide) (by decide)⟩
  have h63 : (63 : UInt8) ∉ (userInfoText us pw ++ hostPortText ho po) ++ encodeSemiParams ps := by
    simp only [List.mem_append, not_or]
    exact ⟨⟨not_mem_userInfoText 63 (hus.get 63) (hpw.get 63) (by decide) (by decide),
      not_mem_hostPortText hp0 63 (hho.get 63) (by decide) (by decide)⟩,
      not_mem_encodeSemiParams (by decide) (by decide) (fun p hp => (hps p hp).2)⟩
  have steps : ∀ scheme, uriSteps scheme (((userInfoText us pw ++ hostPortText ho po)
      ++ encodeSemiParams ps) ++ encodeUriHeaders true hd)
      = { scheme := scheme, user := us, password := pw, host := ho, port := po, params := ps,
          headers := hd } := by
    intro scheme
    unfold uriSteps
    rw [uriSplitHeaders_text _ hd h63
        (fun x hx => ⟨(hhd x hx).1.get 61, (hhd x hx).1.get 38, (hhd x hx).2⟩)]
    simp only
    rw [uriSplitParams_text _ ps h59 (fun p hp => ⟨(hps p hp).1.1, (hps p hp).1.no_semi⟩)]
    simp only
    exact uriCore_text scheme us pw ho po ps hd (hus.get 64) (hus.get 58) (hpw.get 64) hpu
      (hho.get 64) (hho.get 58) hp0 (by omega)
  rcases hsc with hsc | hsc <;> subst hsc
  · rw [e, parseSipURI_sip, steps]
  · rw [e, parseSipURI_sips, steps]

/-- Re-encoding a decoded SIP URI is byte-identical. -/
theorem C14_sip_uri_reencode (u : SIPURI) (h : UriDom u) :
    (parseSipURI u.encode).map SIPURI.encode = some u.encode := by rw [C14_sip_uri u h]; rfl

/-- non-vacuity: `sips:alice:p%40w@example.com:5070;transport=tls;lr?subject=a%20b&x=` -/
def exampleUri : SIPURI :=
  { scheme := str "sips", user := str "alice", password := str "p%40w", host := str "example.com",
    port := 5070, params := [⟨str "transport", str "tls"⟩, ⟨str "lr", []⟩],
    headers := [⟨str "subject", str "a%20b"⟩, ⟨str "x", []⟩] }

example : UriDom exampleUri := by constructor <;> decide +kernel
example : exampleUri.encode = str "sips:alice:p%40w@example.com:5070;transport=tls;lr?subject=a%20b&x=" := by
  decide +kernel
example : parseSipURI (str "sips:alice:p%40w@example.com:5070;transport=tls;lr?subject=a%20b&x=")
    = some exampleUri := by decide +kernel

/-! ### what the accessors return -/

/-- `transport`: the value of the first `transport` parameter … -/
theorem C14_uri_transport_explicit (u : SIPURI) (pre post : List KeyValue) (v : Bytes)
    (hp : u.params = pre ++ { key := str "transport", value := v } :: post)
    (hpre : ∀ q ∈ pre, q.key ≠ str "transport") : u.getTransport = v := by
  simp [SIPURI.getTransport, hp, getParam_first pre post _ v hpre]

/-- … and `udp` when there is none. -/
theorem C14_uri_transport_default (u : SIPURI) (h : ∀ q ∈ u.params, q.key ≠ str "transport") :
    u.getTransport = str "udp" := by
  simp [SIPURI.getTransport, getParam_none u.params _ h]

/-- `port`: the number written after the host … -/
theorem C14_uri_port_explicit (u : SIPURI) (h : u.port ≠ 0) : u.getPort = u.port := by
  simp [SIPURI.getPort, h]

/-- … and the transport's default when none is written. -/
theorem C14_uri_port_default (u : SIPURI) (h : u.port = 0) :
    u.getPort = if u.getTransport = str "tls" then 5061 else 5060 := by
  simp [SIPURI.getPort, h]

/-- Decoding extracts exactly the components the text denotes: host, port, effective port and
transport of the decoded URI are those of the value whose text it is. -/
theorem C14_sip_uri_extracts (u : SIPURI) (h : UriDom u) :
    ∃ d, parseSipURI u.encode = some d ∧ d.scheme = u.scheme ∧ d.user = u.user ∧
      d.password = u.password ∧ d.host = u.host ∧ d.port = u.port ∧ d.params = u.params ∧
      d.headers = u.headers ∧ d.getPort = u.getPort ∧ d.getTransport = u.getTransport :=
  ⟨u, C14_sip_uri u h, rfl, rfl, rfl, rfl, rfl, rfl, rfl, rfl, rfl⟩

example : (parseSipURI (str "sip:bob@h.example;transport=tls")).map
    (fun d => (d.host, d.port, d.getPort, d.getTransport)) = some (str "h.example", 0, 5061, str "tls") := by
  decide +kernel
example : (parseSipURI (str "sip:bob@h.example:5080;lr")).map
    (fun d => (d.host, d.port, d.getPort, d.getTransport)) = some (str "h.example", 5080, 5080, str "udp") := by
  decide +kernel

/-- non-vacuity of the four accessor statements (`exampleUri` has `;transport=tls` and port 5070,
`exampleUri1` has neither) -/
def exampleUri1 : SIPURI := { scheme := str "sip", host := str "p1.example.com", params := [⟨str "lr", []⟩] }

example : exampleUri.getTransport = str "tls" :=
  C14_uri_transport_explicit exampleUri [] [⟨str "lr", []⟩] (str "tls") rfl (by simp)
example : exampleUri1.getTransport = str "udp" :=
  C14_uri_transport_default exampleUri1 (by decide +kernel)
example : exampleUri.getPort = 5070 := C14_uri_port_explicit exampleUri (by decide)
example : exampleUri1.getPort = if exampleUri1.getTransport = str "tls" then 5061 else 5060 :=
  C14_uri_port_default exampleUri1 rfl
example : UriDom exampleUri1 := by constructor <;> decide +kernel

/-! ### addr-spec: SIP URI or opaque absolute URI -/

/-- Anything that does not start with `sip:` / `sips:` is an absolute URI and is carried verbatim:
ANY bytes, '%' escapes, tel: and urn: included. -/
theorem C14_abs_uri (s : Bytes) (h1 : hasPrefix sipPrefix s = false) (h2 : hasPrefix sipsPrefix s = false) :
    parseAddrSpec s = some (AddrSpec.abs s) ∧ (AddrSpec.abs s).encode = s := by
  simp [parseAddrSpec, h1, h2, AddrSpec.encode]

theorem C14_abs_uri_reencode (s : Bytes) (h1 : hasPrefix sipPrefix s = false)
    (h2 : hasPrefix sipsPrefix s = false) : (parseAddrSpec s).map AddrSpec.encode = some s := by
  rw [(C14_abs_uri s h1 h2).1]; rfl

/-- non-vacuity: `tel:+1-201-555-0123;phone-context=%2B1` and `urn:service:sos.fire` -/
example : hasPrefix sipPrefix (str "tel:+1-201-555-0123;phone-context=%2B1") = false ∧
    hasPrefix sipsPrefix (str "tel:+1-201-555-0123;phone-context=%2B1") = false ∧
    hasPrefix sipPrefix (str "urn:service:sos.fire") = false ∧
    hasPrefix sipsPrefix (str "urn:service:sos.fire") = false := by decide +kernel

def AddrDom : AddrSpec → Prop
  | .sip u => UriDom u
  | .abs s => hasPrefix sipPrefix s = false ∧ hasPrefix sipsPrefix s = false

theorem sip_uri_has_prefix (u : SIPURI) (h : UriDom u) :
    (hasPrefix sipPrefix u.encode || hasPrefix sipsPrefix u.encode) = true := by
  rw [sipuri_encode_eq]
  rcases h.scheme with hs | hs <;> rw [hs]
  · simp [hasPrefix_sip]
  · simp [hasPrefix_sips]

theorem C14_addr_spec (a : AddrSpec) (h : AddrDom a) : parseAddrSpec a.encode = some a := by
  cases a with
  | sip u =>
    have hu : UriDom u := h
    simp only [AddrSpec.encode, parseAddrSpec, sip_uri_has_prefix u hu, ↓reduceIte, C14_sip_uri u hu,
      Option.map_some]
  | abs s => exact (C14_abs_uri s h.1 h.2).1

theorem C14_addr_spec_reencode (a : AddrSpec) (h : AddrDom a) :
    (parseAddrSpec a.encode).map AddrSpec.encode = some a.encode := by rw [C14_addr_spec a h]; rfl

/-! ## 3. name-addr -/

/-- Domain of `display<addr>`: no angle bracket in the display name, none closing inside the URI
text (for a SIP URI `not_mem_sipuri_encode` reduces this to "no '>' in any component"). The
display name is otherwise arbitrary (quotes, blanks, UTF-8, empty). -/
structure NameAddrDom (na : NameAddr) : Prop where
  display : NoneOf [60, 62] na.display
  addr : AddrDom na.addr
  addr_text : (62 : UInt8) ∉ na.addr.encode

theorem C14_name_addr (na : NameAddr) (h : NameAddrDom na) : parseNameAddr na.encode = some na := by
  unfold NameAddr.encode
  rw [parseNameAddr_text na.display na.addr.encode (h.display.get 60) (h.display.get 62) h.addr_text,
    C14_addr_spec na.addr h.addr]
  rfl

theorem C14_name_addr_reencode (na : NameAddr) (h : NameAddrDom na) :
    (parseNameAddr na.encode).map NameAddr.encode = some na.encode := by rw [C14_name_addr na h]; rfl

/-- '>' occurs in the text of a SIP URI only if it occurs in a component. -/
theorem uri_text_no_gt (u : SIPURI) (h : UriDom u) (hus : (62 : UInt8) ∉ u.user)
    (hpw : (62 : UInt8) ∉ u.password) (hho : (62 : UInt8) ∉ u.host)
    (hps : ∀ p ∈ u.params, (62 : UInt8) ∉ p.key ∧ (62 : UInt8) ∉ p.value)
    (hhs : ∀ x ∈ u.headers, (62 : UInt8) ∉ x.key ∧ (62 : UInt8) ∉ x.value) :
    (62 : UInt8) ∉ u.encode := by
  refine not_mem_sipuri_encode u 62 h.port.1 (by decide) (by decide) ?_ hus hpw hho hps hhs
  rcases h.scheme with hs | hs <;> rw [hs] <;> decide +kernel

example : (62 : UInt8) ∉ exampleUri.encode :=
  uri_text_no_gt exampleUri (by constructor <;> decide +kernel) (by decide +kernel) (by decide +kernel)
    (by decide +kernel) (by decide +kernel) (by decide +kernel)

/-- non-vacuity: `"Alice %22A%22" <sips:alice:p%40w@example.com:5070;transport=tls;lr?subject=a%20b&x=>`
and `<tel:+1-201-555-0123>` -/
example : NameAddrDom { display := str "\"Alice %22A%22\" ", addr := .sip exampleUri } := by
  constructor
  · decide +kernel
  · exact (by constructor <;> decide +kernel : UriDom exampleUri)
  · decide +kernel
example : NameAddrDom { display := [], addr := .abs (str "tel:+1-201-555-0123") } := by
  constructor
  · decide
  · show hasPrefix sipPrefix _ = false ∧ hasPrefix sipsPrefix _ = false
    decide +kernel
  · decide +kernel

/-! ## 4. Via -/

/-- Domain of one Via element `name/version/transport host[:port];params`.
`Plain s`: no Go white-space rune starts inside `s` (no ASCII blank, none of the lead bytes
C2 E1 E2 E3; every ASCII non-blank string is plain: `plain_of_ascii`), because `strings.Fields`
separates sent-protocol from sent-by. Delimiters: '/' 47, ';' 59, ':' 58. The sent-by host must be
non-empty (otherwise there is no second field when the port is absent). Parameters as everywhere
(`ParamOK`); keys may even be empty. -/
structure ViaDom (vp : ViaParam) : Prop where
  protoName : Plain vp.protoName ∧ NoneOf [47, 59] vp.protoName
  protoVersion : Plain vp.protoVersion ∧ NoneOf [47, 59] vp.protoVersion
  transport : Plain vp.transport ∧ NoneOf [47, 59] vp.transport
  host : vp.host ≠ [] ∧ Plain vp.host ∧ NoneOf [58, 59] vp.host
  port : 0 ≤ vp.port ∧ vp.port ≤ 65535
  params : ∀ p ∈ vp.params, ParamOK p

/-- Decoding the text of a Via element yields exactly protocol name, version, transport, host,
port and every parameter (with or without value), in order. -/
theorem C14_via_param (vp : ViaParam) (h : ViaDom vp) : parseViaParam vp.encode = some vp := by
  have e := viaparam_encode_eq vp
  obtain ⟨⟨hpn, hpn'⟩, ⟨hpv, hpv'⟩, ⟨htr, htr'⟩, ⟨hne, hho, hho'⟩, ⟨hp0, hp1⟩, hps⟩ := h
  obtain ⟨pn, pv, tr, ho, po, ps⟩ := vp
  simp only at e hpn hpn' hpv hpv' htr htr' hne hho hho' hp0 hp1 hps
  have hsp : Plain (pn ++ 47 :: (pv ++ 47 :: tr)) :=
    hpn.append ((by decide : Plain [47]).append (hpv.append ((by decide : Plain [47]).append htr)))
  have hhp : Plain (hostPortText ho po) := plain_hostPortText hho hp0
  have h59 : (59 : UInt8) ∉ (pn ++ 47 :: (pv ++ 47 :: tr)) ++ [32] ++ hostPortText ho po := by
    simp only [List.mem_append, List.mem_cons, List.not_mem_nil, or_false, not_or]
    exact ⟨⟨⟨hpn'.get 59, by decide, hpv'.get 59, by decide, htr'.get 59⟩, by decide⟩,
      not_mem_hostPortText hp0 59 (hho'.get 59) (by decide) (by decide)⟩
  have hsplit := split_semi _ ps h59 (fun p hp => (hps p hp).no_semi)
  have hf := fields_two _ _ hsp hhp (by simp) (hostPortText_ne_nil hne)
  have h47 := split_slash3 pn pv tr (hpn'.get 47) (hpv'.get 47) (htr'.get 47)
  have h58 := split_hostPortText ho po (hho'.get 58) hp0
  have hkv := map_parseKV_encode ps (fun p hp => (hps p hp).1)
  unfold parseViaParam
  rw [e, hsplit]
  simp only [hf, h47, h58, hkv]
  by_cases h0 : po = 0
  · simp [h0]
  · simp [h0, atoi_itoa hp0 (by omega : po ≤ 9223372036854775807)]

theorem C14_via_param_reencode (vp : ViaParam) (h : ViaDom vp) :
    (parseViaParam vp.encode).map ViaParam.encode = some vp.encode := by rw [C14_via_param vp h]; rfl

/-- `branch` / `received` / `rport` (any name): the value of the FIRST parameter with that key …
(an `rport` flag without value yields the empty value). -/
theorem C14_via_get_param (vp : ViaParam) (pre post : List KeyValue) (name v : Bytes)
    (hp : vp.params = pre ++ { key := name, value := v } :: post) (hpre : ∀ q ∈ pre, q.key ≠ name) :
    getParam vp.params name = some v := by rw [hp]; exact getParam_first pre post name v hpre

/-- … and nothing when no parameter has that key. -/
theorem C14_via_get_param_absent (vp : ViaParam) (name : Bytes) (h : ∀ q ∈ vp.params, q.key ≠ name) :
    getParam vp.params name = none := getParam_none vp.params name h

theorem C14_via_port_explicit (vp : ViaParam) (h : vp.port ≠ 0) : vp.getPort = vp.port := by
  simp [ViaParam.getPort, h]

theorem C14_via_port_default (vp : ViaParam) (h : vp.port = 0) :
    vp.getPort = if vp.transport = str "TLS" then 5061 else 5060 := by
  simp [ViaParam.getPort, h]

/-- Decoding extracts exactly what the text denotes: transport, host, port, effective port and the
`branch`, `received`, `rport` parameters of the decoded element are those of the value. -/
theorem C14_via_extracts (vp : ViaParam) (h : ViaDom vp) :
    ∃ d, parseViaParam vp.encode = some d ∧ d.protoName = vp.protoName ∧
      d.protoVersion = vp.protoVersion ∧ d.transport = vp.transport ∧ d.host = vp.host ∧
      d.port = vp.port ∧ d.getPort = vp.getPort ∧ d.params = vp.params ∧
      getParam d.params (str "branch") = getParam vp.params (str "branch") ∧
      getParam d.params (str "received") = getParam vp.params (str "received") ∧
      getParam d.params (str "rport") = getParam vp.params (str "rport") :=
  ⟨vp, C14_via_param vp h, rfl, rfl, rfl, rfl, rfl, rfl, rfl, rfl, rfl, rfl⟩

/-- non-vacuity: `SIP/2.0/TLS proxy.example.com:5071;branch=z9hG4bK%7e1;received=192.0.2.1;rport` -/
def exampleVia : ViaParam :=
  { protoName := str "SIP", protoVersion := str "2.0", transport := str "TLS",
    host := str "proxy.example.com", port := 5071,
    params := [⟨str "branch", str "z9hG4bK%7e1"⟩, ⟨str "received", str "192.0.2.1"⟩, ⟨str "rport", []⟩] }

example : ViaDom exampleVia := by constructor <;> decide +kernel
example : parseViaParam (str "SIP/2.0/TLS proxy.example.com:5071;branch=z9hG4bK%7e1;received=192.0.2.1;rport")
    = some exampleVia := by decide +kernel
example : (parseViaParam (str "SIP/2.0/TLS h.example;rport=5555;branch=a;branch=b")).map
    (fun d => (d.host, d.port, d.getPort)) = some (str "h.example", 0, 5061) := by decide +kernel
example : (parseViaParam (str "SIP/2.0/TLS h.example;rport=5555;branch=a;branch=b")).map
    (fun d => (getParam d.params (str "branch"), getParam d.params (str "rport"),
      getParam d.params (str "received"))) = some (some (str "a"), some (str "5555"), none) := by
  decide +kernel

example : getParam exampleVia.params (str "received") = some (str "192.0.2.1") :=
  C14_via_get_param exampleVia [⟨str "branch", str "z9hG4bK%7e1"⟩] [⟨str "rport", []⟩] (str "received")
    (str "192.0.2.1") rfl (by decide +kernel)
example : getParam exampleVia.params (str "maddr") = none :=
  C14_via_get_param_absent exampleVia (str "maddr") (by decide +kernel)
example : exampleVia.getPort = 5071 := C14_via_port_explicit exampleVia (by decide)
example : ({ exampleVia with port := 0 } : ViaParam).getPort = 5061 := by
  rw [C14_via_port_default _ rfl]; decide +kernel

/-- An element of a comma-separated Via list must in addition be free of ',' (44). -/
structure ViaElemDom (vp : ViaParam) : Prop where
  dom : ViaDom vp
  no_comma : (44 : UInt8) ∉ vp.protoName ∧ (44 : UInt8) ∉ vp.protoVersion ∧ (44 : UInt8) ∉ vp.transport ∧
    (44 : UInt8) ∉ vp.host ∧ ∀ p ∈ vp.params, (44 : UInt8) ∉ p.key ∧ (44 : UInt8) ∉ p.value

theorem ViaElemDom.text_no_comma {vp : ViaParam} (h : ViaElemDom vp) : (44 : UInt8) ∉ vp.encode :=
  not_mem_viaparam_encode vp 44 h.dom.port.1 (by decide) (by decide) h.no_comma.1 h.no_comma.2.1
    h.no_comma.2.2.1 h.no_comma.2.2.2.1 h.no_comma.2.2.2.2

/-- A Via header value with several elements: every element reappears, in order. -/
theorem C14_via_list (vs : List ViaParam) (hne : vs ≠ []) (h : ∀ v ∈ vs, ViaElemDom v) :
    parseVia (encodeVia vs) = some vs :=
  commaList_roundtrip parseViaParam ViaParam.encode vs hne
    (fun v hv => ⟨(h v hv).text_no_comma, C14_via_param v (h v hv).dom⟩)

theorem C14_via_list_reencode (vs : List ViaParam) (hne : vs ≠ []) (h : ∀ v ∈ vs, ViaElemDom v) :
    (parseVia (encodeVia vs)).map encodeVia = some (encodeVia vs) := by
  rw [C14_via_list vs hne h]; rfl

example : ViaElemDom exampleVia := ⟨by constructor <;> decide +kernel, by decide +kernel⟩
example : parseVia (str "SIP/2.0/UDP a.example;branch=1,SIP/2.0/TCP b.example:5070;branch=2;rport")
    = some [⟨str "SIP", str "2.0", str "UDP", str "a.example", 0, [⟨str "branch", str "1"⟩]⟩,
            ⟨str "SIP", str "2.0", str "TCP", str "b.example", 5070, [⟨str "branch", str "2"⟩, ⟨str "rport", []⟩]⟩] := by
  decide +kernel

/-! ## 5. Route / Record-Route, From / To, CSeq -/

/-- Domain of a generic header parameter (`;tag=…`, `;lr`): as `ParamOK`, and the key is non-empty
(`ParseGenericParam` rejects the empty piece). -/
def GenParamOK (p : KeyValue) : Prop := ParamOK p ∧ p.key ≠ []

instance (p : KeyValue) : Decidable (GenParamOK p) := by unfold GenParamOK; infer_instance

theorem GenParamOK.lemma_form {ps : List KeyValue} (h : ∀ p ∈ ps, GenParamOK p) :
    ∀ x ∈ ps, (61 : UInt8) ∉ x.key ∧ x.key ≠ [] ∧ (59 : UInt8) ∉ x.encode :=
  fun x hx => ⟨(h x hx).1.1, (h x hx).2, (h x hx).1.no_semi⟩

/-- Domain of one Route / Record-Route element `display<uri>;params`. `parseRouteParam` trims
white space around the parameter text, so the text of the LAST parameter must not end in a
white-space rune (`EndsClean`; any ASCII non-blank last byte will do: `noSpaceEnd_of_ascii`). -/
structure RouteDom (r : RouteParam) : Prop where
  nameAddr : NameAddrDom r.nameAddr
  params : ∀ p ∈ r.params, GenParamOK p
  tail : ∀ p, r.params.getLast? = some p → EndsClean p.encode

theorem C14_route_param (r : RouteParam) (h : RouteDom r) : parseRouteParam r.encode = some r := by
  unfold RouteParam.encode
  exact parseRouteParam_text r.nameAddr r.params (C14_name_addr _ h.nameAddr)
    (h.nameAddr.display.get 62) h.nameAddr.addr_text (GenParamOK.lemma_form h.params) h.tail

theorem C14_route_param_reencode (r : RouteParam) (h : RouteDom r) :
    (parseRouteParam r.encode).map RouteParam.encode = some r.encode := by
  rw [C14_route_param r h]; rfl

/-- An element of a comma-separated Route list must in addition be free of ',' (44); for the URI
this is stated on its text (`not_mem_sipuri_encode` reduces it to the components). -/
structure RouteElemDom (r : RouteParam) : Prop where
  dom : RouteDom r
  no_comma : (44 : UInt8) ∉ r.nameAddr.display ∧ (44 : UInt8) ∉ r.nameAddr.addr.encode ∧
    ∀ p ∈ r.params, (44 : UInt8) ∉ p.key ∧ (44 : UInt8) ∉ p.value

theorem RouteElemDom.text_no_comma {r : RouteParam} (h : RouteElemDom r) : (44 : UInt8) ∉ r.encode := by
  simp only [RouteParam.encode, List.mem_append, not_or]
  exact ⟨not_mem_nameaddr_encode _ 44 (by decide) (by decide) h.no_comma.1 h.no_comma.2.1,
    not_mem_encodeSemiParams (by decide) (by decide) h.no_comma.2.2⟩

/-- A Route / Record-Route header value: every element reappears, in order. -/
theorem C14_route_list (rs : List RouteParam) (hne : rs ≠ []) (h : ∀ r ∈ rs, RouteElemDom r) :
    parseRoute (encodeRoute rs) = some rs :=
  commaList_roundtrip parseRouteParam RouteParam.encode rs hne
    (fun r hr => ⟨(h r hr).text_no_comma, C14_route_param r (h r hr).dom⟩)

theorem C14_route_list_reencode (rs : List RouteParam) (hne : rs ≠ []) (h : ∀ r ∈ rs, RouteElemDom r) :
    (parseRoute (encodeRoute rs)).map encodeRoute = some (encodeRoute rs) := by
  rw [C14_route_list rs hne h]; rfl

/-- non-vacuity: `<sip:p1.example.com;lr>,<sips:alice:p%40w@example.com:5070;transport=tls;lr?subject=a%20b&x=>;x=%20y` -/
def exampleRoute1 : RouteParam :=
  { nameAddr := { display := [], addr := .sip exampleUri1 }, params := [] }
def exampleRoute2 : RouteParam :=
  { nameAddr := { display := [], addr := .sip exampleUri }, params := [⟨str "x", str "%20y"⟩] }

example : RouteElemDom exampleRoute1 := by
  refine ⟨⟨⟨by decide, ?_, by decide +kernel⟩, by decide, by decide⟩, by decide +kernel⟩
  exact (by constructor <;> decide +kernel : UriDom exampleUri1)
example : RouteElemDom exampleRoute2 := by
  refine ⟨⟨⟨by decide, ?_, by decide +kernel⟩, by decide +kernel, by decide +kernel⟩, by decide +kernel⟩
  exact (by constructor <;> decide +kernel : UriDom exampleUri)
example : parseRoute (str "<sip:p1.example.com;lr>,<sips:alice:p%40w@example.com:5070;transport=tls;lr?subject=a%20b&x=>;x=%20y")
    = some [exampleRoute1, exampleRoute2] := by decide +kernel

/-- Domain of a From / To value. Either the name-addr form `display<uri>;params`, or the bare
addr-spec form `uri;params`; in the latter the URI text must contain neither ';' (it would start
the header parameters: a bare SIP URI therefore has no URI parameters) nor '<', and the header
parameters no '<'. -/
inductive FromToDom : FromTo → Prop
  | nameAddr (na : NameAddr) (ps : List KeyValue) (hna : NameAddrDom na) (hps : ∀ p ∈ ps, GenParamOK p) :
      FromToDom { nameAddr := some na, addrSpec := none, params := ps }
  | addrSpec (a : AddrSpec) (ps : List KeyValue) (ha : AddrDom a)
      (htext : (59 : UInt8) ∉ a.encode ∧ (60 : UInt8) ∉ a.encode)
      (hps : ∀ p ∈ ps, GenParamOK p ∧ (60 : UInt8) ∉ p.key ∧ (60 : UInt8) ∉ p.value) :
      FromToDom { nameAddr := none, addrSpec := some a, params := ps }

/-- From / To are written back literally: whatever text decodes comes back byte for byte (white space
around ';' and '=', quoted display names, any URI). No domain restriction. -/
theorem C14_from_to_lossless {s : Bytes} {f : FromTo} (h : parseFromTo s = some f) : f.encode = s :=
  parseFromTo_encode h

theorem C14_from_to_reencode (s : Bytes) :
    (parseFromTo s).map FromTo.encode = (parseFromTo s).map (fun _ => s) := by
  cases h : parseFromTo s with
  | none => rfl
  | some f => simp [parseFromTo_encode h]

/-- Decoding extracts exactly the structure the text denotes (and keeps the text). -/
theorem C14_from_to (f : FromTo) (h : FromToDom f) :
    parseFromTo f.encodeCore = some { f with text := f.encodeCore } := by
  apply parseFromTo_core
  cases h with
  | nameAddr na ps hna hps =>
    simp only [FromTo.encodeCore]
    exact parseFromTo_nameaddr_text na ps (C14_name_addr na hna) (hna.display.get 60)
      (hna.display.get 62) hna.addr_text (GenParamOK.lemma_form hps)
  | addrSpec a ps ha htext hps =>
    simp only [FromTo.encodeCore]
    exact parseFromTo_addrspec_text a ps (C14_addr_spec a ha) htext.2 htext.1
      (GenParamOK.lemma_form (fun p hp => (hps p hp).1)) (fun p hp => (hps p hp).2)

/-- `tag`: the value of the first `tag` parameter, nothing when there is none; the address is the
one written (whichever form). -/
theorem C14_from_to_tag (f : FromTo) (pre post : List KeyValue) (v : Bytes)
    (hp : f.params = pre ++ { key := str "tag", value := v } :: post)
    (hpre : ∀ q ∈ pre, q.key ≠ str "tag") : f.getTag = some v := by
  unfold FromTo.getTag; rw [hp]; exact getParam_first pre post _ v hpre

theorem C14_from_to_tag_absent (f : FromTo) (h : ∀ q ∈ f.params, q.key ≠ str "tag") :
    f.getTag = none := getParam_none f.params _ h

theorem C14_from_to_extracts (f : FromTo) (h : FromToDom f) :
    ∃ d, parseFromTo f.encodeCore = some d ∧ d.getTag = f.getTag ∧ d.getAddrSpec = f.getAddrSpec ∧
      d.params = f.params ∧ d.encode = f.encodeCore :=
  ⟨_, C14_from_to f h, rfl, rfl, rfl, parseFromTo_encode (C14_from_to f h)⟩

/-- non-vacuity: `"Alice %22A%22" <sips:alice:…>;tag=a%3Bb;x` and `tel:+1-201-555-0123;tag=77` -/
example : FromToDom { nameAddr := some { display := str "\"Alice %22A%22\" ", addr := .sip exampleUri },
                      addrSpec := none, params := [⟨str "tag", str "a%3Bb"⟩, ⟨str "x", []⟩] } := by
  refine .nameAddr _ _ ⟨by decide +kernel, ?_, by decide +kernel⟩ (by decide +kernel)
  exact (by constructor <;> decide +kernel : UriDom exampleUri)
example : FromToDom { nameAddr := none, addrSpec := some (.abs (str "tel:+1-201-555-0123")),
                      params := [⟨str "tag", str "77"⟩] } := by
  refine .addrSpec _ _ ?_ (by decide +kernel) (by decide +kernel)
  show hasPrefix sipPrefix _ = false ∧ hasPrefix sipsPrefix _ = false
  decide +kernel
/-- white space before ';' and around '=': the structure is extracted, the text is kept -/
example : (parseFromTo (str "\"A. B.\" <sip:alice@ua1.test>\t;tag=ft1")).map (fun d => (d.getTag, d.encode))
    = some (some (str "ft1"), str "\"A. B.\" <sip:alice@ua1.test>\t;tag=ft1") := by decide +kernel
example : (parseFromTo (str "Bob <sip:bob@b.example:5062>;tag=a%3Bb;tag=2")).map
    (fun d => (d.getTag, d.getAddrSpec.bind AddrSpec.sipURI? |>.map (fun u => (u.user, u.host, u.port))))
    = some (some (str "a%3Bb"), some (str "bob", str "b.example", 5062)) := by decide +kernel

example : (⟨none, none, [⟨str "x", []⟩, ⟨str "tag", str "a%3Bb"⟩, ⟨str "tag", str "2"⟩], []⟩ : FromTo).getTag
    = some (str "a%3Bb") :=
  C14_from_to_tag _ [⟨str "x", []⟩] [⟨str "tag", str "2"⟩] (str "a%3Bb") rfl (by decide +kernel)
example : (⟨none, none, [⟨str "x", []⟩], []⟩ : FromTo).getTag = none :=
  C14_from_to_tag_absent _ (by decide +kernel)

/-- CSeq is re-encoded literally: whatever text decodes comes back byte for byte (leading zeros, wider
white space between number and method included). No domain restriction. -/
theorem C14_cseq_lossless {s : Bytes} {c : CSeq} (h : parseCSeq s = some c) : c.encode = s :=
  parseCSeq_encode h

theorem C14_cseq_reencode (s : Bytes) :
    (parseCSeq s).map CSeq.encode = (parseCSeq s).map (fun _ => s) := by
  cases h : parseCSeq s with
  | none => rfl
  | some c => simp [C14_cseq_lossless h]

/-- Domain of a canonical CSeq text: the number Go prints and re-reads (int32 range is what SIP allows),
the method one non-empty word without white space. -/
structure CSeqDom (n : Int) (m : Bytes) : Prop where
  seq : 0 ≤ n ∧ n ≤ 2147483647
  method : m ≠ [] ∧ Plain m

/-- decoding extracts exactly the number and the method the text denotes -/
theorem C14_cseq (n : Int) (m : Bytes) (h : CSeqDom n m) :
    parseCSeq (itoa n ++ [32] ++ m) = some { seq := n, method := m, text := itoa n ++ [32] ++ m } := by
  unfold parseCSeq
  rw [fields_two (itoa n) m (plain_itoa h.seq.1) h.method.2 (itoa_ne_nil h.seq.1) h.method.1]
  simp only [atoi_itoa h.seq.1 (by have := h.seq.2; omega), Option.map_some]

example : CSeqDom 2147483647 (str "INVITE") := by constructor <;> decide +kernel
example : parseCSeq (str "314159 INVITE") = some { seq := 314159, method := str "INVITE", text := str "314159 INVITE" } := by
  decide +kernel
/-- leading zeros and a tab: number and method are extracted, the text is kept -/
example : (parseCSeq (str "007\tINVITE")).map (fun c => (c.seq, c.method, c.encode)) =
    some (7, str "INVITE", str "007\tINVITE") := by decide +kernel

/-! ## outside the domains: what the code normalises

Kernel-checked facts about texts no value of the domains above produces. None contradicts the
theorems; they delimit them (and are the places where a forwarded header can differ from the
received one). -/

/-- a port that is not a number is dropped (the Atoi error is ignored) -/
example : (parseSipURI (str "sip:h.example:abc")).map SIPURI.encode = some (str "sip:h.example") := by
  decide +kernel
/-- a signed port loses its sign -/
example : (parseSipURI (str "sip:h.example:+5")).map SIPURI.encode = some (str "sip:h.example:5") := by
  decide +kernel
/-- an empty user-info loses its '@'; a password without user disappears -/
example : (parseSipURI (str "sip:@h.example")).map SIPURI.encode = some (str "sip:h.example") ∧
    (parseSipURI (str "sip::pw@h.example")).map SIPURI.encode = some (str "sip:h.example") := by
  decide +kernel
/-- an IPv6 reference as host is cut at its first ':' and the rest is lost (URI); a Via element with
one is rejected outright (three ':'-pieces) -/
example : (parseSipURI (str "sip:[2001:db8::1]:5060")).map SIPURI.encode = some (str "sip:[2001") ∧
    parseViaParam (str "SIP/2.0/UDP [2001:db8::1]:5060") = none := by
  decide +kernel
/-- `;x=` becomes `;x` (`C14_kv_reencode_any`) -/
example : (parseSipURI (str "sip:h.example;x=")).map SIPURI.encode = some (str "sip:h.example;x") := by
  decide +kernel
/-- the URI header list is cut at the first piece without '=' -/
example : (parseSipURI (str "sip:h.example?a=1&b&c=3")).map SIPURI.encode
    = some (str "sip:h.example?a=1") := by decide +kernel
/-- several blanks between sent-protocol and sent-by become one -/
example : (parseViaParam (str "SIP/2.0/UDP  \th.example")).map ViaParam.encode
    = some (str "SIP/2.0/UDP h.example") := by decide +kernel

end Props.C14
