/-
C14 — Headers the proxy decodes are re-encoded without loss or distortion.
-/
import Sip.Codec
import Lemmas.Bytes
open GoStd Sip Lemmas

namespace Props.C14

/-- A key/value with a non-empty value and no '=' in the key survives encode/decode. -/
theorem kv_roundtrip_valued (k v : Bytes) (hk : (61 : UInt8) ∉ k) (hv : v ≠ []) :
    parseKV (KeyValue.encode { key := k, value := v }) = { key := k, value := v } := by
  have hlen : v.length > 0 := by cases v <;> simp_all
  simp only [KeyValue.encode, hlen, ↓reduceIte, parseKV, List.append_assoc, List.singleton_append,
    cut_append_of_not_mem 61 k v hk]

end Props.C14
