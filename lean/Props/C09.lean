import GoStd.Bytes
namespace Props.C09
end Props.C09
