/-
C09 — Concurrent listeners and backend changes never corrupt or kill the proxy.

"With several listeners of one service receiving traffic simultaneously over UDP and TCP while
backends are added and removed, the proxy neither crashes nor deadlocks nor loses messages: every
request still reaches exactly one backend of its listener and every response returns to its
sender. No two threads of the proxy touch shared routing state without synchronisation."

This file is the GENERAL THEORY behind the last sentence (and the lock-order part of "nor
deadlocks"). The tie to the Go code is the regenerated ACCESS TABLE: every read/write of a field
of a shared structure with the set of mutexes syntactically held there. Model: Side.Lockset
(threads = straight-line lists of `acq l | rel l | access x w`, Go `sync.Mutex` semantics, any
interleaving, any number of threads and steps).

  * `held_sound`, `holder_complete`, `mutual_exclusion`: the syntactic held-set of a
    well-bracketed program IS the set of locks the thread really holds, in every reachable state;
  * `C09_disciplined_no_race` (MAIN): well-bracketed + lock-set discipline ⇒ no reachable state
    is a data race;
  * `C09_undisciplined_races`, `C09_unbracketed_races`: both hypotheses are needed;
  * `C09_no_lock_cycle_no_deadlock`, `C09_no_total_deadlock`, `C09_progress`: a rank that
    increases along nested acquisitions excludes every wait-for cycle, and (with well-bracketed,
    balanced programs) the system can always move until every thread has finished;
  * `C09_table_disciplined` (+ `…_roles`, `…_all`): a table that passes the Boolean check and
    describes the system makes the system `Disciplined`.

What is NOT modelled: channels, `sync.RWMutex` read-sharing (treat `RLock` as `Lock`: sound for
race freedom), atomics, goroutine creation (all threads exist from the start: more interleavings,
so sound), branching (one thread per path).
-/
import Side.Lockset
import Lemmas.Lockset
open Side.Lockset Lemmas.Lockset
set_option autoImplicit false

namespace Props.C09

/-! ## The syntactic held-set is the real one -/

/-- `held_sound`: in every reachable state of a well-bracketed system, a lock in the syntactic
held-set of thread `t` at its program counter is really held by `t`. -/
theorem held_sound {sys : Sys} (hwb : WellBracketed sys) {σ : State} (hr : Reachable sys σ) :
    ∀ t l, l ∈ held (progOf sys t) (σ.pc t) → σ.holder l = some t := by
  induction hr with
  | init => intro t l hl; simp [init] at hl
  | @step σ σ' _ hs ih =>
    intro t l hl
    cases hs with
    | acq u l' hn hfree =>
      simp only [advance] at hl ⊢
      by_cases htu : t = u
      · subst htu
        rw [upd_same, held_succ hn, mem_stepHeld_acq] at hl
        rcases hl with rfl | hl
        · simp
        · have := ih t l hl
          have hne : l ≠ l' := by intro h; subst h; rw [hfree] at this; cases this
          rw [upd_other _ _ hne]; exact this
      · rw [upd_other _ _ htu] at hl
        have := ih t l hl
        have hne : l ≠ l' := by intro h; subst h; rw [hfree] at this; cases this
        rw [upd_other _ _ hne]; exact this
    | rel u l' v hn hv =>
      simp only [advance] at hl ⊢
      have hmine : σ.holder l' = some u :=
        ih u l' (((wellBracketed_progOf hwb u) (σ.pc u) l').2 hn)
      by_cases htu : t = u
      · subst htu
        rw [upd_same, held_succ hn, mem_stepHeld_rel] at hl
        rw [upd_other _ _ hl.2]; exact ih t l hl.1
      · rw [upd_other _ _ htu] at hl
        have := ih t l hl
        have hne : l ≠ l' := by
          intro h; subst h; rw [hmine] at this; exact htu (Option.some.inj this).symm
        rw [upd_other _ _ hne]; exact this
    | access u x w hn =>
      simp only [advance] at hl ⊢
      by_cases htu : t = u
      · subst htu
        rw [upd_same, held_succ hn, stepHeld_access] at hl
        exact ih t l hl
      · rw [upd_other _ _ htu] at hl
        exact ih t l hl

/-- The converse (no hypothesis on the programs): a lock whose recorded holder is `u` is in the
syntactic held-set of `u`. In particular only threads of the system ever hold locks. -/
theorem holder_complete {sys : Sys} {σ : State} (hr : Reachable sys σ) :
    ∀ l u, σ.holder l = some u → l ∈ held (progOf sys u) (σ.pc u) := by
  induction hr with
  | init => intro l u h; simp [init] at h
  | @step σ σ' _ hs ih =>
    intro l u h
    cases hs with
    | acq v l' hn hfree =>
      simp only [advance] at h ⊢
      by_cases hl : l = l'
      · subst hl
        rw [upd_same] at h
        cases h
        rw [upd_same, held_succ hn, mem_stepHeld_acq]; exact Or.inl rfl
      · rw [upd_other _ _ hl] at h
        have := ih l u h
        by_cases huv : u = v
        · subst huv
          rw [upd_same, held_succ hn, mem_stepHeld_acq]; exact Or.inr this
        · rw [upd_other _ _ huv]; exact this
    | rel v l' w hn hw =>
      simp only [advance] at h ⊢
      by_cases hl : l = l'
      · subst hl; rw [upd_same] at h; cases h
      · rw [upd_other _ _ hl] at h
        have := ih l u h
        by_cases huv : u = v
        · subst huv
          rw [upd_same, held_succ hn, mem_stepHeld_rel]; exact ⟨this, hl⟩
        · rw [upd_other _ _ huv]; exact this
    | access v x w hn =>
      simp only [advance] at h ⊢
      have := ih l u h
      by_cases huv : u = v
      · subst huv
        rw [upd_same, held_succ hn, stepHeld_access]; exact this
      · rw [upd_other _ _ huv]; exact this

/-- In a well-bracketed system the held-set and the holder map say the same thing. -/
theorem held_iff_holder {sys : Sys} (hwb : WellBracketed sys) {σ : State} (hr : Reachable sys σ)
    (t : ThreadId) (l : Lock) : l ∈ held (progOf sys t) (σ.pc t) ↔ σ.holder l = some t :=
  ⟨held_sound hwb hr t l, holder_complete hr l t⟩

/-- `mutual_exclusion`, stated for the held-sets: in every reachable state two different threads
never both have `l` in their syntactic held-sets. -/
theorem mutual_exclusion {sys : Sys} (hwb : WellBracketed sys) {σ : State} (hr : Reachable sys σ)
    {t₁ t₂ : ThreadId} (hne : t₁ ≠ t₂) (l : Lock)
    (h₁ : l ∈ held (progOf sys t₁) (σ.pc t₁)) : l ∉ held (progOf sys t₂) (σ.pc t₂) := by
  intro h₂
  have e₁ := held_sound hwb hr t₁ l h₁
  have e₂ := held_sound hwb hr t₂ l h₂
  rw [e₁] at e₂
  exact hne (Option.some.inj e₂)

/-- In a well-bracketed system every `rel` that comes up is executed by the holder, hence is
enabled: the model's choice for "unlock of a mutex one does not hold" never matters. -/
theorem rel_by_holder {sys : Sys} (hwb : WellBracketed sys) {σ : State} (hr : Reachable sys σ)
    {t : ThreadId} {l : Lock} (hn : next sys σ t = some (.rel l)) : σ.holder l = some t :=
  held_sound hwb hr t l (((wellBracketed_progOf hwb t) (σ.pc t) l).2 hn)

/-- …and every `acq` that comes up is for a lock the thread does not already hold (no
self-deadlock). -/
theorem acq_not_self {sys : Sys} (hwb : WellBracketed sys) {σ : State} (hr : Reachable sys σ)
    {t : ThreadId} {l : Lock} (hn : next sys σ t = some (.acq l)) : σ.holder l ≠ some t := by
  intro h
  exact ((wellBracketed_progOf hwb t) (σ.pc t) l).1 hn (holder_complete hr l t h)

/-! ## Main theorem -/

/-- MAIN THEOREM. If every program is well-bracketed and the system obeys the lock-set discipline
(purely syntactic conditions on the programs), then no reachable state — any number of threads,
any number of steps, any interleaving — is a data race. -/
theorem C09_disciplined_no_race {sys : Sys} (hwb : WellBracketed sys) (hd : Disciplined sys) :
    ∀ σ, Reachable sys σ → ¬ DataRace sys σ := by
  intro σ hr ⟨t₁, t₂, x, w₁, w₂, hne, h₁, h₂, hw⟩
  obtain ⟨l, hl₁, hl₂⟩ := hd t₁ t₂ (σ.pc t₁) (σ.pc t₂) x w₁ w₂ hne h₁ h₂ hw
  exact mutual_exclusion hwb hr hne l hl₁ hl₂

/-! ## Table-shaped facts -/

theorem rowsOK_share {r₁ r₂ : AccessRow} (h : rowsOK r₁ r₂ = true) (hloc : r₁.loc = r₂.loc)
    (hw : (r₁.write || r₂.write) = true) : ∃ l, l ∈ r₁.locks ∧ l ∈ r₂.locks := by
  unfold rowsOK at h
  simp only [Bool.or_eq_true, bne_iff_ne, ne_eq, Bool.not_eq_true', List.any_eq_true,
    List.contains_iff_mem] at h
  rcases h with (h | h) | h
  · exact absurd hloc h
  · have hw' : (r₁.write || r₂.write) = true := hw
    rw [h] at hw'; cases hw'
  · obtain ⟨l, h₁, h₂⟩ := h
    exact ⟨l, h₁, h₂⟩

/-- General bridge (goroutine roles): the table passes the Boolean check, every access position
of thread `t` is described by a row of role `role t`, and roles not marked `multi` have a single
instance. Then the system is `Disciplined`. -/
theorem C09_table_disciplined_roles {multi : Nat → Bool} {role : ThreadId → Nat}
    {rows : List AccessRow} {sys : Sys}
    (htab : TableDisciplinedRoles multi rows = true) (hdesc : DescribesRoles role rows sys)
    (hsingle : SingleInstance multi role sys) : Disciplined sys := by
  intro t₁ t₂ p₁ p₂ x w₁ w₂ hne h₁ h₂ hw
  obtain ⟨r₁, hr₁, hx₁, hw₁, ht₁, hl₁⟩ := hdesc t₁ p₁ x w₁ h₁
  obtain ⟨r₂, hr₂, hx₂, hw₂, ht₂, hl₂⟩ := hdesc t₂ p₂ x w₂ h₂
  unfold TableDisciplinedRoles at htab
  rw [List.all_eq_true] at htab
  have := htab r₁ hr₁
  rw [List.all_eq_true] at this
  have hok := this r₂ hr₂
  rw [Bool.or_eq_true] at hok
  have hshare : rowsOK r₁ r₂ = true := by
    rcases hok with hsame | hok
    · exfalso
      rw [Bool.and_eq_true] at hsame
      obtain ⟨hs, hm⟩ := hsame
      have hs' : r₁.thread = r₂.thread := by simpa using hs
      have hm' : multi r₁.thread = false := by simpa using hm
      rw [ht₁] at hm'
      exact hne (hsingle t₁ t₂ (lt_length_of_getElem? h₁) (lt_length_of_getElem? h₂)
        (by rw [← ht₁, ← ht₂]; exact hs') hm')
    · exact hok
  obtain ⟨l, hm₁, hm₂⟩ := rowsOK_share hshare (by rw [hx₁, hx₂]) (by rw [hw₁, hw₂]; exact hw)
  exact ⟨l, hl₁ l hm₁, hl₂ l hm₂⟩

/-- BRIDGE. A system whose every access position is described by a row of the table (with that
thread's id) is `Disciplined` when `TableDisciplined rows = true`. -/
theorem C09_table_disciplined {rows : List AccessRow} {sys : Sys}
    (htab : TableDisciplined rows = true) (hdesc : Describes rows sys) : Disciplined sys := by
  apply C09_table_disciplined_roles (multi := fun _ => false) (role := fun t => t) (rows := rows)
  · unfold TableDisciplinedRoles
    unfold TableDisciplined at htab
    simpa using htab
  · exact hdesc
  · intro t₁ t₂ _ _ h _; exact h

/-- Bridge for code that may run in any number of goroutines: the `thread` column is ignored,
every pair of rows (a row with itself included) is checked. -/
theorem C09_table_disciplined_all {rows : List AccessRow} {sys : Sys}
    (htab : TableDisciplinedAll rows = true) (hdesc : DescribesAny rows sys) : Disciplined sys := by
  apply C09_table_disciplined_roles (multi := fun _ => true) (role := fun _ => 0)
    (rows := rows.map fun r => { r with thread := 0 })
  · unfold TableDisciplinedRoles
    unfold TableDisciplinedAll at htab
    simpa [rowsOK] using htab
  · intro t pc x w h
    obtain ⟨r, hr, hx, hw, hl⟩ := hdesc t pc x w h
    exact ⟨{ r with thread := 0 }, List.mem_map.mpr ⟨r, hr, rfl⟩, hx, hw, rfl, hl⟩
  · intro t₁ t₂ _ _ _ h; cases h

theorem describesAny_of_roles {role : ThreadId → Nat} {rows : List AccessRow} {sys : Sys}
    (h : DescribesRoles role rows sys) : DescribesAny rows sys := by
  intro t pc x w ha
  obtain ⟨r, hr, hx, hw, _, hl⟩ := h t pc x w ha
  exact ⟨r, hr, hx, hw, hl⟩

/-- Table check + description + well-bracketed programs ⇒ no reachable data race. -/
theorem C09_table_no_race {rows : List AccessRow} {sys : Sys} (hwb : WellBracketed sys)
    (htab : TableDisciplined rows = true) (hdesc : Describes rows sys) :
    ∀ σ, Reachable sys σ → ¬ DataRace sys σ :=
  C09_disciplined_no_race hwb (C09_table_disciplined htab hdesc)

/-- The table computed from the programs themselves decides the discipline (sound checker for
concrete systems). -/
theorem disciplinedB_sound {sys : Sys} (h : disciplinedB sys = true) : Disciplined sys :=
  C09_table_disciplined h (sysRows_describes sys)

/-- …and it is complete: the lock-set discipline is decidable. -/
theorem disciplinedB_iff (sys : Sys) : disciplinedB sys = true ↔ Disciplined sys := by
  refine ⟨disciplinedB_sound, ?_⟩
  intro hd
  unfold disciplinedB TableDisciplined
  rw [List.all_eq_true]
  intro r₁ h₁
  rw [List.all_eq_true]
  intro r₂ h₂
  obtain ⟨p₁, ha₁, hl₁⟩ := of_mem_sysRows h₁
  obtain ⟨p₂, ha₂, hl₂⟩ := of_mem_sysRows h₂
  by_cases ht : r₁.thread = r₂.thread
  · simp [ht]
  · by_cases hx : r₁.loc = r₂.loc
    · by_cases hw : (r₁.write || r₂.write) = true
      · rw [← hx] at ha₂
        obtain ⟨l, hm₁, hm₂⟩ := hd _ _ p₁ p₂ _ _ _ ht ha₁ ha₂ hw
        have : rowsOK r₁ r₂ = true := by
          unfold rowsOK
          simp only [Bool.or_eq_true, List.any_eq_true, List.contains_iff_mem]
          exact Or.inr ⟨l, hl₁ ▸ hm₁, hl₂ ▸ hm₂⟩
        simp [this]
      · have : rowsOK r₁ r₂ = true := by
          unfold rowsOK
          simp only [Bool.or_eq_true, Bool.not_eq_true']
          exact Or.inl (Or.inr (by simpa using hw))
        simp [this]
    · have : rowsOK r₁ r₂ = true := by
        unfold rowsOK
        simp only [Bool.or_eq_true, bne_iff_ne]
        exact Or.inl (Or.inl hx)
      simp [this]

instance (sys : Sys) : Decidable (Disciplined sys) :=
  decidable_of_iff _ (disciplinedB_iff sys)

/-! ## Lock order and deadlock -/

/-- rank of the lock a thread is about to acquire (0 if its next action is not an `acq`) -/
def waitRank (rank : Lock → Nat) (sys : Sys) (σ : State) (t : ThreadId) : Nat :=
  match next sys σ t with
  | some (.acq l) => rank l
  | _ => 0

/-- If the "acquires `l₂` while holding `l₁`" relation is acyclic — witnessed by a `rank` that
strictly increases along nested acquisitions — then no reachable state contains a closed
wait-for set (every thread of the set blocked on a lock held by a thread of the set). No
assumption on bracketing is needed. -/
theorem C09_no_lock_cycle_no_deadlock {sys : Sys} {rank : Lock → Nat} (ho : LockOrder sys rank)
    {σ : State} (hr : Reachable sys σ) : ¬ Deadlock sys σ := by
  intro ⟨S, hne, hS⟩
  obtain ⟨m, hm, hmax⟩ := exists_max (waitRank rank sys σ) S hne
  obtain ⟨l, u, ⟨hnl, hhold⟩, hu⟩ := hS m hm
  obtain ⟨l', u', ⟨hnl', _⟩, _⟩ := hS u hu
  have hnest : Nested sys l l' := ⟨u, σ.pc u, hnl', holder_complete hr l u hhold⟩
  have hlt := ho l l' hnest
  have := hmax u hu
  simp only [waitRank, hnl, hnl'] at this
  exact Nat.lt_irrefl _ (Nat.lt_of_lt_of_le hlt this)

/-- The deadlock of the property text: never are all unfinished threads waiting for locks held
by unfinished (waiting) threads. -/
theorem C09_no_total_deadlock {sys : Sys} {rank : Lock → Nat} (ho : LockOrder sys rank)
    {σ : State} (hr : Reachable sys σ) : ¬ TotalDeadlock sys σ := by
  intro ⟨⟨t₀, h₀⟩, hall⟩
  apply C09_no_lock_cycle_no_deadlock ho hr
  have hmem : ∀ t, Unfinished sys σ t →
      t ∈ (List.range sys.length).filter (fun t => decide (σ.pc t < (progOf sys t).length)) := by
    intro t ht
    rw [List.mem_filter]
    refine ⟨List.mem_range.mpr (lt_length_of_progOf_ne_nil ?_), by simpa [Unfinished] using ht⟩
    intro hnil
    simp [Unfinished, hnil] at ht
  refine ⟨_, List.ne_nil_of_mem (hmem t₀ h₀), ?_⟩
  intro t ht
  rw [List.mem_filter] at ht
  have hunf : Unfinished sys σ t := by simpa [Unfinished] using ht.2
  obtain ⟨l, u, hw, hu⟩ := hall t hunf
  exact ⟨l, u, hw, hmem u hu⟩

/-- PROGRESS. With well-bracketed, balanced programs and a lock order, a reachable state in
which some thread has not finished always has an enabled step: the system never gets stuck, for
any number of threads. -/
theorem C09_progress {sys : Sys} {rank : Lock → Nat} (hwb : WellBracketed sys)
    (hbal : Balanced sys) (ho : LockOrder sys rank) {σ : State} (hr : Reachable sys σ) :
    ¬ Stuck sys σ := by
  intro ⟨hex, hstuck⟩
  apply C09_no_total_deadlock ho hr
  refine ⟨hex, ?_⟩
  intro t ht
  have hlt : σ.pc t < (progOf sys t).length := ht
  have hn : next sys σ t = some (progOf sys t)[σ.pc t] := by
    simp [next, List.getElem?_eq_getElem hlt]
  cases ha : (progOf sys t)[σ.pc t] with
  | acq l =>
    rw [ha] at hn
    cases hh : σ.holder l with
    | none => exact absurd (Step.acq t l hn hh) (hstuck _)
    | some u =>
      refine ⟨l, u, ⟨hn, hh⟩, ?_⟩
      apply Nat.lt_of_not_le
      intro hle
      have := holder_complete hr l u hh
      rw [held_of_length_le hle, balanced_progOf hbal u] at this
      cases this
  | rel l =>
    rw [ha] at hn
    exact absurd (Step.rel t l t hn (rel_by_holder hwb hr hn)) (hstuck _)
  | access x w =>
    rw [ha] at hn
    exact absurd (Step.access t x w hn) (hstuck _)

/-! ## Both hypotheses of the main theorem are needed -/

/-- two threads write location 7 with no lock at all (the shape of the shared self-learned route
table written by every listener's loop) -/
def unprotected : Sys := [[.access 7 true], [.access 7 true]]

/-- two threads write location 7, each under a lock — but not the same one -/
def wrongLock : Sys :=
  [[.acq 0, .access 7 true, .rel 0],
   [.acq 1, .access 7 true, .rel 1]]

/-- the same pair under a common lock -/
def guarded : Sys :=
  [[.acq 0, .access 7 true, .rel 0],
   [.acq 0, .access 7 true, .rel 0]]

/-- the state of `wrongLock` after thread 0 and thread 1 each took one step -/
def wrongLockRace : State := (run wrongLock init [0, 1]).get (by decide)

theorem wrongLockRace_reachable : Reachable wrongLock wrongLockRace :=
  run_reachable [0, 1] Reachable.init (Option.some_get _).symm

/-- An unprotected write/write pair races (already in the initial state); so does a pair under
two different locks (well-bracketed, after two steps); neither system is `Disciplined`; the same
pair with a common lock is `Disciplined` and well-bracketed, hence race free. -/
theorem C09_undisciplined_races :
    (Reachable unprotected init ∧ DataRace unprotected init ∧ ¬ Disciplined unprotected) ∧
    (WellBracketed wrongLock ∧ Reachable wrongLock wrongLockRace ∧
      DataRace wrongLock wrongLockRace ∧ ¬ Disciplined wrongLock) ∧
    (WellBracketed guarded ∧ Disciplined guarded ∧
      ∀ σ, Reachable guarded σ → ¬ DataRace guarded σ) := by
  refine ⟨⟨Reachable.init, dataRaceB_sound (by decide), ?_⟩,
    ⟨wellBracketedB_sound (by decide), wrongLockRace_reachable, dataRaceB_sound (by decide), ?_⟩,
    ⟨wellBracketedB_sound (by decide), disciplinedB_sound (by decide),
      C09_disciplined_no_race (wellBracketedB_sound (by decide)) (disciplinedB_sound (by decide))⟩⟩
  · intro h
    obtain ⟨l, hl, _⟩ := h 0 1 0 0 7 true true (by decide) rfl rfl rfl
    simp [progOf, unprotected] at hl
  · intro h
    obtain ⟨l, hl, hl'⟩ := h 0 1 1 1 7 true true (by decide) rfl rfl rfl
    simp [progOf, wrongLock, held, stepHeld] at hl hl'
    exact absurd (hl.symm.trans hl') (by decide)

/-- A `Disciplined` system that is not well-bracketed: thread 1 unlocks a mutex it never locked
(legal for a Go `sync.Mutex`), which lets thread 2 in while thread 0 is in its critical section. -/
def unbracketed : Sys :=
  [[.acq 0, .access 7 true, .rel 0],
   [.rel 0],
   [.acq 0, .access 7 true, .rel 0]]

def unbracketedRace : State := (run unbracketed init [0, 1, 2]).get (by decide)

/-- `WellBracketed` cannot be dropped from the main theorem: `unbracketed` obeys the lock-set
discipline and still reaches a data race. -/
theorem C09_unbracketed_races :
    Disciplined unbracketed ∧ ¬ WellBracketed unbracketed ∧
    Reachable unbracketed unbracketedRace ∧ DataRace unbracketed unbracketedRace := by
  refine ⟨disciplinedB_sound (by decide), ?_,
    run_reachable [0, 1, 2] Reachable.init (Option.some_get _).symm, dataRaceB_sound (by decide)⟩
  intro h
  have := ((h [.rel 0] (by simp [unbracketed])) 0 0).2 rfl
  simp at this

/-! ## Deadlock: the order hypothesis is needed -/

/-- the classic: two threads take two locks in opposite orders -/
def opposite : Sys :=
  [[.acq 0, .acq 1, .rel 1, .rel 0],
   [.acq 1, .acq 0, .rel 0, .rel 1]]

def oppositeStuck : State := (run opposite init [0, 1]).get (by decide)

/-- Without a lock order a deadlock is reachable (programs well-bracketed and balanced). -/
theorem C09_opposite_order_deadlocks :
    WellBracketed opposite ∧ Balanced opposite ∧
    Reachable opposite oppositeStuck ∧ Deadlock opposite oppositeStuck := by
  refine ⟨wellBracketedB_sound (by decide), balancedB_sound (by decide),
    run_reachable [0, 1] Reachable.init (Option.some_get _).symm, ?_⟩
  refine ⟨[0, 1], by simp, ?_⟩
  intro t ht
  simp only [List.mem_cons, List.not_mem_nil, or_false] at ht
  rcases ht with rfl | rfl
  · exact ⟨1, 1, ⟨by decide, by decide⟩, by simp⟩
  · exact ⟨0, 0, ⟨by decide, by decide⟩, by simp⟩

/-- …and indeed no rank exists for it. -/
theorem opposite_no_order (rank : Lock → Nat) : ¬ LockOrder opposite rank := by
  intro h
  have h01 : rank 0 < rank 1 := h 0 1 ⟨0, 1, rfl, by decide⟩
  have h10 : rank 1 < rank 0 := h 1 0 ⟨1, 1, rfl, by decide⟩
  omega

/-! ## Non-vacuity: three threads, two locks, all hypotheses at once -/

/-- Thread 0 nests lock 1 inside lock 0; thread 1 takes them one after the other; thread 2 takes
only lock 1 and also touches location 3, which nobody else uses. Location 1 is guarded by lock 0,
location 2 by lock 1. -/
def demo : Sys :=
  [[.acq 0, .access 1 true, .acq 1, .access 2 true, .rel 1, .rel 0],
   [.acq 0, .access 1 false, .rel 0, .acq 1, .access 2 true, .rel 1],
   [.acq 1, .access 2 false, .rel 1, .access 3 true]]

theorem demo_wellBracketed : WellBracketed demo := wellBracketedB_sound (by decide)
theorem demo_disciplined : Disciplined demo := disciplinedB_sound (by decide)
theorem demo_balanced : Balanced demo := balancedB_sound (by decide)
theorem demo_lockOrder : LockOrder demo (fun l => l) := lockOrderB_sound (by decide)

/-- a state in the middle of a run: thread 0 holds both locks and is about to write location 2,
thread 1 waits for lock 0, thread 2 waits for lock 1 -/
def demoMid : State := (run demo init [0, 0, 0]).get (by decide)

theorem demoMid_reachable : Reachable demo demoMid :=
  run_reachable [0, 0, 0] Reachable.init (Option.some_get _).symm

/-- the main theorem and the deadlock/progress theorems apply to `demo` -/
example : ∀ σ, Reachable demo σ → ¬ DataRace demo σ :=
  C09_disciplined_no_race demo_wellBracketed demo_disciplined

example : ¬ DataRace demo demoMid ∧ ¬ Deadlock demo demoMid ∧ ¬ Stuck demo demoMid :=
  ⟨C09_disciplined_no_race demo_wellBracketed demo_disciplined _ demoMid_reachable,
   C09_no_lock_cycle_no_deadlock demo_lockOrder demoMid_reachable,
   C09_progress demo_wellBracketed demo_balanced demo_lockOrder demoMid_reachable⟩

/-- `held_sound` / `mutual_exclusion` are about non-empty held-sets there: thread 0's syntactic
held-set at `demoMid` is `[1, 0]` and the holder map agrees; threads 1 and 2 are really blocked
(`Waits`), yet this is not a deadlock because thread 0 can move. -/
example : held (progOf demo 0) (demoMid.pc 0) = [1, 0] ∧
    demoMid.holder 0 = some 0 ∧ demoMid.holder 1 = some 0 ∧
    Waits demo demoMid 1 0 0 ∧ Waits demo demoMid 2 1 0 := by
  refine ⟨by decide, by decide, by decide, ⟨by decide, by decide⟩, ⟨by decide, by decide⟩⟩

example : demoMid.holder 1 = some 0 :=
  held_sound demo_wellBracketed demoMid_reachable 0 1 (by decide)

example : (1 : Lock) ∉ held (progOf demo 2) (demoMid.pc 2) :=
  mutual_exclusion demo_wellBracketed demoMid_reachable (t₁ := 0) (t₂ := 2) (by decide) 1 (by decide)

example : demoMid.holder 1 ≠ some 2 :=
  acq_not_self demo_wellBracketed demoMid_reachable (t := 2) (l := 1) (by decide)

example : (0 : Lock) ∈ held (progOf demo 0) (demoMid.pc 0) :=
  holder_complete demoMid_reachable 0 0 (by decide)

example : ¬ TotalDeadlock demo demoMid := C09_no_total_deadlock demo_lockOrder demoMid_reachable

/-- one step later thread 0's next action is `rel 1`: it is the holder, the step is enabled -/
def demoRel : State := (run demo init [0, 0, 0, 0]).get (by decide)

example : demoRel.holder 1 = some 0 :=
  rel_by_holder demo_wellBracketed
    (run_reachable [0, 0, 0, 0] Reachable.init (Option.some_get _).symm) (t := 0) (by decide)

/-- the discipline is decidable -/
example : Disciplined demo := by decide
example : ¬ Disciplined wrongLock := by decide
example : ¬ Disciplined unprotected := by decide

/-- a hand-written table for `demo`, the way the extractor would print it (row locks may be a
subset of what is held: thread 0's write of location 2 is listed with lock 1 only) -/
def demoTable : List AccessRow :=
  [⟨1, true, [0], 0⟩, ⟨2, true, [1], 0⟩,
   ⟨1, false, [0], 1⟩, ⟨2, true, [1], 1⟩,
   ⟨2, false, [1], 2⟩, ⟨3, true, [], 2⟩]

theorem demoTable_describes : Describes demoTable demo := describesB_sound (by decide)

/-- the bridge applies: table check by `decide`, description proved above -/
example : Disciplined demo := C09_table_disciplined (by decide) demoTable_describes

example : ∀ σ, Reachable demo σ → ¬ DataRace demo σ :=
  C09_table_no_race demo_wellBracketed (by decide) demoTable_describes

/-- the table check is not vacuous: drop the lock from one row and it fails -/
example : TableDisciplined
    [⟨1, true, [0], 0⟩, ⟨2, true, [], 0⟩, ⟨1, false, [0], 1⟩, ⟨2, true, [1], 1⟩] = false := by decide

/-- Roles: the table of `guarded` has ONE role (0, "the loop") run by both threads. With the
role marked `multi` the check passes only because the row holds a lock; the same row without a
lock is rejected; with `multi = false` it would be (wrongly, for two instances) accepted — which
is why `SingleInstance` is a hypothesis. -/
example : Disciplined guarded :=
  C09_table_disciplined_roles (multi := fun _ => true) (role := fun _ => 0)
    (rows := [⟨7, true, [0], 0⟩]) (by decide) (describesRolesB_sound (by decide))
    (singleInstanceB_sound (by decide))

/-- the same with the `thread` column ignored altogether -/
example : Disciplined guarded :=
  C09_table_disciplined_all (rows := [⟨7, true, [0], 0⟩]) (by decide)
    (describesAny_of_roles (describesRolesB_sound (role := fun _ => 0) (by decide)))

example : TableDisciplinedRoles (fun _ => true) [⟨7, true, [], 0⟩] = false := by decide
example : TableDisciplinedRoles (fun _ => false) [⟨7, true, [], 0⟩] = true := by decide
example : TableDisciplinedAll [⟨7, true, [0], 0⟩, ⟨7, false, [0, 1], 5⟩] = true := by decide
example : TableDisciplinedAll [⟨7, true, [0], 0⟩, ⟨7, false, [1], 5⟩] = false := by decide

end Props.C09
