/-
C20 — Sending survives connection faults without loss or duplication.

"Sending towards a peer survives connection faults: if the connection cached for a destination
fails on write, the same send falls back to a fresh connection to that destination and the
message is written there exactly once; a send reports success only if the whole message was
written on some connection, and a destination that refuses connections yields an error rather
than a hang or crash. Later messages go straight to the working path."

Model: Side.Failover (transport.go FailOverClientTransport.Send, TCPClientTransport.Send;
backend.go TCPBackend.Send) over ARBITRARY fault oracles (`World`: per-connection write outcomes,
dial outcomes). "Written" = Write returned nil (delivery afterwards is TCP's business: partial).
Termination ("no hang") is Lean's structural recursion on the retry bound.
-/
import Side.Failover
open Side.FO

namespace Props.C20

/-- what one send appended to the log: only failed writes, then — iff it reports success — one
successful write, on the connection it then keeps cached -/
structure SendShape (m : MsgId) (ok : Bool) (cached : Option ConnId) (new : List LogEntry) : Prop where
  allMsg : ∀ e ∈ new, e.msg = m
  okCase : ok = true → ∃ init c, new = init ++ [⟨c, m, true⟩] ∧ (∀ e ∈ init, e.ok = false) ∧ cached = some c
  errCase : ok = false → ∀ e ∈ new, e.ok = false

theorem completed_of_shape (m : MsgId) (ok : Bool) (cached : Option ConnId) (new : List LogEntry)
    (h : SendShape m ok cached new) :
    (completed new m).length = if ok then 1 else 0 := by
  cases hok : ok with
  | true =>
    obtain ⟨init, c, rfl, hinit, _⟩ := h.okCase hok
    have : List.filter (fun e => e.msg == m && e.ok) init = [] := by
      simp only [List.filter_eq_nil_iff]
      intro e he; simp [hinit e he]
    simp [completed, List.filter_append, this]
  | false =>
    have hall := h.errCase hok
    have : List.filter (fun e => e.msg == m && e.ok) new = [] := by
      simp only [List.filter_eq_nil_iff]
      intro e he; simp [hall e he]
    simp [completed, this]

theorem shape_nil_err (m : MsgId) (c : Option ConnId) : SendShape m false c [] :=
  ⟨by simp, by simp, by simp⟩

theorem shape_cons_fail (m : MsgId) (ok : Bool) (cached : Option ConnId) (c : ConnId) (new : List LogEntry)
    (h : SendShape m ok cached new) : SendShape m ok cached (⟨c, m, false⟩ :: new) := by
  refine ⟨?_, ?_, ?_⟩
  · intro e he
    rcases List.mem_cons.mp he with rfl | he
    · rfl
    · exact h.allMsg e he
  · intro hok
    obtain ⟨init, c', hnew, hinit, hc⟩ := h.okCase hok
    refine ⟨⟨c, m, false⟩ :: init, c', by simp [hnew], ?_, hc⟩
    intro e he
    rcases List.mem_cons.mp he with rfl | he
    · rfl
    · exact hinit e he
  · intro hok e he
    rcases List.mem_cons.mp he with rfl | he
    · rfl
    · exact h.errCase hok e he

theorem shape_single_ok (m : MsgId) (c : ConnId) : SendShape m true (some c) [⟨c, m, true⟩] :=
  ⟨by simp, fun _ => ⟨[], c, by simp, by simp, rfl⟩, by simp⟩

/-- the TCPClientTransport loop, for every fuel, oracle, transport state and log -/
theorem clientLoop_shape (fuel : Nat) (w : World) (t : TcpClient) (m : MsgId) (log : List LogEntry) :
    ∃ new, (tcpClientSendLoop fuel w t m log).2.2.2 = log ++ new ∧
      SendShape m (tcpClientSendLoop fuel w t m log).2.2.1 (tcpClientSendLoop fuel w t m log).2.1.conn new := by
  induction fuel generalizing w t log with
  | zero => exact ⟨[], by simp [tcpClientSendLoop], by simpa [tcpClientSendLoop] using shape_nil_err m t.conn⟩
  | succ fuel ih =>
    unfold tcpClientSendLoop
    split
    · exact ⟨[], by simp, shape_nil_err m t.conn⟩
    · exact ih _ _ _
    · rename_i w1 c hacq
      split
      · exact ⟨[⟨c, m, true⟩], rfl, shape_single_ok m c⟩
      · rename_i w2 hw
        obtain ⟨new, h1, h2⟩ := ih w2 { t with conn := none } (log ++ [⟨c, m, false⟩])
        exact ⟨⟨c, m, false⟩ :: new, by rw [h1]; simp, shape_cons_fail m _ _ c new h2⟩

/-- the TCPBackend loop -/
theorem backendLoop_shape (fuel : Nat) (w : World) (c : Option ConnId) (m : MsgId) (log : List LogEntry) :
    ∃ new, (tcpBackendSendLoop fuel w c m log).2.2.2 = log ++ new ∧
      SendShape m (tcpBackendSendLoop fuel w c m log).2.2.1 (tcpBackendSendLoop fuel w c m log).2.1 new := by
  induction fuel generalizing w c log with
  | zero => exact ⟨[], by simp [tcpBackendSendLoop], by simpa [tcpBackendSendLoop] using shape_nil_err m c⟩
  | succ fuel ih =>
    unfold tcpBackendSendLoop
    split
    · exact ⟨[], by simp, shape_nil_err m c⟩
    · exact ih _ _ _
    · rename_i w1 x hacq
      split
      · exact ⟨[⟨x, m, true⟩], rfl, shape_single_ok m x⟩
      · rename_i w2 hw
        obtain ⟨new, h1, h2⟩ := ih w2 none (log ++ [⟨x, m, false⟩])
        exact ⟨⟨x, m, false⟩ :: new, by rw [h1]; simp, shape_cons_fail m _ _ x new h2⟩

/-- **Exactly once / honest error, client transport.** For every fault oracle: a send that reports
success wrote the message completely exactly once; a send that reports an error never did. -/
theorem C20_client (w : World) (t : TcpClient) (m : MsgId) :
    (completed (tcpClientSend w t m).2.2.2 m).length = if (tcpClientSend w t m).2.2.1 then 1 else 0 := by
  obtain ⟨new, h1, h2⟩ := clientLoop_shape retries w t m []
  unfold tcpClientSend
  rw [h1]
  simpa using completed_of_shape m _ _ new h2

/-- **Exactly once / honest error, TCP backend.** -/
theorem C20_backend (w : World) (c : Option ConnId) (m : MsgId) :
    (completed (tcpBackendSend w c m).2.2.2 m).length = if (tcpBackendSend w c m).2.2.1 then 1 else 0 := by
  obtain ⟨new, h1, h2⟩ := backendLoop_shape retries w c m []
  unfold tcpBackendSend
  rw [h1]
  simpa using completed_of_shape m _ _ new h2

theorem completed_append (a b : List LogEntry) (m : MsgId) :
    completed (a ++ b) m = completed a m ++ completed b m := by simp [completed]

/-- **Exactly once / honest error, fail-over transport** (inbound primary, reconnectable secondary). -/
theorem C20_failover (w : World) (f : FailOver) (m : MsgId) :
    (completed (failOverSend w f m).2.2.2 m).length = if (failOverSend w f m).2.2.1 then 1 else 0 := by
  unfold failOverSend
  cases hp : f.primary with
  | none =>
    cases hs : f.secondary with
    | none => simp [completed]
    | some s => simpa using C20_client w s m
  | some p =>
    have hc := C20_client w p m
    simp only
    split
    · rename_i hok; simpa [hok] using hc
    · rename_i hok
      simp only [Bool.not_eq_true] at hok
      rw [hok] at hc
      cases hs : f.secondary with
      | none => simpa using hc
      | some s =>
        have hs2 := C20_client (tcpClientSend w p m).1 s m
        simp only [completed_append, List.length_append]
        simp only [Bool.false_eq_true, ↓reduceIte] at hc
        rw [hc]; simpa using hs2

/-- **Fallback.** The cached connection fails on write, the destination accepts a new connection and
the write on it succeeds: the SAME send succeeds, having written the message on the fresh
connection (after the failed attempt on the cached one), and keeps the fresh connection. -/
theorem C20_fallback (w w1 w2 w3 : World) (c fresh : ConnId) (m : MsgId)
    (hw : w.write c = (w1, false)) (hd : w1.dial = (w2, .conn fresh)) (hf : w2.write fresh = (w3, true)) :
    tcpClientSend w { reconnectable := true, conn := some c } m =
      (w3, { reconnectable := true, conn := some fresh }, true, [⟨c, m, false⟩, ⟨fresh, m, true⟩]) := by
  simp [tcpClientSend, retries, tcpClientSendLoop, clientAcquire, hw, hd, hf]

/-- the same for a TCP backend -/
theorem C20_fallback_backend (w w1 w2 w3 : World) (c fresh : ConnId) (m : MsgId)
    (hw : w.write c = (w1, false)) (hd : w1.dial = (w2, .conn fresh)) (hf : w2.write fresh = (w3, true)) :
    tcpBackendSend w (some c) m = (w3, some fresh, true, [⟨c, m, false⟩, ⟨fresh, m, true⟩]) := by
  simp [tcpBackendSend, retries, tcpBackendSendLoop, backendAcquire, hw, hd, hf]

/-- **Fail-over.** The inbound (non-reconnectable) primary fails on write: it is forgotten and the same
send goes to the secondary. -/
theorem C20_failover_to_secondary (w w1 : World) (c : ConnId) (s : TcpClient) (m : MsgId)
    (hw : w.write c = (w1, false)) :
    (failOverSend w { primary := some { reconnectable := false, conn := some c }, secondary := some s } m).2.1.primary = none ∧
    (failOverSend w { primary := some { reconnectable := false, conn := some c }, secondary := some s } m).2.2.1
      = (tcpClientSend w1 s m).2.2.1 := by
  simp [failOverSend, tcpClientSend, retries, tcpClientSendLoop, clientAcquire, hw]

/-- **Refusal.** A destination that refuses connections yields an error (no write at all) — the
function is total, so there is no hang in the modelled code. -/
theorem C20_refusal (w w1 : World) (m : MsgId) (hd : w.dial = (w1, .refuse)) :
    tcpClientSend w { reconnectable := true, conn := none } m = (w1, { reconnectable := true, conn := none }, false, []) := by
  simp [tcpClientSend, retries, tcpClientSendLoop, clientAcquire, hd]

theorem C20_refusal_backend (w w1 w2 : World) (m : MsgId) (hd : w.dial = (w1, .refuse)) (hd2 : w1.dial = (w2, .refuse)) :
    tcpBackendSend w none m = (w2, none, false, []) := by
  simp [tcpBackendSend, retries, tcpBackendSendLoop, backendAcquire, hd, hd2]

/-- **Sticks.** After a successful send the transport keeps the connection that worked, and the next
send's first (and, if it succeeds, only) write goes straight to it. -/
theorem C20_sticks (w : World) (t : TcpClient) (m : MsgId) (hok : (tcpClientSend w t m).2.2.1 = true) :
    ∃ c, (tcpClientSend w t m).2.1.conn = some c ∧
      (completed (tcpClientSend w t m).2.2.2 m) = [⟨c, m, true⟩] ∧
      ∀ (w' w'' : World) (m' : MsgId), w'.write c = (w'', true) →
        (tcpClientSend w' (tcpClientSend w t m).2.1 m').2.2.2 = [⟨c, m', true⟩] := by
  obtain ⟨new, h1, h2⟩ := clientLoop_shape retries w t m []
  have hok' : (tcpClientSendLoop retries w t m []).2.2.1 = true := hok
  obtain ⟨init, c, hnew, hinit, hc⟩ := h2.okCase hok'
  refine ⟨c, hc, ?_, ?_⟩
  · unfold tcpClientSend
    rw [h1, hnew]
    have : List.filter (fun e => e.msg == m && e.ok) init = [] := by
      simp only [List.filter_eq_nil_iff]
      intro e he; simp [hinit e he]
    simp [completed, List.filter_append, this]
  · intro w' w'' m' hw
    have hc' : (tcpClientSend w t m).2.1.conn = some c := hc
    generalize (tcpClientSend w t m).2.1 = t' at hc'
    simp [tcpClientSend, retries, tcpClientSendLoop, clientAcquire, hc', hw]

/-- F3: both retry loops make at most two attempts. -/
theorem retries_is_two : retries = 2 := rfl

/-! ### non-vacuity: a concrete fault pattern (stale cached connection, healthy destination) -/
example : tcpClientSend { writes := [(1, [false]), (100, [true])], dials := [.conn 100] } { reconnectable := true, conn := some 1 } 7
    = ({ writes := [(1, []), (100, [])], dials := [] }, { reconnectable := true, conn := some 100 }, true,
       [⟨1, 7, false⟩, ⟨100, 7, true⟩]) := by decide

end Props.C20
