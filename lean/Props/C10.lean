import GoStd.Bytes
namespace Props.C10
end Props.C10
