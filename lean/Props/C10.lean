/-
C10 — A UDP datagram is processed in isolation from every other datagram.

"What the proxy relays for a UDP datagram is a function of that datagram's bytes alone: it never
contains bytes of any datagram received earlier or later, whatever the arrival order, sizes,
declared Content-Length, truncation or load. A datagram whose declared body length exceeds the
bytes it actually carries, or that ends before its header section is complete, is discarded rather
than completed from elsewhere."

Model: Reader.Frame.udpParse (the parse step is built over the first `n` bytes of the pooled
buffer, `n` = what ReadFromUDP returned), Sip.parseMessage, Side.Pool (byte_array_pool.go).
Three parts:
 * locality — the decoded message depends on `buf[0:n]` only (`C10_local`), so whatever an earlier
   datagram left in a recycled buffer behind position `n` is invisible (`C10_stale_invisible`),
   and everything decoded fits inside the datagram (`C10_within_datagram`);
 * discard — over-declared Content-Length (`C10_overdeclared`) and header sections cut short
   (`C10_truncated`, `C10_truncated_no_lf`, `C10_truncated_after_lines`) give `.error`/`none`:
   nothing is taken "from elsewhere";
 * the pool never hands a buffer that is still held to a second holder (`C10_pool_exclusive`).
That the decoded message owns copies and not slices of the buffer is outside this model (it is
checked by the dirty-vs-clean differential stream).
-/
import Reader.Frame
import Side.Pool
import Lemmas.Message
import Props.C11
open GoStd Sip Reader Lemmas

namespace Props.C10

/-! ### locality -/

/-- The decoded message is a function of the first `n` bytes of the buffer alone. -/
theorem C10_local (cm : List (Bytes × Bytes)) (buf buf' : Bytes) (n : Nat)
    (h : buf.take n = buf'.take n) : udpParse cm buf n = udpParse cm buf' n := by
  simp only [udpParse, h]

/-- A recycled buffer: whatever earlier datagrams left behind the `d.length` bytes just received
(`stale`, `stale'`) does not influence the result. -/
theorem C10_stale_invisible (cm : List (Bytes × Bytes)) (d stale stale' : Bytes) :
    udpParse cm (d ++ stale) d.length = udpParse cm (d ++ stale') d.length :=
  C10_local cm _ _ _ (by simp)

/-- … and it is what a fresh buffer holding exactly the datagram would give. -/
theorem C10_stale_invisible_fresh (cm : List (Bytes × Bytes)) (d stale : Bytes) :
    udpParse cm (d ++ stale) d.length = udpParse cm d d.length := by
  have := C10_stale_invisible cm d stale []
  simpa using this

/-! ### the same for the reader the parse loop really builds (operational `bufio.Reader`, Reader/Bufio.lean)

`startParseMessage` builds `bufio.NewReaderSize(bytes.NewBuffer(b[:n]), n)`: a reader of capacity `max n 16` over a
source that delivers the datagram's `n` bytes (`Props.C11.fresh [buf.take n]`). `Props.C11.C11_bufio_udp` shows that
`ParseMessage` on that reader is `udpParse`; so locality holds for the real mechanics too, not only for the
logical-stream model. -/

/-- the message decoded through the operational reader is a function of the datagram's own bytes -/
theorem C10_bufio_local (cm : List (Bytes × Bytes)) (buf buf' : Bytes) (n : Nat)
    (h : buf.take n = buf'.take n) :
    (Bufio.parseMessage (max n 16) cm (Props.C11.fresh [buf.take n])).map (·.1)
      = (Bufio.parseMessage (max n 16) cm (Props.C11.fresh [buf'.take n])).map (·.1) := by
  rw [h]

/-- stale bytes behind the datagram are invisible to the operational reader as well: it decodes what a fresh buffer
holding exactly the datagram would give -/
theorem C10_bufio_stale_invisible (cm : List (Bytes × Bytes)) (d stale : Bytes) :
    (Bufio.parseMessage (max d.length 16) cm (Props.C11.fresh [(d ++ stale).take d.length])).map (·.1)
      = udpParse cm d d.length := by
  rw [Props.C11.C11_bufio_udp cm (d ++ stale) d.length]
  exact C10_stale_invisible_fresh cm d stale

/-- Everything decoded fits inside the datagram: headers and body together are shorter than the
`n` bytes received (nothing can have been completed from bytes behind position `n`). -/
theorem C10_within_datagram (cm : List (Bytes × Bytes)) (buf : Bytes) (n : Nat) (m : Message)
    (h : udpParse cm buf n = some m) : m.headers.length + m.body.length + 2 ≤ n := by
  unfold udpParse at h
  cases hp : parseMessage cm (buf.take n) with
  | error => simp [hp] at h
  | ok m' rest =>
    simp only [hp, Option.some.injEq] at h
    subst h
    have := parseMessage_size cm _ m' rest hp
    have hl : (buf.take n).length ≤ n := by simp [List.length_take]; omega
    omega

/-! ### discard -/

/-- **Over-declared body.** The header section is complete (start line, header lines, blank line),
the first Content-Length-class header declares `k`, but fewer than `k` bytes follow the blank
line: the datagram is rejected. No bound on `k` (a `k` beyond int64 is rejected by Atoi). -/
theorem C10_overdeclared (cm : List (Bytes × Bytes)) (eol start : Bytes)
    (hs : List (Bytes × Bytes)) (heol : EolOK eol) (hst : StartOK start)
    (hhs : ∀ h ∈ hs, HeaderOK h) (k : Nat)
    (hcl : firstValue cm hs contentLengthName = some (natToBytes k))
    (short : Bytes) (hshort : short.length < k) :
    parseMessage cm (start ++ eol ++ renderHeaders eol hs ++ eol ++ short) = .error :=
  parseMessage_overdeclared cm eol start hs heol hst hhs k hcl short hshort

/-- the same through the UDP step, with stale bytes behind the datagram in the pooled buffer: the
datagram is discarded (not completed from `stale`) -/
theorem C10_overdeclared_udp (cm : List (Bytes × Bytes)) (eol start : Bytes)
    (hs : List (Bytes × Bytes)) (heol : EolOK eol) (hst : StartOK start)
    (hhs : ∀ h ∈ hs, HeaderOK h) (k : Nat)
    (hcl : firstValue cm hs contentLengthName = some (natToBytes k))
    (short : Bytes) (hshort : short.length < k) (stale : Bytes) :
    udpParse cm ((start ++ eol ++ renderHeaders eol hs ++ eol ++ short) ++ stale)
      (start ++ eol ++ renderHeaders eol hs ++ eol ++ short).length = none := by
  have ht : ∀ D : Bytes, (D ++ stale).take D.length = D := fun D => by simp
  unfold udpParse
  rw [ht, C10_overdeclared cm eol start hs heol hst hhs k hcl short hshort]

/-- **Truncated header section**, statement chosen: `d` is ANY strict truncation of a well-formed
message's header section — the first `n` bytes of `render eol start hs body` with `n` smaller than
the length of start line + header lines + blank line (so the cut may fall inside the start line,
inside or between header lines, or inside the final CRLF). Every such datagram is rejected. Only
the shape of start line and headers is assumed (no Content-Length condition, the start line need
not even parse). -/
theorem C10_truncated (cm : List (Bytes × Bytes)) (eol start : Bytes)
    (hs : List (Bytes × Bytes)) (body : Bytes) (heol : EolOK eol) (hst : StartOK start)
    (hhs : ∀ h ∈ hs, HeaderOK h) (n : Nat)
    (hn : n < (start ++ eol ++ renderHeaders eol hs ++ eol).length) :
    parseMessage cm ((render eol start hs body).take n) = .error :=
  parseMessage_take_headers cm eol start hs body heol hst hhs n hn

/-- … through the UDP step: a datagram of `n` bytes cut out of a longer message, whatever lies
behind it in the buffer (here: the remainder of that very message), is discarded. -/
theorem C10_truncated_udp (cm : List (Bytes × Bytes)) (eol start : Bytes)
    (hs : List (Bytes × Bytes)) (body : Bytes) (heol : EolOK eol) (hst : StartOK start)
    (hhs : ∀ h ∈ hs, HeaderOK h) (n : Nat)
    (hn : n < (start ++ eol ++ renderHeaders eol hs ++ eol).length) :
    udpParse cm (render eol start hs body) n = none := by
  simp [udpParse, C10_truncated cm eol start hs body heol hst hhs n hn]

/-- Truncation, second sufficient condition (no shape assumed at all): a datagram that contains no
LF whatsoever is rejected. -/
theorem C10_truncated_no_lf (cm : List (Bytes × Bytes)) (d : Bytes) (h : (10 : UInt8) ∉ d) :
    parseMessage cm d = .error :=
  parseMessage_no_lf cm d h

/-- Truncation, third form: start line, any number of complete header lines, then an arbitrary
LF-free fragment (not necessarily a prefix of a well-formed header line). -/
theorem C10_truncated_after_lines (cm : List (Bytes × Bytes)) (eol start : Bytes)
    (hs : List (Bytes × Bytes)) (heol : EolOK eol) (hst : StartOK start)
    (hhs : ∀ h ∈ hs, HeaderOK h) (part : Bytes) (hpart : (10 : UInt8) ∉ part) :
    parseMessage cm (start ++ eol ++ (renderHeaders eol hs ++ part)) = .error :=
  parseMessage_truncated_headers cm eol start hs heol hst hhs part hpart

/-! ### the buffer pool -/

open Side.Pool

/-- what the clients of the pool do -/
inductive Op where
  | alloc
  | free (b : BufId)

/-- pool state plus the buffers currently held by clients (receive loop, parse queue, parse loop) -/
structure Sys where
  st : St
  held : List BufId

/-- one operation; `none` = the history violates the client discipline (frees a buffer it does
not hold) -/
def step (s : Sys) : Op → Option Sys
  | .alloc => some ⟨(alloc s.st).1, (alloc s.st).2 :: s.held⟩
  | .free b => if b ∈ s.held then some ⟨free s.st b, s.held.erase b⟩ else none

def run : Sys → List Op → Option Sys
  | s, [] => some s
  | s, op :: ops =>
    match step s op with
    | none => none
    | some s' => run s' ops

def init (cap : Nat) : Sys := ⟨⟨cap, [], 0⟩, []⟩

structure Inv (s : Sys) : Prop where
  pool_nodup : s.st.pool.Nodup
  held_nodup : s.held.Nodup
  disjoint : ∀ b ∈ s.st.pool, b ∉ s.held
  below : ∀ b ∈ s.st.pool ++ s.held, b < s.st.fresh

theorem inv_init (cap : Nat) : Inv (init cap) :=
  ⟨by simp [init], by simp [init], by simp [init], by simp [init]⟩

/-- `Alloc` returns a buffer nobody holds, and keeps the invariant -/
theorem inv_alloc (s : Sys) (h : Inv s) :
    (alloc s.st).2 ∉ s.held ∧ Inv ⟨(alloc s.st).1, (alloc s.st).2 :: s.held⟩ := by
  obtain ⟨h1, h2, h3, h4⟩ := h
  unfold alloc
  cases hl : s.st.pool.getLast? with
  | none =>
    have hnot : s.st.fresh ∉ s.held := fun hm => by
      exact Nat.lt_irrefl _ (h4 s.st.fresh (by simp [hm]))
    refine ⟨hnot, ?_, ?_, ?_, ?_⟩
    · exact h1
    · exact List.nodup_cons.mpr ⟨hnot, h2⟩
    · intro b hb
      simp only [List.mem_cons, not_or]
      exact ⟨Nat.ne_of_lt (h4 b (by simp [hb])), h3 b hb⟩
    · intro b hb
      simp only [List.mem_append, List.mem_cons] at hb
      rcases hb with hb | rfl | hb
      · exact Nat.lt_succ_of_lt (h4 b (by simp [hb]))
      · exact Nat.lt_succ_self _
      · exact Nat.lt_succ_of_lt (h4 b (by simp [hb]))
  | some b =>
    obtain ⟨ys, hys⟩ := List.getLast?_eq_some_iff.mp hl
    have hnd := h1
    rw [hys, List.nodup_append] at hnd
    obtain ⟨hys_nd, _, hdisj⟩ := hnd
    have hb_pool : b ∈ s.st.pool := by rw [hys]; simp
    have hnot : b ∉ s.held := h3 b hb_pool
    simp only [hys, List.dropLast_concat]
    refine ⟨hnot, ?_, ?_, ?_, ?_⟩
    · exact hys_nd
    · exact List.nodup_cons.mpr ⟨hnot, h2⟩
    · intro x hx
      simp only [List.mem_cons, not_or]
      refine ⟨hdisj x hx b (by simp), h3 x (by rw [hys]; simp [hx])⟩
    · intro x hx
      simp only [List.mem_append, List.mem_cons] at hx
      rcases hx with hx | rfl | hx
      · exact h4 x (by rw [hys]; simp [hx])
      · exact h4 x (by simp [hb_pool])
      · exact h4 x (by simp [hx])

/-- `Free` of a held buffer keeps the invariant (whether the pool keeps or drops the buffer) -/
theorem inv_free (s : Sys) (b : BufId) (h : Inv s) (hb : b ∈ s.held) :
    Inv ⟨free s.st b, s.held.erase b⟩ := by
  obtain ⟨h1, h2, h3, h4⟩ := h
  have hbp : b ∉ s.st.pool := fun hm => h3 b hm hb
  have herase : ∀ x, x ∈ s.held.erase b → x ≠ b ∧ x ∈ s.held := fun x hx =>
    (List.Nodup.mem_erase_iff h2).mp hx
  unfold free
  simp only
  split
  · refine ⟨?_, h2.erase b, ?_, ?_⟩
    · rw [List.nodup_append]
      refine ⟨h1, by simp, ?_⟩
      intro x hx y hy
      simp only [List.mem_singleton] at hy
      subst hy
      exact fun e => hbp (e ▸ hx)
    · intro x hx hxe
      simp only [List.mem_append, List.mem_singleton] at hx
      rcases hx with hx | rfl
      · exact h3 x hx (herase x hxe).2
      · exact (herase x hxe).1 rfl
    · intro x hx
      simp only [List.mem_append, List.mem_singleton] at hx
      rcases hx with (hx | rfl) | hx
      · exact h4 x (by simp [hx])
      · exact h4 x (by simp [hb])
      · exact h4 x (by simp [(herase x hx).2])
  · refine ⟨h1, h2.erase b, ?_, ?_⟩
    · intro x hx hxe
      exact h3 x hx (herase x hxe).2
    · intro x hx
      simp only [List.mem_append] at hx
      rcases hx with hx | hx
      · exact h4 x (by simp [hx])
      · exact h4 x (by simp [(herase x hx).2])

theorem inv_step (s s' : Sys) (op : Op) (h : Inv s) (hs : step s op = some s') : Inv s' := by
  cases op with
  | alloc =>
    simp only [step, Option.some.injEq] at hs
    subst hs
    exact (inv_alloc s h).2
  | free b =>
    simp only [step] at hs
    split at hs
    · rename_i hb
      simp only [Option.some.injEq] at hs
      subst hs
      exact inv_free s b h hb
    · cases hs

/-- the invariant `pool.Nodup ∧ held.Nodup ∧ pool ∩ held = ∅ ∧ everything < fresh` is preserved
by every history in which clients free only buffers they hold -/
theorem C10_pool_invariant (s s' : Sys) (ops : List Op) (h : Inv s) (hr : run s ops = some s') :
    Inv s' := by
  induction ops generalizing s with
  | nil =>
    simp only [run, Option.some.injEq] at hr
    exact hr ▸ h
  | cons op ops ih =>
    simp only [run] at hr
    cases hst : step s op with
    | none => simp [hst] at hr
    | some s1 =>
      simp only [hst] at hr
      exact ih s1 (inv_step s s1 op h hst) hr

/-- **The pool never hands one buffer to two holders**: after any disciplined history starting
from the empty pool, `Alloc` returns a buffer that no client currently holds. -/
theorem C10_pool_exclusive (cap : Nat) (ops : List Op) (s : Sys) (hr : run (init cap) ops = some s) :
    (alloc s.st).2 ∉ s.held :=
  (inv_alloc s (C10_pool_invariant _ s ops (inv_init cap) hr)).1

/-- hence no buffer is ever held twice, and no held buffer sits in the pool -/
theorem C10_pool_held_distinct (cap : Nat) (ops : List Op) (s : Sys)
    (hr : run (init cap) ops = some s) : s.held.Nodup ∧ ∀ b ∈ s.st.pool, b ∉ s.held :=
  let h := C10_pool_invariant _ s ops (inv_init cap) hr
  ⟨h.held_nodup, h.disjoint⟩

/-- The discipline matters: a double free puts the buffer in the pool while it is handed out again,
and the next two `Alloc`s return the SAME buffer. -/
example :
    let s := free (free (alloc ⟨4, [], 0⟩).1 0) 0
    (alloc s).2 = 0 ∧ (alloc (alloc s).1).2 = 0 := by decide

/-! ### non-vacuity -/

/-- a disciplined history with recycling in both orders -/
example :
    (run (init 2) [.alloc, .alloc, .free 0, .alloc, .free 1, .free 0, .alloc, .alloc]).map
      (fun s => (s.held, s.st.pool, s.st.fresh)) = some ([1, 0], [], 2) := by decide

example : run (init 2) [.alloc, .free 0, .free 0] = none := by decide

example (cm : List (Bytes × Bytes)) : udpParse cm [1, 2, 3, 4] 2 = udpParse cm [1, 2, 9, 9, 9] 2 :=
  C10_local cm _ _ _ (by decide)

/-- the example datagram: `SIP/2.0 200 OK`, `Content-Length: 2`, body `hi` -/
def exampleDatagram : Bytes :=
  render [13, 10] [83, 73, 80, 47, 50, 46, 48, 32, 50, 48, 48, 32, 79, 75]
    [(contentLengthName, [50])] [104, 105]

/-- a well-formed datagram in a dirty buffer IS decoded (so `C10_within_datagram` is not vacuous),
to exactly its own content, whatever the stale bytes are and whatever the compact table -/
theorem example_decoded (cm : List (Bytes × Bytes)) (stale : Bytes) :
    udpParse cm (exampleDatagram ++ stale) exampleDatagram.length
      = some ⟨.status [83, 73, 80, 47, 50, 46, 48] 200 [79, 75],
              [⟨contentLengthName, .raw [50]⟩], [104, 105]⟩ := by
  have hp := parse_render cm _ _ _ _ _ (Or.inl rfl) (wf_example_status cm) []
  rw [List.append_nil] at hp
  rw [C10_stale_invisible_fresh, udpParse, List.take_length, exampleDatagram, hp]
  rfl

example (cm : List (Bytes × Bytes)) (stale : Bytes) : 1 + 2 + 2 ≤ exampleDatagram.length :=
  C10_within_datagram cm _ _ _ (example_decoded cm stale)

/-- over-declared: `Content-Length: 5`, two body bytes, any compact table -/
example (cm : List (Bytes × Bytes)) :
    parseMessage cm ([83, 73, 80, 47, 50, 46, 48, 32, 50, 48, 48, 32, 79, 75] ++ [13, 10]
      ++ renderHeaders [13, 10] [(contentLengthName, [53])] ++ [13, 10] ++ [104, 105]) = .error :=
  C10_overdeclared cm _ _ _ (Or.inl rfl) (wf_example_status cm).start_ok
    (by
      intro h hh
      simp only [List.mem_singleton] at hh
      subst hh
      exact ⟨by decide +kernel, by decide +kernel, by decide +kernel, by decide, by decide, by decide⟩)
    5 (by
      have : natToBytes 5 = [53] := by decide
      simp [firstValue, isSameHeader, equalFold, this]) _ (by decide)

/-- truncated: the example message (34 bytes of header section) cut after 20 bytes -/
example (cm : List (Bytes × Bytes)) :
    parseMessage cm ((render [13, 10] [83, 73, 80, 47, 50, 46, 48, 32, 50, 48, 48, 32, 79, 75]
      [(contentLengthName, [50])] [104, 105]).take 20) = .error :=
  C10_truncated cm _ _ _ _ (Or.inl rfl) (wf_example_status cm).start_ok
    (wf_example_status cm).headers_ok 20 (by simp [renderHeaders])

end Props.C10
