/-
C08 — No network input can crash, wedge or balloon the proxy.

"No sequence of bytes delivered to a UDP or TCP listener - well-formed, malformed, truncated,
oversized or adversarial - makes the proxy panic, exit, stall its message loop or allocate memory
out of proportion to the bytes actually received. Undecodable input is discarded (a TCP connection
carrying it is closed) and the proxy keeps serving the traffic that follows."

Model: Sip.parseMessage, Reader.Frame (connLoop, udpParse). What is proved here is the
"out of proportion" half at the parser: whatever the input, a successfully decoded message holds
no more than the input gave (body, header count, and unconsumed rest are all accounted for inside
the input length), and the TCP loop extracts at most one message per two input bytes.

No panic / no stall: every model function (`readLine`, `parseHeaderLines`, `parseMessage`,
`connLoopAux`, `trimSpace`, `fields`, …) is a total Lean function accepted by the termination
checker — structural recursion on the input or on explicit fuel bounded by the input length — and
reports failure as `none` / `.error`, never by a partial operation. That totality IS the model's
no-crash/no-hang statement; there is deliberately no theorem for it. That the Go code behaves like
the total model on hostile input is the business of the differential stream (C08 hostile-input
corpus), not of this file.
-/
import Reader.Frame
import Lemmas.Message
import Lemmas.Frame
import Lemmas.Bufio
import Props.C11
open GoStd Sip Reader Lemmas

namespace Props.C08

/-- Body and unconsumed rest are disjoint parts of the input: a declared Content-Length can never
make the parser hold (or wait for) more body than the bytes actually received. For EVERY input. -/
theorem C08_body_bounded (cm : List (Bytes × Bytes)) (input : Bytes) (m : Message) (rest : Bytes)
    (h : parseMessage cm input = .ok m rest) : m.body.length + rest.length ≤ input.length := by
  have := parseMessage_size cm input m rest h
  omega

/-- The number of headers is bounded by the input length (each header line consumes at least one
byte; in fact by `input.length - 2`: start line and blank line cost a byte each). -/
theorem C08_headers_bounded (cm : List (Bytes × Bytes)) (input : Bytes) (m : Message) (rest : Bytes)
    (h : parseMessage cm input = .ok m rest) : m.headers.length ≤ input.length := by
  have := parseMessage_size cm input m rest h
  omega

/-- all of it at once -/
theorem C08_message_bounded (cm : List (Bytes × Bytes)) (input : Bytes) (m : Message) (rest : Bytes)
    (h : parseMessage cm input = .ok m rest) :
    m.headers.length + m.body.length + rest.length + 2 ≤ input.length :=
  parseMessage_size cm input m rest h

/-- a successful parse always consumes input: the TCP loop makes progress on every message (so the
no-progress branch of `connLoopAux` is dead code, `Lemmas.connLoopAux_succ`) -/
theorem C08_progress (cm : List (Bytes × Bytes)) (input : Bytes) (m : Message) (rest : Bytes)
    (h : parseMessage cm input = .ok m rest) : rest.length < input.length :=
  parseMessage_progress cm input m rest h

/-- The TCP loop never produces more messages than half the bytes of the stream, and the headers
and bodies it holds together never exceed the stream: total memory is proportional to what was
received. For EVERY stream. -/
theorem C08_stream_bounded (cm : List (Bytes × Bytes)) (stream : Bytes) :
    2 * (connLoop cm stream).length
      + ((connLoop cm stream).map (fun m => m.headers.length + m.body.length)).sum ≤ stream.length :=
  connLoopAux_bounded cm _ stream

/-- Undecodable input ends the connection loop (the connection is closed): nothing is emitted for
it and nothing behind it is interpreted. -/
theorem C08_undecodable_closes (cm : List (Bytes × Bytes)) (s : Bytes)
    (h : parseMessage cm s = .error) : connLoop cm s = [] :=
  connLoop_error cm s h

/-- … while every decodable message is served and the loop goes on with the traffic that follows,
whatever it is. -/
theorem C08_keeps_serving (cm : List (Bytes × Bytes)) (s : Bytes) (m : Message) (rest : Bytes)
    (h : parseMessage cm s = .ok m rest) : connLoop cm s = m :: connLoop cm rest :=
  connLoop_ok cm s m rest h

/-! ### the same bounds for the OPERATIONAL reader (Reader/Bufio.lean), whatever the segmentation

The bounds above are about the logical stream. The three below are about the state machine that
really holds the memory: a `bufio.Reader` of capacity `N` on a connection that delivers the stream
in arbitrary Reads (`Props.C11.bufioLoop`, tied to the real reader by the `frame blines/bparse`
ops). -/

/-- total memory held by the messages the real loop extracts is bounded by the bytes received,
for every segmentation and every buffer size -/
theorem C08_bufio_stream_bounded (N : Nat) (hN : 2 ≤ N) (cm : List (Bytes × Bytes)) (segs : List Bytes) :
    2 * (Props.C11.bufioLoop N cm segs).length
      + ((Props.C11.bufioLoop N cm segs).map (fun m => m.headers.length + m.body.length)).sum
      ≤ segs.flatten.length := by
  rw [Props.C11.C11_bufio_refines N hN]
  exact C08_stream_bounded cm segs.flatten

/-- the reader itself never buffers more than its capacity: after every `ParseMessage`, successful
on whatever input, the unread part of its buffer fits `N` (an over-long line is handed on fragment
by fragment, it is never accumulated inside the reader) -/
theorem C08_bufio_buffer_bounded (N : Nat) (hN : 2 ≤ N) (cm : List (Bytes × Bytes)) (b : Bufio.BR)
    (hb : b.buf.length ≤ N) (m : Message) (b' : Bufio.BR)
    (h : Bufio.parseMessage N cm b = some (m, b')) : b'.buf.length ≤ N :=
  (Lemmas.Bufio.parseMessage_spec N hN cm b hb).2 (m, b') (by simp [h])

/-- a line that `readLine` has joined from fragments is never longer than the bytes the reader
consumed for it: the join loop cannot be made to grow a line out of proportion to the input -/
theorem C08_bufio_line_bounded (N : Nat) (hN : 2 ≤ N) (b : Bufio.BR) (hb : b.buf.length ≤ N)
    (hlf : (10 : UInt8) ∈ b.logical) (line : Bytes) (b' : Bufio.BR)
    (h : Bufio.readLine N b = some (line, b')) :
    line.length + b'.logical.length ≤ b.logical.length ∧ b'.logical.length < b.logical.length := by
  obtain ⟨l, b2, hr, hfl, _⟩ := Lemmas.Bufio.readLine_lf N hN b hb hlf
  rw [h] at hr
  simp only [Option.some.injEq, Prod.mk.injEq] at hr
  obtain ⟨rfl, rfl⟩ := hr
  exact readLine_length _ _ _ hfl

/-- undecodable input ends the real loop as well: nothing is emitted for it -/
theorem C08_bufio_undecodable_closes (N : Nat) (hN : 2 ≤ N) (cm : List (Bytes × Bytes)) (segs : List Bytes)
    (h : parseMessage cm segs.flatten = .error) : Props.C11.bufioLoop N cm segs = [] := by
  rw [Props.C11.C11_bufio_refines N hN]
  exact C08_undecodable_closes cm _ h

-- UDP: `udpParse` is a pure function of one datagram (no state is threaded from one datagram to
-- the next in the model), so a discarded datagram cannot affect the decoding of any other; the
-- buffer-recycling side of that is C10 (`C10_local`, `C10_pool_exclusive`).

/-! ### non-vacuity: a successful parse exists (any compact table), and the bound is met by it -/

example (cm : List (Bytes × Bytes)) :
    ∃ input m rest, parseMessage cm input = .ok m rest ∧ m.body.length = 2 ∧ rest.length = 3 ∧
      m.headers.length = 1 :=
  ⟨_, _, _, parse_render_ws cm [13, 10] _ _ _ _ (Or.inl rfl) (wf_example_status cm) [] [1, 2, 3]
    (by simp), rfl, rfl, rfl⟩

/-- … and an undecodable one: a stream of keep-alives only -/
example (cm : List (Bytes × Bytes)) : connLoop cm (keepAlives 3) = [] :=
  C08_undecodable_closes cm _ (parseMessage_white cm _ (keepAlives_white 3))

end Props.C08
