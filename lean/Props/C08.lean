import GoStd.Bytes
namespace Props.C08
end Props.C08
