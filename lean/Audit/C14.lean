import Props.C14
#print axioms Props.C14.kv_roundtrip_valued
