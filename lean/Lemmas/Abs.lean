/-
Lemmas.Abs — the abstraction of a header list to its three routing stacks (Via, Route,
Record-Route) and the effect of every header-list operation of `Sip.Message` on them.

The stacks are taken over DECODED-OR-DECODABLE headers: a header of the class contributes the
decoded list it holds, or the list its raw string decodes to, or nothing when the string does not
decode. All operation lemmas hold for ANY compact-name map `cm`; where two name classes must not
overlap this is an explicit hypothesis, discharged for the generated table in section `RealMap`.
-/
import Sip.Message
import Generated.Tables
import Lemmas.Bytes
open GoStd Sip

namespace Lemmas

/-! ### header-name classes -/

theorem equalFold_refl (n : Bytes) : equalFold n n = true := by
  simp [equalFold]

/-- every name is in its own class, whatever the compact map -/
theorem isSameHeader_refl (cm : List (Bytes × Bytes)) (n : Bytes) : isSameHeader cm n n = true := by
  simp [isSameHeader, equalFold_refl]

/-- disjointness of two classes is symmetric -/
theorem disjoint_symm {cm : List (Bytes × Bytes)} {a b : Bytes}
    (h : ∀ x, isSameHeader cm x a = true → isSameHeader cm x b = false) :
    ∀ x, isSameHeader cm x b = true → isSameHeader cm x a = false := by
  intro x hb
  cases ha : isSameHeader cm x a with
  | false => rfl
  | true => rw [h x ha] at hb; cases hb

/-! ### the generic stack of a class -/

section Generic
variable {α : Type} (cm : List (Bytes × Bytes)) (n : Bytes) (dec : HVal → List α)

/-- concatenation of `dec value` over the headers of class `n`, in header order -/
def stackOf : List Header → List α
  | [] => []
  | h :: hs => (if isSameHeader cm h.name n then dec h.value else []) ++ stackOf hs

theorem stackOf_eq_flatMap (hs : List Header) :
    stackOf cm n dec hs = (hs.filter (fun h => isSameHeader cm h.name n)).flatMap (fun h => dec h.value) := by
  induction hs with
  | nil => rfl
  | cons h hs ih =>
    simp only [stackOf, List.filter_cons]
    cases isSameHeader cm h.name n <;> simp [ih]

theorem stackOf_append (a b : List Header) :
    stackOf cm n dec (a ++ b) = stackOf cm n dec a ++ stackOf cm n dec b := by
  induction a with
  | nil => rfl
  | cons h hs ih => simp [stackOf, ih]

theorem stackOf_take_drop (hs : List Header) (p : Nat) :
    stackOf cm n dec (hs.take p) ++ stackOf cm n dec (hs.drop p) = stackOf cm n dec hs := by
  rw [← stackOf_append, List.take_append_drop]

theorem stackOf_take_nil_of_nil (hs : List Header) (p : Nat) (h : stackOf cm n dec hs = []) :
    stackOf cm n dec (hs.take p) = [] := by
  have := stackOf_take_drop cm n dec hs p
  rw [h] at this
  exact (List.append_eq_nil_iff.mp this).1

/-! #### first header of the class: found / not found -/

theorem stackOf_of_find_none (hs : List Header) (h : findHeader cm hs n = none) :
    stackOf cm n dec hs = [] := by
  induction hs with
  | nil => rfl
  | cons x xs ih =>
    simp only [findHeader, List.find?_cons] at h
    cases hx : isSameHeader cm x.name n with
    | true => simp [hx] at h
    | false =>
      simp only [hx] at h
      simp [stackOf, hx, ih h]

/-- the stack is what the first header of the class holds, followed by the stack without it -/
theorem stackOf_of_find (hs : List Header) (h : Header) (hf : findHeader cm hs n = some h) :
    stackOf cm n dec hs = dec h.value ++ stackOf cm n dec (removeHeader cm hs n) := by
  induction hs with
  | nil => simp [findHeader] at hf
  | cons x xs ih =>
    simp only [findHeader, List.find?_cons] at hf
    cases hx : isSameHeader cm x.name n with
    | true =>
      simp only [hx, Option.some.injEq] at hf
      subst hf
      simp [stackOf, removeHeader, hx]
    | false =>
      simp only [hx] at hf
      simp [stackOf, removeHeader, hx, ih hf]

theorem stackOf_setFirst (hs : List Header) (h : Header) (v : HVal) (hf : findHeader cm hs n = some h) :
    stackOf cm n dec (setFirst cm hs n v) = dec v ++ stackOf cm n dec (removeHeader cm hs n) := by
  induction hs with
  | nil => simp [findHeader] at hf
  | cons x xs ih =>
    simp only [findHeader, List.find?_cons] at hf
    cases hx : isSameHeader cm x.name n with
    | true => simp [stackOf, removeHeader, setFirst, hx]
    | false =>
      simp only [hx] at hf
      simp [stackOf, removeHeader, setFirst, hx, ih hf]

theorem removeHeader_setFirst (hs : List Header) (v : HVal) :
    removeHeader cm (setFirst cm hs n v) n = removeHeader cm hs n := by
  induction hs with
  | nil => rfl
  | cons x xs ih =>
    cases hx : isSameHeader cm x.name n with
    | true => simp [removeHeader, setFirst, hx]
    | false => simp [removeHeader, setFirst, hx, ih]

theorem setFirst_setFirst (hs : List Header) (v w : HVal) :
    setFirst cm (setFirst cm hs n v) n w = setFirst cm hs n w := by
  induction hs with
  | nil => rfl
  | cons x xs ih =>
    cases hx : isSameHeader cm x.name n with
    | true => simp [setFirst, hx]
    | false => simp [setFirst, hx, ih]

theorem findHeader_setFirst (hs : List Header) (h : Header) (v : HVal) (hf : findHeader cm hs n = some h) :
    findHeader cm (setFirst cm hs n v) n = some { name := h.name, value := v } := by
  induction hs with
  | nil => simp [findHeader] at hf
  | cons x xs ih =>
    simp only [findHeader, List.find?_cons] at hf
    cases hx : isSameHeader cm x.name n with
    | true =>
      simp only [hx, Option.some.injEq] at hf
      subst hf
      simp [findHeader, setFirst, hx]
    | false =>
      simp only [hx] at hf
      have := ih hf
      simp only [findHeader] at this
      simp [findHeader, setFirst, hx, this]

/-- writing back the value that is already there changes nothing -/
theorem setFirst_self (hs : List Header) (h : Header) (hf : findHeader cm hs n = some h) :
    setFirst cm hs n h.value = hs := by
  induction hs with
  | nil => rfl
  | cons x xs ih =>
    simp only [findHeader, List.find?_cons] at hf
    cases hx : isSameHeader cm x.name n with
    | true =>
      simp only [hx, Option.some.injEq] at hf
      subst hf
      simp [setFirst, hx]
    | false =>
      simp only [hx] at hf
      simp [setFirst, hx, ih hf]

theorem setFirst_of_find_none (hs : List Header) (v : HVal) (hf : findHeader cm hs n = none) :
    setFirst cm hs n v = hs := by
  induction hs with
  | nil => rfl
  | cons x xs ih =>
    simp only [findHeader, List.find?_cons] at hf
    cases hx : isSameHeader cm x.name n with
    | true => simp [hx] at hf
    | false =>
      simp only [hx] at hf
      simp [setFirst, hx, ih hf]

theorem findHeader_removeHeader_none (hs : List Header) (hf : findHeader cm hs n = none) :
    removeHeader cm hs n = hs := by
  induction hs with
  | nil => rfl
  | cons x xs ih =>
    simp only [findHeader, List.find?_cons] at hf
    cases hx : isSameHeader cm x.name n with
    | true => simp [hx] at hf
    | false =>
      simp only [hx] at hf
      simp [removeHeader, hx, ih hf]

/-! #### surgery on ANOTHER class `n'` (disjoint from `n`) -/

variable (n' : Bytes)

theorem stackOf_setFirst_other (hd : ∀ x, isSameHeader cm x n' = true → isSameHeader cm x n = false)
    (hs : List Header) (v : HVal) :
    stackOf cm n dec (setFirst cm hs n' v) = stackOf cm n dec hs := by
  induction hs with
  | nil => rfl
  | cons x xs ih =>
    cases hx : isSameHeader cm x.name n' with
    | true => simp [stackOf, setFirst, hx, hd x.name hx]
    | false => simp [stackOf, setFirst, hx, ih]

theorem stackOf_removeHeader_other (hd : ∀ x, isSameHeader cm x n' = true → isSameHeader cm x n = false)
    (hs : List Header) :
    stackOf cm n dec (removeHeader cm hs n') = stackOf cm n dec hs := by
  induction hs with
  | nil => rfl
  | cons x xs ih =>
    cases hx : isSameHeader cm x.name n' with
    | true => simp [stackOf, removeHeader, hx, hd x.name hx]
    | false => simp [stackOf, removeHeader, hx, ih]

theorem findHeader_setFirst_other (hd : ∀ x, isSameHeader cm x n' = true → isSameHeader cm x n = false)
    (hs : List Header) (v : HVal) :
    findHeader cm (setFirst cm hs n' v) n = findHeader cm hs n := by
  induction hs with
  | nil => rfl
  | cons x xs ih =>
    simp only [findHeader] at ih
    cases hx : isSameHeader cm x.name n' with
    | true => simp [findHeader, setFirst, hx, hd x.name hx]
    | false => simp [findHeader, setFirst, hx, List.find?_cons, ih]

theorem findHeader_removeHeader_other (hd : ∀ x, isSameHeader cm x n' = true → isSameHeader cm x n = false)
    (hs : List Header) :
    findHeader cm (removeHeader cm hs n') n = findHeader cm hs n := by
  induction hs with
  | nil => rfl
  | cons x xs ih =>
    simp only [findHeader] at ih
    cases hx : isSameHeader cm x.name n' with
    | true => simp [findHeader, removeHeader, hx, hd x.name hx]
    | false => simp [findHeader, removeHeader, hx, List.find?_cons, ih]

/-! #### positions and insertion -/

theorem stackOf_of_pos_none (hs : List Header) (h : findHeaderPos cm hs n = none) :
    stackOf cm n dec hs = [] := by
  induction hs with
  | nil => rfl
  | cons x xs ih =>
    simp only [findHeaderPos] at h
    cases hx : isSameHeader cm x.name n with
    | true => simp [hx] at h
    | false =>
      simp only [hx, Bool.false_eq_true, ↓reduceIte, Option.map_eq_none_iff] at h
      simp [stackOf, hx, ih h]

/-- no header of the class lies before the position `findHeaderPos` reports -/
theorem stackOf_take_pos (hs : List Header) (p : Nat) (h : findHeaderPos cm hs n = some p) :
    stackOf cm n dec (hs.take p) = [] := by
  induction hs generalizing p with
  | nil => simp [findHeaderPos] at h
  | cons x xs ih =>
    simp only [findHeaderPos] at h
    cases hx : isSameHeader cm x.name n with
    | true =>
      simp only [hx, ↓reduceIte, Option.some.injEq] at h
      subst h
      rfl
    | false =>
      simp only [hx, Bool.false_eq_true, ↓reduceIte, Option.map_eq_some_iff] at h
      obtain ⟨q, hq, rfl⟩ := h
      simp [stackOf, hx, ih q hq]

theorem findHeaderPos_isSome (hs : List Header) :
    (findHeaderPos cm hs n).isSome = (findHeader cm hs n).isSome := by
  induction hs with
  | nil => rfl
  | cons x xs ih =>
    simp only [findHeader] at ih
    cases hx : isSameHeader cm x.name n with
    | true => simp [findHeaderPos, findHeader, hx]
    | false => simp [findHeaderPos, findHeader, hx, ih]

theorem stackOf_insertAt (hs : List Header) (p : Nat) (x : Header) :
    stackOf cm n dec (insertAt hs p x) =
      stackOf cm n dec (hs.take p) ++ ((if isSameHeader cm x.name n then dec x.value else [])
        ++ stackOf cm n dec (hs.drop p)) := by
  simp [insertAt, stackOf_append, stackOf]

/-- inserting behind a prefix that holds no header of the class puts the new entries on top -/
theorem stackOf_insertAt_top (hs : List Header) (p : Nat) (x : Header)
    (hp : stackOf cm n dec (hs.take p) = []) :
    stackOf cm n dec (insertAt hs p x) =
      (if isSameHeader cm x.name n then dec x.value else []) ++ stackOf cm n dec hs := by
  rw [stackOf_insertAt, hp, ← stackOf_take_drop cm n dec hs p, hp]
  simp

theorem stackOf_insertAt_other (hs : List Header) (p : Nat) (x : Header)
    (hx : isSameHeader cm x.name n = false) :
    stackOf cm n dec (insertAt hs p x) = stackOf cm n dec hs := by
  rw [stackOf_insertAt, hx]
  simpa using stackOf_take_drop cm n dec hs p

/-- a header whose value holds nothing for this stack can be inserted anywhere -/
theorem stackOf_insertAt_nil (hs : List Header) (p : Nat) (x : Header) (hx : dec x.value = []) :
    stackOf cm n dec (insertAt hs p x) = stackOf cm n dec hs := by
  rw [stackOf_insertAt, hx]
  simpa using stackOf_take_drop cm n dec hs p

theorem findHeader_insertAt_other (hs : List Header) (p : Nat) (x : Header)
    (hx : isSameHeader cm x.name n = false) :
    findHeader cm (insertAt hs p x) n = findHeader cm hs n := by
  simp only [findHeader, insertAt, List.find?_append, List.find?_cons, hx]
  rw [← List.find?_append, List.take_append_drop]

end Generic

/-! ### the three stacks -/

def viaVals : HVal → List ViaParam
  | .via v => v
  | .raw s => (parseVia s).getD []
  | _ => []

def routeVals : HVal → List RouteParam
  | .route r => r
  | .raw s => (parseRoute s).getD []
  | _ => []

def rrVals : HVal → List RouteParam
  | .recordRoute r => r
  | .raw s => (parseRoute s).getD []
  | _ => []

/-- all Via entries of the message, top first -/
def viaStack (cm : List (Bytes × Bytes)) (hs : List Header) : List ViaParam := stackOf cm viaName viaVals hs
/-- all Route entries of the message, first first -/
def routeStack (cm : List (Bytes × Bytes)) (hs : List Header) : List RouteParam := stackOf cm routeName routeVals hs
/-- all Record-Route entries of the message, first first -/
def rrStack (cm : List (Bytes × Bytes)) (hs : List Header) : List RouteParam := stackOf cm recordRouteName rrVals hs

theorem viaStack_eq (cm : List (Bytes × Bytes)) (hs : List Header) :
    viaStack cm hs = (hs.filter (fun h => isSameHeader cm h.name viaName)).flatMap (fun h => viaVals h.value) :=
  stackOf_eq_flatMap ..

theorem routeStack_eq (cm : List (Bytes × Bytes)) (hs : List Header) :
    routeStack cm hs = (hs.filter (fun h => isSameHeader cm h.name routeName)).flatMap (fun h => routeVals h.value) :=
  stackOf_eq_flatMap ..

theorem rrStack_eq (cm : List (Bytes × Bytes)) (hs : List Header) :
    rrStack cm hs = (hs.filter (fun h => isSameHeader cm h.name recordRouteName)).flatMap (fun h => rrVals h.value) :=
  stackOf_eq_flatMap ..

/-! ### decoding never yields an empty list -/

theorem mapM?_length {α β : Type} (f : α → Option β) (l : List α) (bs : List β)
    (h : mapM? f l = some bs) : bs.length = l.length := by
  induction l generalizing bs with
  | nil => simp [mapM?] at h; simp [← h]
  | cons a as ih =>
    simp only [mapM?] at h
    split at h
    · cases h
    · split at h
      · cases h
      · rename_i bs' hbs
        simp only [Option.some.injEq] at h
        subst h
        simp [ih bs' hbs]

theorem parseVia_ne_nil (s : Bytes) (v : List ViaParam) (h : parseVia s = some v) : v ≠ [] := by
  intro hv
  have := mapM?_length _ _ _ h
  have hs := split_ne_nil 44 s
  subst hv
  exact hs (List.eq_nil_of_length_eq_zero this.symm)

theorem parseRoute_ne_nil (s : Bytes) (r : List RouteParam) (h : parseRoute s = some r) : r ≠ [] := by
  intro hv
  have := mapM?_length _ _ _ h
  have hs := split_ne_nil 44 s
  subst hv
  exact hs (List.eq_nil_of_length_eq_zero this.symm)

/-! ### the lazy getters, inverted

Whatever branch is taken, the returned message is the old one with the decoded value written
into the first header of the class (a no-op when it was already decoded). -/

section Ops
variable (cm : List (Bytes × Bytes))

theorem getVia_some {m m' : Message} {v : List ViaParam} (h : getVia cm m = some (v, m')) :
    ∃ hd, findHeader cm m.headers viaName = some hd ∧
      (hd.value = .via v ∨ ∃ s, hd.value = .raw s ∧ parseVia s = some v) ∧
      m' = { m with headers := setFirst cm m.headers viaName (.via v) } := by
  unfold getVia at h
  split at h
  · cases h
  · rename_i hd hf
    split at h
    · rename_i v0 hv
      simp only [Option.some.injEq, Prod.mk.injEq] at h
      obtain ⟨rfl, rfl⟩ := h
      refine ⟨hd, hf, Or.inl hv, ?_⟩
      have := setFirst_self cm viaName m.headers hd hf
      rw [hv] at this
      rw [this]
    · rename_i s hv
      split at h
      · cases h
      · rename_i v0 hp
        simp only [Option.some.injEq, Prod.mk.injEq] at h
        obtain ⟨rfl, rfl⟩ := h
        exact ⟨hd, hf, Or.inr ⟨s, hv, hp⟩, rfl⟩
    · cases h

theorem getVia_none_of_find_none {m : Message} (h : findHeader cm m.headers viaName = none) :
    getVia cm m = none := by
  simp [getVia, h]

theorem getRoute_some {m m' : Message} {r : List RouteParam} (h : getRoute cm m = some (r, m')) :
    ∃ hd, findHeader cm m.headers routeName = some hd ∧
      (hd.value = .route r ∨ ∃ s, hd.value = .raw s ∧ parseRoute s = some r) ∧
      m' = { m with headers := setFirst cm m.headers routeName (.route r) } := by
  unfold getRoute at h
  split at h
  · cases h
  · rename_i hd hf
    split at h
    · rename_i v0 hv
      simp only [Option.some.injEq, Prod.mk.injEq] at h
      obtain ⟨rfl, rfl⟩ := h
      refine ⟨hd, hf, Or.inl hv, ?_⟩
      have := setFirst_self cm routeName m.headers hd hf
      rw [hv] at this
      rw [this]
    · rename_i s hv
      split at h
      · cases h
      · rename_i v0 hp
        simp only [Option.some.injEq, Prod.mk.injEq] at h
        obtain ⟨rfl, rfl⟩ := h
        exact ⟨hd, hf, Or.inr ⟨s, hv, hp⟩, rfl⟩
    · cases h

theorem viaVals_of {hd : Header} {v : List ViaParam}
    (h : hd.value = .via v ∨ ∃ s, hd.value = .raw s ∧ parseVia s = some v) : viaVals hd.value = v := by
  rcases h with h | ⟨s, h, hp⟩ <;> simp [viaVals, *]

theorem routeVals_of {hd : Header} {r : List RouteParam}
    (h : hd.value = .route r ∨ ∃ s, hd.value = .raw s ∧ parseRoute s = some r) : routeVals hd.value = r := by
  rcases h with h | ⟨s, h, hp⟩ <;> simp [routeVals, *]

/-! ### Via -/

/-- `AddVia` pushes exactly one new topmost entry. -/
theorem viaStack_addVia (m : Message) (vp : ViaParam) :
    viaStack cm (addVia cm m vp).headers = vp :: viaStack cm m.headers := by
  simp only [addVia, viaStack]
  rw [stackOf_insertAt_top]
  · simp [isSameHeader_refl, viaVals]
  · cases hp : findHeaderPos cm m.headers viaName with
    | none => simp [stackOf]
    | some p => simpa using stackOf_take_pos cm viaName viaVals m.headers p hp

/-- `GetVia` decodes in place: the stack is unchanged and starts with the returned list. -/
theorem viaStack_getVia {m m' : Message} {v : List ViaParam} (h : getVia cm m = some (v, m')) :
    viaStack cm m'.headers = viaStack cm m.headers ∧ ∃ rest, viaStack cm m.headers = v ++ rest := by
  obtain ⟨hd, hf, hv, rfl⟩ := getVia_some cm h
  have h1 := stackOf_of_find cm viaName viaVals m.headers hd hf
  have h2 := stackOf_setFirst cm viaName viaVals m.headers hd (.via v) hf
  rw [viaVals_of hv] at h1
  simp only [viaStack]
  exact ⟨by rw [h2, h1]; rfl, _, h1⟩

/-- `PopVia`, exact form: the list `v` read from the first Via-class header loses its first
element (the header goes when nothing is left); everything below is untouched. -/
theorem viaStack_popVia_gen {m m' : Message} (h : popVia cm m = some m') :
    ∃ v m1 rest, getVia cm m = some (v, m1) ∧ viaStack cm m.headers = v ++ rest ∧
      viaStack cm m'.headers = v.tail ++ rest := by
  unfold popVia at h
  split at h
  · cases h
  · rename_i v m1 hg
    obtain ⟨hd, hf, hv, rfl⟩ := getVia_some cm hg
    have h1 := stackOf_of_find cm viaName viaVals m.headers hd hf
    rw [viaVals_of hv] at h1
    refine ⟨v, _, _, hg, h1, ?_⟩
    split at h
    · simp only [Option.some.injEq] at h
      subst h
      simp only [viaStack, setFirst_setFirst]
      rw [stackOf_setFirst cm viaName viaVals m.headers hd _ hf]
      rfl
    · rename_i hlen
      simp only [Option.some.injEq] at h
      subst h
      simp only [viaStack, removeHeader_setFirst]
      have : v.tail = [] := by
        cases v with
        | nil => rfl
        | cons a as => cases as with
          | nil => rfl
          | cons b bs => simp at hlen
      rw [this]
      rfl

/-- `PopVia` removes exactly the topmost entry, provided the first Via-class header does not hold
an (already decoded) empty list — which no operation of the model ever produces, and which a raw
header cannot decode to (`parseVia_ne_nil`). -/
theorem viaStack_popVia {m m' : Message} (h : popVia cm m = some m')
    (hne : ∀ hd, findHeader cm m.headers viaName = some hd → hd.value ≠ .via []) :
    viaStack cm m'.headers = (viaStack cm m.headers).tail := by
  obtain ⟨v, m1, rest, hg, h1, h2⟩ := viaStack_popVia_gen cm h
  obtain ⟨hd, hf, hv, _⟩ := getVia_some cm hg
  have hv' : v ≠ [] := by
    rcases hv with hv | ⟨s, _, hp⟩
    · intro e; subst e; exact hne hd hf hv
    · exact parseVia_ne_nil s v hp
  rw [h1, h2]
  cases v with
  | nil => exact absurd rfl hv'
  | cons a as => rfl

/-- the via-param `SetReceived` writes: `received` set (or appended), `rport` overwritten iff present -/
def stampReceived (vp : ViaParam) (ip : Bytes) (port : Int) : ViaParam :=
  { vp with params :=
      if hasParam (setParam vp.params (str "received") ip) (str "rport")
      then setParam (setParam vp.params (str "received") ip) (str "rport") (itoa port)
      else setParam vp.params (str "received") ip }

theorem setReceived_of_none {m : Message} (ip : Bytes) (port : Int) (h : getVia cm m = none) :
    setReceived cm m ip port = m := by
  simp [setReceived, h]

theorem setReceived_of_nil {m m1 : Message} (ip : Bytes) (port : Int) (h : getVia cm m = some ([], m1)) :
    setReceived cm m ip port = m1 := by
  simp [setReceived, h]

theorem setReceived_of_cons {m m1 : Message} {vp : ViaParam} {rest : List ViaParam} (ip : Bytes) (port : Int)
    (h : getVia cm m = some (vp :: rest, m1)) :
    setReceived cm m ip port =
      { m with headers := setFirst cm m.headers viaName (.via (stampReceived vp ip port :: rest)) } := by
  obtain ⟨hd, hf, hv, rfl⟩ := getVia_some cm h
  simp [setReceived, h, setFirst_setFirst, stampReceived]

/-- `SetReceived`: the HEAD of the Via stack is replaced by its stamped version, every other
entry is untouched; without a decodable non-empty top Via nothing changes. -/
theorem viaStack_setReceived (m : Message) (ip : Bytes) (port : Int) :
    viaStack cm (setReceived cm m ip port).headers =
      match getVia cm m with
      | some (vp :: _, _) => stampReceived vp ip port :: (viaStack cm m.headers).tail
      | _ => viaStack cm m.headers := by
  split
  · rename_i vp rest m1 hg
    rw [setReceived_of_cons cm ip port hg]
    obtain ⟨hd, hf, hv, rfl⟩ := getVia_some cm hg
    have h1 := stackOf_of_find cm viaName viaVals m.headers hd hf
    rw [viaVals_of hv] at h1
    simp only [viaStack]
    rw [stackOf_setFirst cm viaName viaVals m.headers hd _ hf, h1]
    rfl
  · rename_i hno
    cases hg : getVia cm m with
    | none => rw [setReceived_of_none cm ip port hg]
    | some p =>
      obtain ⟨v, m1⟩ := p
      cases v with
      | nil =>
        rw [setReceived_of_nil cm ip port hg]
        exact (viaStack_getVia cm hg).1
      | cons vp rest => exact absurd hg (hno vp rest m1)

/-- the entry `SetReceived` stamps is the head of the stack -/
theorem viaStack_head_of_getVia {m m1 : Message} {vp : ViaParam} {rest : List ViaParam}
    (h : getVia cm m = some (vp :: rest, m1)) : (viaStack cm m.headers).head? = some vp := by
  obtain ⟨r, hr⟩ := (viaStack_getVia cm h).2
  simp [hr]

end Ops

/-! ### Route -/

section OpsRoute
variable (cm : List (Bytes × Bytes))

theorem routeStack_getRoute {m m' : Message} {r : List RouteParam} (h : getRoute cm m = some (r, m')) :
    routeStack cm m'.headers = routeStack cm m.headers ∧ ∃ rest, routeStack cm m.headers = r ++ rest := by
  obtain ⟨hd, hf, hv, rfl⟩ := getRoute_some cm h
  have h1 := stackOf_of_find cm routeName routeVals m.headers hd hf
  have h2 := stackOf_setFirst cm routeName routeVals m.headers hd (.route r) hf
  rw [routeVals_of hv] at h1
  simp only [routeStack]
  exact ⟨by rw [h2, h1]; rfl, _, h1⟩

theorem routeStack_head_of_getRoute {m m1 : Message} {rp : RouteParam} {rest : List RouteParam}
    (h : getRoute cm m = some (rp :: rest, m1)) : (routeStack cm m.headers).head? = some rp := by
  obtain ⟨r, hr⟩ := (routeStack_getRoute cm h).2
  simp [hr]

theorem routeStack_popRoute_gen {m m' : Message} (h : popRoute cm m = some m') :
    ∃ r m1 rest, getRoute cm m = some (r, m1) ∧ routeStack cm m.headers = r ++ rest ∧
      routeStack cm m'.headers = r.tail ++ rest := by
  unfold popRoute at h
  split at h
  · cases h
  · rename_i r m1 hg
    obtain ⟨hd, hf, hv, rfl⟩ := getRoute_some cm hg
    have h1 := stackOf_of_find cm routeName routeVals m.headers hd hf
    rw [routeVals_of hv] at h1
    refine ⟨r, _, _, hg, h1, ?_⟩
    split at h
    · simp only [Option.some.injEq] at h
      subst h
      simp only [routeStack, setFirst_setFirst]
      rw [stackOf_setFirst cm routeName routeVals m.headers hd _ hf]
      rfl
    · rename_i hlen
      simp only [Option.some.injEq] at h
      subst h
      simp only [routeStack, removeHeader_setFirst]
      have : r.tail = [] := by
        cases r with
        | nil => rfl
        | cons a as => cases as with
          | nil => rfl
          | cons b bs => simp at hlen
      rw [this]
      rfl

/-- `PopRoute` removes exactly the first Route entry (same proviso as `viaStack_popVia`). -/
theorem routeStack_popRoute {m m' : Message} (h : popRoute cm m = some m')
    (hne : ∀ hd, findHeader cm m.headers routeName = some hd → hd.value ≠ .route []) :
    routeStack cm m'.headers = (routeStack cm m.headers).tail := by
  obtain ⟨r, m1, rest, hg, h1, h2⟩ := routeStack_popRoute_gen cm h
  obtain ⟨hd, hf, hv, _⟩ := getRoute_some cm hg
  have hv' : r ≠ [] := by
    rcases hv with hv | ⟨s, _, hp⟩
    · intro e; subst e; exact hne hd hf hv
    · exact parseRoute_ne_nil s r hp
  rw [h1, h2]
  cases r with
  | nil => exact absurd rfl hv'
  | cons a as => rfl

/-- `PopRoute` succeeds exactly when `GetRoute` does. -/
theorem popRoute_isSome (m : Message) : (popRoute cm m).isSome = (getRoute cm m).isSome := by
  unfold popRoute
  cases getRoute cm m with
  | none => rfl
  | some p => obtain ⟨r, m1⟩ := p; simp only []; split <;> rfl

theorem popVia_isSome (m : Message) : (popVia cm m).isSome = (getVia cm m).isSome := by
  unfold popVia
  cases getVia cm m with
  | none => rfl
  | some p => obtain ⟨r, m1⟩ := p; simp only []; split <;> rfl

end OpsRoute

/-! ### Record-Route -/

section OpsRR
variable (cm : List (Bytes × Bytes))

/-- no Record-Route-class header lies before the insertion position -/
theorem rrStack_take_findRecordRoutePos (hs : List Header) :
    rrStack cm (hs.take (findRecordRoutePos cm hs)) = [] := by
  unfold findRecordRoutePos rrStack
  cases hp : findHeaderPos cm hs recordRouteName with
  | some p => exact stackOf_take_pos cm recordRouteName rrVals hs p hp
  | none => exact stackOf_take_nil_of_nil _ _ _ _ _ (stackOf_of_pos_none cm recordRouteName rrVals hs hp)

/-- `AddRecordRoute` places the new entry ahead of all existing Record-Route entries. -/
theorem rrStack_addRecordRoute (m : Message) (rr : RouteParam) :
    rrStack cm (addRecordRoute cm m rr).headers = rr :: rrStack cm m.headers := by
  simp only [addRecordRoute]
  have := rrStack_take_findRecordRoutePos cm m.headers
  simp only [rrStack] at this ⊢
  rw [stackOf_insertAt_top _ _ _ _ _ _ this]
  simp [isSameHeader_refl, rrVals]

end OpsRR

/-! ### cross-independence

Surgery on the headers of one class (`setFirst`/`removeHeader` inside `getVia`, `popVia`,
`setReceived`, `getRoute`, `popRoute`) leaves the stacks of the other classes alone provided the
classes do not overlap: explicit hypotheses. The two insertions (`addVia`, `addRecordRoute`) need
no hypothesis at all: the inserted value is of a kind the other stacks do not read. -/

section Cross
variable (cm : List (Bytes × Bytes))

/-- generic: `getVia` does not disturb the stack of a class disjoint from Via -/
theorem stackOf_getVia_other {α : Type} (n : Bytes) (dec : HVal → List α)
    (hd : ∀ x, isSameHeader cm x viaName = true → isSameHeader cm x n = false)
    {m m' : Message} {v : List ViaParam} (h : getVia cm m = some (v, m')) :
    stackOf cm n dec m'.headers = stackOf cm n dec m.headers := by
  obtain ⟨_, _, _, rfl⟩ := getVia_some cm h
  exact stackOf_setFirst_other cm n dec viaName hd _ _

theorem stackOf_getRoute_other {α : Type} (n : Bytes) (dec : HVal → List α)
    (hd : ∀ x, isSameHeader cm x routeName = true → isSameHeader cm x n = false)
    {m m' : Message} {r : List RouteParam} (h : getRoute cm m = some (r, m')) :
    stackOf cm n dec m'.headers = stackOf cm n dec m.headers := by
  obtain ⟨_, _, _, rfl⟩ := getRoute_some cm h
  exact stackOf_setFirst_other cm n dec routeName hd _ _

theorem stackOf_addVia_other {α : Type} (n : Bytes) (dec : HVal → List α)
    (hd : ∀ x, isSameHeader cm x viaName = true → isSameHeader cm x n = false)
    (m : Message) (vp : ViaParam) :
    stackOf cm n dec (addVia cm m vp).headers = stackOf cm n dec m.headers :=
  stackOf_insertAt_other cm n dec _ _ _ (hd _ (isSameHeader_refl cm viaName))

theorem stackOf_popVia_other {α : Type} (n : Bytes) (dec : HVal → List α)
    (hd : ∀ x, isSameHeader cm x viaName = true → isSameHeader cm x n = false)
    {m m' : Message} (h : popVia cm m = some m') :
    stackOf cm n dec m'.headers = stackOf cm n dec m.headers := by
  unfold popVia at h
  split at h
  · cases h
  · rename_i v m1 hg
    have h1 := stackOf_getVia_other cm n dec hd hg
    split at h <;> simp only [Option.some.injEq] at h <;> subst h
    · rw [← h1]; exact stackOf_setFirst_other cm n dec viaName hd _ _
    · rw [← h1]; exact stackOf_removeHeader_other cm n dec viaName hd _

theorem stackOf_setReceived_other {α : Type} (n : Bytes) (dec : HVal → List α)
    (hd : ∀ x, isSameHeader cm x viaName = true → isSameHeader cm x n = false)
    (m : Message) (ip : Bytes) (port : Int) :
    stackOf cm n dec (setReceived cm m ip port).headers = stackOf cm n dec m.headers := by
  cases hg : getVia cm m with
  | none => rw [setReceived_of_none cm ip port hg]
  | some p =>
    obtain ⟨v, m1⟩ := p
    cases v with
    | nil => rw [setReceived_of_nil cm ip port hg]; exact stackOf_getVia_other cm n dec hd hg
    | cons vp rest =>
      rw [setReceived_of_cons cm ip port hg]
      exact stackOf_setFirst_other cm n dec viaName hd _ _

theorem stackOf_popRoute_other {α : Type} (n : Bytes) (dec : HVal → List α)
    (hd : ∀ x, isSameHeader cm x routeName = true → isSameHeader cm x n = false)
    {m m' : Message} (h : popRoute cm m = some m') :
    stackOf cm n dec m'.headers = stackOf cm n dec m.headers := by
  unfold popRoute at h
  split at h
  · cases h
  · rename_i v m1 hg
    have h1 := stackOf_getRoute_other cm n dec hd hg
    split at h <;> simp only [Option.some.injEq] at h <;> subst h
    · rw [← h1]; exact stackOf_setFirst_other cm n dec routeName hd _ _
    · rw [← h1]; exact stackOf_removeHeader_other cm n dec routeName hd _

theorem stackOf_addRecordRoute_other {α : Type} (n : Bytes) (dec : HVal → List α)
    (hd : ∀ x, isSameHeader cm x recordRouteName = true → isSameHeader cm x n = false)
    (m : Message) (rr : RouteParam) :
    stackOf cm n dec (addRecordRoute cm m rr).headers = stackOf cm n dec m.headers :=
  stackOf_insertAt_other cm n dec _ _ _ (hd _ (isSameHeader_refl cm recordRouteName))

variable (hVR : ∀ x, isSameHeader cm x viaName = true → isSameHeader cm x routeName = false)
variable (hVRR : ∀ x, isSameHeader cm x viaName = true → isSameHeader cm x recordRouteName = false)
variable (hRRR : ∀ x, isSameHeader cm x routeName = true → isSameHeader cm x recordRouteName = false)

theorem routeStack_addVia (m : Message) (vp : ViaParam) :
    routeStack cm (addVia cm m vp).headers = routeStack cm m.headers :=
  stackOf_insertAt_nil cm _ _ _ _ _ rfl

theorem rrStack_addVia (m : Message) (vp : ViaParam) :
    rrStack cm (addVia cm m vp).headers = rrStack cm m.headers :=
  stackOf_insertAt_nil cm _ _ _ _ _ rfl

include hVR in
theorem routeStack_getVia {m m' : Message} {v : List ViaParam} (h : getVia cm m = some (v, m')) :
    routeStack cm m'.headers = routeStack cm m.headers :=
  stackOf_getVia_other cm _ _ hVR h

include hVRR in
theorem rrStack_getVia {m m' : Message} {v : List ViaParam} (h : getVia cm m = some (v, m')) :
    rrStack cm m'.headers = rrStack cm m.headers :=
  stackOf_getVia_other cm _ _ hVRR h

include hVR in
theorem routeStack_popVia {m m' : Message} (h : popVia cm m = some m') :
    routeStack cm m'.headers = routeStack cm m.headers :=
  stackOf_popVia_other cm _ _ hVR h

include hVRR in
theorem rrStack_popVia {m m' : Message} (h : popVia cm m = some m') :
    rrStack cm m'.headers = rrStack cm m.headers :=
  stackOf_popVia_other cm _ _ hVRR h

include hVR in
theorem routeStack_setReceived (m : Message) (ip : Bytes) (port : Int) :
    routeStack cm (setReceived cm m ip port).headers = routeStack cm m.headers :=
  stackOf_setReceived_other cm _ _ hVR m ip port

include hVRR in
theorem rrStack_setReceived (m : Message) (ip : Bytes) (port : Int) :
    rrStack cm (setReceived cm m ip port).headers = rrStack cm m.headers :=
  stackOf_setReceived_other cm _ _ hVRR m ip port

include hVR in
theorem viaStack_getRoute {m m' : Message} {r : List RouteParam} (h : getRoute cm m = some (r, m')) :
    viaStack cm m'.headers = viaStack cm m.headers :=
  stackOf_getRoute_other cm _ _ (disjoint_symm hVR) h

include hRRR in
theorem rrStack_getRoute {m m' : Message} {r : List RouteParam} (h : getRoute cm m = some (r, m')) :
    rrStack cm m'.headers = rrStack cm m.headers :=
  stackOf_getRoute_other cm _ _ hRRR h

include hVR in
theorem viaStack_popRoute {m m' : Message} (h : popRoute cm m = some m') :
    viaStack cm m'.headers = viaStack cm m.headers :=
  stackOf_popRoute_other cm _ _ (disjoint_symm hVR) h

include hRRR in
theorem rrStack_popRoute {m m' : Message} (h : popRoute cm m = some m') :
    rrStack cm m'.headers = rrStack cm m.headers :=
  stackOf_popRoute_other cm _ _ hRRR h

theorem viaStack_addRecordRoute (m : Message) (rr : RouteParam) :
    viaStack cm (addRecordRoute cm m rr).headers = viaStack cm m.headers :=
  stackOf_insertAt_nil cm _ _ _ _ _ rfl

theorem routeStack_addRecordRoute (m : Message) (rr : RouteParam) :
    routeStack cm (addRecordRoute cm m rr).headers = routeStack cm m.headers :=
  stackOf_insertAt_nil cm _ _ _ _ _ rfl

end Cross

/-! ### ForEachVia: decodes every decodable Via header in place and collects the whole stack -/

section ForEach
variable (cm : List (Bytes × Bytes))

theorem forEachViaHeaders_cons (h : Header) (hs : List Header) :
    forEachViaHeaders cm (h :: hs) =
      if !isSameHeader cm h.name viaName then (h :: (forEachViaHeaders cm hs).1, (forEachViaHeaders cm hs).2)
      else
        match h.value with
        | .via v => (h :: (forEachViaHeaders cm hs).1, v ++ (forEachViaHeaders cm hs).2)
        | .raw s =>
          match parseVia s with
          | none => (h :: (forEachViaHeaders cm hs).1, (forEachViaHeaders cm hs).2)
          | some v => ({ name := h.name, value := .via v } :: (forEachViaHeaders cm hs).1,
                       v ++ (forEachViaHeaders cm hs).2)
        | _ => (h :: (forEachViaHeaders cm hs).1, (forEachViaHeaders cm hs).2) := by
  rw [forEachViaHeaders]
  rcases forEachViaHeaders cm hs with ⟨hs', vs⟩
  rfl

/-- the collected via-params are exactly the Via stack -/
theorem forEachViaHeaders_vias (hs : List Header) : (forEachViaHeaders cm hs).2 = viaStack cm hs := by
  induction hs with
  | nil => rfl
  | cons h hs ih =>
    rw [forEachViaHeaders_cons]
    simp only [viaStack] at ih ⊢
    cases hx : isSameHeader cm h.name viaName with
    | false => simp [stackOf, hx, ih]
    | true =>
      simp only [Bool.not_true, Bool.false_eq_true, ↓reduceIte, stackOf, hx]
      split
      · rename_i v hv; simp [hv, viaVals, ih]
      · rename_i s hv
        split
        · rename_i hp; simp [hv, viaVals, hp, ih]
        · rename_i v hp; simp [hv, viaVals, hp, ih]
      · rename_i h1 h2
        have : viaVals h.value = [] := by
          cases hv : h.value with
          | via v => exact absurd hv (h1 v)
          | raw s => exact absurd hv (h2 s)
          | _ => rfl
        simp [this, ih]

/-- generic: decoding all Via headers in place keeps every stack whose decoder agrees on
`.raw s`/`.via (parseVia s)` for Via-class headers — in particular the Via stack itself, and
every stack of a class disjoint from Via. -/
theorem stackOf_forEachViaHeaders {α : Type} (n : Bytes) (dec : HVal → List α)
    (hdec : ∀ x s v, isSameHeader cm x viaName = true → isSameHeader cm x n = true →
      parseVia s = some v → dec (.via v) = dec (.raw s))
    (hs : List Header) :
    stackOf cm n dec (forEachViaHeaders cm hs).1 = stackOf cm n dec hs := by
  induction hs with
  | nil => rfl
  | cons h hs ih =>
    rw [forEachViaHeaders_cons]
    cases hx : isSameHeader cm h.name viaName with
    | false => simp [stackOf, ih]
    | true =>
      simp only [Bool.not_true, Bool.false_eq_true, ↓reduceIte]
      split
      · simp [stackOf, ih]
      · rename_i s hv
        split
        · simp [stackOf, ih]
        · rename_i v hp
          simp only [stackOf, ih, hv]
          cases hn : isSameHeader cm h.name n with
          | false => rfl
          | true => simp [hdec h.name s v hx hn hp]
      · simp [stackOf, ih]

theorem viaStack_forEachViaHeaders (hs : List Header) :
    viaStack cm (forEachViaHeaders cm hs).1 = viaStack cm hs :=
  stackOf_forEachViaHeaders cm viaName viaVals (by intro x s v _ _ hp; simp [viaVals, hp]) hs

theorem stackOf_forEachViaHeaders_other {α : Type} (n : Bytes) (dec : HVal → List α)
    (hd : ∀ x, isSameHeader cm x viaName = true → isSameHeader cm x n = false) (hs : List Header) :
    stackOf cm n dec (forEachViaHeaders cm hs).1 = stackOf cm n dec hs :=
  stackOf_forEachViaHeaders cm n dec (by intro x s v h1 h2; rw [hd x h1] at h2; cases h2) hs

end ForEach

/-! ### the getters are idempotent: a second call finds the decoded value -/

section Idem
variable (cm : List (Bytes × Bytes))

theorem getVia_idem {m m' : Message} {v : List ViaParam} (h : getVia cm m = some (v, m')) :
    getVia cm m' = some (v, m') := by
  obtain ⟨hd, hf, _, rfl⟩ := getVia_some cm h
  have := findHeader_setFirst cm viaName m.headers hd (.via v) hf
  simp [getVia, this]

theorem getRoute_idem {m m' : Message} {r : List RouteParam} (h : getRoute cm m = some (r, m')) :
    getRoute cm m' = some (r, m') := by
  obtain ⟨hd, hf, _, rfl⟩ := getRoute_some cm h
  have := findHeader_setFirst cm routeName m.headers hd (.route r) hf
  simp [getRoute, this]

/-- popping after a successful `getRoute` with a non-empty list removes exactly the head entry -/
theorem routeStack_popRoute_after_get {m m1 : Message} {rp : RouteParam} {rest : List RouteParam}
    (h : getRoute cm m = some (rp :: rest, m1)) :
    ∃ m2, popRoute cm m1 = some m2 ∧ routeStack cm m2.headers = (routeStack cm m.headers).tail := by
  have hi := getRoute_idem cm h
  have hs : (popRoute cm m1).isSome = true := by rw [popRoute_isSome, hi]; rfl
  obtain ⟨m2, hp⟩ := Option.isSome_iff_exists.mp hs
  obtain ⟨r', m1', tl, hg', h1, h2⟩ := routeStack_popRoute_gen cm hp
  rw [hi] at hg'
  simp only [Option.some.injEq, Prod.mk.injEq] at hg'
  obtain ⟨rfl, _⟩ := hg'
  refine ⟨m2, hp, ?_⟩
  rw [h2, ← (routeStack_getRoute cm h).1, h1]
  rfl

theorem viaStack_popVia_after_get {m m1 : Message} {vp : ViaParam} {rest : List ViaParam}
    (h : getVia cm m = some (vp :: rest, m1)) :
    ∃ m2, popVia cm m1 = some m2 ∧ viaStack cm m2.headers = (viaStack cm m.headers).tail := by
  have hi := getVia_idem cm h
  have hs : (popVia cm m1).isSome = true := by rw [popVia_isSome, hi]; rfl
  obtain ⟨m2, hp⟩ := Option.isSome_iff_exists.mp hs
  obtain ⟨r', m1', tl, hg', h1, h2⟩ := viaStack_popVia_gen cm hp
  rw [hi] at hg'
  simp only [Option.some.injEq, Prod.mk.injEq] at hg'
  obtain ⟨rfl, _⟩ := hg'
  refine ⟨m2, hp, ?_⟩
  rw [h2, ← (viaStack_getVia cm h).1, h1]
  rfl

end Idem

/-! ### no operation produces a decoded EMPTY list

`NoEmpty hs`: no header holds `.via []` or `.route []`. True of every parsed message (all values
raw), preserved by every operation above; under it `popVia` / `popRoute` remove exactly the head
of the stack, with no side condition. -/

section NoEmpty
variable (cm : List (Bytes × Bytes))

def NoEmpty (hs : List Header) : Prop := ∀ h ∈ hs, h.value ≠ .via [] ∧ h.value ≠ .route []

theorem noEmpty_of_raw (hs : List Header) (h : ∀ x ∈ hs, ∃ s, x.value = .raw s) : NoEmpty hs := by
  intro x hx
  obtain ⟨s, hs'⟩ := h x hx
  rw [hs']
  exact ⟨by simp, by simp⟩

theorem mem_setFirst (hs : List Header) (n : Bytes) (v : HVal) (x : Header)
    (hx : x ∈ setFirst cm hs n v) : x ∈ hs ∨ x.value = v := by
  induction hs with
  | nil => simp [setFirst] at hx
  | cons y ys ih =>
    simp only [setFirst] at hx
    split at hx
    · rcases List.mem_cons.mp hx with rfl | hx
      · right; rfl
      · left; exact List.mem_cons_of_mem _ hx
    · rcases List.mem_cons.mp hx with rfl | hx
      · left; exact List.mem_cons_self
      · rcases ih hx with h | h
        · left; exact List.mem_cons_of_mem _ h
        · right; exact h

theorem mem_removeHeader (hs : List Header) (n : Bytes) (x : Header)
    (hx : x ∈ removeHeader cm hs n) : x ∈ hs := by
  induction hs with
  | nil => simp [removeHeader] at hx
  | cons y ys ih =>
    simp only [removeHeader] at hx
    split at hx
    · exact List.mem_cons_of_mem _ hx
    · rcases List.mem_cons.mp hx with rfl | hx
      · exact List.mem_cons_self
      · exact List.mem_cons_of_mem _ (ih hx)

theorem noEmpty_setFirst {hs : List Header} (h : NoEmpty hs) (n : Bytes) {v : HVal}
    (h1 : v ≠ .via []) (h2 : v ≠ .route []) : NoEmpty (setFirst cm hs n v) := by
  intro x hx
  rcases mem_setFirst cm hs n v x hx with hx | hx
  · exact h x hx
  · rw [hx]; exact ⟨h1, h2⟩

theorem noEmpty_removeHeader {hs : List Header} (h : NoEmpty hs) (n : Bytes) :
    NoEmpty (removeHeader cm hs n) :=
  fun x hx => h x (mem_removeHeader cm hs n x hx)

theorem noEmpty_insertAt {hs : List Header} (h : NoEmpty hs) (p : Nat) {x : Header}
    (h1 : x.value ≠ .via []) (h2 : x.value ≠ .route []) : NoEmpty (insertAt hs p x) := by
  intro y hy
  simp only [insertAt, List.mem_append, List.mem_cons] at hy
  rcases hy with hy | rfl | hy
  · exact h y (List.mem_of_mem_take hy)
  · exact ⟨h1, h2⟩
  · exact h y (List.mem_of_mem_drop hy)

theorem mem_of_findHeader {hs : List Header} {n : Bytes} {hd : Header}
    (h : findHeader cm hs n = some hd) : hd ∈ hs :=
  List.mem_of_find?_eq_some h

theorem noEmpty_getVia {m m' : Message} {v : List ViaParam} (hn : NoEmpty m.headers)
    (h : getVia cm m = some (v, m')) : v ≠ [] ∧ NoEmpty m'.headers := by
  obtain ⟨hd, hf, hv, rfl⟩ := getVia_some cm h
  have hv' : v ≠ [] := by
    rcases hv with hv | ⟨s, _, hp⟩
    · intro e; subst e; exact (hn hd (mem_of_findHeader cm hf)).1 hv
    · exact parseVia_ne_nil s v hp
  exact ⟨hv', noEmpty_setFirst cm hn _ (by simpa using hv') (by simp)⟩

theorem noEmpty_getRoute {m m' : Message} {r : List RouteParam} (hn : NoEmpty m.headers)
    (h : getRoute cm m = some (r, m')) : r ≠ [] ∧ NoEmpty m'.headers := by
  obtain ⟨hd, hf, hv, rfl⟩ := getRoute_some cm h
  have hv' : r ≠ [] := by
    rcases hv with hv | ⟨s, _, hp⟩
    · intro e; subst e; exact (hn hd (mem_of_findHeader cm hf)).2 hv
    · exact parseRoute_ne_nil s r hp
  exact ⟨hv', noEmpty_setFirst cm hn _ (by simp) (by simpa using hv')⟩

theorem noEmpty_popVia {m m' : Message} (hn : NoEmpty m.headers) (h : popVia cm m = some m') :
    NoEmpty m'.headers := by
  unfold popVia at h
  split at h
  · cases h
  · rename_i v m1 hg
    obtain ⟨_, hn1⟩ := noEmpty_getVia cm hn hg
    split at h <;> simp only [Option.some.injEq] at h <;> subst h
    · rename_i hl
      refine noEmpty_setFirst cm hn1 _ ?_ (by simp)
      cases v with
      | nil => simp at hl
      | cons a as => cases as with
        | nil => simp at hl
        | cons b bs => simp
    · exact noEmpty_removeHeader cm hn1 _

theorem noEmpty_popRoute {m m' : Message} (hn : NoEmpty m.headers) (h : popRoute cm m = some m') :
    NoEmpty m'.headers := by
  unfold popRoute at h
  split at h
  · cases h
  · rename_i v m1 hg
    obtain ⟨_, hn1⟩ := noEmpty_getRoute cm hn hg
    split at h <;> simp only [Option.some.injEq] at h <;> subst h
    · rename_i hl
      refine noEmpty_setFirst cm hn1 _ (by simp) ?_
      cases v with
      | nil => simp at hl
      | cons a as => cases as with
        | nil => simp at hl
        | cons b bs => simp
    · exact noEmpty_removeHeader cm hn1 _

theorem noEmpty_setReceived {m : Message} (hn : NoEmpty m.headers) (ip : Bytes) (port : Int) :
    NoEmpty (setReceived cm m ip port).headers := by
  cases hg : getVia cm m with
  | none => rw [setReceived_of_none cm ip port hg]; exact hn
  | some p =>
    obtain ⟨v, m1⟩ := p
    cases v with
    | nil => rw [setReceived_of_nil cm ip port hg]; exact (noEmpty_getVia cm hn hg).2
    | cons vp rest =>
      rw [setReceived_of_cons cm ip port hg]
      exact noEmpty_setFirst cm hn _ (by simp) (by simp)

theorem noEmpty_addVia {m : Message} (hn : NoEmpty m.headers) (vp : ViaParam) :
    NoEmpty (addVia cm m vp).headers :=
  noEmpty_insertAt hn _ (by simp) (by simp)

theorem noEmpty_addRecordRoute {m : Message} (hn : NoEmpty m.headers) (rr : RouteParam) :
    NoEmpty (addRecordRoute cm m rr).headers :=
  noEmpty_insertAt hn _ (by simp) (by simp)

theorem noEmpty_forEachViaHeaders {hs : List Header} (hn : NoEmpty hs) :
    NoEmpty (forEachViaHeaders cm hs).1 := by
  induction hs with
  | nil => exact hn
  | cons h hs ih =>
    have hn' : NoEmpty hs := fun x hx => hn x (List.mem_cons_of_mem _ hx)
    have hh := hn h List.mem_cons_self
    have ih' := ih hn'
    rw [forEachViaHeaders_cons]
    have keep : NoEmpty (h :: (forEachViaHeaders cm hs).1) := by
      intro x hx
      rcases List.mem_cons.mp hx with rfl | hx
      · exact hh
      · exact ih' x hx
    split
    · exact keep
    · split
      · exact keep
      · split
        · exact keep
        · rename_i v hp
          intro x hx
          rcases List.mem_cons.mp hx with rfl | hx
          · have := parseVia_ne_nil _ v hp
            exact ⟨by simpa using this, by simp⟩
          · exact ih' x hx
      · exact keep

/-- under `NoEmpty`, `PopVia` removes exactly the topmost Via entry -/
theorem viaStack_popVia_noEmpty {m m' : Message} (hn : NoEmpty m.headers) (h : popVia cm m = some m') :
    viaStack cm m'.headers = (viaStack cm m.headers).tail :=
  viaStack_popVia cm h (fun hd hf => (hn hd (mem_of_findHeader cm hf)).1)

/-- under `NoEmpty`, `PopRoute` removes exactly the first Route entry -/
theorem routeStack_popRoute_noEmpty {m m' : Message} (hn : NoEmpty m.headers) (h : popRoute cm m = some m') :
    routeStack cm m'.headers = (routeStack cm m.headers).tail :=
  routeStack_popRoute cm h (fun hd hf => (hn hd (mem_of_findHeader cm hf)).2)

end NoEmpty

/-! ### the generated table: Via / Route / Record-Route are pairwise disjoint -/

section RealMap

/-- the compact-name map the proxy really uses -/
def realCm : List (Bytes × Bytes) := buildCompactMap Generated.compactTable

theorem real_via (n : Bytes) :
    isSameHeader realCm n viaName = (toLower n == [118, 105, 97] || toLower n == [118]) := by
  have h1 : getCompact realCm viaName = some [118] := by decide +kernel
  have h2 : toLower viaName = [118, 105, 97] := by decide +kernel
  have h3 : toLower [118] = [118] := by decide
  simp only [isSameHeader, h1, equalFold, h2, h3]

theorem real_route (n : Bytes) :
    isSameHeader realCm n routeName = (toLower n == [114, 111, 117, 116, 101]) := by
  have h1 : getCompact realCm routeName = none := by decide +kernel
  have h2 : toLower routeName = [114, 111, 117, 116, 101] := by decide +kernel
  simp only [isSameHeader, h1, equalFold, h2, Bool.or_false]

theorem real_recordRoute (n : Bytes) :
    isSameHeader realCm n recordRouteName =
      (toLower n == [114, 101, 99, 111, 114, 100, 45, 114, 111, 117, 116, 101]) := by
  have h1 : getCompact realCm recordRouteName = none := by decide +kernel
  have h2 : toLower recordRouteName = [114, 101, 99, 111, 114, 100, 45, 114, 111, 117, 116, 101] := by decide +kernel
  simp only [isSameHeader, h1, equalFold, h2, Bool.or_false]

theorem real_via_route : ∀ x, isSameHeader realCm x viaName = true → isSameHeader realCm x routeName = false := by
  intro x h
  rw [real_via] at h
  rw [real_route]
  simp only [Bool.or_eq_true, beq_iff_eq] at h
  rcases h with h | h <;> rw [h] <;> decide

theorem real_via_rr : ∀ x, isSameHeader realCm x viaName = true → isSameHeader realCm x recordRouteName = false := by
  intro x h
  rw [real_via] at h
  rw [real_recordRoute]
  simp only [Bool.or_eq_true, beq_iff_eq] at h
  rcases h with h | h <;> rw [h] <;> decide

theorem real_route_rr : ∀ x, isSameHeader realCm x routeName = true → isSameHeader realCm x recordRouteName = false := by
  intro x h
  rw [real_route] at h
  rw [real_recordRoute]
  simp only [beq_iff_eq] at h
  rw [h]; decide

end RealMap

/-! ### non-vacuity: a concrete message on which every hypothesis above holds

Compact and upper-case Via names, a two-entry top Via, a two-entry Route, one Record-Route, and
the dialog headers (compact From). -/

section Examples

def exTopVia : Bytes := str "SIP/2.0/UDP a:5070;rport;branch=z1, SIP/2.0/TCP b"

def exMsg : Message :=
  { start := .request (str "INVITE") (.abs (str "x")) (str "SIP/2.0"),
    headers := [ { name := str "To", value := .raw (str "<sip:b@h>;tag=t1") },
                 { name := str "v", value := .raw exTopVia },
                 { name := str "Route", value := .raw (str "<sip:p1;lr>, <sip:p2:5080;transport=tcp>") },
                 { name := str "Record-Route", value := .raw (str "<sip:q;lr>") },
                 { name := str "VIA", value := .raw (str "SIP/2.0/UDP c") },
                 { name := str "f", value := .raw (str "<sip:a@h>;tag=f1") },
                 { name := str "Call-ID", value := .raw (str "c1") },
                 { name := str "CSeq", value := .raw (str "7 INVITE") } ],
    body := [] }

theorem exMsg_find_via :
    findHeader realCm exMsg.headers viaName = some { name := str "v", value := .raw exTopVia } := by
  decide +kernel

theorem exMsg_find_route : findHeader realCm exMsg.headers routeName =
    some { name := str "Route", value := .raw (str "<sip:p1;lr>, <sip:p2:5080;transport=tcp>") } := by
  decide +kernel

example : (viaStack realCm exMsg.headers).map (·.host) = [str "a", str "b", str "c"] := by decide +kernel
example : (routeStack realCm exMsg.headers).length = 2 := by decide +kernel
example : (rrStack realCm exMsg.headers).length = 1 := by decide +kernel

/-- `stackOf_of_find`, `stackOf_setFirst`, `findHeader_setFirst`, `setFirst_self` apply -/
example : viaStack realCm exMsg.headers =
    viaVals (.raw exTopVia) ++ viaStack realCm (removeHeader realCm exMsg.headers viaName) :=
  stackOf_of_find realCm viaName viaVals _ _ exMsg_find_via

/-- `getVia_some`, `viaStack_getVia`, `setReceived_of_cons`, `viaStack_head_of_getVia`,
`stackOf_getVia_other` apply: the getter succeeds with a two-entry list -/
example : ∃ vp rest m', getVia realCm exMsg = some (vp :: rest, m') ∧ rest.length = 1 := by
  have h : (getVia realCm exMsg).map (fun p => p.1.length) = some 2 := by decide +kernel
  cases hg : getVia realCm exMsg with
  | none => rw [hg] at h; cases h
  | some p =>
    obtain ⟨v, m'⟩ := p
    rw [hg] at h
    cases v with
    | nil => simp at h
    | cons vp rest => exact ⟨vp, rest, m', rfl, by simpa using h⟩

/-- `viaStack_popVia` (and `_gen`, `stackOf_popVia_other`) apply -/
example : ∃ m', popVia realCm exMsg = some m' ∧
    viaStack realCm m'.headers = (viaStack realCm exMsg.headers).tail := by
  obtain ⟨m', h⟩ := Option.isSome_iff_exists.mp (show (popVia realCm exMsg).isSome = true by decide +kernel)
  refine ⟨m', h, viaStack_popVia realCm h ?_⟩
  intro hd hf
  rw [exMsg_find_via] at hf
  cases hf
  simp

/-- `routeStack_popRoute` (and `_gen`, `getRoute_some`, `stackOf_popRoute_other`) apply -/
example : ∃ m', popRoute realCm exMsg = some m' ∧
    routeStack realCm m'.headers = (routeStack realCm exMsg.headers).tail ∧
    viaStack realCm m'.headers = viaStack realCm exMsg.headers := by
  obtain ⟨m', h⟩ := Option.isSome_iff_exists.mp (show (popRoute realCm exMsg).isSome = true by decide +kernel)
  refine ⟨m', h, routeStack_popRoute realCm h ?_, viaStack_popRoute realCm real_via_route h⟩
  intro hd hf
  rw [exMsg_find_route] at hf
  cases hf
  simp

/-- the position lemmas apply: there is a Via-class header at position 1 and no Record-Route before 3 -/
example : findHeaderPos realCm exMsg.headers viaName = some 1 ∧ findRecordRoutePos realCm exMsg.headers = 3 := by
  decide +kernel

/-- `stackOf_of_find_none`, `getVia_none_of_find_none`, `setReceived_of_none` apply to a message without Via -/
example : findHeader realCm [({ name := str "To", value := .raw [] } : Header)] viaName = none := by decide +kernel

/-- `setReceived_of_nil`: only an already-decoded empty list gives `some ([], _)` -/
example : getVia realCm { exMsg with headers := [{ name := viaName, value := .via [] }] } =
    some ([], { exMsg with headers := [{ name := viaName, value := .via [] }] }) := by decide +kernel

/-- `NoEmpty` holds for the example (all values raw), so `viaStack_popVia_noEmpty` applies -/
example : NoEmpty exMsg.headers := by
  apply noEmpty_of_raw
  intro x hx
  simp only [exMsg, List.mem_cons, List.not_mem_nil, or_false] at hx
  rcases hx with rfl | rfl | rfl | rfl | rfl | rfl | rfl | rfl <;> exact ⟨_, rfl⟩

end Examples

end Lemmas
