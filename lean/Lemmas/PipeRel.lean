/-
Lemmas.PipeRel — the lift of a message relation through `Proxy.Model`, once and for all.

`PipeRel cm R`: the relation `R` on messages is respected by the PRIMITIVE header operations of
`Sip.Message` in the way the pipeline uses them (the typed getters return equal values — for Via and
Route only equal FIRST entries are required —, the mutators return related messages). From these
primitives alone: every function of the pipeline up to `Proxy.step` returns equal states / hops /
identifiers, related messages, and outputs with the same destinations whose payloads are
serialisations of related messages (`step_rel`).

Instances: re-spelling (`Lemmas.SpellPipe`), re-layout (`Lemmas.LayoutPipe`).
-/
import Proxy.Model
import Lemmas.Pipe
open GoStd Sip Proxy

namespace Lemmas

/-- the destination of an output: constructor and address, payload erased -/
def _root_.Proxy.Out.dest : Out → Out
  | .backend a _ => .backend a []
  | .udp ip p _ => .udp ip p []
  | .conn c _ => .conn c []
  | .tcp ip p _ => .tcp ip p []

/-! ### proof-side names for parts of the model functions -/

section Parts
variable (cfg : Cfg)

/-- `handleRawMessage` in terms of its four stages, state included -/
theorem handleRawMessage_eq (st : St) (ev : RawEv) :
    handleRawMessage cfg st ev =
      ({ st with learned := (rawLearn cfg st ev).1,
                 trans := (rawConn cfg st ev (rawStamp cfg ev (rawLearn cfg st ev).2)).1 },
       rawOwnRoute cfg ev (rawConn cfg st ev (rawStamp cfg ev (rawLearn cfg st ev).2)).2) := by
  unfold handleRawMessage rawOwnRoute rawConn rawStamp rawLearn designatesListener
  rfl

/-- proof-side name for the first `let` of `handleDialog`: which backend answered -/
def dialogBackend (st : St) (addr : Bytes) (m : Message) : Option BackendRef × List PinEntry × Message :=
  if st.backends.contains addr then (some (.member addr), st.pins, m)
  else
    match getClientTransaction cfg.cm m with
    | (none, m') => (none, st.pins, m')
    | (some tid, m') =>
      (pinGet st.pins tid, if isFinalResponse cfg.finalClasses m' then pinDel st.pins tid else st.pins, m')

/-- … and for the rest: pin / unpin the dialog -/
def dialogPin (st : St) (backend : Option BackendRef) (pins1 : List PinEntry) (m1 : Message) : St × Message :=
  match backend with
  | none => ({ st with pins := pins1 }, m1)
  | some b =>
    match getMethod cfg.cm m1 with
    | none => ({ st with pins := pins1 }, m1)
    | some (method, m2) =>
      if method == str "INVITE" then
        match getDialog cfg.cm m2 with
        | (some d, m3) =>
          if d.isEmpty then ({ st with pins := pins1 }, m3)
          else ({ st with pins := pinAdd pins1 d b (getExpires cfg.cm m3 0) }, m3)
        | (none, m3) => ({ st with pins := pins1 }, m3)
      else if method == str "BYE" then
        match getDialog cfg.cm m2 with
        | (some d, m3) => if d.isEmpty then ({ st with pins := pins1 }, m3) else ({ st with pins := pinDel pins1 d }, m3)
        | (none, m3) => ({ st with pins := pins1 }, m3)
      else ({ st with pins := pins1 }, m2)

theorem handleDialog_eq (st : St) (a : Bytes) (p : Int) (m : Message) :
    handleDialog cfg st a p m =
      if !isResponse m then (st, m)
      else dialogPin cfg st (dialogBackend cfg st (joinHostPort a p) m).1 (dialogBackend cfg st (joinHostPort a p) m).2.1
        (dialogBackend cfg st (joinHostPort a p) m).2.2 := by
  unfold handleDialog dialogPin dialogBackend
  rfl

end Parts

section Defs
variable (R : Message → Message → Prop)

/-- list getters: both fail, or both succeed with lists that have the same first element -/
def HeadRel {α : Type} (r r' : Option (List α × Message)) : Prop :=
  (r = none ∧ r' = none) ∨
  ∃ v v' m1 m1', r = some (v, m1) ∧ r' = some (v', m1') ∧ v.head? = v'.head? ∧ R m1 m1'

/-- value getters: both fail, or the same value -/
def GRel {α : Type} (r r' : Option (α × Message)) : Prop :=
  (r = none ∧ r' = none) ∨ ∃ a m1 m1', r = some (a, m1) ∧ r' = some (a, m1') ∧ R m1 m1'

def ORel (r r' : Option Message) : Prop :=
  (r = none ∧ r' = none) ∨ ∃ m1 m1', r = some m1 ∧ r' = some m1' ∧ R m1 m1'

def PRel {α : Type} (r r' : α × Message) : Prop := r.1 = r'.1 ∧ R r.2 r'.2

theorem ORel.getD {R : Message → Message → Prop} {r r' : Option Message} (h : ORel R r r') {m m' : Message}
    (H : R m m') : R (r.getD m) (r'.getD m') := by
  rcases h with ⟨rfl, rfl⟩ | ⟨m1, m1', rfl, rfl, H1⟩
  · exact H
  · exact H1

/-- what the pipeline needs of the primitive header operations -/
structure PipeRel (cm : List (Bytes × Bytes)) : Prop where
  start : ∀ {m m'}, R m m' → m.start = m'.start
  getVia : ∀ {m m'}, R m m' → HeadRel R (getVia cm m) (getVia cm m')
  getRoute : ∀ {m m'}, R m m' → HeadRel R (getRoute cm m) (getRoute cm m')
  getFrom : ∀ {m m'}, R m m' → GRel R (getFrom cm m) (getFrom cm m')
  getTo : ∀ {m m'}, R m m' → GRel R (getTo cm m) (getTo cm m')
  getCSeq : ∀ {m m'}, R m m' → GRel R (getCSeq cm m) (getCSeq cm m')
  rawCallId : ∀ {m m'}, R m m' → getRawHeader cm m callIdName = getRawHeader cm m' callIdName
  rawExpires : ∀ {m m'}, R m m' → getRawHeader cm m expiresName = getRawHeader cm m' expiresName
  rawSubst : ∀ {m m'}, R m m' → getRawHeader cm m subscriptionStateName = getRawHeader cm m' subscriptionStateName
  popVia : ∀ {m m'}, R m m' → ORel R (popVia cm m) (popVia cm m')
  popRoute : ∀ {m m'}, R m m' → ORel R (popRoute cm m) (popRoute cm m')
  setReceived : ∀ {m m'}, R m m' → ∀ ip port, R (setReceived cm m ip port) (setReceived cm m' ip port)
  addVia : ∀ {m m'}, R m m' → ∀ vp, R (addVia cm m vp) (addVia cm m' vp)
  addRecordRoute : ∀ {m m'}, R m m' → ∀ rr, R (addRecordRoute cm m rr) (addRecordRoute cm m' rr)
  rrPresent : ∀ {m m'}, R m m' →
    (findHeader cm m.headers recordRouteName).isSome = (findHeader cm m'.headers recordRouteName).isSome
  forEachVia : ∀ {m m'}, R m m' →
    (forEachViaHeaders cm m.headers).2 = (forEachViaHeaders cm m'.headers).2 ∧
    R { m with headers := (forEachViaHeaders cm m.headers).1 } { m' with headers := (forEachViaHeaders cm m'.headers).1 }

end Defs

/-! ### outputs -/

section Out
variable (R : Message → Message → Prop) (cfg : Cfg)

def DataRelG (d d' : Bytes) : Prop := ∃ m m', d = m.bytes cfg.cm ∧ d' = m'.bytes cfg.cm ∧ R m m'

def OutRelG (o o' : Out) : Prop := o.dest = o'.dest ∧ DataRelG R cfg o.data o'.data

inductive OutsRelG : List Out → List Out → Prop where
  | nil : OutsRelG [] []
  | cons {o o' : Out} {l l' : List Out} : OutRelG R cfg o o' → OutsRelG l l' → OutsRelG (o :: l) (o' :: l')

def SRG (r r' : St × List Out) : Prop := r.1 = r'.1 ∧ OutsRelG R cfg r.2 r'.2

theorem OutsRelG.dest_eq {R : Message → Message → Prop} {cfg : Cfg} {l l' : List Out} (h : OutsRelG R cfg l l') :
    l.map Out.dest = l'.map Out.dest := by
  induction h with
  | nil => rfl
  | cons hr _ ih => simp [hr.1, ih]

theorem OutsRelG.append {R : Message → Message → Prop} {cfg : Cfg} {a a' b b' : List Out}
    (h : OutsRelG R cfg a a') (k : OutsRelG R cfg b b') : OutsRelG R cfg (a ++ b) (a' ++ b') := by
  induction h with
  | nil => exact k
  | cons hr _ ih => exact .cons hr ih

theorem OutsRelG.get {R : Message → Message → Prop} {cfg : Cfg} {l l' : List Out} (h : OutsRelG R cfg l l')
    (i : Nat) (o o' : Out) (ho : l[i]? = some o) (ho' : l'[i]? = some o') : OutRelG R cfg o o' := by
  induction h generalizing i with
  | nil => simp at ho
  | cons hr _ ih =>
    cases i with
    | zero =>
      simp only [List.getElem?_cons_zero, Option.some.injEq] at ho ho'
      subst ho ho'
      exact hr
    | succ i =>
      simp only [List.getElem?_cons_succ] at ho ho'
      exact ih i ho ho'

theorem entrySend_relG (e : TransEntry) {d d' : Bytes} (h : DataRelG R cfg d d') :
    OutsRelG R cfg (entrySend e d) (entrySend e d') := by
  unfold entrySend
  cases e.primary with
  | some p =>
    cases p with
    | conn c => exact .cons ⟨rfl, h⟩ .nil
    | udp ip port => exact .cons ⟨rfl, h⟩ .nil
  | none =>
    simp only []
    cases e.secondary with
    | none => exact .nil
    | some q =>
      obtain ⟨ip, port⟩ := q
      simp only []
      split
      · exact .cons ⟨rfl, h⟩ .nil
      · exact .nil

end Out

/-! ### derived operations -/

section Lift
variable {R : Message → Message → Prop} (cfg : Cfg) (I : PipeRel R cfg.cm) {m m' : Message}
include I

theorem isRequest_rel (H : R m m') : isRequest m = isRequest m' := by
  unfold isRequest; rw [I.start H]

theorem isResponse_rel (H : R m m') : isResponse m = isResponse m' := by
  unfold isResponse; rw [isRequest_rel cfg I H]

theorem isFinalResponse_rel (H : R m m') (fc : List Int) : isFinalResponse fc m = isFinalResponse fc m' := by
  unfold isFinalResponse; rw [I.start H]

theorem isMyMessage_rel (H : R m m') (frm : Listener) (rx : Bool) :
    isMyMessage cfg frm m rx = isMyMessage cfg frm m' rx := by
  unfold isMyMessage; rw [I.start H]

theorem getExpires_rel (H : R m m') (d : Int) : getExpires cfg.cm m d = getExpires cfg.cm m' d := by
  unfold getExpires getHeaderInt; rw [I.rawExpires H]

theorem getMethod_rel (H : R m m') : GRel R (getMethod cfg.cm m) (getMethod cfg.cm m') := by
  unfold getMethod
  rw [← I.start H]
  cases m.start with
  | request method _ _ => exact Or.inr ⟨method, m, m', rfl, rfl, H⟩
  | status _ _ _ =>
    simp only []
    rcases I.getCSeq H with ⟨h1, h2⟩ | ⟨c, m1, m1', h1, h2, H1⟩
    · rw [h1, h2]; exact Or.inl ⟨rfl, rfl⟩
    · rw [h1, h2]; exact Or.inr ⟨c.method, m1, m1', rfl, rfl, H1⟩

theorem getDialog_rel (H : R m m') : PRel R (getDialog cfg.cm m) (getDialog cfg.cm m') := by
  unfold getDialog
  rw [I.rawCallId H]
  cases getRawHeader cfg.cm m' callIdName with
  | none => exact ⟨rfl, H⟩
  | some callId =>
    simp only []
    rcases I.getFrom H with ⟨h1, h2⟩ | ⟨f, m1, m1', h1, h2, H1⟩
    · rw [h1, h2]; exact ⟨rfl, H⟩
    · rw [h1, h2]
      simp only []
      cases f.getTag with
      | none => exact ⟨rfl, H1⟩
      | some ftag =>
        simp only []
        rcases I.getTo H1 with ⟨h3, h4⟩ | ⟨t, m2, m2', h3, h4, H2⟩
        · rw [h3, h4]; exact ⟨rfl, H1⟩
        · rw [h3, h4]
          simp only []
          cases t.getTag with
          | none => exact ⟨rfl, H2⟩
          | some ttag =>
            simp only []
            cases f.getAddrSpec <;> cases t.getAddrSpec <;> exact ⟨rfl, H2⟩

omit I in
/-- destructuring a `HeadRel` on lists: both empty, or both non-empty with the same head -/
theorem head_cases' {α : Type} {v v' : List α} (h : v.head? = v'.head?) :
    (v = [] ∧ v' = []) ∨ ∃ a t t', v = a :: t ∧ v' = a :: t' := by
  cases v with
  | nil =>
    cases v' with
    | nil => exact Or.inl ⟨rfl, rfl⟩
    | cons _ _ => simp at h
  | cons a t =>
    cases v' with
    | nil => simp at h
    | cons b t' =>
      simp only [List.head?_cons, Option.some.injEq] at h
      subst h
      exact Or.inr ⟨a, t, t', rfl, rfl⟩

theorem getClientTransaction_rel (H : R m m') :
    PRel R (getClientTransaction cfg.cm m) (getClientTransaction cfg.cm m') := by
  unfold getClientTransaction
  rcases I.getCSeq H with ⟨h1, h2⟩ | ⟨c, m1, m1', h1, h2, H1⟩
  · rw [h1, h2]; exact ⟨rfl, H⟩
  · rw [h1, h2]
    simp only []
    rcases I.getVia H1 with ⟨h3, h4⟩ | ⟨v, v', m2, m2', h3, h4, hh, H2⟩
    · rw [h3, h4]; exact ⟨rfl, H1⟩
    · rw [h3, h4]
      simp only []
      rcases head_cases' hh with ⟨rfl, rfl⟩ | ⟨vp, t, t', rfl, rfl⟩
      · exact ⟨rfl, H2⟩
      · simp only []
        cases getParam vp.params (str "branch") <;> exact ⟨rfl, H2⟩

/-! ### hops -/

theorem getNextResponseHop_rel (H : R m m') : PRel R (getNextResponseHop cfg m) (getNextResponseHop cfg m') := by
  unfold getNextResponseHop
  rcases I.getVia H with ⟨h1, h2⟩ | ⟨v, v', m1, m1', h1, h2, hh, H1⟩
  · rw [h1, h2]; exact ⟨rfl, H⟩
  · rw [h1, h2]
    simp only []
    rcases head_cases' hh with ⟨rfl, rfl⟩ | ⟨vp, t, t', rfl, rfl⟩
    · exact ⟨rfl, H1⟩
    · simp only []
      cases getParam vp.params (str "received") <;> exact ⟨rfl, H1⟩

theorem getNextRequestHopByRoute_rel (H : R m m') :
    PRel R (getNextRequestHopByRoute cfg m) (getNextRequestHopByRoute cfg m') := by
  unfold getNextRequestHopByRoute
  rcases I.getRoute H with ⟨h1, h2⟩ | ⟨r, r', m1, m1', h1, h2, hh, H1⟩
  · rw [h1, h2]; exact ⟨rfl, H⟩
  · rw [h1, h2]
    simp only []
    rcases head_cases' hh with ⟨rfl, rfl⟩ | ⟨rp, t, t', rfl, rfl⟩
    · exact ⟨rfl, H1⟩
    · simp only []
      have H2 : R (if !cfg.keepNextHopRoute then (popRoute cfg.cm m1).getD m1 else m1)
          (if !cfg.keepNextHopRoute then (popRoute cfg.cm m1').getD m1' else m1') := by
        split
        · exact (I.popRoute H1).getD H1
        · exact H1
      cases rp.nameAddr.addr <;> exact ⟨rfl, H2⟩

theorem getNextRequestHopByConfig_rel (H : R m m') :
    PRel R (getNextRequestHopByConfig cfg m) (getNextRequestHopByConfig cfg m') := by
  unfold getNextRequestHopByConfig
  rcases I.getTo H with ⟨h1, h2⟩ | ⟨t, m1, m1', h1, h2, H1⟩
  · rw [h1, h2]; exact ⟨rfl, H⟩
  · rw [h1, h2]
    simp only []
    cases toHost t with
    | none => exact ⟨rfl, H1⟩
    | some h =>
      simp only []
      cases Side.SR.findRoute cfg.routes h <;> exact ⟨rfl, H1⟩

theorem getNextRequestHop_rel (H : R m m') : PRel R (getNextRequestHop cfg m) (getNextRequestHop cfg m') := by
  unfold getNextRequestHop
  have hr := getNextRequestHopByRoute_rel cfg I H
  revert hr
  rcases getNextRequestHopByRoute cfg m with ⟨o, m1⟩
  rcases getNextRequestHopByRoute cfg m' with ⟨o', m1'⟩
  rintro ⟨h1, H1⟩
  obtain rfl : o = o' := h1
  replace H1 : R m1 m1' := H1
  cases o with
  | some hop => exact ⟨rfl, H1⟩
  | none => exact getNextRequestHopByConfig_rel cfg I H1

theorem insertSelf_rel (H : R m m') (t : Listener) (br : Bytes) :
    R (insertSelf cfg m t br) (insertSelf cfg m' t br) := by
  unfold insertSelf
  have H1 := I.addVia H (ownVia t br)
  have hf := I.rrPresent H1
  simp only [← Option.not_isSome, hf]
  split
  · exact H1
  · exact I.addRecordRoute H1 _

/-! ### sending -/

theorem sendMessage_rel (H : R m m') (st : St) (h : Hop) :
    SRG R cfg (sendMessage cfg st h m) (sendMessage cfg st h m') := by
  unfold sendMessage
  have hr := getClientTransaction_rel cfg I H
  revert hr
  rcases getClientTransaction cfg.cm m with ⟨tid, m1⟩
  rcases getClientTransaction cfg.cm m' with ⟨tid', m1'⟩
  rintro ⟨h1, H1⟩
  obtain rfl : tid = tid' := h1
  replace H1 : R m1 m1' := H1
  simp only []
  cases getTransport cfg st.trans h.transport ((getIp cfg h.host).getD h.host) h.port (tid.getD []) with
  | none => exact ⟨rfl, .nil⟩
  | some r =>
    obtain ⟨tr1, k, e⟩ := r
    simp only []
    rw [isFinalResponse_rel cfg I H1]
    exact ⟨rfl, entrySend_relG R cfg e ⟨m1, m1', rfl, rfl, H1⟩⟩

theorem findBackendByDialog_rel (H : R m m') (st : St) :
    (findBackendByDialog cfg st m).1 = (findBackendByDialog cfg st m').1 ∧
    (findBackendByDialog cfg st m).2.1 = (findBackendByDialog cfg st m').2.1 ∧
    R (findBackendByDialog cfg st m).2.2 (findBackendByDialog cfg st m').2.2 := by
  unfold findBackendByDialog
  rw [← I.start H]
  cases m.start with
  | status _ _ _ => exact ⟨rfl, rfl, H⟩
  | request method _ _ =>
    simp only []
    have hr := getDialog_rel cfg I H
    revert hr
    rcases getDialog cfg.cm m with ⟨d, m1⟩
    rcases getDialog cfg.cm m' with ⟨d', m1'⟩
    rintro ⟨h1, H1⟩
    obtain rfl : d = d' := h1
    replace H1 : R m1 m1' := H1
    cases d with
    | none => exact ⟨rfl, rfl, H1⟩
    | some d =>
      refine ⟨rfl, ?_, H1⟩
      simp only []
      rw [I.rawSubst H1]

theorem sendToBackend_rel (H : R m m') (st : St) (br : Bytes) :
    SRG R cfg (sendToBackend cfg st m br) (sendToBackend cfg st m' br) := by
  unfold sendToBackend
  cases cfg.transports0 with
  | none => exact ⟨rfl, .nil⟩
  | some t0 =>
    simp only []
    have hr := findBackendByDialog_rel cfg I H st
    revert hr
    rcases findBackendByDialog cfg st m with ⟨pinned, pins1, m1⟩
    rcases findBackendByDialog cfg st m' with ⟨pinned', pins1', m1'⟩
    rintro ⟨h1, h2, H1⟩
    obtain rfl : pinned = pinned' := h1
    obtain rfl : pins1 = pins1' := h2
    replace H1 : R m1 m1' := H1
    simp only []
    have H2 := insertSelf_rel cfg I H1 t0 br
    have hr := getClientTransaction_rel cfg I H2
    split
    · exact ⟨rfl, .nil⟩
    · rw [hr.1, getExpires_rel cfg I hr.2]
      exact ⟨rfl, .cons ⟨rfl, _, _, rfl, rfl, H2⟩ .nil⟩

/-! ### events and `handleRawMessage` -/

omit I in
/-- two receive events that differ only in their messages, which are related -/
structure EvRel (R : Message → Message → Prop) (ev ev' : RawEv) : Prop where
  peerAddr : ev.peerAddr = ev'.peerAddr
  peerPort : ev.peerPort = ev'.peerPort
  frm : ev.frm = ev'.frm
  receivedSupport : ev.receivedSupport = ev'.receivedSupport
  tcpConn : ev.tcpConn = ev'.tcpConn
  rxMatch : ev.rxMatch = ev'.rxMatch
  branch : ev.branch = ev'.branch
  msg : R ev.msg ev'.msg

omit I in
theorem EvRel.of_msg {R : Message → Message → Prop} (ev : RawEv) {m' : Message} (H : R ev.msg m') :
    EvRel R ev { ev with msg := m' } :=
  ⟨rfl, rfl, rfl, rfl, rfl, rfl, rfl, H⟩

variable {ev ev' : RawEv}

theorem rawLearn_rel (E : EvRel R ev ev') (st : St) : PRel R (rawLearn cfg st ev) (rawLearn cfg st ev') := by
  unfold rawLearn
  rw [← E.peerAddr, ← E.frm, ← isRequest_rel cfg I E.msg]
  split
  · have hr := I.forEachVia E.msg
    revert hr
    rcases forEachViaHeaders cfg.cm ev.msg.headers with ⟨hs, vias⟩
    rcases forEachViaHeaders cfg.cm ev'.msg.headers with ⟨hs', vias'⟩
    rintro ⟨hv, K⟩
    obtain rfl : vias = vias' := hv
    exact ⟨rfl, K⟩
  · exact ⟨rfl, E.msg⟩

theorem rawStamp_rel (E : EvRel R ev ev') {m1 m1' : Message} (H1 : R m1 m1') :
    R (rawStamp cfg ev m1) (rawStamp cfg ev' m1') := by
  unfold rawStamp
  rw [← E.peerAddr, ← E.peerPort, ← E.receivedSupport, ← isRequest_rel cfg I E.msg]
  split
  · exact I.setReceived H1 _ _
  · exact H1

theorem rawConn_rel (E : EvRel R ev ev') {m2 m2' : Message} (H2 : R m2 m2') (st : St) :
    PRel R (rawConn cfg st ev m2) (rawConn cfg st ev' m2') := by
  unfold rawConn
  rw [← E.tcpConn, ← isRequest_rel cfg I E.msg]
  cases isRequest ev.msg with
  | false => exact ⟨rfl, H2⟩
  | true =>
    cases ev.tcpConn with
    | none => exact ⟨rfl, H2⟩
    | some c =>
      simp only []
      have hr := getNextResponseHop_rel cfg I H2
      revert hr
      rcases getNextResponseHop cfg m2 with ⟨hop, m3⟩
      rcases getNextResponseHop cfg m2' with ⟨hop', m3'⟩
      rintro ⟨h1, H3⟩
      obtain rfl : hop = hop' := h1
      replace H3 : R m3 m3' := H3
      cases hop with
      | none => exact ⟨rfl, H3⟩
      | some hop =>
        simp only []
        have hr := getClientTransaction_rel cfg I H3
        revert hr
        rcases getClientTransaction cfg.cm m3 with ⟨tid, m4⟩
        rcases getClientTransaction cfg.cm m3' with ⟨tid', m4'⟩
        rintro ⟨h2, H4⟩
        obtain rfl : tid = tid' := h2
        replace H4 : R m4 m4' := H4
        cases tid with
        | none => exact ⟨rfl, H4⟩
        | some tid =>
          simp only []
          cases getTransport cfg st.trans (str "tcp") (regHost cfg hop.host) hop.port tid with
          | none => exact ⟨rfl, H4⟩
          | some r => exact ⟨rfl, H4⟩

theorem rawOwnRoute_rel (E : EvRel R ev ev') {m3 m3' : Message} (H3 : R m3 m3') :
    R (rawOwnRoute cfg ev m3) (rawOwnRoute cfg ev' m3') := by
  unfold rawOwnRoute
  rcases I.getRoute H3 with ⟨h1, h2⟩ | ⟨r, r', m1, m1', h1, h2, hh, H1⟩
  · rw [h1, h2]; exact H3
  · rw [h1, h2]
    simp only []
    rcases head_cases' hh with ⟨rfl, rfl⟩ | ⟨rp, t, t', rfl, rfl⟩
    · exact H1
    · simp only []
      cases rp.nameAddr.addr with
      | abs _ => exact H1
      | sip u =>
        simp only []
        rw [← E.frm]
        split
        · exact (I.popRoute H1).getD H1
        · exact H1

theorem handleRawMessage_rel (E : EvRel R ev ev') (st : St) :
    PRel R (handleRawMessage cfg st ev) (handleRawMessage cfg st ev') := by
  rw [handleRawMessage_eq, handleRawMessage_eq]
  obtain ⟨h1, H1⟩ := rawLearn_rel cfg I E st
  have H2 := rawStamp_rel cfg I E H1
  obtain ⟨h3, H3⟩ := rawConn_rel cfg I E H2 st
  have H4 := rawOwnRoute_rel cfg I E H3
  exact ⟨by simp only [h1, h3], H4⟩

/-! ### `handleDialog` -/

theorem dialogBackend_rel (H : R m m') (st : St) (addr : Bytes) :
    (dialogBackend cfg st addr m).1 = (dialogBackend cfg st addr m').1 ∧
    (dialogBackend cfg st addr m).2.1 = (dialogBackend cfg st addr m').2.1 ∧
    R (dialogBackend cfg st addr m).2.2 (dialogBackend cfg st addr m').2.2 := by
  unfold dialogBackend
  split
  · exact ⟨rfl, rfl, H⟩
  · have hr := getClientTransaction_rel cfg I H
    revert hr
    rcases getClientTransaction cfg.cm m with ⟨tid, m1⟩
    rcases getClientTransaction cfg.cm m' with ⟨tid', m1'⟩
    rintro ⟨h1, H1⟩
    obtain rfl : tid = tid' := h1
    replace H1 : R m1 m1' := H1
    cases tid with
    | none => exact ⟨rfl, rfl, H1⟩
    | some tid =>
      refine ⟨rfl, ?_, H1⟩
      simp only []
      rw [isFinalResponse_rel cfg I H1]

theorem dialogPin_rel {m1 m1' : Message} (H1 : R m1 m1') (st : St) (backend : Option BackendRef)
    (pins1 : List PinEntry) : PRel R (dialogPin cfg st backend pins1 m1) (dialogPin cfg st backend pins1 m1') := by
  unfold dialogPin
  cases backend with
  | none => exact ⟨rfl, H1⟩
  | some b =>
    simp only []
    rcases getMethod_rel cfg I H1 with ⟨h1, h2⟩ | ⟨method, m2, m2', h1, h2, H2⟩
    · rw [h1, h2]; exact ⟨rfl, H1⟩
    · rw [h1, h2]
      simp only []
      have hr := getDialog_rel cfg I H2
      split
      · revert hr
        rcases getDialog cfg.cm m2 with ⟨d, m3⟩
        rcases getDialog cfg.cm m2' with ⟨d', m3'⟩
        rintro ⟨h3, H3⟩
        obtain rfl : d = d' := h3
        replace H3 : R m3 m3' := H3
        cases d with
        | none => exact ⟨rfl, H3⟩
        | some d =>
          simp only []
          split
          · exact ⟨rfl, H3⟩
          · rw [getExpires_rel cfg I H3]
            exact ⟨rfl, H3⟩
      · split
        · revert hr
          rcases getDialog cfg.cm m2 with ⟨d, m3⟩
          rcases getDialog cfg.cm m2' with ⟨d', m3'⟩
          rintro ⟨h3, H3⟩
          obtain rfl : d = d' := h3
          replace H3 : R m3 m3' := H3
          cases d with
          | none => exact ⟨rfl, H3⟩
          | some d =>
            simp only []
            split <;> exact ⟨rfl, H3⟩
        · exact ⟨rfl, H2⟩

theorem handleDialog_rel (H : R m m') (st : St) (a : Bytes) (p : Int) :
    PRel R (handleDialog cfg st a p m) (handleDialog cfg st a p m') := by
  rw [handleDialog_eq, handleDialog_eq, ← isResponse_rel cfg I H]
  split
  · exact ⟨rfl, H⟩
  · obtain ⟨h1, h2, H1⟩ := dialogBackend_rel cfg I H st (joinHostPort a p)
    rw [← h1, ← h2]
    exact dialogPin_rel cfg I H1 st _ _

/-! ### `handleMessage`, `step` -/

theorem respPin_rel {m2 m2' : Message} (H2 : R m2 m2') (st : St) (hop : Option Hop) :
    PRel R (respPin cfg st hop m2) (respPin cfg st hop m2') := by
  unfold respPin
  rcases getMethod_rel cfg I H2 with ⟨h1, h2⟩ | ⟨method, m3, m3', h1, h2, H3⟩
  · rw [h1, h2]; exact ⟨rfl, H2⟩
  · rw [h1, h2]
    simp only []
    split
    · cases hop <;> simp only [] <;> split <;> first
        | exact ⟨rfl, H3⟩
        | (have hr := getDialog_rel cfg I H3
           revert hr
           rcases getDialog cfg.cm m3 with ⟨d, m4⟩
           rcases getDialog cfg.cm m3' with ⟨d', m4'⟩
           rintro ⟨h3, H4⟩
           obtain rfl : d = d' := h3
           replace H4 : R m4 m4' := H4
           cases d with
           | none => exact ⟨rfl, H4⟩
           | some d =>
             simp only []
             rw [getExpires_rel cfg I H4]
             exact ⟨rfl, H4⟩)
    · exact ⟨rfl, H3⟩

theorem handleMessage_rel (E : EvRel R ev ev') (H : R m m') (st : St) :
    SRG R cfg (handleMessage cfg st ev m) (handleMessage cfg st ev' m') := by
  cases hreq : isRequest m with
  | true =>
    have hreq' : isRequest m' = true := by rw [← isRequest_rel cfg I H]; exact hreq
    unfold handleMessage
    simp only [hreq, hreq', ↓reduceIte]
    have hr := getNextRequestHop_rel cfg I H
    revert hr
    rcases getNextRequestHop cfg m with ⟨hop, m1⟩
    rcases getNextRequestHop cfg m' with ⟨hop', m1'⟩
    rintro ⟨h1, H1⟩
    obtain rfl : hop = hop' := h1
    replace H1 : R m1 m1' := H1
    cases hop with
    | some hop =>
      simp only []
      rw [← E.branch]
      cases assocGet st.learned hop.host with
      | none => exact sendMessage_rel cfg I H1 st hop
      | some t => exact sendMessage_rel cfg I (insertSelf_rel cfg I H1 t ev.branch) st hop
    | none =>
      simp only []
      rw [← E.branch, ← E.frm, ← E.rxMatch, ← isMyMessage_rel cfg I H1]
      split
      · exact sendToBackend_rel cfg I H1 st ev.branch
      · exact ⟨rfl, .nil⟩
  | false =>
    have hreq' : isRequest m' = false := by rw [← isRequest_rel cfg I H]; exact hreq
    rw [handleMessage_response cfg st ev m hreq, handleMessage_response cfg st ev' m' hreq']
    have H1 := (I.popVia H).getD H
    obtain ⟨h2, H2⟩ := getNextResponseHop_rel cfg I H1
    rw [← h2]
    cases (getNextResponseHop cfg ((popVia cfg.cm m).getD m)).1 with
    | none =>
      simp only []
      exact ⟨(respPin_rel cfg I H2 st none).1, .nil⟩
    | some h =>
      simp only []
      obtain ⟨h3, H3⟩ := respPin_rel cfg I H2 st (some h)
      rw [← h3]
      exact sendMessage_rel cfg I H3 _ h

/-- one received message: equal states, same destinations, payloads = serialisations of related messages -/
theorem step_rel (E : EvRel R ev ev') (st : St) : SRG R cfg (step cfg st ev) (step cfg st ev') := by
  unfold step
  have hr := handleRawMessage_rel cfg I E st
  revert hr
  rcases handleRawMessage cfg st ev with ⟨st1, m1⟩
  rcases handleRawMessage cfg st ev' with ⟨st1', m1'⟩
  rintro ⟨h1, H1⟩
  obtain rfl : st1 = st1' := h1
  replace H1 : R m1 m1' := H1
  simp only []
  rw [← E.peerAddr, ← E.peerPort]
  have hr := handleDialog_rel cfg I H1 st1 ev.peerAddr ev.peerPort
  revert hr
  rcases handleDialog cfg st1 ev.peerAddr ev.peerPort m1 with ⟨st2, m2⟩
  rcases handleDialog cfg st1 ev.peerAddr ev.peerPort m1' with ⟨st2', m2'⟩
  rintro ⟨h2, H2⟩
  obtain rfl : st2 = st2' := h2
  replace H2 : R m2 m2' := H2
  exact handleMessage_rel cfg I E H2 st2

end Lift

/-! Non-vacuity: the hypotheses `PipeRel R cfg.cm`, `R m m'`, `EvRel R ev ev'` of all theorems above are
satisfied by `Lemmas.pipeRel_respelled` (any map) with the fixtures `exMsg`/`exMsgSp`, `exResp`/`exRespSp`
(`Lemmas/SpellPipe.lean`, section Examples) and by `Lemmas.pipeRel_layout` (generated table) with
`lyRespJ`/`lyRespS`, `lyReqJ`/`lyReqS` (`Lemmas/LayoutPipe.lean`, section Examples); in all four cases the events
are really processed (one packet each). -/

end Lemmas
