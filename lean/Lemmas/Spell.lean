/-
Lemmas.Spell — re-spelling header names inside their classes is invisible to EVERY header-list
operation of `Sip.Message` (A1), to the serialiser up to the spelling itself (A2), and concrete
spellings (letter case, compact form) are re-spellings for a sane compact table (A4).

Everything is stated for the way the code calls `isSameHeader`: the wire name FIRST, a canonical
constant of the code SECOND (`isSameHeader cm h.name key`). `isSameHeader` is not symmetric in
general (section `Asymmetry`).
-/
import Lemmas.Headers
import Lemmas.Abs
open GoStd Sip

namespace Lemmas

/-! ### A1. the relation on lists and messages -/

section
variable (cm : List (Bytes × Bytes)) (P : Bytes → Prop)

theorem Respelled.symm {h h' : Header} (r : Respelled cm P h h') : Respelled cm P h' h :=
  ⟨r.1.symm, fun n hn => (r.2 n hn).symm⟩

theorem Respelled.trans {a b c : Header} (r : Respelled cm P a b) (s : Respelled cm P b c) : Respelled cm P a c :=
  ⟨r.1.trans s.1, fun n hn => (r.2 n hn).trans (s.2 n hn)⟩

theorem RespelledList.refl (hs : List Header) : RespelledList cm P hs hs := by
  induction hs with
  | nil => exact .nil
  | cons h hs ih => exact .cons (respelled_refl cm P h) ih

theorem RespelledList.symm {hs hs' : List Header} (H : RespelledList cm P hs hs') : RespelledList cm P hs' hs := by
  induction H with
  | nil => exact .nil
  | cons hr _ ih => exact .cons (Respelled.symm cm P hr) ih

theorem RespelledList.trans {a b c : List Header} (H : RespelledList cm P a b) (K : RespelledList cm P b c) :
    RespelledList cm P a c := by
  induction H generalizing c with
  | nil => cases K; exact .nil
  | cons hr _ ih =>
    cases K with
    | cons hr' K' => exact .cons (Respelled.trans cm P hr hr') (ih K')

theorem RespelledList.length_eq {hs hs' : List Header} (H : RespelledList cm P hs hs') : hs.length = hs'.length := by
  induction H with
  | nil => rfl
  | cons _ _ ih => simp [ih]

/-- position by position the VALUES are equal -/
theorem RespelledList.values_eq {hs hs' : List Header} (H : RespelledList cm P hs hs') :
    hs.map (·.value) = hs'.map (·.value) := by
  induction H with
  | nil => rfl
  | cons hr _ ih => simp [hr.1, ih]

/-- position by position the names are in the same classes -/
theorem RespelledList.classes_eq {hs hs' : List Header} (H : RespelledList cm P hs hs') (name : Bytes) (hn : P name) :
    hs.map (fun h => isSameHeader cm h.name name) = hs'.map (fun h => isSameHeader cm h.name name) := by
  induction H with
  | nil => rfl
  | cons hr _ ih => simp [hr.2 name hn, ih]

theorem RespelledList.append {a a' b b' : List Header} (H : RespelledList cm P a a') (K : RespelledList cm P b b') :
    RespelledList cm P (a ++ b) (a' ++ b') := by
  induction H with
  | nil => exact K
  | cons hr _ ih => exact .cons hr ih

theorem RespelledList.take {hs hs' : List Header} (H : RespelledList cm P hs hs') (p : Nat) :
    RespelledList cm P (hs.take p) (hs'.take p) := by
  induction H generalizing p with
  | nil => simp; exact .nil
  | cons hr _ ih =>
    cases p with
    | zero => exact .nil
    | succ p => exact .cons hr (ih p)

theorem RespelledList.drop {hs hs' : List Header} (H : RespelledList cm P hs hs') (p : Nat) :
    RespelledList cm P (hs.drop p) (hs'.drop p) := by
  induction H generalizing p with
  | nil => simp; exact .nil
  | cons hr hrest ih =>
    cases p with
    | zero => exact .cons hr hrest
    | succ p => exact ih p

/-- the same sub-list is selected by any predicate that reads values and `P`-classes only -/
theorem RespelledList.filter {hs hs' : List Header} (H : RespelledList cm P hs hs') (q : Header → Bool)
    (hq : ∀ a b, Respelled cm P a b → q a = q b) : RespelledList cm P (hs.filter q) (hs'.filter q) := by
  induction H with
  | nil => exact .nil
  | @cons a b _ _ hr _ ih =>
    simp only [List.filter_cons, ← hq a b hr]
    cases q a with
    | true => exact .cons hr ih
    | false => exact ih

/-! #### the list operations -/

theorem findHeaderPos_respelled {hs hs' : List Header} (H : RespelledList cm P hs hs') {name : Bytes} (hn : P name) :
    findHeaderPos cm hs name = findHeaderPos cm hs' name := by
  induction H with
  | nil => rfl
  | cons hr _ ih => simp only [findHeaderPos, hr.2 name hn, ih]

theorem removeHeader_respelled {hs hs' : List Header} (H : RespelledList cm P hs hs') {name : Bytes} (hn : P name) :
    RespelledList cm P (removeHeader cm hs name) (removeHeader cm hs' name) := by
  induction H with
  | nil => exact .nil
  | @cons a b _ _ hr hrest ih =>
    simp only [removeHeader, ← hr.2 name hn]
    cases isSameHeader cm a.name name with
    | true => exact hrest
    | false => exact .cons hr ih

/-- insertion at the SAME position on both sides -/
theorem insertAt_respelled {hs hs' : List Header} (H : RespelledList cm P hs hs') (p : Nat) {x x' : Header}
    (hx : Respelled cm P x x') : RespelledList cm P (insertAt hs p x) (insertAt hs' p x') :=
  RespelledList.append cm P (H.take cm P p) (.cons hx (H.drop cm P p))

theorem findHeader_isSome_respelled {hs hs' : List Header} (H : RespelledList cm P hs hs') {name : Bytes} (hn : P name) :
    (findHeader cm hs name).isSome = (findHeader cm hs' name).isSome := by
  have := congrArg Option.isSome (findHeader_respelled cm P hs hs' H name hn)
  simpa using this

/-- both lookups fail, or both succeed on headers with the same value -/
theorem findHeader_respelled_cases {hs hs' : List Header} (H : RespelledList cm P hs hs') {name : Bytes} (hn : P name) :
    (findHeader cm hs name = none ∧ findHeader cm hs' name = none) ∨
    ∃ a b, findHeader cm hs name = some a ∧ findHeader cm hs' name = some b ∧ a.value = b.value := by
  have hf := findHeader_respelled cm P _ _ H name hn
  cases h1 : findHeader cm hs name with
  | none =>
    cases h2 : findHeader cm hs' name with
    | none => exact Or.inl ⟨rfl, rfl⟩
    | some b => rw [h1, h2] at hf; simp at hf
  | some a =>
    cases h2 : findHeader cm hs' name with
    | none => rw [h1, h2] at hf; simp at hf
    | some b =>
      rw [h1, h2] at hf
      simp only [Option.map_some, Option.some.injEq] at hf
      exact Or.inr ⟨a, b, rfl, rfl, hf⟩

theorem findRecordRoutePos_respelled {hs hs' : List Header} (H : RespelledList cm P hs hs')
    (h1 : P recordRouteName) (h2 : P fromName) (h3 : P maxForwardsName) :
    findRecordRoutePos cm hs = findRecordRoutePos cm hs' := by
  unfold findRecordRoutePos
  rw [findHeaderPos_respelled cm P H h1, findHeaderPos_respelled cm P H h2, findHeaderPos_respelled cm P H h3]

theorem forEachViaHeaders_respelled {hs hs' : List Header} (H : RespelledList cm P hs hs') (hn : P viaName) :
    RespelledList cm P (forEachViaHeaders cm hs).1 (forEachViaHeaders cm hs').1 ∧
    (forEachViaHeaders cm hs).2 = (forEachViaHeaders cm hs').2 := by
  induction H with
  | nil => exact ⟨.nil, rfl⟩
  | @cons a b l₁ l₂ hr _ ih =>
    rw [forEachViaHeaders_cons, forEachViaHeaders_cons, ← hr.2 viaName hn, ← hr.1, ← ih.2]
    cases isSameHeader cm a.name viaName with
    | false => exact ⟨.cons hr ih.1, rfl⟩
    | true =>
      simp only [Bool.not_true, Bool.false_eq_true, ↓reduceIte]
      cases hv : a.value with
      | via v => exact ⟨.cons hr ih.1, rfl⟩
      | raw s =>
        simp only []
        cases parseVia s with
        | none => exact ⟨.cons hr ih.1, rfl⟩
        | some v => exact ⟨.cons ⟨rfl, hr.2⟩ ih.1, rfl⟩
      | route _ => exact ⟨.cons hr ih.1, rfl⟩
      | recordRoute _ => exact ⟨.cons hr ih.1, rfl⟩
      | fromSpec _ => exact ⟨.cons hr ih.1, rfl⟩
      | to _ => exact ⟨.cons hr ih.1, rfl⟩
      | cseq _ => exact ⟨.cons hr ih.1, rfl⟩

/-! #### messages -/

/-- `m'` is `m` with header names re-spelled: same start line, same body, header lists related -/
structure MsgRespelled (m m' : Message) : Prop where
  start : m.start = m'.start
  body : m.body = m'.body
  headers : RespelledList cm P m.headers m'.headers

theorem MsgRespelled.refl (m : Message) : MsgRespelled cm P m m := ⟨rfl, rfl, RespelledList.refl cm P _⟩

theorem MsgRespelled.symm {m m' : Message} (H : MsgRespelled cm P m m') : MsgRespelled cm P m' m :=
  ⟨H.start.symm, H.body.symm, H.headers.symm cm P⟩

theorem MsgRespelled.trans {a b c : Message} (H : MsgRespelled cm P a b) (K : MsgRespelled cm P b c) :
    MsgRespelled cm P a c :=
  ⟨H.start.trans K.start, H.body.trans K.body, H.headers.trans cm P K.headers⟩

theorem MsgRespelled.withHeaders {m m' : Message} (H : MsgRespelled cm P m m') {hs hs' : List Header}
    (K : RespelledList cm P hs hs') : MsgRespelled cm P { m with headers := hs } { m' with headers := hs' } :=
  ⟨H.start, H.body, K⟩

theorem MsgRespelled.isRequest {m m' : Message} (H : MsgRespelled cm P m m') : isRequest m = isRequest m' := by
  unfold Sip.isRequest; rw [H.start]

theorem MsgRespelled.isResponse {m m' : Message} (H : MsgRespelled cm P m m') : isResponse m = isResponse m' := by
  unfold Sip.isResponse; rw [H.isRequest]

theorem MsgRespelled.isFinalResponse {m m' : Message} (H : MsgRespelled cm P m m') (fc : List Int) :
    isFinalResponse fc m = isFinalResponse fc m' := by
  unfold Sip.isFinalResponse; rw [H.start]

/-- results of the lazy getters: both fail, or the SAME decoded value and re-spelled messages -/
def GR {α : Type} (r r' : Option (α × Message)) : Prop :=
  (r = none ∧ r' = none) ∨ ∃ a m1 m1', r = some (a, m1) ∧ r' = some (a, m1') ∧ MsgRespelled cm P m1 m1'

/-- results of the partial mutators (`popVia`, `popRoute`) -/
def OR (r r' : Option Message) : Prop :=
  (r = none ∧ r' = none) ∨ ∃ m1 m1', r = some m1 ∧ r' = some m1' ∧ MsgRespelled cm P m1 m1'

/-- results of the total getters (`getDialog`, `getClientTransaction`, hops) -/
def PR {α : Type} (r r' : α × Message) : Prop := r.1 = r'.1 ∧ MsgRespelled cm P r.2 r'.2

theorem OR.getD {r r' : Option Message} (h : OR cm P r r') {m m' : Message} (H : MsgRespelled cm P m m') :
    MsgRespelled cm P (r.getD m) (r'.getD m') := by
  rcases h with ⟨rfl, rfl⟩ | ⟨m1, m1', rfl, rfl, H1⟩
  · exact H
  · exact H1

variable {m m' : Message}

theorem getVia_respelled (H : MsgRespelled cm P m m') (hn : P viaName) : GR cm P (getVia cm m) (getVia cm m') := by
  rcases findHeader_respelled_cases cm P H.headers hn with ⟨h1, h2⟩ | ⟨a, b, h1, h2, hv⟩
  · left; simp [getVia, h1, h2]
  · unfold getVia
    simp only [h1, h2]
    rw [← hv]
    cases a.value with
    | via v => exact Or.inr ⟨v, m, m', rfl, rfl, H⟩
    | raw s =>
      simp only []
      cases parseVia s with
      | none => exact Or.inl ⟨rfl, rfl⟩
      | some v => exact Or.inr ⟨v, _, _, rfl, rfl, H.withHeaders cm P (setFirst_respelled cm P _ _ H.headers _ hn _)⟩
    | route _ => exact Or.inl ⟨rfl, rfl⟩
    | recordRoute _ => exact Or.inl ⟨rfl, rfl⟩
    | fromSpec _ => exact Or.inl ⟨rfl, rfl⟩
    | to _ => exact Or.inl ⟨rfl, rfl⟩
    | cseq _ => exact Or.inl ⟨rfl, rfl⟩

theorem getRoute_respelled (H : MsgRespelled cm P m m') (hn : P routeName) : GR cm P (getRoute cm m) (getRoute cm m') := by
  rcases findHeader_respelled_cases cm P H.headers hn with ⟨h1, h2⟩ | ⟨a, b, h1, h2, hv⟩
  · left; simp [getRoute, h1, h2]
  · unfold getRoute
    simp only [h1, h2]
    rw [← hv]
    cases a.value with
    | route v => exact Or.inr ⟨v, m, m', rfl, rfl, H⟩
    | raw s =>
      simp only []
      cases parseRoute s with
      | none => exact Or.inl ⟨rfl, rfl⟩
      | some v => exact Or.inr ⟨v, _, _, rfl, rfl, H.withHeaders cm P (setFirst_respelled cm P _ _ H.headers _ hn _)⟩
    | via _ => exact Or.inl ⟨rfl, rfl⟩
    | recordRoute _ => exact Or.inl ⟨rfl, rfl⟩
    | fromSpec _ => exact Or.inl ⟨rfl, rfl⟩
    | to _ => exact Or.inl ⟨rfl, rfl⟩
    | cseq _ => exact Or.inl ⟨rfl, rfl⟩

theorem getFrom_respelledMsg (H : MsgRespelled cm P m m') (hn : P fromName) : GR cm P (getFrom cm m) (getFrom cm m') := by
  rcases findHeader_respelled_cases cm P H.headers hn with ⟨h1, h2⟩ | ⟨a, b, h1, h2, hv⟩
  · left; simp [getFrom, h1, h2]
  · unfold getFrom
    simp only [h1, h2]
    rw [← hv]
    cases a.value with
    | fromSpec v => exact Or.inr ⟨v, m, m', rfl, rfl, H⟩
    | raw s =>
      simp only []
      cases parseFromTo s with
      | none => exact Or.inl ⟨rfl, rfl⟩
      | some v => exact Or.inr ⟨v, _, _, rfl, rfl, H.withHeaders cm P (setFirst_respelled cm P _ _ H.headers _ hn _)⟩
    | via _ => exact Or.inl ⟨rfl, rfl⟩
    | route _ => exact Or.inl ⟨rfl, rfl⟩
    | recordRoute _ => exact Or.inl ⟨rfl, rfl⟩
    | to _ => exact Or.inl ⟨rfl, rfl⟩
    | cseq _ => exact Or.inl ⟨rfl, rfl⟩

theorem getTo_respelledMsg (H : MsgRespelled cm P m m') (hn : P toName) : GR cm P (getTo cm m) (getTo cm m') := by
  rcases findHeader_respelled_cases cm P H.headers hn with ⟨h1, h2⟩ | ⟨a, b, h1, h2, hv⟩
  · left; simp [getTo, h1, h2]
  · unfold getTo
    simp only [h1, h2]
    rw [← hv]
    cases a.value with
    | to v => exact Or.inr ⟨v, m, m', rfl, rfl, H⟩
    | raw s =>
      simp only []
      cases parseFromTo s with
      | none => exact Or.inl ⟨rfl, rfl⟩
      | some v => exact Or.inr ⟨v, _, _, rfl, rfl, H.withHeaders cm P (setFirst_respelled cm P _ _ H.headers _ hn _)⟩
    | via _ => exact Or.inl ⟨rfl, rfl⟩
    | route _ => exact Or.inl ⟨rfl, rfl⟩
    | recordRoute _ => exact Or.inl ⟨rfl, rfl⟩
    | fromSpec _ => exact Or.inl ⟨rfl, rfl⟩
    | cseq _ => exact Or.inl ⟨rfl, rfl⟩

theorem getCSeq_respelled (H : MsgRespelled cm P m m') (hn : P cseqName) : GR cm P (getCSeq cm m) (getCSeq cm m') := by
  rcases findHeader_respelled_cases cm P H.headers hn with ⟨h1, h2⟩ | ⟨a, b, h1, h2, hv⟩
  · left; simp [getCSeq, h1, h2]
  · unfold getCSeq
    simp only [h1, h2]
    rw [← hv]
    cases a.value with
    | cseq v => exact Or.inr ⟨v, m, m', rfl, rfl, H⟩
    | raw s =>
      simp only []
      cases parseCSeq s with
      | none => exact Or.inl ⟨rfl, rfl⟩
      | some v => exact Or.inr ⟨v, _, _, rfl, rfl, H.withHeaders cm P (setFirst_respelled cm P _ _ H.headers _ hn _)⟩
    | via _ => exact Or.inl ⟨rfl, rfl⟩
    | route _ => exact Or.inl ⟨rfl, rfl⟩
    | recordRoute _ => exact Or.inl ⟨rfl, rfl⟩
    | fromSpec _ => exact Or.inl ⟨rfl, rfl⟩
    | to _ => exact Or.inl ⟨rfl, rfl⟩

theorem getRawHeader_respelledMsg (H : MsgRespelled cm P m m') {name : Bytes} (hn : P name) :
    getRawHeader cm m name = getRawHeader cm m' name :=
  getRawHeader_respelled cm P m m' H.headers name hn

theorem getHeaderInt_respelled (H : MsgRespelled cm P m m') {name : Bytes} (hn : P name) :
    getHeaderInt cm m name = getHeaderInt cm m' name := by
  unfold getHeaderInt; rw [getRawHeader_respelledMsg cm P H hn]

theorem getExpires_respelled (H : MsgRespelled cm P m m') (hn : P expiresName) (d : Int) :
    getExpires cm m d = getExpires cm m' d := by
  unfold getExpires; rw [getHeaderInt_respelled cm P H hn]

theorem getMethod_respelled (H : MsgRespelled cm P m m') (hn : P cseqName) :
    GR cm P (getMethod cm m) (getMethod cm m') := by
  unfold getMethod
  rw [← H.start]
  cases m.start with
  | request method _ _ => exact Or.inr ⟨method, m, m', rfl, rfl, H⟩
  | status _ _ _ =>
    simp only []
    rcases getCSeq_respelled cm P H hn with ⟨h1, h2⟩ | ⟨c, m1, m1', h1, h2, H1⟩
    · rw [h1, h2]; exact Or.inl ⟨rfl, rfl⟩
    · rw [h1, h2]; exact Or.inr ⟨c.method, m1, m1', rfl, rfl, H1⟩

theorem popVia_respelled (H : MsgRespelled cm P m m') (hn : P viaName) : OR cm P (popVia cm m) (popVia cm m') := by
  unfold popVia
  rcases getVia_respelled cm P H hn with ⟨h1, h2⟩ | ⟨v, m1, m1', h1, h2, H1⟩
  · rw [h1, h2]; exact Or.inl ⟨rfl, rfl⟩
  · rw [h1, h2]
    simp only []
    split
    · exact Or.inr ⟨_, _, rfl, rfl, H1.withHeaders cm P (setFirst_respelled cm P _ _ H1.headers _ hn _)⟩
    · exact Or.inr ⟨_, _, rfl, rfl, H1.withHeaders cm P (removeHeader_respelled cm P H1.headers hn)⟩

theorem popRoute_respelled (H : MsgRespelled cm P m m') (hn : P routeName) : OR cm P (popRoute cm m) (popRoute cm m') := by
  unfold popRoute
  rcases getRoute_respelled cm P H hn with ⟨h1, h2⟩ | ⟨v, m1, m1', h1, h2, H1⟩
  · rw [h1, h2]; exact Or.inl ⟨rfl, rfl⟩
  · rw [h1, h2]
    simp only []
    split
    · exact Or.inr ⟨_, _, rfl, rfl, H1.withHeaders cm P (setFirst_respelled cm P _ _ H1.headers _ hn _)⟩
    · exact Or.inr ⟨_, _, rfl, rfl, H1.withHeaders cm P (removeHeader_respelled cm P H1.headers hn)⟩

/-- `AddVia` inserts the header named "Via" at the same position on both sides -/
theorem addVia_respelled (H : MsgRespelled cm P m m') (hn : P viaName) (vp : ViaParam) :
    MsgRespelled cm P (addVia cm m vp) (addVia cm m' vp) := by
  unfold addVia
  simp only [findHeaderPos_respelled cm P H.headers hn]
  exact H.withHeaders cm P (insertAt_respelled cm P H.headers _ (respelled_refl cm P _))

theorem addRecordRoute_respelled (H : MsgRespelled cm P m m')
    (h1 : P recordRouteName) (h2 : P fromName) (h3 : P maxForwardsName) (rr : RouteParam) :
    MsgRespelled cm P (addRecordRoute cm m rr) (addRecordRoute cm m' rr) := by
  unfold addRecordRoute
  simp only [findRecordRoutePos_respelled cm P H.headers h1 h2 h3]
  exact H.withHeaders cm P (insertAt_respelled cm P H.headers _ (respelled_refl cm P _))

theorem setReceived_respelled (H : MsgRespelled cm P m m') (hn : P viaName) (ip : Bytes) (port : Int) :
    MsgRespelled cm P (setReceived cm m ip port) (setReceived cm m' ip port) := by
  unfold setReceived
  rcases getVia_respelled cm P H hn with ⟨h1, h2⟩ | ⟨v, m1, m1', h1, h2, H1⟩
  · rw [h1, h2]; exact H
  · rw [h1, h2]
    simp only []
    cases v with
    | nil => exact H1
    | cons vp rest => exact H1.withHeaders cm P (setFirst_respelled cm P _ _ H1.headers _ hn _)

theorem getDialog_respelled (H : MsgRespelled cm P m m') (hc : P callIdName) (hf : P fromName) (ht : P toName) :
    PR cm P (getDialog cm m) (getDialog cm m') := by
  unfold getDialog
  rw [getRawHeader_respelledMsg cm P H hc]
  cases getRawHeader cm m' callIdName with
  | none => exact ⟨rfl, H⟩
  | some callId =>
    simp only []
    rcases getFrom_respelledMsg cm P H hf with ⟨h1, h2⟩ | ⟨f, m1, m1', h1, h2, H1⟩
    · rw [h1, h2]; exact ⟨rfl, H⟩
    · rw [h1, h2]
      simp only []
      cases f.getTag with
      | none => exact ⟨rfl, H1⟩
      | some ftag =>
        simp only []
        rcases getTo_respelledMsg cm P H1 ht with ⟨h3, h4⟩ | ⟨t, m2, m2', h3, h4, H2⟩
        · rw [h3, h4]; exact ⟨rfl, H1⟩
        · rw [h3, h4]
          simp only []
          cases t.getTag with
          | none => exact ⟨rfl, H2⟩
          | some ttag =>
            simp only []
            cases f.getAddrSpec <;> cases t.getAddrSpec <;> exact ⟨rfl, H2⟩

theorem getClientTransaction_respelled (H : MsgRespelled cm P m m') (hc : P cseqName) (hv : P viaName) :
    PR cm P (getClientTransaction cm m) (getClientTransaction cm m') := by
  unfold getClientTransaction
  rcases getCSeq_respelled cm P H hc with ⟨h1, h2⟩ | ⟨c, m1, m1', h1, h2, H1⟩
  · rw [h1, h2]; exact ⟨rfl, H⟩
  · rw [h1, h2]
    simp only []
    rcases getVia_respelled cm P H1 hv with ⟨h3, h4⟩ | ⟨v, m2, m2', h3, h4, H2⟩
    · rw [h3, h4]; exact ⟨rfl, H1⟩
    · rw [h3, h4]
      simp only []
      cases v with
      | nil => exact ⟨rfl, H2⟩
      | cons vp _ =>
        simp only []
        cases getParam vp.params (str "branch") <;> exact ⟨rfl, H2⟩

end

/-! ### A2. the serialiser on re-spelled lists

`Message.bytes` prints `name: value` for every header that is not of the Content-Length class and then
its own `Content-Length`. On re-spelled lists the same positions are skipped, and the printed lines
carry equal values under names of the same classes: the two byte strings are equal up to the
spelling of the header names (`BytesRespelled`). -/

section Bytes
variable (cm : List (Bytes × Bytes)) (P : Bytes → Prop)

/-- one printed header line -/
def headerLine (h : Header) : Bytes := h.name ++ [58, 32] ++ h.value.encode ++ crlf

/-- the headers `encodeHeaders` prints (all but the Content-Length class) -/
def printed (hs : List Header) : List Header := hs.filter (fun h => !isSameHeader cm h.name contentLengthName)

theorem encodeHeaders_eq (hs : List Header) : encodeHeaders cm hs = (printed cm hs).flatMap headerLine := by
  induction hs with
  | nil => rfl
  | cons h hs ih =>
    simp only [encodeHeaders, printed, List.filter_cons]
    simp only [printed] at ih
    cases isSameHeader cm h.name contentLengthName with
    | true => simpa using ih
    | false => simp [ih, headerLine]

/-- the same positions are skipped as Content-Length -/
theorem skipped_respelled {hs hs' : List Header} (H : RespelledList cm P hs hs') (hn : P contentLengthName) :
    hs.map (fun h => isSameHeader cm h.name contentLengthName) =
      hs'.map (fun h => isSameHeader cm h.name contentLengthName) :=
  H.classes_eq cm P _ hn

/-- the printed headers are again re-spellings of one another, position by position -/
theorem printed_respelled {hs hs' : List Header} (H : RespelledList cm P hs hs') (hn : P contentLengthName) :
    RespelledList cm P (printed cm hs) (printed cm hs') :=
  H.filter cm P _ (fun _ _ hr => by rw [hr.2 _ hn])

/-- hence: the printed values are literally equal -/
theorem printed_values_eq {hs hs' : List Header} (H : RespelledList cm P hs hs') (hn : P contentLengthName) :
    (printed cm hs).map (fun h => h.value.encode) = (printed cm hs').map (fun h => h.value.encode) := by
  have := congrArg (List.map HVal.encode) ((printed_respelled cm P H hn).values_eq cm P)
  simp only [List.map_map] at this
  exact this

/-- "equal up to the spelling of header names": a common prefix, header lines that are re-spellings of
one another, a common suffix -/
def BytesRespelled (d d' : Bytes) : Prop :=
  ∃ (pre post : Bytes) (ls ls' : List Header), RespelledList cm P ls ls' ∧
    d = pre ++ ls.flatMap headerLine ++ post ∧ d' = pre ++ ls'.flatMap headerLine ++ post

theorem BytesRespelled.refl (d : Bytes) : BytesRespelled cm P d d :=
  ⟨d, [], [], [], .nil, by simp, by simp⟩

theorem bytes_respelled {m m' : Message} (H : MsgRespelled cm P m m') (hn : P contentLengthName) :
    BytesRespelled cm P (m.bytes cm) (m'.bytes cm) := by
  refine ⟨encodeFirstLine m.start,
    contentLengthName ++ [58, 32] ++ natToBytes m.body.length ++ crlf ++ crlf ++ m.body,
    printed cm m.headers, printed cm m'.headers, printed_respelled cm P H.headers hn, ?_, ?_⟩
  · simp [Message.bytes, encodeHeaders_eq]
  · simp [Message.bytes, encodeHeaders_eq, H.start, H.body]

/-- when the names are not merely in the same classes but equal, so are the bytes -/
theorem respelled_names_eq {hs hs' : List Header} (H : RespelledList cm P hs hs')
    (hn : hs.map (·.name) = hs'.map (·.name)) : hs = hs' := by
  induction H with
  | nil => rfl
  | @cons a b _ _ hr _ ih =>
    simp only [List.map_cons, List.cons.injEq] at hn
    obtain ⟨an, av⟩ := a
    obtain ⟨bn, bv⟩ := b
    have h1 : av = bv := hr.1
    have h2 : an = bn := hn.1
    rw [h1, h2, ih hn.2]

end Bytes

/-! ### A4. concrete spellings are re-spellings

`isSameHeader cm n key` holds iff the lower-cased wire name `n` is the lower-cased key or the
lower-cased compact form the table gives FOR THE KEY (`lowerClass`). Two names of the same class are
re-spellings of one another w.r.t. a set of keys as soon as the classes of these keys are pairwise
disjoint (`SaneFor`) — true of the generated table, false e.g. when two full names share one compact
form. -/

section Concrete
variable (cm : List (Bytes × Bytes))

/-- the lower-case spellings of the class of `key` -/
def lowerClass (key : Bytes) : List Bytes :=
  toLower key :: (match getCompact cm key with | some c => [toLower c] | none => [])

theorem isSameHeader_eq_lowerClass (n key : Bytes) :
    isSameHeader cm n key = (lowerClass cm key).contains (toLower n) := by
  unfold isSameHeader lowerClass equalFold
  cases getCompact cm key <;> rw [Bool.eq_iff_iff] <;> simp

/-- the definition, in the direction the code uses it: any letter case of the key … -/
theorem isSameHeader_of_fold {n key : Bytes} (h : equalFold n key = true) : isSameHeader cm n key = true := by
  simp [isSameHeader, h]

/-- … and any letter case of the compact form the table has for the key -/
theorem isSameHeader_of_compact {n key c : Bytes} (hc : getCompact cm key = some c) (h : equalFold n c = true) :
    isSameHeader cm n key = true := by
  simp [isSameHeader, hc, h]

/-- the name classes of the keys are pairwise disjoint -/
def SaneFor (keys : List Bytes) : Prop :=
  ∀ a ∈ keys, ∀ b ∈ keys, a ≠ b → ∀ x ∈ lowerClass cm a, x ∉ lowerClass cm b

instance (keys : List Bytes) : Decidable (SaneFor cm keys) := by unfold SaneFor; infer_instance

theorem SaneFor.disj {keys : List Bytes} (hs : SaneFor cm keys) {a b : Bytes} (ha : a ∈ keys) (hb : b ∈ keys)
    (hab : a ≠ b) {n : Bytes} (h : isSameHeader cm n a = true) : isSameHeader cm n b = false := by
  rw [isSameHeader_eq_lowerClass] at h ⊢
  have hm : toLower n ∈ lowerClass cm a := by simpa using h
  have := hs a ha b hb hab _ hm
  simpa using this

/-- two wire names of the class of one key are re-spellings of one another -/
theorem respelled_of_sameClass {keys : List Bytes} (hs : SaneFor cm keys) {key0 : Bytes} (h0 : key0 ∈ keys)
    {n n' : Bytes} (h : isSameHeader cm n key0 = true) (h' : isSameHeader cm n' key0 = true) (v : HVal) :
    Respelled cm (· ∈ keys) { name := n, value := v } { name := n', value := v } := by
  refine ⟨rfl, fun key hk => ?_⟩
  by_cases e : key0 = key
  · subst e; simp only []; rw [h, h']
  · simp only []
    rw [hs.disj cm h0 hk e h, hs.disj cm h0 hk e h']

/-- full name ↔ compact form, any letter case on either side -/
theorem respelled_compact {keys : List Bytes} (hs : SaneFor cm keys) {key c : Bytes} (h0 : key ∈ keys)
    (hc : getCompact cm key = some c) {n n' : Bytes} (hn : equalFold n key = true) (hn' : equalFold n' c = true)
    (v : HVal) :
    Respelled cm (· ∈ keys) { name := n, value := v } { name := n', value := v } :=
  respelled_of_sameClass cm hs h0 (isSameHeader_of_fold cm hn) (isSameHeader_of_compact cm hc hn') v

/-- names outside every class looked at can be exchanged freely (the pipeline never reads them) -/
theorem respelled_of_noClass {keys : List Bytes} {n n' : Bytes}
    (h : ∀ key ∈ keys, isSameHeader cm n key = false) (h' : ∀ key ∈ keys, isSameHeader cm n' key = false) (v : HVal) :
    Respelled cm (· ∈ keys) { name := n, value := v } { name := n', value := v } :=
  ⟨rfl, fun key hk => by simp only []; rw [h key hk, h' key hk]⟩

end Concrete

/-- every lookup key of the pipeline (`Proxy.Model` and the `Sip.Message` operations it calls) -/
def pipeKeys : List Bytes :=
  [viaName, routeName, recordRouteName, fromName, toName, cseqName, callIdName, contentLengthName,
   maxForwardsName, expiresName, subscriptionStateName]

/-- the class set `P` of the pipeline -/
def PipeClasses (n : Bytes) : Prop := n ∈ pipeKeys

theorem pc_via : PipeClasses viaName := by simp [PipeClasses, pipeKeys]
theorem pc_route : PipeClasses routeName := by simp [PipeClasses, pipeKeys]
theorem pc_recordRoute : PipeClasses recordRouteName := by simp [PipeClasses, pipeKeys]
theorem pc_from : PipeClasses fromName := by simp [PipeClasses, pipeKeys]
theorem pc_to : PipeClasses toName := by simp [PipeClasses, pipeKeys]
theorem pc_cseq : PipeClasses cseqName := by simp [PipeClasses, pipeKeys]
theorem pc_callId : PipeClasses callIdName := by simp [PipeClasses, pipeKeys]
theorem pc_contentLength : PipeClasses contentLengthName := by simp [PipeClasses, pipeKeys]
theorem pc_maxForwards : PipeClasses maxForwardsName := by simp [PipeClasses, pipeKeys]
theorem pc_expires : PipeClasses expiresName := by simp [PipeClasses, pipeKeys]
theorem pc_subscriptionState : PipeClasses subscriptionStateName := by simp [PipeClasses, pipeKeys]

/-- a decision procedure for concrete lists: same length, equal values, same membership in each of the
eleven classes, position by position -/
def checkRespelled (cm : List (Bytes × Bytes)) : List Header → List Header → Bool
  | [], [] => true
  | a :: l, b :: l' =>
    decide (a.value = b.value) && pipeKeys.all (fun k => isSameHeader cm a.name k == isSameHeader cm b.name k)
      && checkRespelled cm l l'
  | _, _ => false

theorem respelledList_of_check (cm : List (Bytes × Bytes)) (hs hs' : List Header)
    (h : checkRespelled cm hs hs' = true) : RespelledList cm PipeClasses hs hs' := by
  induction hs generalizing hs' with
  | nil =>
    cases hs' with
    | nil => exact .nil
    | cons _ _ => simp [checkRespelled] at h
  | cons a l ih =>
    cases hs' with
    | nil => simp [checkRespelled] at h
    | cons b l' =>
      simp only [checkRespelled, Bool.and_eq_true, decide_eq_true_eq, List.all_eq_true, beq_iff_eq] at h
      exact .cons ⟨h.1.1, fun name hn => h.1.2 name hn⟩ (ih l' h.2)

/-! #### the generated table -/

section Real

/-- the generated table is sane for the pipeline's keys: the eleven classes are pairwise disjoint -/
theorem real_sane : SaneFor realCm pipeKeys := by decide +kernel

/-- Any two spellings of one class — e.g. `Via`, `VIA`, `v`, `V` — are re-spellings of one another. -/
theorem real_respelled {key0 : Bytes} (h0 : PipeClasses key0) {n n' : Bytes}
    (h : isSameHeader realCm n key0 = true) (h' : isSameHeader realCm n' key0 = true) (v : HVal) :
    Respelled realCm PipeClasses { name := n, value := v } { name := n', value := v } :=
  respelled_of_sameClass realCm real_sane h0 h h' v

/-- the compact forms the table has for the pipeline's keys -/
theorem real_compacts :
    getCompact realCm viaName = some (str "v") ∧ getCompact realCm fromName = some (str "f") ∧
    getCompact realCm toName = some (str "t") ∧ getCompact realCm callIdName = some (str "i") ∧
    getCompact realCm contentLengthName = some (str "l") ∧
    getCompact realCm routeName = none ∧ getCompact realCm recordRouteName = none ∧
    getCompact realCm cseqName = none ∧ getCompact realCm maxForwardsName = none ∧
    getCompact realCm expiresName = none ∧ getCompact realCm subscriptionStateName = none := by
  decide +kernel

/-- `Via` ↔ `v`/`V`, `From` ↔ `f`, `To` ↔ `t`, `Call-ID` ↔ `i`, `Content-Length` ↔ `l`, any letter case -/
theorem real_via_compact {n n' : Bytes} (hn : equalFold n (str "Via") = true) (hn' : equalFold n' (str "v") = true)
    (v : HVal) : Respelled realCm PipeClasses { name := n, value := v } { name := n', value := v } :=
  respelled_compact realCm real_sane pc_via real_compacts.1 hn hn' v

theorem real_from_compact {n n' : Bytes} (hn : equalFold n (str "From") = true) (hn' : equalFold n' (str "f") = true)
    (v : HVal) : Respelled realCm PipeClasses { name := n, value := v } { name := n', value := v } :=
  respelled_compact realCm real_sane pc_from real_compacts.2.1 hn hn' v

theorem real_to_compact {n n' : Bytes} (hn : equalFold n (str "To") = true) (hn' : equalFold n' (str "t") = true)
    (v : HVal) : Respelled realCm PipeClasses { name := n, value := v } { name := n', value := v } :=
  respelled_compact realCm real_sane pc_to real_compacts.2.2.1 hn hn' v

theorem real_callId_compact {n n' : Bytes} (hn : equalFold n (str "Call-ID") = true) (hn' : equalFold n' (str "i") = true)
    (v : HVal) : Respelled realCm PipeClasses { name := n, value := v } { name := n', value := v } :=
  respelled_compact realCm real_sane pc_callId real_compacts.2.2.2.1 hn hn' v

theorem real_contentLength_compact {n n' : Bytes} (hn : equalFold n (str "Content-Length") = true)
    (hn' : equalFold n' (str "l") = true) (v : HVal) :
    Respelled realCm PipeClasses { name := n, value := v } { name := n', value := v } :=
  respelled_compact realCm real_sane pc_contentLength real_compacts.2.2.2.2.1 hn hn' v

/-- non-vacuity: `Via` against `V`, `FROM` against `f`, `call-id` against `I`, `Content-Length` against `l` -/
example (v : HVal) : Respelled realCm PipeClasses { name := str "Via", value := v } { name := str "V", value := v } :=
  real_via_compact (by decide +kernel) (by decide +kernel) v
example (v : HVal) : Respelled realCm PipeClasses { name := str "v", value := v } { name := str "VIA", value := v } :=
  (real_via_compact (by decide +kernel) (by decide +kernel) v).symm
example (v : HVal) : Respelled realCm PipeClasses { name := str "FROM", value := v } { name := str "f", value := v } :=
  real_from_compact (by decide +kernel) (by decide +kernel) v
example (v : HVal) : Respelled realCm PipeClasses { name := str "to", value := v } { name := str "T", value := v } :=
  real_to_compact (by decide +kernel) (by decide +kernel) v
example (v : HVal) : Respelled realCm PipeClasses { name := str "call-id", value := v } { name := str "I", value := v } :=
  real_callId_compact (by decide +kernel) (by decide +kernel) v
example (v : HVal) :
    Respelled realCm PipeClasses { name := str "Content-Length", value := v } { name := str "l", value := v } :=
  real_contentLength_compact (by decide +kernel) (by decide +kernel) v
/-- a header the pipeline never looks at: `Contact` against `m` -/
example (v : HVal) : Respelled realCm PipeClasses { name := str "Contact", value := v } { name := str "m", value := v } :=
  respelled_of_noClass realCm (by decide +kernel) (by decide +kernel) v

/-! non-vacuity of every `*_respelled` theorem above (hypotheses `RespelledList` / `MsgRespelled`): the
example request of `Lemmas.Abs` (names `To v Route Record-Route VIA f Call-ID CSeq`) against the same
message spelled `t Via ROUTE record-route V From i cseq` -/

def exMsgSp : Message :=
  { exMsg with headers :=
      [ { name := str "t", value := .raw (str "<sip:b@h>;tag=t1") },
        { name := str "Via", value := .raw exTopVia },
        { name := str "ROUTE", value := .raw (str "<sip:p1;lr>, <sip:p2:5080;transport=tcp>") },
        { name := str "record-route", value := .raw (str "<sip:q;lr>") },
        { name := str "V", value := .raw (str "SIP/2.0/UDP c") },
        { name := str "From", value := .raw (str "<sip:a@h>;tag=f1") },
        { name := str "i", value := .raw (str "c1") },
        { name := str "cseq", value := .raw (str "7 INVITE") } ] }

theorem exMsg_respelled : MsgRespelled realCm PipeClasses exMsg exMsgSp :=
  ⟨rfl, rfl, respelledList_of_check _ _ _ (by decide +kernel)⟩

/-- the names really differ, and the getters really succeed on both (equal results by `getVia_respelled` …) -/
example : exMsg.headers.map (·.name) ≠ exMsgSp.headers.map (·.name) ∧
    (getVia realCm exMsg).isSome = true ∧ (getRoute realCm exMsgSp).isSome = true ∧
    (getDialog realCm exMsgSp).1.isSome = true ∧ (getClientTransaction realCm exMsgSp).1.isSome = true := by
  decide +kernel

example := getVia_respelled realCm PipeClasses exMsg_respelled pc_via
example := getDialog_respelled realCm PipeClasses exMsg_respelled pc_callId pc_from pc_to
example := bytes_respelled realCm PipeClasses exMsg_respelled pc_contentLength
/-- the two serialisations are different byte strings (so `BytesRespelled` is not equality here) -/
example : exMsg.bytes realCm ≠ exMsgSp.bytes realCm := by decide +kernel

/-- hypothesis of `real_isSameHeader_symm` -/
example : isSameHeader realCm (str "v") (str "Via") = true := by decide +kernel

end Real

/-! #### why the table must be sane -/

section Insane

/-- a table in which `v` is the compact form of both Via and Expires -/
def clashCm : List (Bytes × Bytes) := buildCompactMap [(str "Via", str "v"), (str "Expires", str "v")]

/-- … is not sane, … -/
theorem clash_not_sane : ¬ SaneFor clashCm pipeKeys := by decide +kernel

/-- … `Via` → `v` is NOT a re-spelling there (the header `v` is also an Expires header), … -/
theorem clash_not_respelled (x : HVal) :
    ¬ Respelled clashCm PipeClasses { name := str "Via", value := x } { name := str "v", value := x } := by
  intro h
  have this : isSameHeader clashCm (str "Via") expiresName = isSameHeader clashCm (str "v") expiresName :=
    h.2 expiresName pc_expires
  revert this
  decide +kernel

/-- … and the difference is observable: `getExpires` reads the re-spelled Via header. -/
theorem clash_observable :
    let m : Message := { start := .status [] 200 [], headers := [{ name := str "Via", value := .raw (str "7") }], body := [] }
    let m' : Message := { start := .status [] 200 [], headers := [{ name := str "v", value := .raw (str "7") }], body := [] }
    getExpires clashCm m 0 = 0 ∧ getExpires clashCm m' 0 = 7 := by decide +kernel

end Insane

/-! ### the asymmetry of `isSameHeader`

The compact form is looked up for the SECOND argument only. For an arbitrary map, and for a table in
which two names share a compact form, `isSameHeader a b` and `isSameHeader b a` differ; the code
always passes the wire name first and one of its own constants second, and all statements above are
about that usage. For the generated table the relation happens to be symmetric
(`real_isSameHeader_symm`): every entry has its mirror image. -/

section Asymmetry

/-- an arbitrary one-directional map -/
theorem isSameHeader_asymm_map :
    isSameHeader [(str "via", str "v")] (str "v") (str "Via") = true ∧
    isSameHeader [(str "via", str "v")] (str "Via") (str "v") = false := by decide +kernel

/-- a table built by `buildCompactMap` in which the second `AddCompact` overwrote `v ↦ via` -/
theorem isSameHeader_asymm_table :
    isSameHeader clashCm (str "v") (str "Via") = true ∧
    isSameHeader clashCm (str "Via") (str "v") = false := by decide +kernel

/-- every entry of the generated map is lower case and has its mirror image -/
theorem real_mirror : ∀ e ∈ realCm, toLower e.1 = e.1 ∧ toLower e.2 = e.2 ∧ getCompact realCm e.2 = some e.1 := by
  decide +kernel

theorem real_isSameHeader_symm (a b : Bytes) (h : isSameHeader realCm a b = true) :
    isSameHeader realCm b a = true := by
  unfold isSameHeader at h
  simp only [Bool.or_eq_true] at h
  rcases h with h | h
  · have : equalFold b a = true := by
      unfold equalFold at h ⊢
      simp only [beq_iff_eq] at h ⊢
      exact h.symm
    simp [isSameHeader, this]
  · cases hc : getCompact realCm b with
    | none => rw [hc] at h; cases h
    | some c =>
      rw [hc] at h
      simp only [equalFold, beq_iff_eq] at h
      unfold getCompact at hc
      cases hf : realCm.find? (fun e => e.1 == toLower b) with
      | none => rw [hf] at hc; cases hc
      | some e =>
        rw [hf] at hc
        simp only [Option.map_some, Option.some.injEq] at hc
        have hmem := List.mem_of_find?_eq_some hf
        have hkey := List.find?_some hf
        simp only [beq_iff_eq] at hkey
        obtain ⟨h1, h2, h3⟩ := real_mirror e hmem
        have ha : toLower a = toLower e.2 := by rw [h, ← hc]
        have hga : getCompact realCm a = some e.1 := by
          rw [← h3]; unfold getCompact; rw [ha]
        unfold isSameHeader
        rw [hga]
        simp only [equalFold, Bool.or_eq_true, beq_iff_eq]
        right
        rw [h1, hkey]

end Asymmetry

end Lemmas
