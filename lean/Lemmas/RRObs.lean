/-
Lemmas.RRObs — running the C05 observer `Spec.RRObs` along a history of round-robin operations,
the coupling invariant between the model state `Side.RR.St` and the observer state, and the
one-step lemmas: under the coupling every operation of the MODEL is accepted silently by the
observer and re-establishes the coupling. Core only (no Mathlib).

The hypotheses about the model state are spelled out (`s.backends.Nodup`, `keys` = `backends` as
sets) instead of using `Props.C05.WF`, because Props/C05.lean imports this file.
-/
import Side.RoundRobin
import Spec.Side
open GoStd Side.RR
set_option autoImplicit false

namespace Lemmas.RRObs

/-! ### running the observer -/

/-- One history entry: the operation and, for a dispatch, the observed target (`none` = drop).
The second component is ignored for `add`/`remove` (exactly what the driver's `specSide` does). -/
def obsStep (o : Spec.RRObs) : Op × Option Bytes → Spec.RRObs × List String
  | (.add a, _) => (o.add a, [])
  | (.remove a, _) => (o.remove a, [])
  | (.dispatch, t) => o.dispatch t

/-- Final observer state and all violation reports, in order. -/
def observeSt : Spec.RRObs → List (Op × Option Bytes) → Spec.RRObs × List String
  | o, [] => (o, [])
  | o, x :: xs =>
    let (o1, e) := obsStep o x
    let (o2, es) := observeSt o1 xs
    (o2, e ++ es)

/-- All violation reports of the observer along a history. -/
def observe (o : Spec.RRObs) (h : List (Op × Option Bytes)) : List String := (observeSt o h).2

@[simp] theorem observe_nil (o : Spec.RRObs) : observe o [] = [] := rfl

@[simp] theorem observe_cons (o : Spec.RRObs) (x : Op × Option Bytes) (xs : List (Op × Option Bytes)) :
    observe o (x :: xs) = (obsStep o x).2 ++ observe (obsStep o x).1 xs := rfl

theorem observe_append (o : Spec.RRObs) (xs ys : List (Op × Option Bytes)) :
    observe o (xs ++ ys) = observe o xs ++ observe (observeSt o xs).1 ys := by
  induction xs generalizing o with
  | nil => simp [observeSt]
  | cons x xs ih =>
    simp only [List.cons_append, observe_cons, ih, List.append_assoc]
    rfl

/-! ### arithmetic -/

/-- two positions of a rotation that are fewer than `k` apart are different -/
theorem mod_shift_ne (i m k : Nat) (h0 : 0 < m) (hk : m < k) : (i + m) % k ≠ i % k := by
  intro h
  have h1 := Nat.sub_mod_eq_zero_of_mod_eq h
  rw [Nat.add_sub_cancel_left, Nat.mod_eq_of_lt hk] at h1
  omega

theorem mod_succ_step (p j i k : Nat) (h : (p + j) % k = i % k) : (p + (j + 1)) % k = ((i + 1) % k) % k := by
  rw [Nat.mod_mod, ← Nat.add_assoc, Nat.add_mod (p + j) 1 k, h, ← Nat.add_mod]

/-- in a duplicate-free list equal entries sit at equal positions -/
theorem nodup_getElem?_inj {α : Type} {l : List α} (hnd : l.Nodup) {p q : Nat} {a : α}
    (hp : l[p]? = some a) (hq : l[q]? = some a) : p = q := by
  obtain ⟨hp1, hp2⟩ := List.getElem?_eq_some_iff.mp hp
  obtain ⟨hq1, hq2⟩ := List.getElem?_eq_some_iff.mp hq
  exact (List.getElem_inj hnd).mp (hp2.trans hq2.symm)

/-! ### the coupling invariant -/

/-- The observer has the model's backend list, and its `recent` list (newest first) walks the
rotation BACKWARDS from the cursor: `recent[j]` is the backend `j` positions before the cursor,
written without subtraction as "its position `p` satisfies `p + j ≡ index (mod k)`". -/
structure Coupled (s : St) (o : Spec.RRObs) : Prop where
  members : o.members = s.backends
  recent : ∀ (j : Nat) (h : j < o.recent.length), ∃ p, s.backends[p]? = some o.recent[j] ∧
      (p + j) % s.backends.length = s.index % s.backends.length

theorem coupled_init : Coupled {} {} := ⟨rfl, by intro j h; simp at h⟩

/-- any state is coupled with the observer that has its list and has seen nothing yet -/
theorem coupled_fresh (s : St) : Coupled s { members := s.backends, recent := [] } :=
  ⟨rfl, by intro j h; simp at h⟩

/-! ### one step -/

theorem add_step (s : St) (o : Spec.RRObs) (a : Addr) (h : Coupled s o) : Coupled (add s a) (o.add a) := by
  refine ⟨?_, ?_⟩
  · simp [Spec.RRObs.add, Side.RR.add, h.members]
  · intro j hj; simp [Spec.RRObs.add] at hj

theorem remove_step (s : St) (o : Spec.RRObs) (a : Addr) (hk : ∀ x, x ∈ s.keys ↔ x ∈ s.backends)
    (h : Coupled s o) : Coupled (remove s a).1 (o.remove a) := by
  by_cases ha : a ∈ s.backends
  · have h1 : s.keys.contains a = true := by simpa using (hk a).mpr ha
    have h2 : o.members.contains a = true := by simpa [h.members] using ha
    simp only [Side.RR.remove, h1, Spec.RRObs.remove, h2, ↓reduceIte]
    refine ⟨by simp [h.members], ?_⟩
    intro j hj; simp at hj
  · have h1 : s.keys.contains a = false := by simpa using fun m => ha ((hk a).mp m)
    have h2 : o.members.contains a = false := by simpa [h.members] using ha
    simp only [Side.RR.remove, h1, Spec.RRObs.remove, h2, Bool.false_eq_true, ↓reduceIte]
    exact h

/-- closed form of one dispatch on a non-empty list (same as `Props.C05.dispatch_eq`) -/
theorem dispatch_eq' (s : St) (h : s.backends ≠ []) :
    dispatch s = ({ s with index := (s.index + 1) % s.backends.length },
                  s.backends[(s.index + 1) % s.backends.length]?) := by
  have hn : s.backends.length ≠ 0 := by simpa [List.length_eq_zero_iff] using h
  simp [dispatch, nextIndex, getBackend, hn]

/-- The model's dispatch, fed to the observer, raises no alarm and keeps the coupling. -/
theorem dispatch_step (s : St) (o : Spec.RRObs) (hnd : s.backends.Nodup) (h : Coupled s o) :
    (o.dispatch (dispatch s).2).2 = [] ∧ Coupled (dispatch s).1 (o.dispatch (dispatch s).2).1 := by
  by_cases hb : s.backends = []
  · have hd : dispatch s = (s, none) := by simp [dispatch, nextIndex, hb]
    have hm : o.members = [] := by rw [h.members, hb]
    rw [hd]
    simp only [Spec.RRObs.dispatch, hm, List.isEmpty_nil, ↓reduceIte, true_and]
    exact h
  · have hk : 0 < s.backends.length := List.length_pos_iff.mpr hb
    have hlt : (s.index + 1) % s.backends.length < s.backends.length := Nat.mod_lt _ hk
    rw [dispatch_eq' s hb, List.getElem?_eq_getElem hlt]
    simp only [Spec.RRObs.dispatch]
    refine ⟨?_, ?_, ?_⟩
    · -- no alarm
      have hmem : s.backends[(s.index + 1) % s.backends.length] ∈ o.members := by
        rw [h.members]; simp
      have hwin : s.backends[(s.index + 1) % s.backends.length] ∉ o.recent.take (o.members.length - 1) := by
        rw [h.members]
        intro hc'
        obtain ⟨j, hj, hje⟩ := List.getElem_of_mem hc'
        rw [List.getElem_take] at hje
        have hj1 : j < s.backends.length - 1 := (List.length_take_le _ _ |> Nat.lt_of_lt_of_le hj)
        have hj2 : j < o.recent.length := by
          rw [List.length_take] at hj; omega
        obtain ⟨p, hp1, hp2⟩ := h.recent j hj2
        rw [hje] at hp1
        have hq : s.backends[(s.index + 1) % s.backends.length]? =
            some (s.backends[(s.index + 1) % s.backends.length]) := List.getElem?_eq_getElem hlt
        have hpq := nodup_getElem?_inj hnd hp1 hq
        subst hpq
        rw [Nat.mod_add_mod, Nat.add_assoc] at hp2
        exact mod_shift_ne s.index (1 + j) s.backends.length (by omega) (by omega) hp2
      simp [hmem, hwin]
    · exact h.members
    · intro j hj
      cases j with
      | zero =>
        refine ⟨(s.index + 1) % s.backends.length, ?_, ?_⟩
        · simp [List.getElem?_eq_getElem hlt]
        · simp
      | succ j =>
        have hj' : j < o.recent.length := by simpa using hj
        obtain ⟨p, hp1, hp2⟩ := h.recent j hj'
        refine ⟨p, ?_, ?_⟩
        · simpa using hp1
        · exact mod_succ_step p j s.index s.backends.length hp2

/-! ### the observer is not vacuous -/

/-- (1) a target that is not a member is reported (whatever the observer has seen before) -/
theorem reports_nonmember (o : Spec.RRObs) (a : Bytes) (h : a ∉ o.members) :
    "target-not-member" ∈ (o.dispatch (some a)).2 := by
  simp [Spec.RRObs.dispatch, h]

/-- (2) a drop while members exist is reported -/
theorem reports_drop (o : Spec.RRObs) (h : o.members ≠ []) :
    (o.dispatch none).2 = ["dropped-with-backends"] := by
  simp [Spec.RRObs.dispatch, h]

/-- (3) a target that repeats within the last k-1 dispatches is reported -/
theorem reports_repeat (o : Spec.RRObs) (a : Bytes) (h : a ∈ o.recent.take (o.members.length - 1)) :
    "window-repeats-target" ∈ (o.dispatch (some a)).2 := by
  simp [Spec.RRObs.dispatch, h]

/-- concrete instances over members a, b, c -/
example : observe {} [(.add [97], none), (.add [98], none), (.add [99], none), (.dispatch, some [100])]
    = ["target-not-member"] := by decide
example : observe {} [(.add [97], none), (.add [98], none), (.add [99], none), (.dispatch, none)]
    = ["dropped-with-backends"] := by decide
example : observe {} [(.add [97], none), (.add [98], none), (.add [99], none),
    (.dispatch, some [97]), (.dispatch, some [97])] = ["window-repeats-target"] := by decide
/-- a, b, a over three members: also reported (the window is the last k-1 = 2 targets) -/
example : observe {} [(.add [97], none), (.add [98], none), (.add [99], none),
    (.dispatch, some [97]), (.dispatch, some [98]), (.dispatch, some [97])] = ["window-repeats-target"] := by decide
/-- a send with no member at all is reported as a non-member target -/
example : observe {} [(.dispatch, some [97])] = ["target-not-member"] := by decide
/-- and a correct rotation passes, including across a removal and a removal of a stranger -/
example : observe {} [(.add [97], none), (.add [98], none), (.add [99], none),
    (.dispatch, some [98]), (.dispatch, some [99]), (.dispatch, some [97]), (.dispatch, some [98]),
    (.remove [100], none), (.dispatch, some [99]),
    (.remove [98], none), (.dispatch, some [97]), (.dispatch, some [99]), (.dispatch, some [97]),
    (.remove [97], none), (.remove [99], none), (.dispatch, none)] = [] := by decide

end Lemmas.RRObs
